//! Implementation-side oracles: they evaluate a property on the real library directly,
//! without the model.
use bc_components::{Digest, DigestProvider};
use bc_envelope::base::envelope::EnvelopeCase;
use bc_envelope::prelude::*;
use sha2::{Digest as _, Sha256};

pub fn sha256(data: &[u8]) -> [u8; 32] {
    let mut h = Sha256::new();
    h.update(data);
    h.finalize().into()
}

/// digest of an element according to the specification (draft-mcnally-envelope, 4.1-4.5,
/// plus the extension rules), from the element's children, independently of the cache
pub fn spec_digest(e: &Envelope) -> Result<[u8; 32], String> {
    Ok(match e.case() {
        EnvelopeCase::Leaf { cbor, .. } => sha256(&cbor.to_cbor_data()),
        EnvelopeCase::KnownValue { value, .. } => {
            // #6.40000(uint)
            let c = CBOR::to_tagged_value(40000u64, value.value());
            sha256(&c.to_cbor_data())
        }
        EnvelopeCase::Assertion(a) => {
            let mut img = vec![];
            img.extend_from_slice(&spec_digest(&a.predicate())?);
            img.extend_from_slice(&spec_digest(&a.object())?);
            sha256(&img)
        }
        EnvelopeCase::Wrapped { envelope, .. } => sha256(&spec_digest(envelope)?),
        EnvelopeCase::Node { subject, assertions, .. } => {
            if assertions.is_empty() { return Err("node without assertions".into()); }
            let mut ds: Vec<[u8; 32]> = vec![];
            for a in assertions { ds.push(spec_digest(a)?); }
            ds.sort();
            // the assertions of a node are a set: one digest, one element
            if ds.windows(2).any(|w| w[0] == w[1]) { return Err("a node holds two assertion elements with one digest".into()); }
            let mut img = vec![];
            img.extend_from_slice(&spec_digest(subject)?);
            for d in ds { img.extend_from_slice(&d); }
            sha256(&img)
        }
        EnvelopeCase::Elided(d) => *d.data(),
        EnvelopeCase::Encrypted(m) => {
            // declared digest: aad = tagged digest
            let aad = m.aad();
            let c = CBOR::try_from_data(aad).map_err(|e| format!("aad: {}", e))?;
            match c.as_case() {
                CBORCase::Tagged(t, inner) if t.value() == 40001 => match inner.as_case() {
                    CBORCase::ByteString(b) if b.len() == 32 => { let mut a = [0u8; 32]; a.copy_from_slice(b.as_ref()); a }
                    _ => return Err("aad digest".into()),
                },
                _ => return Err("aad not a digest".into()),
            }
        }
        EnvelopeCase::Compressed(c) => match c.digest_ref_opt() { Some(d) => *d.data(), None => return Err("compressed without digest".into()) },
    })
}

/// every element (structure walk done by hand), with its path
pub fn elements(e: &Envelope) -> Vec<(String, Envelope)> {
    fn go(e: &Envelope, path: String, out: &mut Vec<(String, Envelope)>) {
        out.push((if path.is_empty() { ".".into() } else { path.clone() }, e.clone()));
        let j = |s: &str| if path.is_empty() { s.to_string() } else { format!("{}/{}", path, s) };
        match e.case() {
            EnvelopeCase::Node { subject, assertions, .. } => {
                go(subject, j("s"), out);
                for (i, a) in assertions.iter().enumerate() { go(a, j(&format!("a{}", i)), out); }
            }
            EnvelopeCase::Wrapped { envelope, .. } => go(envelope, j("w"), out),
            EnvelopeCase::Assertion(a) => { go(&a.predicate(), j("p"), out); go(&a.object(), j("o"), out); }
            _ => {}
        }
    }
    let mut out = vec![];
    go(e, String::new(), &mut out);
    out
}

/// C01: the reported digest of every element equals the specified one
pub fn check_spec_digests(e: &Envelope) -> Result<usize, String> {
    let els = elements(e);
    for (p, x) in &els {
        let want = spec_digest(x).map_err(|m| format!("at {}: {}", p, m))?;
        if x.digest().data() != &want {
            return Err(format!("at {}: reported {} specified {}", p, hex::encode(x.digest().data()), hex::encode(want)));
        }
    }
    Ok(els.len())
}

/// Independent recogniser of the envelope grammar (draft section 3 CDDL plus the
/// extension cases) over a parsed CBOR tree.  Returns the digest of the recognised
/// element so that ordering can be checked.
pub fn grammar(c: &CBOR) -> Result<([u8; 32], bool /*is assertion-ish*/, bool /*obscured-ish*/), String> {
    match c.as_case() {
        CBORCase::Tagged(t, item) => match t.value() {
            201 | 24 => Ok((sha256(&item.to_cbor_data()), false, false)),
            200 => { let (d, _, _) = grammar(item)?; Ok((sha256(&d), false, false)) }
            40002 => {
                let a = match item.as_case() { CBORCase::Array(a) => a, _ => return Err("encrypted: not an array".into()) };
                if a.len() != 4 { return Err(format!("encrypted: {} elements", a.len())); }
                for (i, want) in [(1usize, 12usize), (2, 16)] {
                    match a[i].as_case() { CBORCase::ByteString(b) if b.len() == want => {}, _ => return Err(format!("encrypted: field {}", i)) }
                }
                if !matches!(a[0].as_case(), CBORCase::ByteString(_)) { return Err("encrypted: ciphertext".into()); }
                let aad = match a[3].as_case() { CBORCase::ByteString(b) => b.clone(), _ => return Err("encrypted: aad".into()) };
                let inner = CBOR::try_from_data(aad.as_ref() as &[u8]).map_err(|e| format!("encrypted: aad not dCBOR: {}", e))?;
                Ok((tagged_digest(&inner).ok_or("encrypted: aad is not a digest")?, false, true))
            }
            40003 => {
                let a = match item.as_case() { CBORCase::Array(a) => a, _ => return Err("compressed: not an array".into()) };
                if a.len() != 4 { return Err(format!("compressed: {} elements (digest required)", a.len())); }
                match a[0].as_case() { CBORCase::Unsigned(n) if *n <= u32::MAX as u64 => {}, _ => return Err("compressed: checksum".into()) }
                match a[1].as_case() { CBORCase::Unsigned(_) => {}, _ => return Err("compressed: size".into()) }
                if !matches!(a[2].as_case(), CBORCase::ByteString(_)) { return Err("compressed: data".into()); }
                Ok((tagged_digest(&a[3]).ok_or("compressed: digest")?, false, true))
            }
            v => Err(format!("unknown tag {}", v)),
        },
        CBORCase::ByteString(b) => {
            if b.len() != 32 { return Err(format!("elided digest of {} bytes", b.len())); }
            let mut a = [0u8; 32]; a.copy_from_slice(b.as_ref());
            Ok((a, false, true))
        }
        CBORCase::Unsigned(v) => Ok((sha256(&CBOR::to_tagged_value(40000u64, *v).to_cbor_data()), false, false)),
        CBORCase::Map(m) => {
            if m.len() != 1 { return Err(format!("assertion map with {} entries", m.len())); }
            let (k, v) = m.iter().next().unwrap();
            let (dk, _, _) = grammar(k)?;
            let (dv, _, _) = grammar(v)?;
            let mut img = dk.to_vec(); img.extend_from_slice(&dv);
            Ok((sha256(&img), true, false))
        }
        CBORCase::Array(xs) => {
            if xs.len() < 2 { return Err(format!("node with {} elements", xs.len())); }
            let (ds, sa, so) = grammar(&xs[0])?;
            let mut prev: Option<[u8; 32]> = None;
            let mut img = ds.to_vec();
            for x in &xs[1..] {
                let (d, is_a, is_o) = grammar(x)?;
                if !is_a && !is_o { return Err("assertion slot holds neither an assertion nor an obscured element".into()); }
                if let Some(p) = prev {
                    if d == p { return Err("repeated assertion digest".into()); }
                    if d < p { return Err("assertion digests not ascending".into()); }
                }
                prev = Some(d);
                img.extend_from_slice(&d);
            }
            // a node is assertion-ish / obscured-ish through its subject
            Ok((sha256(&img), sa, so))
        }
        _ => Err("not an envelope".into()),
    }
}

fn tagged_digest(c: &CBOR) -> Option<[u8; 32]> {
    match c.as_case() {
        CBORCase::Tagged(t, inner) if t.value() == 40001 => match inner.as_case() {
            CBORCase::ByteString(b) if b.len() == 32 => { let mut a = [0u8; 32]; a.copy_from_slice(b.as_ref()); Some(a) }
            _ => None,
        },
        _ => None,
    }
}

/// C04: serialized form is valid dCBOR matching the grammar, and the digest the grammar
/// recogniser derives from the bytes equals the envelope's digest
pub fn check_grammar(e: &Envelope) -> Result<(), String> {
    let bytes = e.tagged_cbor().to_cbor_data();
    let c = CBOR::try_from_data(&bytes).map_err(|x| format!("not dCBOR: {}", x))?;
    if c.to_cbor_data() != bytes { return Err("dCBOR re-encoding differs".into()); }
    let inner = match c.as_case() {
        CBORCase::Tagged(t, item) if t.value() == 200 => item.clone(),
        _ => return Err("missing envelope tag".into()),
    };
    let (d, _, _) = grammar(&inner)?;
    if &d != e.digest().data() { return Err(format!("digest recomputed from bytes {} differs from held {}", hex::encode(d), hex::encode(e.digest().data()))); }
    Ok(())
}

pub fn digest_of(e: &Envelope) -> Digest { e.digest().into_owned() }
