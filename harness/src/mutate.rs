//! The malformed stream: structural mutations of valid encodings (on the CBOR tree),
//! byte-level mutations, hand-made non-canonical forms, random bytes.
use crate::rng::Rng;
use dcbor::prelude::*;

fn count_nodes(c: &CBOR) -> usize {
    1 + match c.as_case() {
        CBORCase::Array(xs) => xs.iter().map(count_nodes).sum(),
        CBORCase::Map(m) => m.iter().map(|(k, v)| count_nodes(k) + count_nodes(v)).sum(),
        CBORCase::Tagged(_, x) => count_nodes(x),
        _ => 0,
    }
}

/// rebuild the tree applying `f` at pre-order index `target`
fn map_at(c: &CBOR, idx: &mut usize, target: usize, f: &mut dyn FnMut(&CBOR) -> CBOR) -> CBOR {
    let me = *idx;
    *idx += 1;
    if me == target { 
        // skip the subtree in numbering
        *idx += count_nodes(c) - 1;
        return f(c);
    }
    match c.as_case() {
        CBORCase::Array(xs) => CBORCase::Array(xs.iter().map(|x| map_at(x, idx, target, f)).collect()).into(),
        CBORCase::Map(m) => {
            let mut out = Map::new();
            for (k, v) in m.iter() {
                let k2 = map_at(k, idx, target, f);
                let v2 = map_at(v, idx, target, f);
                out.insert(k2, v2);
            }
            out.into()
        }
        CBORCase::Tagged(t, x) => CBOR::to_tagged_value(t.value(), map_at(x, idx, target, f)),
        _ => c.clone(),
    }
}

pub const MUTATION_KINDS: &[&str] = &["swap", "duplicate", "drop", "retag", "retype", "extend", "digest-len", "map-entry", "wrap-array", "untag", "reverse"];

pub fn mutate_once(rng: &mut Rng, c: &CBOR) -> (CBOR, &'static str) {
    let n = count_nodes(c);
    for _ in 0..20 {
        let target = rng.below(n);
        let kind = *rng.pick(MUTATION_KINDS);
        let mut applied = false;
        let mut r2 = rng.fork();
        let mut f = |x: &CBOR| -> CBOR {
            match (kind, x.as_case()) {
                ("swap", CBORCase::Array(xs)) if xs.len() >= 2 => {
                    let mut v = xs.clone();
                    let i = r2.below(v.len()); let mut j = r2.below(v.len()); if i == j { j = (j + 1) % v.len(); }
                    v.swap(i, j); applied = true; CBORCase::Array(v).into()
                }
                ("reverse", CBORCase::Array(xs)) if xs.len() >= 3 => {
                    let mut v = xs.clone(); v[1..].reverse(); applied = true; CBORCase::Array(v).into()
                }
                ("duplicate", CBORCase::Array(xs)) if !xs.is_empty() => {
                    let mut v = xs.clone(); let i = r2.below(v.len()); let d = v[i].clone();
                    let at = r2.below(v.len() + 1); v.insert(at, d); applied = true; CBORCase::Array(v).into()
                }
                ("drop", CBORCase::Array(xs)) if !xs.is_empty() => {
                    let mut v = xs.clone(); let i = r2.below(v.len()); v.remove(i); applied = true; CBORCase::Array(v).into()
                }
                ("extend", CBORCase::Array(xs)) => {
                    let mut v = xs.clone();
                    let extra: CBOR = match r2.below(4) { 0 => 7u64.into(), 1 => CBOR::to_byte_string(vec![9u8; 32]), 2 => CBOR::to_byte_string(Vec::<u8>::new()), _ => "x".into() };
                    v.push(extra); applied = true; CBORCase::Array(v).into()
                }
                ("retag", CBORCase::Tagged(_, inner)) => {
                    let t = *r2.pick(&[24u64, 200, 201, 40000, 40001, 40002, 40003, 1, 9999]);
                    applied = true; CBOR::to_tagged_value(t, inner.clone())
                }
                ("untag", CBORCase::Tagged(_, inner)) => { applied = true; inner.clone() }
                ("retype", _) => {
                    applied = true;
                    match r2.below(7) {
                        0 => 5u64.into(), 1 => CBOR::to_byte_string(vec![3u8; 32]), 2 => CBOR::to_byte_string(vec![3u8; 31]),
                        3 => "text".into(), 4 => Map::new().into(), 5 => (-3i64).into(), _ => CBOR::from(Vec::<u64>::new()),
                    }
                }
                ("digest-len", CBORCase::ByteString(b)) => {
                    let mut v: Vec<u8> = b.as_ref().to_vec();
                    if r2.chance(1, 2) { v.push(0); } else { v.pop(); }
                    applied = true; CBOR::to_byte_string(v)
                }
                ("map-entry", CBORCase::Map(m)) => {
                    let mut out = m.clone();
                    if r2.chance(2, 3) { out.insert(CBOR::to_tagged_value(201u64, "extra"), CBOR::to_tagged_value(201u64, 1u64)); }
                    else { out = Map::new(); }
                    applied = true; out.into()
                }
                ("wrap-array", _) => { applied = true; CBORCase::Array(vec![x.clone()]).into() }
                _ => x.clone(),
            }
        };
        let mut idx = 0;
        let out = map_at(c, &mut idx, target, &mut f);
        if applied { return (out, kind); }
    }
    (c.clone(), "none")
}

pub fn byte_mutate(rng: &mut Rng, b: &[u8]) -> (Vec<u8>, &'static str) {
    let mut v = b.to_vec();
    if v.is_empty() { return (vec![rng.next() as u8], "byte-insert"); }
    match rng.below(5) {
        0 => { let i = rng.below(v.len()); v[i] ^= 1 << rng.below(8); (v, "bit-flip") }
        1 => { let i = rng.below(v.len() + 1); v.insert(i, rng.next() as u8); (v, "byte-insert") }
        2 => { let i = rng.below(v.len()); v.remove(i); (v, "byte-delete") }
        3 => { let i = rng.below(v.len()); v[i] = rng.next() as u8; (v, "byte-replace") }
        _ => { let n = rng.below(v.len()); v.truncate(n); (v, "truncate") }
    }
}

/// hand-made non-deterministic or otherwise special encodings
pub fn handmade() -> Vec<(&'static str, Vec<u8>)> {
    let h = |s: &str| hex::decode(s).unwrap();
    vec![
        ("nonshortest-uint", h("d8c81800")),
        ("nonshortest-uint16", h("d8c8190001")),
        ("nonshortest-tag", h("d900c801")),
        ("indefinite-array", h("d8c89f01a1d8c96161d8c96162ff")),
        ("indefinite-bytes", h("d8c85f4101ff")),
        ("leaf-nonshortest-inside", h("d8c8d8c91801")),
        ("leaf-float-integral", h("d8c8d8c9f93c00")),
        ("leaf-float-f32-reducible", h("d8c8d8c9fa3fc00000")),
        ("leaf-f32-int-alias", h("d8c8d8c9fa4f000001")),
        ("leaf-f64-int-alias", h("d8c8d8c9fb43e0000000000001")),
        ("leaf-f64-negint-alias", h("d8c8d8c9fbc3e0000000000001")),
        ("leaf-f32-negint-alias", h("d8c8d8c9facf000001")),
        ("leaf-f64-int-alias-in-assertion", h("d8c8a1d8c9fb43e0000000000001d8c901")),
        ("leaf-map-unsorted", h("d8c8d8c9a2026161016162")),
        ("leaf-map-duplicate", h("d8c8d8c9a2016161016162")),
        ("leaf-bad-utf8", h("d8c8d8c962c328")),
        ("leaf-simple-undefined", h("d8c8d8c9f7")),
        ("leaf-simple-2byte", h("d8c8d8c9f820")),
        ("trailing-data", h("d8c80100")),
        ("empty", vec![]),
        ("untagged", h("01")),
        ("wrong-outer-tag", h("d8c901")),
        ("legacy-leaf-24", h("d8c8d818656c6567616379")),
        ("legacy-leaf-24-in-node", h("d8c882d8186161a1d8186162d8186163")),
        ("node-one-element", h("d8c88101")),
        ("node-empty", h("d8c880")),
        ("node-nonassertion-slot", h("d8c8820102")),
        ("assertion-two-entries", h("d8c8a201020304")),
        ("assertion-empty-map", h("d8c8a0")),
        ("elided-31", h("d8c8581f") .into_iter().chain(std::iter::repeat(7u8).take(31)).collect()),
        ("elided-33", h("d8c85821").into_iter().chain(std::iter::repeat(7u8).take(33)).collect()),
        ("text-at-envelope-position", h("d8c86161")),
        ("negative-at-envelope-position", h("d8c820")),
        ("bool-at-envelope-position", h("d8c8f5")),
        ("float-at-envelope-position", h("d8c8f93e00")),
        ("unknown-tag", h("d8c8d9270f01")),
        ("encrypted-no-aad", h("d8c8d99c42834101 4c000000000000000000000000 5000000000000000000000000000000000".replace(' ', "").as_str())),
        ("compressed-no-digest", h("d8c8d99c4383000040")),
        ("compressed-negative-checksum", h("d8c8d99c4384200140d99c415820").into_iter().chain(std::iter::repeat(7u8).take(32)).collect()),
        ("compressed-size-smaller-than-data", h("d8c8d99c43840000420102d99c415820").into_iter().chain(std::iter::repeat(7u8).take(32)).collect()),
    ]
}
