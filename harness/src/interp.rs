//! EVL interpreter over the real library.  One line in, at most one observation line out;
//! must agree line-for-line with `lean/EnvVerif/Model/Interp.lean`.
use std::cell::RefCell;
use std::collections::{HashMap, HashSet};
use std::panic::{catch_unwind, AssertUnwindSafe};

use bc_components::{Digest, DigestProvider, Nonce, SymmetricKey};
use bc_envelope::prelude::*;
use bc_envelope::base::envelope::EnvelopeCase;
use bc_envelope::{EnvelopeError, ObscureAction};

#[derive(Clone, Debug)]
pub enum Val {
    Env(Envelope),
    None,
    Err(String),
    Panic(String),
}

impl Val {
    pub fn show(&self) -> String {
        match self {
            Val::Env(e) => format!("ok {}", hex::encode(e.digest().data())),
            Val::None => "none".into(),
            Val::Err(e) => format!("err {}", e),
            Val::Panic(s) => format!("panic {}", s),
        }
    }
    pub fn env(&self) -> Option<&Envelope> { if let Val::Env(e) = self { Some(e) } else { None } }
}

thread_local! {
    pub static LAST_PANIC: RefCell<String> = RefCell::new(String::new());
    pub static GUARD_DEPTH: RefCell<usize> = RefCell::new(0);
}

pub fn install_panic_hook() {
    std::panic::set_hook(Box::new(|info| {
        let loc = info.location().map(|l| {
            let f = l.file();
            // normalise: keep the path from `src/` on, or the crate dir for dependencies
            let short = if let Some(i) = f.find("/repo/") { &f[i + 6..] }
                else if let Some(i) = f.find("registry/src/") { let r = &f[i + 13..]; r.split_once('/').map(|x| x.1).unwrap_or(r) }
                else { f };
            format!("{}:{}", short, l.line())
        }).unwrap_or_else(|| "?".into());
        if GUARD_DEPTH.with(|d| *d.borrow()) == 0 { eprintln!("harness panic (outside a guarded library call) at {}: {}", loc, info); }
        LAST_PANIC.with(|p| *p.borrow_mut() = loc);
    }));
}

pub fn last_panic() -> String { LAST_PANIC.with(|p| p.borrow().clone()) }

/// run `f`, converting a panic into `Err(site)`
pub fn guarded<T>(f: impl FnOnce() -> T) -> Result<T, String> {
    GUARD_DEPTH.with(|d| *d.borrow_mut() += 1);
    let r = catch_unwind(AssertUnwindSafe(f));
    GUARD_DEPTH.with(|d| *d.borrow_mut() -= 1);
    match r {
        Ok(v) => Ok(v),
        Err(_) => Err(LAST_PANIC.with(|p| p.borrow().clone())),
    }
}

pub fn err_kind(e: &anyhow::Error) -> String {
    if let Some(ee) = e.downcast_ref::<EnvelopeError>() {
        format!("{:?}", ee).split(|c: char| !c.is_alphanumeric()).next().unwrap_or("").to_string()
    } else {
        let m = e.to_string();
        let m: String = m.chars().map(|c| if c.is_whitespace() { '_' } else { c }).take(60).collect();
        format!("dep:{}", m)
    }
}

pub fn dshort(d: &Digest) -> String { hex::encode(&d.data()[..8]) }
pub fn dhex(d: &Digest) -> String { hex::encode(d.data()) }

pub fn case_name(e: &Envelope) -> &'static str {
    match e.case() {
        EnvelopeCase::Node { .. } => "N",
        EnvelopeCase::Leaf { .. } => "L",
        EnvelopeCase::Wrapped { .. } => "W",
        EnvelopeCase::Assertion(_) => "A",
        EnvelopeCase::Elided(_) => "E",
        EnvelopeCase::KnownValue { .. } => "K",
        EnvelopeCase::Encrypted(_) => "X",
        EnvelopeCase::Compressed(_) => "C",
    }
}

pub fn shape(e: &Envelope) -> String {
    let d = dshort(&e.digest());
    match e.case() {
        EnvelopeCase::Node { subject, assertions, .. } => {
            let mut s = format!("(N {} {}", d, shape(subject));
            for a in assertions { s.push(' '); s.push_str(&shape(a)); }
            s.push(')');
            s
        }
        EnvelopeCase::Leaf { cbor, .. } => format!("(L {} {})", d, hex::encode(cbor.to_cbor_data())),
        EnvelopeCase::Wrapped { envelope, .. } => format!("(W {} {})", d, shape(envelope)),
        EnvelopeCase::Assertion(a) => format!("(A {} {} {})", d, shape(&a.predicate()), shape(&a.object())),
        EnvelopeCase::Elided(_) => format!("(E {})", d),
        EnvelopeCase::KnownValue { value, .. } => format!("(K {} {})", d, value.value()),
        EnvelopeCase::Encrypted(_) => format!("(X {})", d),
        EnvelopeCase::Compressed(_) => format!("(C {})", d),
    }
}

/// does the tree contain an encrypted or compressed element (whose bytes the model does
/// not reproduce)?
pub fn has_opaque(e: &Envelope) -> bool {
    match e.case() {
        EnvelopeCase::Node { subject, assertions, .. } => has_opaque(subject) || assertions.iter().any(has_opaque),
        EnvelopeCase::Wrapped { envelope, .. } => has_opaque(envelope),
        EnvelopeCase::Assertion(a) => has_opaque(&a.predicate()) || has_opaque(&a.object()),
        EnvelopeCase::Encrypted(_) | EnvelopeCase::Compressed(_) => true,
        _ => false,
    }
}

pub fn step_at(e: &Envelope, st: &str) -> Option<Envelope> {
    if st == "." || st.is_empty() { return Some(e.clone()); }
    match (st, e.case()) {
        ("s", EnvelopeCase::Node { subject, .. }) => Some(subject.clone()),
        ("p", EnvelopeCase::Assertion(a)) => Some(a.predicate()),
        ("o", EnvelopeCase::Assertion(a)) => Some(a.object()),
        ("w", EnvelopeCase::Wrapped { envelope, .. }) => Some(envelope.clone()),
        (_, EnvelopeCase::Node { assertions, .. }) if st.starts_with('a') => {
            let i: usize = st[1..].parse().ok()?;
            assertions.get(i).cloned()
        }
        _ => None,
    }
}

/// a generator whose every 64-bit output is one constant (bc-rand's range selection multiplies the output by the width of the range
/// and keeps the high word: `1 << 32` selects the low end of any range narrower than 2^32, `u64::MAX` the high end)
pub struct ConstRng(pub u64);
impl rand_core::RngCore for ConstRng {
    fn next_u32(&mut self) -> u32 { self.0 as u32 }
    fn next_u64(&mut self) -> u64 { self.0 }
    fn fill_bytes(&mut self, dest: &mut [u8]) { let b = self.0.to_be_bytes(); for (i, d) in dest.iter_mut().enumerate() { *d = b[i % 8] ^ (i as u8); } }
    fn try_fill_bytes(&mut self, dest: &mut [u8]) -> Result<(), rand_core::Error> { self.fill_bytes(dest); Ok(()) }
}
impl rand_core::CryptoRng for ConstRng {}
impl bc_rand::RandomNumberGenerator for ConstRng {}

/// the length of the salt `add_salt_using` adds under `ConstRng(k)`
pub fn salt_len_under(e: &Envelope, k: u64) -> Option<usize> {
    let before: HashSet<Digest> = e.assertions().iter().map(|a| a.digest().into_owned()).collect();
    let salted = guarded(|| e.add_salt_using(&mut ConstRng(k))).ok()?;
    let fresh: Vec<Envelope> = salted.assertions_with_predicate(known_values::SALT).into_iter().filter(|a| !before.contains(&a.digest().into_owned())).collect();
    if fresh.len() != 1 { return None; }
    fresh[0].as_object()?.extract_subject::<bc_components::Salt>().ok().map(|s| s.len())
}

pub fn path_at(e: &Envelope, path: &str) -> Option<Envelope> {
    let mut cur = e.clone();
    for st in path.split('/') { cur = step_at(&cur, st)?; }
    Some(cur)
}

pub fn walk_visits(e: &Envelope, hide_nodes: bool) -> Vec<(Envelope, usize, EdgeType)> {
    let out = RefCell::new(Vec::new());
    let visitor = |env: Envelope, level: usize, edge: EdgeType, _: Option<()>| -> Option<()> {
        out.borrow_mut().push((env, level, edge));
        None
    };
    e.walk(hide_nodes, &visitor);
    out.into_inner()
}

pub fn edge_name(e: EdgeType) -> &'static str {
    match e {
        EdgeType::None => "none",
        EdgeType::Subject => "subj",
        EdgeType::Assertion => "assert",
        EdgeType::Predicate => "pred",
        EdgeType::Object => "obj",
        EdgeType::Wrapped => "wrap",
    }
}

fn extract(e: &Envelope, ty: &str) -> String {
    fn r<T: std::fmt::Display>(x: anyhow::Result<T>) -> String { match x { Ok(v) => format!("ok {}", v), Err(_) => "err".into() } }
    match ty {
        "u8" => r(e.extract_subject::<u8>()),
        "u16" => r(e.extract_subject::<u16>()),
        "u32" => r(e.extract_subject::<u32>()),
        "u64" => r(e.extract_subject::<u64>()),
        "i8" => r(e.extract_subject::<i8>()),
        "i16" => r(e.extract_subject::<i16>()),
        "i32" => r(e.extract_subject::<i32>()),
        "i64" => r(e.extract_subject::<i64>()),
        "bool" => r(e.extract_subject::<bool>()),
        "text" => match e.extract_subject::<String>() { Ok(s) => format!("ok {}", hex::encode(s.as_bytes())), Err(_) => "err".into() },
        "bytes" => match e.extract_subject::<ByteString>() { Ok(b) => format!("ok {}", hex::encode(b.data())), Err(_) => "err".into() },
        _ => "bad-op".into(),
    }
}


/// the typed lookups (`extract_object_for_predicate::<T>` and its optional / bulk / default forms); kind 0 = single, 1 = optional,
/// 2 = bulk, 3 = with default
fn typed_lookup(e: &Envelope, p: &Envelope, ty: &str, kind: u8) -> String {
    fn go<T: TryFrom<CBOR, Error = anyhow::Error> + 'static + Clone>(e: &Envelope, p: &Envelope, kind: u8, default: T, show: &dyn Fn(&T) -> String) -> String {
        match kind {
            0 => match e.extract_object_for_predicate::<T>(p.clone()) { Ok(v) => format!("ok {}", show(&v)), Err(_) => "err".into() },
            1 => match e.extract_optional_object_for_predicate::<T>(p.clone()) { Ok(Some(v)) => format!("ok {}", show(&v)), Ok(None) => "none".into(), Err(_) => "err".into() },
            2 => match e.extract_objects_for_predicate::<T>(p.clone()) { Ok(vs) => format!("[{}]", vs.iter().map(|v| format!("ok {}", show(v))).collect::<Vec<_>>().join(" ")), Err(_) => "err".into() },
            _ => match e.extract_object_for_predicate_with_default::<T>(p.clone(), default) { Ok(v) => format!("ok {}", show(&v)), Err(_) => "err".into() },
        }
    }
    match ty {
        "i64" => go::<i64>(e, p, kind, i64::MIN + 7, &|v| if *v == i64::MIN + 7 { "default".into() } else { v.to_string() }),
        "bool" => go::<bool>(e, p, kind, false, &|v| v.to_string()),
        "text" => go::<String>(e, p, kind, "\u{1}default".to_string(), &|v| if v == "\u{1}default" { "default".into() } else { hex::encode(v.as_bytes()) }),
        "bytes" => go::<ByteString>(e, p, kind, ByteString::from(vec![0xde, 0xfa, 0x01]), &|v| if v.data() == [0xde, 0xfa, 0x01] { "default".into() } else { hex::encode(v.data()) }),
        _ => "bad-op".into(),
    }
}

fn opt_hex(s: &str) -> Option<Option<Vec<u8>>> { if s == "-" { Some(None) } else { hex::decode(s).ok().map(Some) } }
fn opt_str(s: &str) -> Option<Option<String>> { match opt_hex(s)? { None => Some(None), Some(b) => String::from_utf8(b).ok().map(Some) } }

#[derive(Clone)]
pub enum Ident { Known(u64), Named(String) }
fn parse_ident(s: &str) -> Option<Ident> {
    let (k, v) = s.split_once(':')?;
    match k { "k" => v.parse().ok().map(Ident::Known), "n" => String::from_utf8(hex::decode(v).ok()?).ok().map(Ident::Named), _ => None }
}
fn to_function(i: &Ident) -> Function { match i { Ident::Known(v) => Function::from(*v), Ident::Named(n) => Function::new_named(n) } }
fn to_parameter(i: &Ident) -> Parameter { match i { Ident::Known(v) => Parameter::from(*v), Ident::Named(n) => Parameter::new_named(n) } }
fn show_function(f: &Function) -> String { match f { Function::Known(v, _) => format!("k:{}", v), Function::Named(_) => format!("n:{}", hex::encode(f.named_name().unwrap_or_default().as_bytes())) } }
fn date_str(d: Option<&dcbor::Date>) -> String { match d { None => "-".into(), Some(d) => { let t = d.timestamp(); if t.fract() == 0.0 { format!("{}", t as i64) } else { format!("frac:{}", t) } } } }
fn arid(hexs: &str) -> Option<bc_components::ARID> { bc_components::ARID::from_data_ref(hex::decode(hexs).ok()?).ok() }

/// the signing key with a given id: the scheme depends on the id (1 mod 3: Schnorr, 2: ECDSA, 0: Ed25519)
pub fn sig_key(kid: u64) -> (bc_components::SigningPrivateKey, bc_components::SigningPublicKey) {
    let base = bc_components::PrivateKeyBase::from_data(&[kid as u8; 32]);
    let sk = match kid % 3 { 1 => base.schnorr_signing_private_key(), 2 => base.ecdsa_signing_private_key(), _ => base.ed25519_signing_private_key() };
    let pk = sk.public_key().unwrap();
    (sk, pk)
}

#[derive(Default)]
pub struct Machine {
    pub regs: HashMap<String, Val>,
    /// recipient private keys of the scenario, by key id (`fact kemkey <kid> <private-key-cbor-hex>`)
    pub kem_keys: HashMap<u64, bc_components::EncapsulationPrivateKey>,
}

fn res(r: anyhow::Result<Envelope>) -> Val {
    match r { Ok(e) => Val::Env(e), Err(e) => Val::Err(err_kind(&e)) }
}

impl Machine {
    pub fn env(&self, k: &str) -> Option<Envelope> { self.regs.get(k).and_then(|v| v.env().cloned()) }

    fn envs(&self, ks: &str) -> Option<Vec<Envelope>> {
        if ks == "-" { return Some(vec![]); }
        ks.split(',').map(|k| self.env(k)).collect()
    }

    fn digest_set(&self, ks: &str) -> Option<HashSet<Digest>> {
        Some(self.envs(ks)?.iter().map(|e| e.digest().into_owned()).collect())
    }

    fn build_expression(&self, f: &str, ps: &str) -> Option<Expression> {
        let mut ex = Expression::new(to_function(&parse_ident(f)?));
        if ps != "-" { for kv in ps.split(',') { let (k, v) = kv.split_once('=')?; ex = ex.with_parameter(to_parameter(&parse_ident(k)?), self.env(v)?); } }
        Some(ex)
    }

    fn eval_assign(&self, a: &[&str]) -> Option<Val> {
        Some(match a {
            ["set_leaf", items] => {
                // a HashSet of CBOR values (iteration order is the hasher's) as envelope content
                let mut hs: std::collections::HashSet<CBOR> = std::collections::HashSet::new();
                for it in items.split(',') { if it.is_empty() { continue; } hs.insert(CBOR::try_from_data(hex::decode(it).ok()?).ok()?); }
                Val::Env(Envelope::new(hs))
            }
            ["dset_leaf", items] => {
                // the same through dcbor's own Set, filled in the order given
                let mut ds = dcbor::Set::new();
                for it in items.split(',') { if it.is_empty() { continue; } ds.insert(CBOR::try_from_data(hex::decode(it).ok()?).ok()?); }
                Val::Env(Envelope::new(ds))
            }
            ["map_leaf", items] => {
                let mut hm: std::collections::HashMap<CBOR, CBOR> = std::collections::HashMap::new();
                for it in items.split(',') { if it.is_empty() { continue; } let (k, v) = it.split_once('=')?; hm.insert(CBOR::try_from_data(hex::decode(k).ok()?).ok()?, CBOR::try_from_data(hex::decode(v).ok()?).ok()?); }
                Val::Env(Envelope::new(hm))
            }
            ["dmap_leaf", items] => {
                let mut dm = dcbor::Map::new();
                for it in items.split(',') { if it.is_empty() { continue; } let (k, v) = it.split_once('=')?; dm.insert(CBOR::try_from_data(hex::decode(k).ok()?).ok()?, CBOR::try_from_data(hex::decode(v).ok()?).ok()?); }
                Val::Env(Envelope::new(dm))
            }
            ["leaf", hx] => {
                let b = hex::decode(hx).ok()?;
                match CBOR::try_from_data(&b) {
                    Ok(c) => Val::Env(Envelope::new(c)),
                    Err(_) => Val::Err("bad-leaf".into()),
                }
            }
            ["kv", n] => Val::Env(Envelope::new(KnownValue::new(n.parse::<u64>().ok()?))),
            ["assertion", p, o] => Val::Env(Envelope::new_assertion(self.env(p)?, self.env(o)?)),
            ["add", e, x] => res(self.env(e)?.add_assertion_envelope(self.env(x)?)),
            ["add_many", e, xs] => res(self.env(e)?.add_assertion_envelopes(&self.envs(xs)?)),
            ["remove", e, x] => Val::Env(self.env(e)?.remove_assertion(self.env(x)?)),
            ["replace_assertion", e, x, y] => res(self.env(e)?.replace_assertion(self.env(x)?, self.env(y)?)),
            ["replace_subject", e, s] => Val::Env(self.env(e)?.replace_subject(self.env(s)?)),
            ["wrap", e] => Val::Env(self.env(e)?.wrap_envelope()),
            ["unwrap", e] => res(self.env(e)?.unwrap_envelope()),
            ["subject", e] => Val::Env(self.env(e)?.subject()),
            ["at", e, path] => match path_at(&self.env(e)?, path) { Some(x) => Val::Env(x), None => Val::Err("bad-path".into()) },
            ["elide", e] => Val::Env(self.env(e)?.elide()),
            ["elide_set", e, mode, act, ts] => {
                let e = self.env(e)?;
                let rev = match *mode { "rev" => true, "rem" => false, _ => return None };
                let action = if *act == "elide" { ObscureAction::Elide }
                    else if *act == "compress" { ObscureAction::Compress }
                    else if let Some(k) = act.strip_prefix("encrypt:") {
                        ObscureAction::Encrypt(SymmetricKey::from_data_ref(hex::decode(k).ok()?).ok()?)
                    } else { return None };
                let t = self.digest_set(ts)?;
                Val::Env(e.elide_set_with_action(&t, rev, &action))
            }
            ["elide_array", e, mode, act, ts] | ["elide_target", e, mode, act, ts] => {
                // the array and single-target doors of elision, each through its most specific public function
                let e = self.env(e)?;
                let rev = match *mode { "rev" => true, "rem" => false, _ => return None };
                let plain = *act == "elide";
                let action = if plain { ObscureAction::Elide } else if *act == "compress" { ObscureAction::Compress }
                    else if let Some(k) = act.strip_prefix("encrypt:") { ObscureAction::Encrypt(SymmetricKey::from_data_ref(hex::decode(k).ok()?).ok()?) } else { return None };
                let ts = self.envs(ts)?;
                if a[0] == "elide_target" {
                    let t = ts.first()?;
                    Val::Env(match (rev, plain) { (false, true) => e.elide_removing_target(t), (true, true) => e.elide_revealing_target(t),
                        (false, false) => e.elide_removing_target_with_action(t, &action), (true, false) => e.elide_revealing_target_with_action(t, &action) })
                } else {
                    let arr: Vec<&dyn DigestProvider> = ts.iter().map(|t| t as &dyn DigestProvider).collect();
                    Val::Env(match (rev, plain) { (false, true) => e.elide_removing_array(&arr), (true, true) => e.elide_revealing_array(&arr),
                        (false, false) => e.elide_removing_array_with_action(&arr, &action), (true, false) => e.elide_revealing_array_with_action(&arr, &action) })
                }
            }
            ["unelide", ph, e] => res(self.env(ph)?.unelide(self.env(e)?)),
            ["compress", e] => res(self.env(e)?.compress()),
            ["uncompress", e] => res(self.env(e)?.uncompress()),
            ["compress_subject", e] => res(self.env(e)?.compress_subject()),
            ["uncompress_subject", e] => res(self.env(e)?.uncompress_subject()),
            ["encrypt_subject", e, k, n] => {
                let key = SymmetricKey::from_data_ref(hex::decode(k).ok()?).ok()?;
                let nonce = Nonce::from_data_ref(hex::decode(n).ok()?).ok()?;
                res(self.env(e)?.encrypt_subject_opt(&key, Some(nonce)))
            }
            ["decrypt_subject", e, k] => {
                let key = SymmetricKey::from_data_ref(hex::decode(k).ok()?).ok()?;
                res(self.env(e)?.decrypt_subject(&key))
            }
            ["encrypt", e, k, _n] => {
                let key = SymmetricKey::from_data_ref(hex::decode(k).ok()?).ok()?;
                Val::Env(self.env(e)?.encrypt(&key))
            }
            ["decrypt", e, k] => {
                let key = SymmetricKey::from_data_ref(hex::decode(k).ok()?).ok()?;
                res(self.env(e)?.decrypt(&key))
            }
            ["tamper", e, field] => {
                let e = self.env(e)?;
                let subj = e.subject();
                let m = match subj.case() { EnvelopeCase::Encrypted(m) => m.clone(), _ => return Some(Val::Err("not-encrypted".into())) };
                let flip0 = |v: &[u8]| { let mut v = v.to_vec(); if !v.is_empty() { v[0] ^= 1; } v };
                let fliplast = |v: &[u8]| { let mut v = v.to_vec(); if let Some(l) = v.last_mut() { *l ^= 1; } v };
                let (ct, aad, nonce, auth) = (m.ciphertext().clone(), m.aad().clone(), m.nonce().data().to_vec(), m.authentication_tag().data().to_vec());
                let (ct, aad, nonce, auth) = match *field {
                    "ct" => (flip0(&ct), aad, nonce, auth),
                    "nonce" => (ct, aad, flip0(&nonce), auth),
                    "auth" => (ct, aad, nonce, flip0(&auth)),
                    "aad" => (ct, fliplast(&aad), nonce, auth),
                    _ => return None,
                };
                let m2 = bc_components::EncryptedMessage::new(ct, aad, Nonce::from_data_ref(nonce).ok()?, bc_components::AuthenticationTag::from_data_ref(auth).ok()?);
                match Envelope::try_from(m2) { Ok(s2) => Val::Env(e.replace_subject(s2)), Err(x) => Val::Err(err_kind(&x)) }
            }
            ["foreign_enc", ct, aad] => {
                // an EncryptedMessage made outside the library (arbitrary additional data) offered as an envelope element
                let nonce = Nonce::from_data_ref(vec![9u8; 12]).ok()?; let auth = bc_components::AuthenticationTag::from_data_ref(vec![8u8; 16]).ok()?;
                let m = bc_components::EncryptedMessage::new(hex::decode(ct).ok()?, hex::decode(if *aad == "-" { "" } else { aad }).ok()?, nonce, auth);
                res(Envelope::try_from(m))
            }
            ["misdeclare", e, other, k, n] => {
                let key = SymmetricKey::from_data_ref(hex::decode(k).ok()?).ok()?;
                let nonce = Nonce::from_data_ref(hex::decode(n).ok()?).ok()?;
                let m = key.encrypt_with_digest(self.env(other)?.tagged_cbor().to_cbor_data(), self.env(e)?.digest().into_owned(), Some(nonce));
                res(Envelope::try_from(m))
            }
            ["miscompress_perm", e, kind] | ["misdeclare_perm", e, kind, ..] => {
                // the element's own content declared under a permutation of its digest's bytes (same bytes, same sum, same xor)
                let e = self.env(e)?;
                let mut d = e.digest().data().to_vec();
                match *kind { "swap" => d.swap(0, 1), "rot" => d.rotate_left(1), "rev" => d.reverse(), "swapfar" => d.swap(3, 29), _ => return None }
                if d == e.digest().data() { d.swap(0, 31); if d == e.digest().data() { return Some(Val::Err("degenerate-digest".into())); } }
                let dg = Digest::from_data_ref(&d).ok()?;
                if a[0] == "miscompress_perm" { res(Envelope::try_from(bc_components::Compressed::from_uncompressed_data(e.tagged_cbor().to_cbor_data(), Some(dg)))) }
                else {
                    let key = SymmetricKey::from_data_ref(hex::decode(a[3]).ok()?).ok()?;
                    let nonce = Nonce::from_data_ref(hex::decode(a[4]).ok()?).ok()?;
                    res(Envelope::try_from(key.encrypt_with_digest(e.tagged_cbor().to_cbor_data(), dg, Some(nonce))))
                }
            }
            ["miscompress_near", e, k] => {
                // the element's own content, declared under its digest with one byte flipped
                let e = self.env(e)?; let k: usize = k.parse().ok()?;
                let mut d = e.digest().data().to_vec(); d[k % 32] ^= 0x01;
                let c = bc_components::Compressed::from_uncompressed_data(e.tagged_cbor().to_cbor_data(), Some(Digest::from_data_ref(&d).ok()?));
                res(Envelope::try_from(c))
            }
            ["misdeclare_near", e, k, key, n] => {
                let e = self.env(e)?; let k: usize = k.parse().ok()?;
                let mut d = e.digest().data().to_vec(); d[k % 32] ^= 0x01;
                let key = SymmetricKey::from_data_ref(hex::decode(key).ok()?).ok()?;
                let nonce = Nonce::from_data_ref(hex::decode(n).ok()?).ok()?;
                let m = key.encrypt_with_digest(e.tagged_cbor().to_cbor_data(), Digest::from_data_ref(&d).ok()?, Some(nonce));
                res(Envelope::try_from(m))
            }
            ["miscompress", e, other] => {
                let c = bc_components::Compressed::from_uncompressed_data(self.env(other)?.tagged_cbor().to_cbor_data(), Some(self.env(e)?.digest().into_owned()));
                res(Envelope::try_from(c))
            }
            ["add_salt_instance", e, hx] => Val::Env(self.env(e)?.add_salt_instance(bc_components::Salt::from_data(hex::decode(hx).ok()?))),
            ["add_salt_with_len", e, n, hx] => {
                // the library draws the salt itself; the scenario carries the drawn bytes for the model. Here: deterministic re-draw is
                // impossible, so the scenario's bytes are used through add_salt_instance after the length check of the library
                let n: usize = n.parse().ok()?;
                match bc_components::Salt::new_with_len(n) { Ok(_) => Val::Env(self.env(e)?.add_salt_instance(bc_components::Salt::from_data(hex::decode(hx).ok()?))), Err(x) => Val::Err(err_kind(&x)) }
            }
            ["add_salted", e, p, o, hx] => {
                let e = self.env(e)?; let (p, o) = (self.env(p)?, self.env(o)?);
                match opt_hex(hx)? {
                    None => Val::Env(e.add_assertion_salted(p, o, false)),
                    Some(salt) => {
                        // the salted form with the given salt: the assertion decorated by add_salt_instance, then added
                        let a = Envelope::new_assertion(p, o).add_salt_instance(bc_components::Salt::from_data(salt));
                        res(e.add_assertion_envelope_salted(a, false))
                    }
                }
            }
            // the `*_salted` forms with `salted = false`: same result as the plain forms, through the other code path
            ["add_env_unsalted", e, a] => res(self.env(e)?.add_assertion_envelope_salted(self.env(a)?, false)),
            // salted adds that add nothing: a refused one (the element is no assertion; callers pass such an `a`) and an absent one
            ["add_salted_refused", e, a] => { let a = self.env(a)?; if a.is_subject_assertion() || a.is_subject_obscured() { return None; } res(self.env(e)?.add_assertion_envelope_salted(a, true)) }
            ["add_salted_none", e] => res(self.env(e)?.add_optional_assertion_envelope_salted(None, true)),
            ["add_many_unsalted", e, xs] => { let e = self.env(e)?; let xs = self.envs(xs)?; if xs.iter().all(|x| x.is_subject_assertion() || x.is_subject_obscured()) { Val::Env(e.add_assertions_salted(&xs, false)) } else { Val::Err("InvalidFormat".into()) } }
            // recipients and SSKR with everything the library would draw at random made explicit (content key, nonce, sealed
            // messages, shares): the decompositions of encrypt_subject_to_recipients / add_recipient / sskr_split
            ["add_recipient", e, sealed] => {
                let sm = self.env(sealed)?.extract_subject::<bc_components::SealedMessage>().ok()?;
                Val::Env(self.env(e)?.add_assertion(known_values::HAS_RECIPIENT, sm))
            }
            ["enc_to_recipients", e, ck, n, sealeds] => {
                let key = SymmetricKey::from_data_ref(hex::decode(ck).ok()?).ok()?;
                let nonce = Nonce::from_data_ref(hex::decode(n).ok()?).ok()?;
                match self.env(e)?.encrypt_subject_opt(&key, Some(nonce)) {
                    Ok(mut x) => { for s in self.envs(sealeds)? { let sm = s.extract_subject::<bc_components::SealedMessage>().ok()?; x = x.add_assertion(known_values::HAS_RECIPIENT, sm); } Val::Env(x) }
                    Err(x) => Val::Err(err_kind(&x)),
                }
            }
            ["encrypt_to_recipient", e, ck, n, sealed] => {
                let key = SymmetricKey::from_data_ref(hex::decode(ck).ok()?).ok()?;
                let nonce = Nonce::from_data_ref(hex::decode(n).ok()?).ok()?;
                let sm = self.env(sealed)?.extract_subject::<bc_components::SealedMessage>().ok()?;
                match self.env(e)?.wrap_envelope().encrypt_subject_opt(&key, Some(nonce)) { Ok(x) => Val::Env(x.add_assertion(known_values::HAS_RECIPIENT, sm)), Err(x) => Val::Err(err_kind(&x)) }
            }
            ["decrypt_subject_to_recipient", e, kid] => { let k = self.kem_keys.get(&kid.parse().ok()?)?.clone(); res(self.env(e)?.decrypt_subject_to_recipient(&k)) }
            ["decrypt_to_recipient", e, kid] => { let k = self.kem_keys.get(&kid.parse().ok()?)?.clone(); res(self.env(e)?.decrypt_to_recipient(&k)) }
            ["add_sskr_share", e, share] => {
                let sh = self.env(share)?.extract_subject::<bc_components::SSKRShare>().ok()?;
                Val::Env(self.env(e)?.add_assertion(known_values::SSKR_SHARE, sh))
            }
            ["sskr_join", es] => { let es = self.envs(es)?; let refs: Vec<&Envelope> = es.iter().collect(); res(Envelope::sskr_join(&refs)) }
            ["add_type", e, t] => Val::Env(self.env(e)?.add_type(self.env(t)?)),
            ["add_attachment", e, payload, v, c] => {
                let v = String::from_utf8(hex::decode(v).ok()?).ok()?; let c = opt_str(c)?;
                Val::Env(self.env(e)?.add_attachment(self.env(payload)?, &v, c.as_deref()))
            }
            ["new_attachment", payload, v, c] => {
                let v = String::from_utf8(hex::decode(v).ok()?).ok()?; let c = opt_str(c)?;
                Val::Env(Envelope::new_attachment(self.env(payload)?, &v, c.as_deref()))
            }
            ["get_type", e] => res(self.env(e)?.get_type()),
            ["attachment1", e, v, c] => { let (v, c) = (opt_str(v)?, opt_str(c)?); res(self.env(e)?.attachment_with_vendor_and_conforms_to(v.as_deref(), c.as_deref())) }
            ["mk_expression", f, ps] => Val::Env(self.build_expression(f, ps)?.into()),
            ["mk_request", id, f, ps, note, date] => {
                let mut rq = Request::new_with_body(self.build_expression(f, ps)?, arid(id)?);
                if *note != "-" { rq = rq.with_note(String::from_utf8(hex::decode(note).ok()?).ok()?); }
                if *date != "-" { rq = rq.with_date(dcbor::Date::from_timestamp(date.parse::<i64>().ok()? as f64)); }
                Val::Env(rq.into())
            }
            ["mk_response", kind, id, body] => {
                let body = self.env(body)?;
                let r = match (*kind, *id) { ("success", i) => Response::new_success(arid(i)?).with_result(body), ("failure", "-") => Response::new_early_failure().with_error(body), ("failure", i) => Response::new_failure(arid(i)?).with_error(body), _ => return None };
                Val::Env(r.into())
            }
            ["mk_event", id, content, note, date] => {
                let mut ev = Event::<String>::new(String::from_utf8(hex::decode(content).ok()?).ok()?, arid(id)?);
                if *note != "-" { ev = ev.with_note(String::from_utf8(hex::decode(note).ok()?).ok()?); }
                if *date != "-" { ev = ev.with_date(dcbor::Date::from_timestamp(date.parse::<i64>().ok()? as f64)); }
                Val::Env(ev.into())
            }
            ["add_sig", e, sig] => {
                let sg = self.env(sig)?.extract_subject::<bc_components::Signature>().ok()?;
                Val::Env(self.env(e)?.add_assertion(known_values::SIGNED, sg))
            }
            ["add_sig_meta", e, sig, outer, metas] => {
                // the structure add_signature_opt builds, from the given signatures
                let mut m = self.env(sig)?;
                for a in self.envs(metas)? { m = m.add_assertion_envelope(a).ok()?; }
                let wrapped = m.wrap_envelope();
                let signature = wrapped.add_assertion(known_values::SIGNED, self.env(outer)?);
                Val::Env(self.env(e)?.add_assertion(known_values::SIGNED, signature))
            }
            ["decode", hx] => res(Envelope::from_tagged_cbor_data(hex::decode(hx).ok()?)),
            ["from_ur", text] => res(Envelope::from_ur_string(*text)),
            ["recode", e] => res(Envelope::from_tagged_cbor_data(self.env(e)?.tagged_cbor().to_cbor_data())),
            ["proof", e, ts] => {
                let t = self.digest_set(ts)?;
                match self.env(e)?.proof_contains_set(&t) { Some(p) => Val::Env(p), None => Val::None }
            }
            _ => return None,
        })
    }

    fn eval_obs(&self, a: &[&str]) -> Option<String> {
        Some(match a {
            ["shape", e] => shape(&self.env(e)?),
            ["digest", e] => dhex(&self.env(e)?.digest()),
            ["bytes", e] => hex::encode(self.env(e)?.tagged_cbor().to_cbor_data()),
            ["ur", e] => self.env(e)?.ur_string(),
            // the closed range `add_salt_using` asks its generator for: the lengths of the salts it adds under a generator that makes
            // the range selection come out at the low end and one that makes it come out at the high end
            ["saltrange", e] => { let e = self.env(e)?; match (salt_len_under(&e, 1u64 << 32), salt_len_under(&e, u64::MAX)) { (Some(lo), Some(hi)) => format!("{} {}", lo, hi), _ => "none".into() } }
            ["sdigest", e] => dhex(&self.env(e)?.structural_digest()),
            ["count", e] => self.env(e)?.elements_count().to_string(),
            ["walk", e, mode] => {
                let hide = match *mode { "tree" => true, "structure" => false, _ => return None };
                walk_visits(&self.env(e)?, hide).iter()
                    .map(|(x, l, ed)| format!("{}:{}:{}:{}", l, edge_name(*ed), case_name(x), dshort(&x.digest())))
                    .collect::<Vec<_>>().join(" ")
            }
            ["digests", e, limit] => {
                let n: usize = limit.parse().ok()?;
                let mut ds: Vec<Digest> = self.env(e)?.digests(n).into_iter().collect();
                ds.sort();
                ds.iter().map(dshort).collect::<Vec<_>>().join(" ")
            }
            ["eq", x, y] => {
                let (x, y) = (self.env(x)?, self.env(y)?);
                format!("equiv={} ident={}", x.is_equivalent_to(&y), x.is_identical_to(&y))
            }
            ["awp", e, p] => {
                let v = self.env(e)?.assertions_with_predicate(self.env(p)?);
                format!("[{}]", v.iter().map(|x| dshort(&x.digest())).collect::<Vec<_>>().join(" "))
            }
            ["ofp", e, p] => res(self.env(e)?.object_for_predicate(self.env(p)?)).show(),
            ["osfp", e, p] => {
                let v = self.env(e)?.objects_for_predicate(self.env(p)?);
                format!("[{}]", v.iter().map(|x| dshort(&x.digest())).collect::<Vec<_>>().join(" "))
            }
            ["oofp", e, p] => match self.env(e)?.optional_object_for_predicate(self.env(p)?) {
                Ok(Some(o)) => format!("ok {}", dhex(&o.digest())),
                Ok(None) => "none".into(),
                Err(x) => format!("err {}", err_kind(&x)),
            },
            ["extract", e, ty] => extract(&self.env(e)?, ty),
            ["eofp", e, p, ty] => typed_lookup(&self.env(e)?, &self.env(p)?, ty, 0),
            ["eoofp", e, p, ty] => typed_lookup(&self.env(e)?, &self.env(p)?, ty, 1),
            ["eosfp", e, p, ty] => typed_lookup(&self.env(e)?, &self.env(p)?, ty, 2),
            ["eofpd", e, p, ty] => typed_lookup(&self.env(e)?, &self.env(p)?, ty, 3),
            ["confirm", e, ts, p] => {
                let t = self.digest_set(ts)?;
                self.env(e)?.confirm_contains_set(&t, &self.env(p)?).to_string()
            }
            ["types", e] => { let v = self.env(e)?.types(); format!("[{}]", v.iter().map(|x| dshort(&x.digest())).collect::<Vec<_>>().join(" ")) }
            ["has_type", e, t] => self.env(e)?.has_type_envelope(self.env(t)?).to_string(),
            ["attachments", e, v, c] => {
                let (v, c) = (opt_str(v)?, opt_str(c)?);
                match self.env(e)?.attachments_with_vendor_and_conforms_to(v.as_deref(), c.as_deref()) { Ok(l) => format!("[{}]", l.iter().map(|x| dshort(&x.digest())).collect::<Vec<_>>().join(" ")), Err(x) => format!("err {}", err_kind(&x)) }
            }
            ["validate_attachment", a] => match self.env(a)?.validate_attachment() { Ok(()) => "ok".into(), Err(x) => format!("err {}", err_kind(&x)) },
            ["attachment_fields", a] => {
                let a = self.env(a)?;
                match (a.attachment_payload(), a.attachment_vendor(), a.attachment_conforms_to()) {
                    (Ok(p), Ok(v), Ok(c)) => format!("payload={} vendor={} conf={}", dshort(&p.digest()), hex::encode(v.as_bytes()), c.map(|x| hex::encode(x.as_bytes())).unwrap_or("-".into())),
                    _ => "err".into(),
                }
            }
            ["parse_expression", e, expected] => {
                let exp = if *expected == "-" { None } else { Some(to_function(&parse_ident(expected)?)) };
                match Expression::try_from((self.env(e)?, exp.as_ref())) { Ok(x) => format!("ok fn={}", show_function(x.function())), Err(x) => format!("err {}", err_kind(&x)) }
            }
            ["parse_request", e] => match Request::try_from(self.env(e)?) {
                Ok(q) => format!("ok id={} fn={} body={} note={} date={}", hex::encode(q.id().data()), show_function(q.function()), dshort(&q.body().expression_envelope().digest()), hex::encode(q.note().as_bytes()), date_str(q.date())),
                Err(x) => format!("err {}", err_kind(&x)),
            },
            ["parse_response", e] => match Response::try_from(self.env(e)?) {
                Ok(q) => match (q.ok(), q.err()) {
                    (Some((id, r)), _) => format!("ok success id={} result={}", hex::encode(id.data()), dshort(&r.digest())),
                    (_, Some((id, er))) => format!("ok failure id={} error={}", id.map(|i| hex::encode(i.data())).unwrap_or("-".into()), dshort(&er.digest())),
                    _ => "err".into(),
                },
                Err(x) => format!("err {}", err_kind(&x)),
            },
            ["parse_event", e] => match Event::<String>::try_from(self.env(e)?) {
                Ok(q) => format!("ok id={} content={} note={} date={}", hex::encode(q.id().data()), hex::encode(q.content().as_bytes()), hex::encode(q.note().as_bytes()), date_str(q.date())),
                Err(x) => format!("err {}", err_kind(&x)),
            },
            ["recipients", e] => match self.env(e)?.recipients() { Ok(l) => format!("[{}]", l.iter().map(|m| hex::encode(m.to_cbor_data())).collect::<Vec<_>>().join(" ")), Err(x) => format!("err {}", err_kind(&x)) },
            ["has_sig", e, kid] => {
                let (_, pk) = sig_key(kid.parse().ok()?);
                match self.env(e)?.has_signature_from_returning_metadata(&pk) { Ok(Some(m)) => format!("some {}", dshort(&m.digest())), Ok(None) => "none".into(), Err(x) => format!("err {}", err_kind(&x)) }
            }
            ["has_sigs", e, kids, thr] => {
                let pks: Vec<bc_components::SigningPublicKey> = if *kids == "-" { vec![] } else { kids.split(',').map(|k| k.parse::<u64>().ok().map(|k| sig_key(k).1)).collect::<Option<Vec<_>>>()? };
                let refs: Vec<&dyn bc_envelope::Verifier> = pks.iter().map(|p| p as &dyn bc_envelope::Verifier).collect();
                let t = if *thr == "-" { None } else { Some(thr.parse::<usize>().ok()?) };
                match self.env(e)?.has_signatures_from_threshold(&refs, t) { Ok(b) => b.to_string(), Err(x) => format!("err {}", err_kind(&x)) }
            }
            ["flags", e] => {
                let e = self.env(e)?;
                format!("node={} sa={} so={} obsc={} internal={} nas={}", e.is_node(), e.is_subject_assertion(),
                    e.is_subject_obscured(), e.is_obscured(), e.is_internal(), e.assertions().len())
            }
            _ => return None,
        })
    }

    /// execute one line; returns the observation line, if the line produces one
    pub fn exec(&mut self, line: &str) -> Option<String> {
        let toks: Vec<&str> = line.trim().split(' ').filter(|t| !t.is_empty()).collect();
        if toks.is_empty() || toks[0] == "#" { return None; }
        if toks.len() == 2 && toks[0] == "scenario" {
            self.regs.clear();
            self.kem_keys.clear();
            return Some(format!("scenario {}", toks[1]));
        }
        if toks[0] == "fact" {
            // facts state to the model what the real cryptography did; one kind also hands this interpreter a key
            if toks.len() == 4 && toks[1] == "kemkey" {
                if let (Ok(kid), Ok(b)) = (toks[2].parse::<u64>(), hex::decode(toks[3])) {
                    if let Ok(k) = CBOR::try_from_data(&b).map_err(|e| anyhow::anyhow!(e)).and_then(bc_components::EncapsulationPrivateKey::try_from) { self.kem_keys.insert(kid, k); }
                }
            }
            return Some("ok".into());
        }
        if toks[0] == "obs" {
            return Some(match guarded(|| self.eval_obs(&toks[1..])) {
                Ok(Some(s)) => s,
                Ok(None) => "bad-op".into(),
                Err(site) => format!("panic {}", site),
            });
        }
        if toks.len() >= 3 && toks[1] == "=" {
            let reg = toks[0].to_string();
            let v = match guarded(|| self.eval_assign(&toks[2..])) {
                Ok(Some(v)) => v,
                Ok(None) => { self.regs.insert(reg, Val::Err("bad-op".into())); return Some("bad-op".into()); }
                Err(site) => Val::Panic(site),
            };
            let out = format!("{} {}", reg, v.show());
            self.regs.insert(reg, v);
            return Some(out);
        }
        Some("bad-op".into())
    }
}
