//! Scenario recording context: every line a generator emits is executed on the real
//! library at once, and both the line and the library's observation are recorded.
use crate::interp::{Machine, Val};
use crate::rng::Rng;
use bc_envelope::prelude::*;
use std::collections::{BTreeMap, HashSet};

pub struct OracleRec {
    pub scenario: String,
    pub name: String,
    pub pass: bool,
    pub key: String,
    pub detail: String,
}

pub struct Ctx {
    pub m: Machine,
    pub rng: Rng,
    pub prop: String,
    pub lines: Vec<String>,
    pub outs: Vec<String>,
    pub oracles: Vec<OracleRec>,
    pub counters: BTreeMap<String, u64>,
    pub shapes: HashSet<u64>,
    pub samples: Vec<String>,
    pub scenario: String,
    pub scen_start: usize,
    pub n_scen: usize,
    next_reg: usize,
}

fn fnv(s: &str) -> u64 { let mut h = 0xcbf29ce484222325u64; for b in s.bytes() { h ^= b as u64; h = h.wrapping_mul(0x100000001b3); } h }

impl Ctx {
    pub fn new(prop: &str, seed: u64) -> Self {
        Ctx { m: Machine::default(), rng: Rng::new(seed), prop: prop.into(), lines: vec![], outs: vec![], oracles: vec![],
              counters: BTreeMap::new(), shapes: HashSet::new(), samples: vec![], scenario: String::new(), scen_start: 0, n_scen: 0, next_reg: 0 }
    }

    pub fn count(&mut self, k: &str) { *self.counters.entry(k.to_string()).or_insert(0) += 1; }
    pub fn count_n(&mut self, k: &str, n: u64) { *self.counters.entry(k.to_string()).or_insert(0) += n; }

    pub fn line(&mut self, l: String) -> Option<String> {
        let out = self.m.exec(&l);
        // a line the interpreter cannot parse is an error of the generator (the only intended one is a decode of the empty string,
        // which the line format cannot carry); both interpreters would agree on "bad-op" and the scenario would test nothing
        if out.as_deref() == Some("bad-op") && !l.trim_end().ends_with("decode") { self.count("harness:bad-op"); if self.counters.get("harness:bad-op") == Some(&1) { eprintln!("generator wrote a line the interpreter rejects: {}", l); } }
        self.lines.push(l);
        if let Some(o) = &out { self.outs.push(o.clone()); }
        out
    }

    pub fn begin(&mut self, family: &str) {
        self.n_scen += 1;
        self.next_reg = 0;
        self.scenario = format!("{}-{}-{}", self.prop, self.n_scen, family);
        self.scen_start = self.lines.len();
        self.count(&format!("family:{}", family));
        let l = format!("scenario {}", self.scenario);
        self.line(l);
        self.chaff();
    }

    /// History independence: every third scenario starts with an operation the library rejects (a malformed encoding of one of
    /// several kinds, an assembly it refuses).  Whatever a rejected call leaves behind - a half-filled buffer, a cache entry, a
    /// flag - must not show in what follows; the model, being a function, cannot have such a memory, and the oracles run on the
    /// results as always.  The choice is a function of the scenario's name, not of the generator's random stream.
    fn chaff(&mut self) {
        if self.prop == "scratch" || self.prop == "C20" || self.n_scen % 3 != 1 { return; }
        let kinds = chaff_encodings();
        let k = (fnv(&self.scenario) % (kinds.len() as u64 + 4)) as usize;
        if k < kinds.len() {
            let r = self.assign(&format!("decode {}", kinds[k].1));
            let ok = self.is_ok(&r);
            self.count(&format!("chaff:{}", kinds[k].0));
            // (only C06 is about what the decoder refuses; elsewhere the call is just history)
            if self.prop == "C06" { self.check("chaff-rejected", !ok, "malformed-accepted", || format!("the malformed encoding {} ({}) was accepted", kinds[k].1, kinds[k].0)); }
        } else if k == kinds.len() {
            let a = self.assign("leaf 01"); let _ = self.assign(&format!("add {} {}", a, a));
            self.count("chaff:add-non-assertion");
        } else if k == kinds.len() + 1 {
            let a = self.assign("leaf 6161"); let _ = self.assign(&format!("unwrap {}", a)); let _ = self.assign(&format!("uncompress {}", a));
            self.count("chaff:unwrap-uncompress-leaf");
        } else if k == kinds.len() + 2 {
            // a salted add that is refused, and one that has nothing to add: neither draws a salt, neither may leave a request behind
            let a = self.assign("leaf 02"); let _ = self.assign(&format!("add_salted_refused {} {}", a, a));
            self.count("chaff:salted-add-refused");
        } else {
            let a = self.assign("leaf 03"); let _ = self.assign(&format!("add_salted_none {}", a));
            self.count("chaff:salted-add-of-nothing");
        }
    }

    /// finish a scenario: keep a few as samples
    pub fn end(&mut self) {
        if self.samples.len() < 6 && self.lines.len() - self.scen_start < 40 {
            self.samples.push(self.lines[self.scen_start..].join("\n"));
        }
    }

    pub fn assign(&mut self, rhs: &str) -> String {
        let reg = format!("r{}", self.next_reg);
        self.next_reg += 1;
        let op = rhs.split(' ').next().unwrap_or("").to_string();
        self.count(&format!("op:{}", op));
        let out = self.line(format!("{} = {}", reg, rhs));
        if self.prop == "C16" {
            // for C16 every operation is "the operation under test": a panic anywhere in a history is a failure with that history as
            // its input (the library's documented preconditions are respected by the generators)
            if let Val::Panic(site) = self.val(&reg) {
                let scen = self.scenario.clone();
                self.oracles.push(OracleRec { scenario: scen, name: "no-panic".into(), pass: false, key: format!("panic@{}", site), detail: format!("`{}` panicked at {}", rhs, site) });
            }
        }
        if let Some(o) = out {
            let cls = o.split(' ').nth(1).unwrap_or("?").to_string();
            if cls != "ok" { self.count(&format!("outcome:{}:{}", op, cls)); }
            if cls == "err" { self.count(&format!("errkind:{}", o.split(' ').nth(2).unwrap_or("?").split(':').next().unwrap_or("?"))); }
        }
        reg
    }

    pub fn obs(&mut self, what: &str) -> String {
        let kind = what.split(' ').next().unwrap_or("").to_string();
        self.count(&format!("obs:{}", kind));
        self.line(format!("obs {}", what)).unwrap_or_default()
    }

    pub fn val(&self, reg: &str) -> Val { self.m.regs.get(reg).cloned().unwrap_or(Val::Err("unset".into())) }
    pub fn env(&self, reg: &str) -> Option<Envelope> { self.m.env(reg) }
    pub fn is_ok(&self, reg: &str) -> bool { matches!(self.m.regs.get(reg), Some(Val::Env(_))) }

    /// the operation whose result is in `reg` is the one the property is about: a panic there means there is no result at
    /// all for an input in the property's scope
    pub fn no_panic(&mut self, reg: &str, what: &str) {
        if let Val::Panic(site) = self.val(reg) {
            let (scen, w) = (self.scenario.clone(), what.to_string());
            self.count("oracle:operation-under-test-returns");
            self.oracles.push(OracleRec { scenario: scen, name: "operation-under-test-returns".into(), pass: false, key: format!("{}-panicked", w), detail: format!("{} panicked at {} (register {})", w, site, reg) });
        }
    }

    /// record an implementation-side oracle verdict
    pub fn check(&mut self, name: &str, pass: bool, key: &str, detail: impl FnOnce() -> String) {
        self.count(&format!("oracle:{}", name));
        if !pass {
            let d = detail();
            self.oracles.push(OracleRec { scenario: self.scenario.clone(), name: name.into(), pass, key: key.into(), detail: d });
        }
    }

    pub fn note_shape(&mut self, e: &Envelope) {
        // shape class: the tree with digests and leaf contents erased
        fn skel(e: &Envelope, out: &mut String) {
            use bc_envelope::base::envelope::EnvelopeCase::*;
            match e.case() {
                Node { subject, assertions, .. } => { out.push_str("N("); skel(subject, out); for a in assertions { skel(a, out); } out.push(')'); }
                Leaf { .. } => out.push('L'),
                Wrapped { envelope, .. } => { out.push_str("W("); skel(envelope, out); out.push(')'); }
                Assertion(a) => { out.push_str("A("); skel(&a.predicate(), out); skel(&a.object(), out); out.push(')'); }
                Elided(_) => out.push('E'),
                KnownValue { .. } => out.push('K'),
                Encrypted(_) => out.push('X'),
                Compressed(_) => out.push('C'),
            }
        }
        let mut s = String::new();
        skel(e, &mut s);
        self.shapes.insert(fnv(&s));
    }
}

/// encodings the decoder must refuse, one of each kind of refusal (computed once)
fn chaff_encodings() -> &'static Vec<(&'static str, String)> {
    use bc_envelope::prelude::*;
    use bc_components::DigestProvider;
    static V: std::sync::OnceLock<Vec<(&'static str, String)>> = std::sync::OnceLock::new();
    V.get_or_init(|| {
        let tagged = |items: Vec<CBOR>| hex::encode(CBOR::to_tagged_value(200u64, CBOR::from(items)).to_cbor_data());
        let s = Envelope::new("s");
        let a1 = Envelope::new_assertion(1u64, 2u64); let a2 = Envelope::new_assertion(3u64, 4u64);
        let (lo, hi) = if a1.digest().data() < a2.digest().data() { (a1, a2) } else { (a2, a1) };
        vec![
            ("non-assertion-in-slot", tagged(vec![s.untagged_cbor(), Envelope::new("x").untagged_cbor()])),
            ("non-assertion-after-assertions", tagged(vec![s.untagged_cbor(), lo.untagged_cbor(), hi.untagged_cbor(), Envelope::new("x").untagged_cbor()])),
            ("descending", tagged(vec![s.untagged_cbor(), hi.untagged_cbor(), lo.untagged_cbor()])),
            ("repeated", tagged(vec![s.untagged_cbor(), lo.untagged_cbor(), lo.untagged_cbor()])),
            ("arity-one", tagged(vec![s.untagged_cbor()])),
            ("unknown-tag", "d8c8d86301".to_string()),
            ("two-entry-map", "d8c8a201020304".to_string()),
            ("short-digest", "d8c8420102".to_string()),
            ("nested-unknown-tag", "d8c8d8c8d8c8d86301".to_string()),
            ("node-in-node-bad-tail", tagged(vec![CBOR::from(vec![s.untagged_cbor(), lo.untagged_cbor()]), Envelope::new("x").untagged_cbor()])),
        ]
    })
}
