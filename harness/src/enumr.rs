//! Small-scope exhaustive enumeration (DESIGN 2.5): every envelope with at most `k` elements over a
//! three-symbol alphabet, obscured forms at every position included, emitted as EVL programs.
//! A search aid and a correspondence amplifier - not a proof.
use crate::ctx::Ctx;
use crate::gen::KEY1;

#[derive(Clone, Debug, PartialEq, Eq, PartialOrd, Ord)]
pub enum T {
    Leaf(usize),
    Wrap(Box<T>),
    Assert(Box<T>, Box<T>),
    /// subject (never a node: the API flattens), assertion elements (as a sorted multiset without repeats)
    Node(Box<T>, Vec<T>),
    /// 0 = elided, 1 = compressed, 2 = encrypted form of the inner tree
    Obsc(u8, Box<T>),
}

pub const ALPHABET: &[&str] = &["leaf 01", "leaf 6161", "kv 1"];

impl T {
    /// can stand in an assertion slot
    fn slot_ok(&self) -> bool {
        match self {
            T::Assert(..) | T::Obsc(..) => true,
            T::Node(s, _) => s.slot_ok(),
            _ => false,
        }
    }
    fn is_node(&self) -> bool { matches!(self, T::Node(..)) }
}

/// all trees with exactly `n` positions (an obscured element counts as one position; what it hides has at most 3 positions)
pub fn exactly(n: usize, memo: &mut Vec<Option<Vec<T>>>, obscured: bool) -> Vec<T> {
    if n == 0 { return vec![]; }
    if let Some(Some(v)) = memo.get(n) { return v.clone(); }
    let mut out: Vec<T> = vec![];
    if n == 1 {
        for i in 0..ALPHABET.len() { out.push(T::Leaf(i)); }
        if obscured {
            // hidden content: a leaf, or a small assertion (so that obscured assertion elements exist)
            let mut hidden: Vec<T> = vec![T::Leaf(0), T::Leaf(1)];
            hidden.push(T::Assert(Box::new(T::Leaf(0)), Box::new(T::Leaf(1))));
            hidden.push(T::Assert(Box::new(T::Leaf(2)), Box::new(T::Leaf(0))));
            // a node with an assertion of its own (so that an obscured subject can stand for a node)
            hidden.push(T::Node(Box::new(T::Leaf(1)), vec![T::Assert(Box::new(T::Leaf(2)), Box::new(T::Leaf(0)))]));
            for h in hidden { for k in 0..3u8 { out.push(T::Obsc(k, Box::new(h.clone()))); } }
        }
    } else {
        for t in exactly(n - 1, memo, obscured) { out.push(T::Wrap(Box::new(t))); }
        for i in 1..n - 1 {
            let ps = exactly(i, memo, obscured); let os = exactly(n - 1 - i, memo, obscured);
            for p in &ps { for o in &os { out.push(T::Assert(Box::new(p.clone()), Box::new(o.clone()))); } }
        }
        // nodes: subject of size i (not a node), assertion elements of total size n-1-i, as an ascending list of distinct trees
        for i in 1..n - 1 {
            let subjects: Vec<T> = exactly(i, memo, obscured).into_iter().filter(|s| !s.is_node()).collect();
            let lists = slot_lists(n - 1 - i, memo, obscured);
            for s in &subjects { for l in &lists { out.push(T::Node(Box::new(s.clone()), l.clone())); } }
        }
    }
    while memo.len() <= n { memo.push(None); }
    memo[n] = Some(out.clone());
    out
}

/// ascending lists of distinct slot-capable trees of total size `total`
fn slot_lists(total: usize, memo: &mut Vec<Option<Vec<T>>>, obscured: bool) -> Vec<Vec<T>> {
    fn go(total: usize, min: Option<&T>, memo: &mut Vec<Option<Vec<T>>>, obscured: bool) -> Vec<Vec<T>> {
        if total == 0 { return vec![vec![]]; }
        let mut out = vec![];
        for first in 1..=total {
            let cands: Vec<T> = exactly(first, memo, obscured).into_iter().filter(|t| t.slot_ok() && min.map(|m| t > m).unwrap_or(true)).collect();
            for c in cands {
                for mut rest in go(total - first, Some(&c), memo, obscured) { let mut l = vec![c.clone()]; l.append(&mut rest); out.push(l); }
            }
        }
        out
    }
    go(total, None, memo, obscured).into_iter().filter(|l| !l.is_empty()).collect()
}

/// all trees with at most `k` positions
pub fn up_to(k: usize, obscured: bool) -> Vec<T> {
    let mut memo = vec![];
    let mut out = vec![];
    for n in 1..=k { out.extend(exactly(n, &mut memo, obscured)); }
    out
}

/// emit the EVL program that builds `t`; returns the register (which may hold an error when the library refuses the assembly)
pub fn emit(c: &mut Ctx, t: &T) -> String {
    match t {
        T::Leaf(i) => c.assign(ALPHABET[*i]),
        T::Wrap(x) => { let r = emit(c, x); c.assign(&format!("wrap {}", r)) }
        T::Assert(p, o) => { let p = emit(c, p); let o = emit(c, o); c.assign(&format!("assertion {} {}", p, o)) }
        T::Node(s, l) => {
            let mut e = emit(c, s);
            for a in l { let r = emit(c, a); e = c.assign(&format!("add {} {}", e, r)); }
            e
        }
        T::Obsc(k, x) => {
            let r = emit(c, x);
            match k {
                0 => c.assign(&format!("elide {}", r)),
                1 => c.assign(&format!("compress {}", r)),
                _ => {
                    // the encrypted form of a whole element: encrypt_subject of a non-node encrypts the element itself
                    c.assign(&format!("encrypt_subject {} {} 0a0a0a0a0a0a0a0a0a0a0a0a", r, KEY1))
                }
            }
        }
    }
}

/// a deterministic sample of at most `cap` trees (all of them when there are fewer), spread over the whole list
pub fn sample(mut v: Vec<T>, cap: usize, c: &mut Ctx) -> Vec<T> {
    if v.len() <= cap { return v; }
    c.rng.shuffle(&mut v);
    v.truncate(cap);
    v
}
