//! Per-property scenario families and implementation-side oracles.
use crate::ctx::Ctx;
use crate::gen::*;
use crate::history::random_op;
use crate::interp::{has_opaque, shape};
use crate::oracles::*;
use bc_components::DigestProvider;
use bc_envelope::prelude::*;
use dcbor::prelude::*;

pub struct Budget { pub scenarios: usize, pub thorough: bool }

pub(crate) fn observe_env(c: &mut Ctx, reg: &str, bytes: bool) {
    if let Some(e) = c.env(reg) {
        c.note_shape(&e);
        c.obs(&format!("shape {}", reg));
        if bytes && !has_opaque(&e) { c.obs(&format!("bytes {}", reg)); }
    }
}

/// C01 - digest tree matches the specification
pub fn c01(c: &mut Ctx, b: &Budget) {
    let cfg = GenCfg::default();
    for i in 0..b.scenarios {
        c.begin(if i % 4 == 0 { "construct" } else { "history" });
        let mut cur = gen_env(c, &cfg, if i % 4 == 0 { 3 } else { 2 });
        let steps = if i % 4 == 0 { 0 } else { c.rng.range(1, 7) };
        for s in 0..=steps {
            if let Some(e) = c.env(&cur) {
                observe_env(c, &cur, false);
                let r = check_spec_digests(&e);
                let n = r.as_ref().map(|n| *n as u64).unwrap_or(0);
                c.count_n("elements-checked", n);
                c.check("spec-digest", r.is_ok(), "spec-digest", || format!("{} in {}", r.unwrap_err(), shape(&e)));
            }
            if s < steps {
                let next = random_op(c, &cur, &cfg);
                if c.is_ok(&next) { cur = next; }
            }
        }
        c.end();
    }
    // routes that end in the same information: a node's subject replaced by an obscured form of the WHOLE node (its digest is the
    // node's, not the subject's); every element, decorated ones included, obscured in place with every action
    for i in 0..(b.scenarios / 6).max(8) {
        c.begin("routes");
        let e = gen_env(c, &cfg, 2);
        if let Some(env) = c.env(&e) {
            if env.is_node() {
                for form in ["elide", "compress"] {
                    let f = c.assign(&format!("{} {}", form, e));
                    let r = c.assign(&format!("replace_subject {} {}", e, f));
                    if let Some(re) = c.env(&r) { observe_env(c, &r, false); let v = check_spec_digests(&re); c.check("spec-digest", v.is_ok(), "spec-digest", || format!("replace_subject(e, {}(e)): {} in {}", form, v.unwrap_err(), shape(&re))); }
                }
            }
            let els = elements(&env);
            for (k, (path, x)) in els.iter().enumerate() {
                if k > 0 && k % 2 == i % 2 && !x.is_node() { continue; }
                let t = c.assign(&format!("at {} {}", e, path));
                for act in ["elide".to_string(), "compress".to_string(), format!("encrypt:{}", KEY1)] {
                    let r = c.assign(&format!("elide_set {} rem {} {}", e, act, t));
                    c.no_panic(&r, "obscuring");
                    if let Some(re) = c.env(&r) {
                        c.obs(&format!("digest {}", r));
                        c.check("route-independent", re.digest() == env.digest(), "route-independent", || format!("{} of the element at {} changed the root digest: {} -> {}", act.split(':').next().unwrap(), path, shape(&env), shape(&re)));
                        let v = check_spec_digests(&re); c.check("spec-digest", v.is_ok(), "spec-digest", || format!("{} in {}", v.unwrap_err(), shape(&re)));
                    }
                }
            }
        }
        c.end();
    }
    // the decoded route with the assertion elements of the encoding out of order, obscured ones included: the decoder may
    // refuse it (it does); if it ever accepts, what it returns must still carry specification digests and be the envelope
    // the API builds from the same parts
    for _ in 0..(b.scenarios / 4).max(5) {
        c.begin("decoded-out-of-order");
        let s = gen_leaf(c, &cfg);
        let mut e = s.clone();
        for _ in 0..c.rng.range(2, 4) { let a = gen_assertion(c, &cfg, 1); e = c.assign(&format!("add {} {}", e, a)); }
        // obscure one or two of the assertion elements
        if let Some(env) = c.env(&e) {
            let n = env.assertions().len();
            if n >= 2 {
                let mut targets = vec![];
                for _ in 0..c.rng.range(1, 2) { let i = c.rng.below(n); targets.push(c.assign(&format!("at {} a{}", e, i))); }
                let act = gen_action(c);
                let o = c.assign(&format!("elide_set {} rem {} {}", e, act, targets.join(",")));
                if c.is_ok(&o) { e = o; }
            }
        }
        if let Some(env) = c.env(&e) {
            let tree = CBOR::try_from_data(env.tagged_cbor().to_cbor_data()).unwrap();
            if let CBORCase::Tagged(_, inner) = tree.as_case() { if let CBORCase::Array(xs) = inner.as_case() { if xs.len() >= 3 {
                let mut v = xs.clone();
                match c.rng.below(3) { 0 => v[1..].reverse(), 1 => { let k = v.len() - 1; v.swap(1, k); } _ => { v[1..].rotate_left(1); } }
                let bytes = CBOR::to_tagged_value(200u64, CBOR::from(CBORCase::Array(v))).to_cbor_data();
                let d = c.assign(&format!("decode {}", hex::encode(&bytes)));
                c.count("branch:decoded-out-of-order");
                if let Some(x) = c.env(&d) {
                    observe_env(c, &d, false);
                    let r = check_spec_digests(&x);
                    c.check("spec-digest", r.is_ok(), "spec-digest", || format!("{} in the decoded {}", r.unwrap_err(), shape(&x)));
                    c.check("route-independent", x.digest() == env.digest(), "route-independent", || format!("decoded from reordered elements: {} vs built {}", shape(&x), shape(&env)));
                }
            } } }
        }
        c.end();
    }
    // the typed constructors (`Envelope::new(&str)`, `String`, integers, bool, bytes, floats, dates, known values ...) against the
    // generic route through `CBOR`, values chosen at the awkward spots: text that is not in Unicode NFC, head-size boundaries,
    // reducible floats.  (The harness builds leaves from encoded CBOR everywhere else, which never enters these impls.)
    {
        c.begin("typed-constructors");
        let mut pairs: Vec<(String, Envelope, CBOR)> = vec![];
        for t in ["", "Hello", "Cafe\u{301}", "\u{212b}ngstr\u{f6}m", "\u{1112}\u{1161}\u{11ab}", "a\u{323}\u{307}", "e\u{301}\u{301}", "\u{fb01}", "\u{1e9b}\u{323}", "nai\u{308}ve text, longer than twenty-three bytes"] {
            pairs.push((format!("&str {:?}", t), Envelope::new(t), CBOR::from(t)));
            pairs.push((format!("String {:?}", t), Envelope::new(t.to_string()), CBOR::from(t.to_string())));
        }
        // CBOR values that look like envelope-level encodings, handed to Envelope::new as VALUES: each is a leaf holding that value
        for (name, v) in [("tag 200 around an envelope", Envelope::new("inner").add_assertion("k", 1).tagged_cbor()), ("tag 200 around a leaf", CBOR::to_tagged_value(200u64, CBOR::to_tagged_value(201u64, "x"))),
                          ("tag 201", CBOR::to_tagged_value(201u64, "x")), ("tag 24", CBOR::to_tagged_value(24u64, CBOR::to_byte_string(vec![1u8, 2]))), ("a 32-byte string", CBOR::to_byte_string(vec![7u8; 32])),
                          ("tag 40000", CBOR::to_tagged_value(40000u64, 5u64)), ("array of two", CBOR::from(vec![CBOR::from(1), CBOR::from(2)])), ("one-entry map", { let mut m = Map::new(); m.insert(1, 2); m.into() })] {
            pairs.push((format!("CBOR value: {}", name), Envelope::new(v.clone()), v));
        }
        // a compressed element that records no digest is refused (there is nothing to declare), built or decoded - never given a digest of the library's own making
        {
            let inner = Envelope::new("payload").add_assertion("k", "v");
            let zd = bc_components::Compressed::from_uncompressed_data(inner.tagged_cbor().to_cbor_data(), None::<bc_components::Digest>);
            let built = crate::interp::guarded(|| Envelope::try_from(zd.clone()).map(|e| (e.digest().into_owned(), e.uncompress().map(|u| u.digest().into_owned()).ok())));
            c.check("spec-digest", match &built { Ok(Err(_)) => true, Ok(Ok((d, Some(u)))) => d == u && *u == inner.digest().into_owned(), _ => false }, "digestless-compressed-accepted", || format!("a compressed element without a digest was accepted with a digest that is not its content's: {:?}", built.as_ref().map(|r| r.as_ref().map(|(d, u)| (hex::encode(&d.data()[..6]), u.as_ref().map(|x| hex::encode(&x.data()[..6])))).map_err(|e| e.to_string()))));
            let three = CBOR::to_tagged_value(200u64, CBOR::to_tagged_value(40003u64, CBOR::from(vec![CBOR::from(0u64), CBOR::from(3u64), CBOR::to_byte_string(vec![1u8, 2, 3])])));
            let dec = crate::interp::guarded(|| Envelope::try_from_cbor_data(three.to_cbor_data()).is_ok());
            c.check("spec-digest", dec == Ok(false), "digestless-compressed-accepted", || "a decoded compressed element without a digest was accepted".into());
        }
        macro_rules! ints { ($($ty:ty),*) => { $( for v in [<$ty>::MIN, <$ty>::MAX, 0 as $ty, 1 as $ty, 23 as $ty, 24 as $ty, 100 as $ty] { pairs.push((format!("{} {}", stringify!($ty), v), Envelope::new(v), CBOR::from(v))); } )* } }
        ints!(u8, u16, u32, u64, usize, i8, i16, i32, i64);
        for v in [255u64, 256, 65535, 65536, 4294967295, 4294967296] { pairs.push((format!("u64 {}", v), Envelope::new(v), CBOR::from(v))); }
        for v in [-1i64, -24, -25, -256, -257, -65536, -65537, -4294967296, -4294967297] { pairs.push((format!("i64 {}", v), Envelope::new(v), CBOR::from(v))); }
        for v in [0.0f64, -0.0, 1.0, 1.5, 1.1, 65504.0, 65505.0, 1e300, f64::INFINITY, f64::NEG_INFINITY, f64::NAN, 0.1f32 as f64, 16777216.0, 3.0e9] { pairs.push((format!("f64 {}", v), Envelope::new(v), CBOR::from(v))); }
        for v in [0.0f32, 1.5, 0.1, 65504.0, 3.0e9, f32::INFINITY] { pairs.push((format!("f32 {}", v), Envelope::new(v), CBOR::from(v))); }
        for v in [true, false] { pairs.push((format!("bool {}", v), Envelope::new(v), CBOR::from(v))); }
        for n in [0usize, 1, 23, 24, 255, 256] { let bs = ByteString::from(vec![7u8; n]); pairs.push((format!("ByteString {}", n), Envelope::new(bs.clone()), CBOR::from(bs))); }
        for v in [0u64, 1, 23, 24, 255, 256, 65535, 65536, 4294967295, 4294967296, (9u64 << 32) + 4, u64::MAX] { let kv = KnownValue::new(v); pairs.push((format!("KnownValue {}", v), Envelope::new(kv.clone()), CBOR::from(kv))); }
        for t in [0.0f64, 1_700_000_000.0, -86_400.0, 1_700_000_000.5] { let d = dcbor::Date::from_timestamp(t); pairs.push((format!("Date {}", t), Envelope::new(d.clone()), CBOR::from(d))); }
        { let d = bc_components::Digest::from_image(b"x"); pairs.push(("Digest".into(), Envelope::new(d.clone()), CBOR::from(d))); }
        { let a = bc_components::ARID::from_data_ref(vec![3u8; 32]).unwrap(); pairs.push(("ARID".into(), Envelope::new(a.clone()), CBOR::from(a))); }
        pairs.push(("Vec<u64>".into(), Envelope::new(vec![1u64, 2, 3]), CBOR::from(vec![1u64, 2, 3])));
        pairs.push(("CBOR null".into(), Envelope::null(), CBOR::null()));
        // the known values twice over, in an order that lets a stale per-thread memo show (low 32 bits equal)
        for v in [0u64, 1u64 << 32, 4, (9u64 << 32) + 4, 4, 0] { let kv = KnownValue::new(v); pairs.push((format!("KnownValue again {}", v), Envelope::new(kv.clone()), CBOR::from(kv))); }
        for (what, typed, generic) in &pairs {
            let viacbor = if let CBORCase::Tagged(t, inner) = generic.as_case() { if t.value() == 40000 { match inner.as_case() { CBORCase::Unsigned(n) => Envelope::new(KnownValue::new(*n)), _ => Envelope::new(generic.clone()) } } else { Envelope::new(generic.clone()) } } else { Envelope::new(generic.clone()) };
            let r = check_spec_digests(typed);
            c.check("spec-digest", r.is_ok(), "spec-digest", || format!("Envelope::new({}): {}", what, r.unwrap_err()));
            // a value handed to Envelope::new is the leaf holding that value: its digest is the hash of the value's dCBOR encoding
            if !typed.is_known_value() {
                use sha2::Digest as _;
                let want = sha2::Sha256::digest(generic.to_cbor_data());
                c.check("leaf-holds-value", typed.is_leaf() && typed.digest().data()[..] == want[..], "leaf-holds-value", || format!("Envelope::new({}) is {} with digest {}; the leaf of that value has digest {}", what, shape(typed), hex::encode(typed.digest().data()), hex::encode(want)));
            }
            // the same value through its own encoding, decoded again
            let back = Envelope::from_tagged_cbor_data(typed.tagged_cbor().to_cbor_data());
            c.check("typed-constructor-route", back.as_ref().map(|b2| b2.digest() == typed.digest()).unwrap_or(false) && (typed.is_known_value() || typed.digest() == viacbor.digest()), "route-independent",
                || format!("Envelope::new({}) has digest {} but its encoding decodes to {:?} and the CBOR route gives {}", what, hex::encode(typed.digest().data()), back.as_ref().map(|b2| hex::encode(b2.digest().data())).map_err(|e| e.to_string()), hex::encode(viacbor.digest().data())));
            let r0 = c.assign(&format!("decode {}", hex::encode(typed.tagged_cbor().to_cbor_data())));
            c.obs(&format!("shape {}", r0));
        }
        c.count_n("typed-constructor-values", pairs.len() as u64);
        c.end();
    }
    // route independence: the same content assembled along two routes
    for _ in 0..(b.scenarios / 4).max(5) {
        c.begin("routes");
        let s = gen_leaf(c, &cfg);
        let n = c.rng.range(2, 5);
        let asserts: Vec<String> = (0..n).map(|_| gen_assertion(c, &cfg, 1)).collect();
        let mut order1 = asserts.clone();
        let mut order2 = asserts.clone();
        c.rng.shuffle(&mut order1);
        c.rng.shuffle(&mut order2);
        let mut e1 = s.clone();
        for a in &order1 { e1 = c.assign(&format!("add {} {}", e1, a)); }
        // route 2: build on another subject, then replace the subject
        let other = gen_leaf(c, &cfg);
        let mut e2 = other;
        for a in &order2 { e2 = c.assign(&format!("add {} {}", e2, a)); }
        let e2 = c.assign(&format!("replace_subject {} {}", e2, s));
        let e3 = c.assign(&format!("recode {}", e1));
        // routes 4 and 5: the other adding doors (the `*_salted` family with `salted = false`, one by one and as a batch), every assertion
        // given twice - the second time through another door or as its elided twin: a digest the node already holds adds nothing
        let mut e4 = s.clone();
        for (k, a) in order2.iter().enumerate() {
            e4 = c.assign(&format!("{} {} {}", ["add", "add_env_unsalted"][k % 2], e4, a));
            let twin = if k % 3 == 2 { c.assign(&format!("elide {}", a)) } else { a.clone() };
            e4 = c.assign(&format!("{} {} {}", ["add_env_unsalted", "add"][k % 2], e4, twin));
        }
        let e5 = c.assign(&format!("add_many_unsalted {} {}", s, [order1.clone(), order2.clone()].concat().join(",")));
        observe_env(c, &e4, true);
        observe_env(c, &e5, true);
        if let (Some(x), Some(v), Some(w)) = (c.env(&e1), c.env(&e4), c.env(&e5)) {
            c.check("route-independent", shape(&x) == shape(&v) && shape(&x) == shape(&w), "route-independent", || format!("doors: {} vs one by one through the other doors, each twice {} vs as a batch with repeats {}", shape(&x), shape(&v), shape(&w)));
            for e in [&v, &w] { let r = check_spec_digests(e); c.check("spec-digest", r.is_ok(), "spec-digest", || r.unwrap_err()); }
        }
        observe_env(c, &e1, true);
        observe_env(c, &e2, true);
        if let (Some(x), Some(y), Some(z)) = (c.env(&e1), c.env(&e2), c.env(&e3)) {
            let same = shape(&x) == shape(&y) && shape(&x) == shape(&z);
            c.check("route-independent", same, "route-independent", || format!("{} vs {} vs {}", shape(&x), shape(&y), shape(&z)));
            for e in [&x, &y, &z] {
                let r = check_spec_digests(e);
                c.check("spec-digest", r.is_ok(), "spec-digest", || r.unwrap_err());
            }
        }
        c.end();
    }
}

/// position-by-position digest comparison of a transformed envelope with its original
pub(crate) fn check_positions(orig: &Envelope, res: &Envelope) -> Result<usize, String> {
    if orig.digest() != res.digest() { return Err(format!("root digest changed: {} -> {}", hex::encode(orig.digest().data()), hex::encode(res.digest().data()))); }
    let els = elements(res);
    for (p, x) in &els {
        match crate::interp::path_at(orig, p) {
            Some(y) => if y.digest() != x.digest() { return Err(format!("digest at {} changed", p)); },
            None => return Err(format!("position {} does not exist in the original", p)),
        }
    }
    Ok(els.len())
}

/// C02 - obscuring never changes a digest
pub fn c02(c: &mut Ctx, b: &Budget) {
    let cfg = GenCfg::default();
    for i in 0..b.scenarios {
        c.begin("obscure");
        let mut cur = gen_env(c, &cfg, 3);
        // optionally pre-obscure so that the input already contains obscured elements
        if i % 3 == 0 { let n = gen_obscure(c, &cur); if c.is_ok(&n) { cur = n; c.count("branch:pre-obscured"); } }
        observe_env(c, &cur, false);
        let rounds = c.rng.range(1, 3);
        for _ in 0..rounds {
            let orig = match c.env(&cur) { Some(e) => e, None => break };
            let next = match c.rng.below(10) {
                0..=5 => {
                    let (ts, paths) = gen_targets(c, &cur, 4, true);
                    // multi-position targets: does some target digest occur at >1 position?
                    let els = elements(&orig);
                    for p in &paths { if let Some(t) = crate::interp::path_at(&orig, p) { if els.iter().filter(|(_, x)| x.digest() == t.digest()).count() > 1 { c.count("branch:target-at-several-positions"); break; } } }
                    let mode = if c.rng.chance(1, 2) { "rem" } else { "rev" };
                    let act = gen_action(c);
                    c.count(&format!("action:{}:{}", mode, act.split(':').next().unwrap()));
                    c.assign(&format!("elide_set {} {} {} {}", cur, mode, act, ts))
                }
                6 => c.assign(&format!("elide {}", cur)),
                7 => { let n = hex::encode(c.rng.bytes(12)); c.assign(&format!("encrypt_subject {} {} {}", cur, KEY1, n)) }
                8 => c.assign(&format!("compress {}", cur)),
                _ => c.assign(&format!("compress_subject {}", cur)),
            };
            c.no_panic(&next, "obscuring");
            if let Some(r) = c.env(&next) {
                observe_env(c, &next, false);
                let v = check_positions(&orig, &r);
                c.count_n("positions-compared", v.as_ref().map(|n| *n as u64).unwrap_or(0));
                c.check("digests-preserved", v.is_ok(), "digests-preserved", || format!("{}: {} -> {}", v.unwrap_err(), shape(&orig), shape(&r)));
                cur = next;
            }
        }
        // a node whose subject is an already compressed (or encrypted) *node*, then targeted as a whole - at the root and nested
        if i % 4 == 1 {
            let inner = { let s0 = gen_leaf(c, &cfg); let a = gen_assertion(c, &cfg, 0); let n = c.assign(&format!("add {} {}", s0, a)); if c.rng.chance(1, 2) { let b2 = gen_assertion(c, &cfg, 0); c.assign(&format!("add {} {}", n, b2)) } else { n } };
            let z = if c.rng.chance(2, 3) { c.assign(&format!("compress {}", inner)) } else { let n = hex::encode(c.rng.bytes(12)); c.assign(&format!("encrypt {} {} {}", inner, KEY2, n)) };
            let a = gen_assertion(c, &cfg, 0);
            let outer = c.assign(&format!("add {} {}", z, a));
            let host = if c.rng.chance(1, 2) { outer.clone() } else { let p = gen_leaf(c, &cfg); let asr = c.assign(&format!("assertion {} {}", p, outer)); let s1 = gen_leaf(c, &cfg); c.assign(&format!("add {} {}", s1, asr)) };
            // the subject-level operations applied again to the node whose subject is obscured already
            if let Some(oe) = c.env(&outer) {
                for op in ["compress_subject", "compress", "elide"] {
                    let r = c.assign(&format!("{} {}", op, outer));
                    c.no_panic(&r, "obscuring");
                    if let Some(res) = c.env(&r) {
                        observe_env(c, &r, false);
                        let v = check_positions(&oe, &res);
                        c.check("digests-preserved", v.is_ok(), "digests-preserved", || format!("{} applied to a node whose subject is already obscured: {}: {} -> {}", op, v.unwrap_err(), shape(&oe), shape(&res)));
                    }
                }
                c.count("branch:subject-op-on-obscured-subject");
            }
            if let Some(orig) = c.env(&host) {
                for act in ["compress".to_string(), "elide".to_string(), format!("encrypt:{}", KEY1)] {
                    for mode in ["rem", "rev"] {
                        let ts = if mode == "rem" { outer.clone() } else { host.clone() };
                        let r = c.assign(&format!("elide_set {} {} {} {}", host, mode, act, ts));
                        c.count("branch:obscured-node-subject-targeted");
                        c.no_panic(&r, "obscuring");
                        if let Some(res) = c.env(&r) {
                            observe_env(c, &r, false);
                            let v = check_positions(&orig, &res);
                            c.check("digests-preserved", v.is_ok(), "digests-preserved", || format!("{}: {} -> {}", v.unwrap_err(), shape(&orig), shape(&res)));
                        }
                    }
                }
            }
        }
        // a decorated assertion whose core assertion is already obscured (`ELIDED [ 'note': ... ]` in an assertion slot), then the
        // subject-level operations, which rebuild the node around a new subject and must carry every assertion element over
        if i % 4 == 2 {
            let s0 = gen_leaf(c, &cfg);
            let core = { let p = gen_leaf(c, &cfg); let o = gen_leaf(c, &cfg); c.assign(&format!("assertion {} {}", p, o)) };
            let meta = gen_assertion(c, &cfg, 0);
            let dec = c.assign(&format!("add {} {}", core, meta));
            let mut host = c.assign(&format!("add {} {}", s0, dec));
            if c.rng.chance(1, 2) { let a = gen_assertion(c, &cfg, 0); let n = c.assign(&format!("add {} {}", host, a)); if c.is_ok(&n) { host = n; } }
            let act = match c.rng.below(3) { 0 => "elide".to_string(), 1 => "compress".to_string(), _ => format!("encrypt:{}", KEY2) };
            let pre = c.assign(&format!("elide_set {} rem {} {}", host, act, core));
            if let Some(pe) = c.env(&pre) {
                c.count("branch:decorated-assertion-with-obscured-core");
                let n = hex::encode(c.rng.bytes(12));
                for op in ["compress_subject".to_string(), format!("encrypt_subject_kn {} {}", KEY1, n), "elide_subject".to_string()] {
                    let r = match op.split(' ').next().unwrap() {
                        "compress_subject" => c.assign(&format!("compress_subject {}", pre)),
                        "encrypt_subject_kn" => c.assign(&format!("encrypt_subject {} {} {}", pre, KEY1, n)),
                        _ => { let t = c.assign(&format!("subject {}", pre)); c.assign(&format!("elide_set {} rem elide {}", pre, t)) }
                    };
                    c.no_panic(&r, "obscuring");
                    if let Some(res) = c.env(&r) {
                        observe_env(c, &r, false);
                        let v = check_positions(&pe, &res);
                        c.check("digests-preserved", v.is_ok(), "digests-preserved", || format!("{} on an envelope holding a decorated assertion with an obscured core: {}: {} -> {}", op, v.unwrap_err(), shape(&pe), shape(&res)));
                        // and back
                        let back = match op.split(' ').next().unwrap() { "compress_subject" => Some(c.assign(&format!("uncompress_subject {}", r))), "encrypt_subject_kn" => Some(c.assign(&format!("decrypt_subject {} {}", r, KEY1))), _ => None };
                        if let Some(bk) = back { if let Some(be) = c.env(&bk) { observe_env(c, &bk, false); let v = check_positions(&pe, &be); c.check("digests-preserved", v.is_ok() && be.is_identical_to(&pe), "digests-preserved", || format!("undoing {}: {} -> {}", op, shape(&pe), shape(&be))); } }
                    }
                }
            }
        }
        // assertions under the predicates the extensions use ('isA', 'signed', 'note', 'hasRecipient', 'sskrShare', 'salt', 'date',
        // 'attachment', 'vendor', 'conformsTo', 'body', 'result', 'error' ...) already present when the subject is obscured: every
        // one of them is still there afterwards
        if i % 4 == 0 {
            let mut e = gen_leaf(c, &cfg);
            if i % 8 == 0 { e = c.assign(&format!("wrap {}", e)); }
            let kvs = [1u64, 3, 4, 5, 6, 15, 16, 50, 51, 52, 100, 101, 102, 103, 13, 14];
            for k in 0..c.rng.range(2, 5) { let kv = kvs[(i / 4 + k * 5) % kvs.len()]; let p = c.assign(&format!("kv {}", kv)); let o = gen_leaf(c, &cfg); let a = c.assign(&format!("assertion {} {}", p, o)); let n = c.assign(&format!("add {} {}", e, a)); if c.is_ok(&n) { e = n; } }
            if let Some(orig) = c.env(&e) {
                let n = hex::encode(c.rng.bytes(12));
                for op in [format!("compress_subject {}", e), format!("encrypt_subject {} {} {}", e, KEY1, n), format!("compress {}", e), format!("elide {}", e)] {
                    let r = c.assign(&op);
                    c.no_panic(&r, "obscuring");
                    if let Some(res) = c.env(&r) { observe_env(c, &r, false); let v = check_positions(&orig, &res); c.check("digests-preserved", v.is_ok(), "digests-preserved", || format!("{} with extension-predicate assertions present: {}: {} -> {}", op.split(' ').next().unwrap(), v.unwrap_err(), shape(&orig), shape(&res))); }
                }
                c.count("branch:extension-predicates-present");
            }
        }
        // twin assertions - one predicate and object, decorated differently (salted twice, bare and salted, bare and annotated): the
        // subject-level operations re-attach every assertion element and must not take one twin for the other
        if i % 4 == 3 {
            let base = crate::props4::base_envelope(c, 1);
            let (p, o) = (format!("p{}", i % 5), format!("o{}", i % 3));
            let twins = match (i / 4) % 3 {
                0 => base.add_assertion_salted(p.as_str(), o.as_str(), true).add_assertion_salted(p.as_str(), o.as_str(), true),
                1 => base.add_assertion(p.as_str(), o.as_str()).add_assertion_salted(p.as_str(), o.as_str(), true),
                _ => base.add_assertion(p.as_str(), o.as_str()).add_assertion_envelope(Envelope::new_assertion(p.as_str(), o.as_str()).add_assertion("since", 2020)).unwrap(),
            };
            let key = bc_components::SymmetricKey::from_data_ref(hex::decode(KEY1).unwrap()).unwrap();
            if !twins.subject().is_encrypted() && !twins.subject().is_elided() && !twins.subject().is_compressed() {
                let r0 = crate::props4::import(c, &twins);
                let _ = r0;
                let results: Vec<(&str, Result<Envelope, String>)> = vec![
                    ("compress_subject", crate::interp::guarded(|| twins.compress_subject().unwrap())),
                    ("encrypt_subject", crate::interp::guarded(|| twins.encrypt_subject(&key).unwrap())),
                    ("elide subject", crate::interp::guarded(|| twins.elide_removing_target(&twins.subject()))),
                ];
                for (name, r) in results {
                    match r {
                        Ok(res) => { let v = check_positions(&twins, &res); c.check("digests-preserved", v.is_ok() && res.assertions().len() == twins.assertions().len(), "digests-preserved", || format!("{} on an envelope with twin assertions: {} -> {}", name, shape(&twins), shape(&res))); }
                        Err(site) => c.check("no-panic", false, "operation-under-test-returns", || format!("{} panicked at {}", name, site)),
                    }
                }
                c.count("branch:twin-assertions");
            }
        }
        // whole-envelope encrypt: digest of the wrapped original - also when the original is itself a bare wrapper
        for input in [cur.clone(), c.assign(&format!("wrap {}", cur)), { let w = c.assign(&format!("wrap {}", cur)); c.assign(&format!("wrap {}", w)) }] {
            if i % 5 != 0 && input == cur { continue; }
            let cur = input;
            if let Some(orig) = c.env(&cur) {
                let n = hex::encode(c.rng.bytes(12));
                let enc = c.assign(&format!("encrypt {} {} {}", cur, KEY1, n));
                let w = c.assign(&format!("wrap {}", cur));
                if let (Some(x), Some(y)) = (c.env(&enc), c.env(&w)) {
                    c.check("encrypt-whole-digest", x.digest() == y.digest(), "encrypt-whole-digest", || shape(&orig));
                }
            }
        }
        c.end();
    }
}

/// C04 - everything emitted is canonical and well-formed
pub fn c04(c: &mut Ctx, b: &Budget) {
    let cfg = GenCfg::default();
    for i in 0..b.scenarios {
        c.begin("history");
        let mut cur = gen_env(c, &cfg, if i % 2 == 0 { 1 } else { 2 });
        let steps = c.rng.range(2, 10);
        for s in 0..=steps {
            if let Some(e) = c.env(&cur) {
                observe_env(c, &cur, true);
                let r = check_grammar(&e);
                c.check("grammar", r.is_ok(), "grammar", || format!("{} in {}", r.unwrap_err(), shape(&e)));
                let r2 = check_spec_digests(&e);
                c.check("held-digests-recompute", r2.is_ok(), "held-digests-recompute", || r2.unwrap_err());
            }
            if s < steps {
                let next = random_op(c, &cur, &cfg);
                if c.is_ok(&next) { cur = next; }
            }
        }
        c.end();
    }
}

/// C04 (decode route): encodings spliced from pieces of the library's own output - a node whose assertion slot holds a node with
/// a non-assertion subject, elements out of order, a repeated element.  The decoder may refuse; what it returns is an envelope
/// the library emitted and must satisfy the grammar like any other.
pub fn c04_spliced(c: &mut Ctx, b: &Budget) {
    let cfg = GenCfg::default();
    for i in 0..(b.scenarios / 3).max(20) {
        c.begin("spliced-decode");
        let subj = gen_leaf(c, &cfg);
        let x = gen_env(c, &cfg, 2);
        let y = gen_assertion(c, &cfg, 1);
        if let (Some(se), Some(xe), Some(ye)) = (c.env(&subj), c.env(&x), c.env(&y)) {
            let parts: Vec<CBOR> = match i % 4 {
                0 => vec![se.untagged_cbor(), xe.untagged_cbor()],                                   // any envelope in an assertion slot
                1 => { let inner = if xe.is_node() { xe.clone() } else { xe.add_assertion_envelope(ye.clone()).unwrap_or(xe.clone()) }; vec![se.untagged_cbor(), inner.untagged_cbor()] } // a node (often with a non-assertion subject) in an assertion slot
                2 => vec![se.untagged_cbor(), ye.untagged_cbor(), ye.untagged_cbor()],               // repeated element
                _ => { let z = Envelope::new_assertion("z", 1); let (a1, a2) = if ye.digest() < z.digest() { (z.clone(), ye.clone()) } else { (ye.clone(), z.clone()) }; vec![se.untagged_cbor(), a1.untagged_cbor(), a2.untagged_cbor()] } // descending order
            };
            let bytes = CBOR::to_tagged_value(200u64, CBOR::from(CBORCase::Array(parts))).to_cbor_data();
            let d = c.assign(&format!("decode {}", hex::encode(&bytes)));
            c.count(&format!("branch:spliced-{}", i % 4));
            if let Some(e) = c.env(&d) {
                c.count("branch:spliced-accepted");
                observe_env(c, &d, true);
                let r = check_grammar(&e);
                c.check("grammar", r.is_ok(), "grammar", || format!("the decoder returned an envelope that violates the grammar: {} in {}", r.unwrap_err(), shape(&e)));
                let r2 = check_spec_digests(&e);
                c.check("held-digests-recompute", r2.is_ok(), "held-digests-recompute", || r2.unwrap_err());
            }
        }
        c.end();
    }
}

/// C05 - serialization round-trips exactly
pub fn c05(c: &mut Ctx, b: &Budget) {
    let mut cfg = GenCfg::default();
    cfg.small_alphabet = false;
    // every leaf of the alphabet on its own
    c.begin("leaves");
    for l in leaf_alphabet() {
        let r = c.assign(&format!("leaf {}", l));
        roundtrip(c, &r);
    }
    c.end();
    for i in 0..b.scenarios {
        c.begin("roundtrip");
        let mut cur = gen_env(c, &cfg, 3);
        if i % 2 == 0 { for _ in 0..c.rng.range(1, 3) { let n = gen_obscure(c, &cur); if c.is_ok(&n) { cur = n; } } }
        roundtrip(c, &cur);
        c.end();
    }
    // compressed elements whose content is extremely redundant (ratios of 100:1, 1000:1 and beyond), alone and inside a structure
    {
        c.begin("roundtrip-highly-compressible");
        let payloads: Vec<CBOR> = vec![CBOR::to_byte_string(vec![0u8; 8192]), "abc".repeat(4000).as_str().into(), "-".repeat(20000).as_str().into(), CBOR::to_byte_string(vec![0x5au8; 300_000]), "".into(), "a".into()];
        for p in payloads {
            let l = c.assign(&format!("leaf {}", hex::encode(p.to_cbor_data())));
            let z = c.assign(&format!("compress {}", l));
            roundtrip(c, &z);
            let pr = c.assign("leaf 626470"); let a = c.assign(&format!("assertion {} {}", pr, z)); let s0 = c.assign("leaf 01");
            let host = c.assign(&format!("add {} {}", s0, a));
            roundtrip(c, &host);
            let zz = c.assign(&format!("compress {}", host));
            roundtrip(c, &zz);
        }
        c.end();
    }
    // decoding must not depend on what was decoded before: a long run of rejected inputs (nested, so that the error passes through
    // several decoder frames), then valid envelopes again
    {
        c.begin("roundtrip-after-rejections");
        let deep = |n: usize| -> String { let mut v: Vec<u8> = vec![0xd8, 0xc8]; for _ in 0..n { v.extend_from_slice(&[0xd8, 0xc8]); } v.extend_from_slice(&[0xd8, 0x63, 0x01]); hex::encode(v) };   // wrappers around an unknown tag
        for k in 0..(if b.thorough { 2400 } else { 700 }) { let _ = c.assign(&format!("decode {}", deep(1 + k % 4))); }
        for _ in 0..3 { let cur = gen_env(c, &small_cfg(), 3); roundtrip(c, &cur); }
        c.end();
    }
    // envelopes reached through operation histories (the compositions no constructor makes:
    // obscured copies of present assertions, replaced subjects, removed assertions, decrypted / uncompressed results)
    let small = GenCfg::default();
    for i in 0..b.scenarios {
        c.begin("roundtrip-history");
        let mut cur = gen_env(c, &small, if i % 2 == 0 { 1 } else { 2 });
        let steps = c.rng.range(2, 8);
        for _ in 0..steps {
            let next = random_op(c, &cur, &small);
            if c.is_ok(&next) { cur = next; if c.rng.chance(1, 3) { roundtrip(c, &cur); } }
        }
        roundtrip(c, &cur);
        c.end();
    }
}

pub(crate) fn roundtrip(c: &mut Ctx, cur: &str) {
    let e = match c.env(cur) { Some(e) => e, None => return };
    observe_env(c, cur, true);
    let r = c.assign(&format!("recode {}", cur));
    match c.env(&r) {
        Some(d) => {
            observe_env(c, &r, true);
            c.obs(&format!("eq {} {}", cur, r));
            let b1 = e.tagged_cbor().to_cbor_data();
            let b2 = d.tagged_cbor().to_cbor_data();
            c.check("roundtrip-identical", e.is_identical_to(&d) && shape(&e) == shape(&d), "roundtrip-identical", || format!("{} -> {}", shape(&e), shape(&d)));
            c.check("roundtrip-bytes", b1 == b2, "roundtrip-bytes", || format!("{} vs {}", hex::encode(&b1), hex::encode(&b2)));
            // UR round trip: through the model too (the model has the real bytewords table and CRC-32)
            let ur = e.ur_string();
            if !has_opaque(&e) { c.obs(&format!("ur {}", cur)); }
            let u = c.assign(&format!("from_ur {}", ur));
            c.obs(&format!("shape {}", u));
            let uu = c.assign(&format!("from_ur {}", ur.to_uppercase()));
            c.obs(&format!("shape {}", uu));
            c.check("ur-roundtrip", c.env(&uu).map(|x| x.is_identical_to(&e)).unwrap_or(false), "ur-roundtrip", || format!("upper-case form of {} does not read back", ur));
            if c.rng.chance(1, 2) {
                // damaged strings: one letter changed, one letter dropped, another type, a second '/'
                let body_at = "ur:envelope/".len();
                let mut chars: Vec<char> = ur.chars().collect();
                let k = body_at + c.rng.below(chars.len() - body_at);
                let old = chars[k];
                let mut nc = (b'a' + c.rng.below(26) as u8) as char; if nc == old { nc = if old == 'z' { 'a' } else { ((old as u8) + 1) as char }; }
                chars[k] = nc;
                let changed: String = chars.iter().collect();
                let mut dropped = ur.clone(); dropped.remove(k);
                let retyped = ur.replacen("ur:envelope/", "ur:bytes/", 1);
                let two = ur.replacen("ur:envelope/", "ur:envelope/1-2/", 1);
                let noscheme = ur.replacen("ur:", "", 1);
                for (name, text) in [("letter-changed", changed), ("letter-dropped", dropped), ("other-type", retyped), ("multipart", two), ("no-scheme", noscheme)] {
                    let d = c.assign(&format!("from_ur {}", text));
                    let ok = c.is_ok(&d);
                    c.check("damaged-ur-rejected", !ok, "damaged-ur-accepted", || format!("{}: {} accepted", name, text));
                    c.count(&format!("ur-damage:{}", name));
                }
            }
            match Envelope::from_ur_string(&ur) {
                Ok(u) => c.check("ur-roundtrip", u.is_identical_to(&e) && u.tagged_cbor().to_cbor_data() == b1, "ur-roundtrip", || ur.clone()),
                Err(x) => c.check("ur-roundtrip", false, "ur-roundtrip", || format!("{}: {}", ur, x)),
            }
        }
        None => { let v = c_val(c, &r); c.check("roundtrip-decodes", false, "roundtrip-decodes", || format!("{:?} for {}", v, shape(&e))) }
    }
}

fn c_val(c: &Ctx, r: &str) -> String { c.val(r).show() }
fn small_cfg() -> GenCfg { GenCfg::default() }

/// all permutations of 0..n
fn permutations(n: usize) -> Vec<Vec<usize>> {
    if n == 0 { return vec![vec![]]; }
    let mut out = vec![];
    for p in permutations(n - 1) { for i in 0..=p.len() { let mut q = p.clone(); q.insert(i, n - 1); out.push(q); } }
    out
}

/// C07 - order- and route-independent assembly
pub fn c07(c: &mut Ctx, b: &Budget) {
    let cfg = GenCfg::default();
    for i in 0..b.scenarios {
        c.begin("permutations");
        let s = gen_env(c, &cfg, 1);
        let n = c.rng.range(2, if b.thorough { 5 } else { 4 });
        let asserts: Vec<String> = (0..n).map(|_| gen_assertion(c, &cfg, 1)).collect();
        // two different assertions with one digest (a known value n and a leaf holding #6.40000(n) hash alike; so do an element
        // and its obscured form): whichever is added first stays, so the result depends on the order - a recorded finding, keyed
        let collision = { let es: Vec<Envelope> = asserts.iter().filter_map(|a| c.env(a)).collect(); es.iter().enumerate().any(|(i2, x)| es.iter().skip(i2 + 1).any(|y| x.digest() == y.digest() && x.tagged_cbor().to_cbor_data() != y.tagged_cbor().to_cbor_data())) };
        if collision { c.count("branch:equal-digest-distinct-assertions"); }
        let perm_key = if collision { "equal-digest-distinct-assertions" } else { "permutation-invariant" };
        let mut perms = permutations(n);
        if !b.thorough && perms.len() > 8 { c.rng.shuffle(&mut perms); perms.truncate(8); }
        let mut first: Option<(String, Vec<u8>)> = None;
        for p in perms {
            let mut e = s.clone();
            for (k, &j) in p.iter().enumerate() {
                e = c.assign(&format!("add {} {}", e, asserts[j]));
                // repetition
                if i % 2 == 0 && k % 2 == 0 { let j2 = p[c.rng.below(k + 1)]; e = c.assign(&format!("add {} {}", e, asserts[j2])); c.count("branch:repetition"); }
            }
            if let Some(x) = c.env(&e) {
                c.obs(&format!("digest {}", e));
                let bytes = x.tagged_cbor().to_cbor_data();
                match &first {
                    None => { observe_env(c, &e, true); first = Some((e.clone(), bytes)); }
                    Some((_, b0)) => c.check("permutation-invariant", &bytes == b0, perm_key, || format!("order {:?}: {}", p, shape(&x))),
                }
            }
        }
        // the bulk route: the same set in one call, in another order and with repetitions (adjacent and not)
        if let Some((_, b0)) = first.clone() {
            let mut order: Vec<usize> = (0..n).collect();
            c.rng.shuffle(&mut order);
            let mut list: Vec<String> = order.iter().map(|&j| asserts[j].clone()).collect();
            match c.rng.below(4) {
                0 => {}
                1 => { let x = list[0].clone(); list.push(x); }                                  // [a, .., a]
                2 => { let x = list[0].clone(); list.insert(1, x); }                               // [a, a, ..]
                _ => { let k = c.rng.below(list.len()); let x = list[k].clone(); let at = c.rng.below(list.len() + 1); list.insert(at, x); }
            }
            let m = c.assign(&format!("add_many {} {}", s, list.join(",")));
            c.count("branch:bulk-route");
            if let Some(x) = c.env(&m) {
                c.obs(&format!("digest {}", m));
                c.check("bulk-route-invariant", x.tagged_cbor().to_cbor_data() == b0, if collision { perm_key } else { "bulk-route-invariant" }, || format!("add_many {:?}: {}", list, shape(&x)));
            }
        }
        // an element whose digest is already present is ignored whatever its form (revealed / elided / compressed / encrypted)
        if let Some((e, b0)) = first.clone() {
            let j = c.rng.below(n);
            let form = match c.rng.below(3) { 0 => c.assign(&format!("elide {}", asserts[j])), 1 => c.assign(&format!("compress {}", asserts[j])), _ => { let nn = hex::encode(c.rng.bytes(12)); c.assign(&format!("encrypt_subject {} {} {}", asserts[j], KEY1, nn)) } };
            if c.is_ok(&form) {
                let again = c.assign(&format!("add {} {}", e, form));
                c.obs(&format!("digest {}", again));
                if let Some(x) = c.env(&again) { c.check("present-digest-ignored", x.tagged_cbor().to_cbor_data() == b0, "add-idempotent", || format!("adding an obscured form of a present assertion changed the envelope: {}", shape(&x))); }
                // the other way round: the obscured form is there first, the revealed form is added
                let mut base = s.clone();
                for (k, a) in asserts.iter().enumerate() { base = c.assign(&format!("add {} {}", base, if k == j { &form } else { a })); }
                let again2 = c.assign(&format!("add {} {}", base, asserts[j]));
                c.obs(&format!("eq {} {}", base, again2));
                if let (Some(x), Some(y)) = (c.env(&base), c.env(&again2)) { c.check("present-digest-ignored", x.tagged_cbor().to_cbor_data() == y.tagged_cbor().to_cbor_data(), "add-idempotent", || format!("adding the revealed form next to its obscured form changed the envelope: {}", shape(&y))); }
                c.count("branch:present-digest-other-form");
            }
            // the `*_salted(.., false)` entry points are another route to the same envelope; a decorated copy of an
            // assertion and the bare assertion are different elements (different digests) and both stay, in any order
            let deco = { let aa = gen_assertion(c, &cfg, 0); c.assign(&format!("add {} {}", asserts[0], aa)) };
            let mut set: Vec<String> = asserts.clone(); set.push(deco);
            let mut reference = s.clone();
            for a in &set { reference = c.assign(&format!("add {} {}", reference, a)); }
            let refb = c.env(&reference).map(|x| x.tagged_cbor().to_cbor_data());
            for _ in 0..3 {
                let mut order = set.clone(); c.rng.shuffle(&mut order);
                let mut r = s.clone();
                for a in &order { r = c.assign(&format!("add_env_unsalted {} {}", r, a)); }
                c.obs(&format!("digest {}", r));
                if let (Some(x), Some(rb)) = (c.env(&r), refb.as_ref()) { c.check("unsalted-route-invariant", &x.tagged_cbor().to_cbor_data() == rb, perm_key, || format!("add_assertion_envelope_salted(.., false) in order {:?}: {}", order, shape(&x))); }
                let m = c.assign(&format!("add_many_unsalted {} {}", s, order.join(",")));
                c.obs(&format!("digest {}", m));
                if let (Some(x), Some(rb)) = (c.env(&m), refb.as_ref()) { c.check("unsalted-route-invariant", &x.tagged_cbor().to_cbor_data() == rb, perm_key, || format!("add_assertions_salted(.., false) {:?}: {}", order, shape(&x))); }
            }
            c.count("branch:unsalted-route");
        }
        // add-then-remove restores; remove last yields the subject; unwrap(wrap)
        if let Some((e, _)) = first.clone() {
            let base = c.env(&e).unwrap();
            let a = gen_assertion(c, &cfg, 1);
            let already = c.env(&a).map(|x| base.assertions().iter().any(|y| y.digest() == x.digest())).unwrap_or(true);
            let e2 = c.assign(&format!("add {} {}", e, a));
            let e3 = c.assign(&format!("remove {} {}", e2, a));
            c.obs(&format!("eq {} {}", e, e3));
            if !already {
                if let Some(z) = c.env(&e3) { c.check("remove-restores", z.tagged_cbor().to_cbor_data() == base.tagged_cbor().to_cbor_data(), "remove-restores", || shape(&z)); }
            }
            let e4 = c.assign(&format!("add {} {}", e2, a));
            c.obs(&format!("eq {} {}", e2, e4));
            if let (Some(x), Some(y)) = (c.env(&e2), c.env(&e4)) { c.check("add-idempotent", x.tagged_cbor().to_cbor_data() == y.tagged_cbor().to_cbor_data(), "add-idempotent", || shape(&y)); }
            let w = c.assign(&format!("wrap {}", e));
            let u = c.assign(&format!("unwrap {}", w));
            c.obs(&format!("eq {} {}", e, u));
            if let Some(y) = c.env(&u) { c.check("unwrap-wrap", y.tagged_cbor().to_cbor_data() == base.tagged_cbor().to_cbor_data() && y.is_identical_to(&base), "unwrap-wrap", || shape(&y)); }
            // ... whatever state the wrapped envelope is in: compressed, subject compressed / encrypted / elided, wrapped twice
            for pre in ["compress", "compress_subject", "elide", "wrap"] {
                let x = c.assign(&format!("{} {}", pre, e));
                let x = if pre == "wrap" && c.rng.chance(1, 2) { let n = hex::encode(c.rng.bytes(12)); c.assign(&format!("encrypt_subject {} {} {}", x, KEY1, n)) } else { x };
                if let Some(xe) = c.env(&x) {
                    let w = c.assign(&format!("wrap {}", x)); let u = c.assign(&format!("unwrap {}", w));
                    c.obs(&format!("eq {} {}", x, u));
                    if let Some(y) = c.env(&u) { c.check("unwrap-wrap", y.tagged_cbor().to_cbor_data() == xe.tagged_cbor().to_cbor_data() && y.is_identical_to(&xe), "unwrap-wrap", || format!("wrapped {} came back as {}", shape(&xe), shape(&y))); }
                }
            }
            // replace_assertion(x, y) is remove(x) then add(y), for x, y among: a present assertion, an obscured form of it, another
            // present one, an absent one
            {
                let na = base.assertions().len();
                if na >= 1 {
                    let i1 = c.rng.below(na); let a1 = c.assign(&format!("at {} a{}", e, i1));
                    let a1e = c.assign(&format!("elide {}", a1));
                    let a2 = if na >= 2 { c.assign(&format!("at {} a{}", e, (i1 + 1) % na)) } else { gen_assertion(c, &cfg, 0) };
                    let absent = gen_assertion(c, &cfg, 0);
                    let cands = [a1.clone(), a1e, a2, absent];
                    for x in &cands { for y in &cands {
                        let r1 = c.assign(&format!("replace_assertion {} {} {}", e, x, y));
                        let rm = c.assign(&format!("remove {} {}", e, x));
                        let r2 = c.assign(&format!("add {} {}", rm, y));
                        c.obs(&format!("eq {} {}", r1, r2));
                        if let (Some(p1), Some(p2)) = (c.env(&r1), c.env(&r2)) { c.check("replace-is-remove-then-add", p1.tagged_cbor().to_cbor_data() == p2.tagged_cbor().to_cbor_data(), "replace-route", || format!("replace_assertion gave {} but remove-then-add gives {}", shape(&p1), shape(&p2))); }
                        else { c.check("replace-is-remove-then-add", c.is_ok(&r1) == c.is_ok(&r2), "replace-route", || "one route fails, the other does not".into()); }
                    } }
                    c.count("branch:replace-routes");
                }
            }
            // receiver unchanged by every operation
            let before = base.tagged_cbor().to_cbor_data();
            for _ in 0..4 { let _ = random_op(c, &e, &cfg); }
            let after = c.env(&e).unwrap().tagged_cbor().to_cbor_data();
            c.check("receiver-unchanged", before == after, "receiver-unchanged", || shape(&base));
        }
        // single assertion: removing it yields the bare subject
        let a = gen_assertion(c, &cfg, 0);
        let one = c.assign(&format!("add {} {}", s, a));
        let back = c.assign(&format!("remove {} {}", one, a));
        c.obs(&format!("eq {} {}", s, back));
        if let (Some(x), Some(y)) = (c.env(&s), c.env(&back)) {
            if !x.is_node() { c.check("remove-last-yields-subject", x.tagged_cbor().to_cbor_data() == y.tagged_cbor().to_cbor_data(), "remove-last-yields-subject", || shape(&y)); }
        }
        c.end();
    }
    unordered_collections(c, b);
    near_equal_digests(c, b);
    replace_subject_overlap(c, b);
    big_nodes(c, b);
}

/// nodes with many assertions (around 16, 32, 64 - wherever a "small list" shortcut would end): present assertions re-added, in
/// every form; removal; replacement by an equal-digest form; order independence
fn big_nodes(c: &mut Ctx, b: &Budget) {
    for n in (if b.thorough { vec![7usize, 8, 9, 15, 16, 17, 31, 32, 33, 64, 65, 130] } else { vec![15usize, 16, 17, 33, 65] }) {
        c.begin("big-nodes");
        let s = c.assign(&format!("leaf {}", hex::encode(CBOR::from("bigs").to_cbor_data())));
        let asserts: Vec<String> = (0..n).map(|k| { let p = c.assign(&format!("leaf {}", hex::encode(CBOR::from(format!("p{}", k % 7).as_str()).to_cbor_data()))); let o = c.assign(&format!("leaf {}", hex::encode(CBOR::from(k as u64 * 37).to_cbor_data()))); c.assign(&format!("assertion {} {}", p, o)) }).collect();
        let mut e = s.clone();
        for a in &asserts { e = c.assign(&format!("add {} {}", e, a)); }
        let mut order = asserts.clone(); c.rng.shuffle(&mut order);
        let mut e2 = s.clone();
        for a in &order { e2 = c.assign(&format!("add {} {}", e2, a)); }
        c.obs(&format!("eq {} {}", e, e2));
        let base = match c.env(&e) { Some(x) => x, None => { c.end(); continue; } };
        if let Some(x2) = c.env(&e2) { c.check("order-independent", x2.is_identical_to(&base) && x2.tagged_cbor().to_cbor_data() == base.tagged_cbor().to_cbor_data(), "order-dependent", || format!("{} assertions in another order", n)); }
        observe_env(c, &e, true);
        roundtrip(c, &e);
        // every present assertion re-added - as it is, elided, compressed - changes nothing; removed and re-added restores
        for (k, a) in asserts.iter().enumerate() {
            if n > 20 && k % 5 != 0 && k != n - 1 { continue; }
            for form in ["", "elide", "compress"] {
                let x = if form.is_empty() { a.clone() } else { c.assign(&format!("{} {}", form, a)) };
                let r = c.assign(&format!("add {} {}", e, x));
                if let Some(re) = c.env(&r) { c.check("add-present-noop", re.is_identical_to(&base) && re.assertions().len() == n, "add-present-changes", || format!("re-adding assertion {} ({}) of a node with {} assertions gave {} assertions", k, if form.is_empty() { "as it is" } else { form }, n, re.assertions().len())); }
                c.obs(&format!("digest {}", r));
            }
            let rm = c.assign(&format!("remove {} {}", e, a));
            let back = c.assign(&format!("add {} {}", rm, a));
            c.obs(&format!("eq {} {}", e, back));
            if let (Some(rme), Some(be)) = (c.env(&rm), c.env(&back)) { c.check("remove-restores", rme.assertions().len() == n - 1 && be.is_identical_to(&base), "remove-restores", || format!("remove / add of assertion {} in a node with {} assertions", k, n)); }
            // removal is by digest: naming the assertion by an obscured form of it removes it just the same, and an obscured assertion that
            // was added is removed by naming it
            for form in ["elide", "compress"] {
                let x = c.assign(&format!("{} {}", form, a));
                let rm2 = c.assign(&format!("remove {} {}", e, x));
                c.obs(&format!("eq {} {}", rm, rm2));
                let added = c.assign(&format!("add {} {}", rm, x));
                let rm3 = c.assign(&format!("remove {} {}", added, x));
                c.obs(&format!("eq {} {}", rm, rm3));
                if let (Some(rme), Some(r2), Some(r3)) = (c.env(&rm), c.env(&rm2), c.env(&rm3)) {
                    c.check("remove-restores", r2.is_identical_to(&rme), "remove-restores", || format!("removing assertion {} named by its {} form: {} assertions left of {}", k, form, r2.assertions().len(), n));
                    c.check("remove-restores", r3.is_identical_to(&rme), "remove-restores", || format!("assertion {} added in its {} form and removed again: {} assertions instead of {}", k, form, r3.assertions().len(), n - 1));
                }
            }
            // replaced by an equal-digest form of itself: same digest, one element in that slot
            let el = c.assign(&format!("elide {}", a));
            let rp = c.assign(&format!("replace_assertion {} {} {}", e, a, el));
            c.no_panic(&rp, "replace_assertion");
            if let Some(rpe) = c.env(&rp) { c.check("replace-by-equal-digest", rpe.digest() == base.digest() && rpe.assertions().len() == n, "replace-by-equal-digest", || format!("replace_assertion(a, a.elide()) in a node with {} assertions gave {} assertions, digest preserved: {}", n, rpe.assertions().len(), rpe.digest() == base.digest())); }
        }
        let g = check_grammar(&base); c.check("grammar", g.is_ok(), "grammar", || g.unwrap_err());
        c.end();
    }
    // the smallest node: its only assertion replaced by an equal-digest form / by itself
    c.begin("big-nodes");
    let s = c.assign("leaf 01"); let p = c.assign("leaf 6170"); let o = c.assign("leaf 616f"); let a = c.assign(&format!("assertion {} {}", p, o));
    let e = c.assign(&format!("add {} {}", s, a));
    for form in ["elide", "compress", ""] {
        let x = if form.is_empty() { a.clone() } else { c.assign(&format!("{} {}", form, a)) };
        let r = c.assign(&format!("replace_assertion {} {} {}", e, a, x));
        c.no_panic(&r, "replace_assertion");
        c.obs(&format!("digest {}", r));
        if let (Some(re), Some(be)) = (c.env(&r), c.env(&e)) { c.check("replace-by-equal-digest", re.digest() == be.digest() && re.assertions().len() == 1, "replace-by-equal-digest", || format!("the only assertion replaced by its {} form: {}", if form.is_empty() { "own" } else { form }, shape(&re))); }
    }
    c.end();
}

/// `replace_subject` with a new subject that is a node already holding some of the receiver's assertions (or the receiver itself):
/// the result is the new subject with the receiver's assertions added - an assertion present on both sides stays once
fn replace_subject_overlap(c: &mut Ctx, b: &Budget) {
    let cfg = GenCfg::default();
    for r in 0..(if b.thorough { 60 } else { 15 }) {
        c.begin("replace-subject-overlap");
        let s1 = gen_leaf(c, &cfg); let s2 = gen_leaf(c, &cfg);
        let pool: Vec<String> = (0..4).map(|_| gen_assertion(c, &cfg, 1)).collect();
        let mut x = s1.clone(); let mut y = s2.clone();
        for (k, a) in pool.iter().enumerate() {
            if (r + k) % 3 != 2 { let n = c.assign(&format!("add {} {}", x, a)); if c.is_ok(&n) { x = n; } }
            if (r + k) % 2 == 0 { let n = c.assign(&format!("add {} {}", y, a)); if c.is_ok(&n) { y = n; } }
        }
        let y = if r % 5 == 0 { x.clone() } else { y };
        let res = c.assign(&format!("replace_subject {} {}", x, y));
        observe_env(c, &res, true);
        if let (Some(xe), Some(ye), Some(re)) = (c.env(&x), c.env(&y), c.env(&res)) {
            let want = xe.assertions().into_iter().fold(ye.clone(), |acc, a| acc.add_assertion_envelope(a).unwrap());
            c.check("replace-subject-is-add-all", re.is_identical_to(&want) && re.tagged_cbor().to_cbor_data() == want.tagged_cbor().to_cbor_data(), "replace-subject-overlap", || format!("{} onto {} gave {} instead of {}", shape(&xe), shape(&ye), shape(&re), shape(&want)));
            let g = check_grammar(&re); c.check("grammar", g.is_ok(), "grammar", || g.unwrap_err());
            let sd = check_spec_digests(&re); c.check("spec-digest", sd.is_ok(), "spec-digest", || sd.unwrap_err());
            roundtrip(c, &res);
            if r % 5 == 0 { c.check("replace-subject-by-itself", re.is_identical_to(&xe), "replace-subject-overlap", || format!("x.replace_subject(x) changed {} into {}", shape(&xe), shape(&re))); }
        }
        c.end();
    }
}

/// elements whose digests share a long prefix (elided elements carry whatever digest their producer wrote): ordering and duplicate
/// detection look at all 32 bytes
fn near_equal_digests(c: &mut Ctx, b: &Budget) {
    for r in 0..(if b.thorough { 40 } else { 10 }) {
        c.begin("near-equal-digests");
        let base = c.rng.bytes(32);
        let mut ds: Vec<Vec<u8>> = vec![];
        for k in 0..c.rng.range(2, 5) {
            let mut d = base.clone();
            // differ first at byte `at` (8, 16, 24, 31 and random spots), in ascending and descending directions
            let at = [8usize, 16, 24, 31, 1, 0][(r + k) % 6].min(31);
            d[at] = d[at].wrapping_add(1 + k as u8 * 7);
            for j in (at + 1)..32 { d[j] = c.rng.below(256) as u8; }
            if !ds.contains(&d) { ds.push(d); }
        }
        let s = c.assign("leaf 6173");
        let regs: Vec<String> = ds.iter().map(|d| { let mut v = vec![0xd8, 0xc8, 0x58, 0x20]; v.extend_from_slice(d); c.assign(&format!("decode {}", hex::encode(v))) }).collect();
        let mut results = vec![];
        for _ in 0..4 {
            let mut order = regs.clone(); c.rng.shuffle(&mut order);
            let mut e = s.clone();
            for a in &order { e = c.assign(&format!("add {} {}", e, a)); }
            observe_env(c, &e, true);
            roundtrip(c, &e);
            results.push(e);
        }
        let envs: Vec<Envelope> = results.iter().filter_map(|r| c.env(r)).collect();
        c.check("order-independent", envs.len() == results.len() && envs.windows(2).all(|w| w[0].is_identical_to(&w[1]) && w[0].tagged_cbor().to_cbor_data() == w[1].tagged_cbor().to_cbor_data()), "order-dependent", || format!("elided assertions with digests sharing a prefix, added in different orders: {}", envs.iter().map(shape).collect::<Vec<_>>().join(" | ")));
        if let Some(x) = envs.first() { let r = check_spec_digests(x); c.check("spec-digest", r.is_ok(), "spec-digest", || r.unwrap_err()); let g = check_grammar(x); c.check("grammar", g.is_ok(), "grammar", || g.unwrap_err()); }
        c.end();
    }
}

/// C07 (second half): equal unordered collections give equal leaves
fn unordered_collections(c: &mut Ctx, b: &Budget) {
    use std::collections::{HashMap, HashSet};
    let rounds = if b.thorough { 60 } else { 12 };
    for _ in 0..rounds {
        c.begin("collections");
        let n = c.rng.range(2, 8);
        let items: Vec<u64> = (0..n).map(|_| c.rng.next() % 1000).collect();
        let mut digests_set = HashSet::new();
        let mut digests_map = HashSet::new();
        let mut digests_dset = HashSet::new();
        let mut digests_dmap = HashSet::new();
        for _ in 0..6 {
            let mut order = items.clone();
            c.rng.shuffle(&mut order);
            let hs: HashSet<u64> = order.iter().cloned().collect();
            let hm: HashMap<u64, String> = order.iter().map(|k| (*k, format!("v{}", k))).collect();
            let mut ds = Set::new(); for k in &order { ds.insert(*k); }
            let mut dm = Map::new(); for k in &order { dm.insert(*k, format!("v{}", k)); }
            digests_set.insert(Envelope::new(hs).digest().into_owned());
            digests_map.insert(Envelope::new(hm).digest().into_owned());
            digests_dset.insert(Envelope::new(ds).digest().into_owned());
            digests_dmap.insert(Envelope::new(dm).digest().into_owned());
        }
        c.check("hashmap-deterministic", digests_map.len() == 1, "hashmap-order", || format!("{} digests for one HashMap {:?}", digests_map.len(), items));
        c.check("dcbor-set-deterministic", digests_dset.len() == 1, "dcbor-set-order", || format!("{} digests", digests_dset.len()));
        c.check("dcbor-map-deterministic", digests_dmap.len() == 1, "dcbor-map-order", || format!("{} digests", digests_dmap.len()));
        c.check("hashset-deterministic", digests_set.len() == 1, "hashset-order", || format!("{} different digests for one HashSet with elements {:?}", digests_set.len(), items));
        // sets nested inside another collection (element of a Vec, value of a HashMap) never reach the crate's own HashSet impl: the
        // outer conversion hands every element to dcbor, whose HashSet -> CBOR conversion keeps the hasher's order
        if items.iter().collect::<HashSet<_>>().len() >= 3 {
            let mut nested = HashSet::new(); let mut as_value = HashSet::new();
            for _ in 0..8 {
                let hs: HashSet<u64> = items.iter().cloned().collect();
                nested.insert(Envelope::new(vec![hs.clone()]).digest().into_owned());
                let mut hm: HashMap<String, HashSet<u64>> = HashMap::new(); hm.insert("k".into(), hs);
                as_value.insert(Envelope::new(hm).digest().into_owned());
            }
            c.check("nested-hashset-deterministic", nested.len() == 1 && as_value.len() == 1, "nested-hashset-order", || format!("Vec<HashSet<u64>> / HashMap<String, HashSet<u64>> over {:?} built 8 times gave {} / {} different digests", items, nested.len(), as_value.len()));
        }
        // two keys that are different Rust strings and one dCBOR text (NFC and NFD spellings): one entry survives, which one is the hasher's choice
        {
            let mut ds = HashSet::new();
            for _ in 0..16 { let mut m: HashMap<String, i32> = HashMap::new(); m.insert("\u{e9}".into(), 1); m.insert("e\u{301}".into(), 2); ds.insert(Envelope::new(m).digest().into_owned()); }
            c.check("colliding-keys-deterministic", ds.len() == 1, "hashmap-colliding-keys", || format!("HashMap {{\"\\u{{e9}}\": 1, \"e\\u{{301}}\": 2}} built 16 times gave {} different digests", ds.len()));
        }
        c.end();
    }
    // the same through the scenario language, so that the model (which inserts into the sorted map in the order given) is compared:
    // elements of every leaf kind, every order, with repetitions; sets and maps as subject, predicate and object
    let alphabet: Vec<String> = leaf_alphabet().into_iter().filter(|h| h.len() <= 40).collect();
    for r in 0..rounds {
        c.begin("collections-model");
        let n = c.rng.range(1, 7);
        let mut items: Vec<String> = vec![];
        while items.len() < n { let x = alphabet[c.rng.below(alphabet.len())].clone(); if !items.contains(&x) { items.push(x); } }
        if r % 4 == 0 { items.truncate(2); }     // small sets: the sizes where "nothing to order" shortcuts would live
        if r % 7 == 0 { items.truncate(1); }
        let mut regs_set = vec![]; let mut regs_map = vec![];
        for k in 0..4 {
            let mut order = items.clone(); c.rng.shuffle(&mut order);
            if k == 3 { let d = order[0].clone(); order.push(d); }      // a repeated insertion
            let op = if k % 2 == 0 { "set_leaf" } else { "dset_leaf" };
            let s = c.assign(&format!("{} {}", op, order.join(",")));
            observe_env(c, &s, true);
            regs_set.push(s);
            let pairs: Vec<String> = order.iter().map(|x| format!("{}={}", x, items[(items.iter().position(|y| y == x).unwrap() + 1) % items.len()])).collect();
            let op = if k % 2 == 0 { "map_leaf" } else { "dmap_leaf" };
            let m = c.assign(&format!("{} {}", op, pairs.join(",")));
            observe_env(c, &m, true);
            regs_map.push(m);
        }
        for regs in [&regs_set, &regs_map] {
            let ds: HashSet<Digest> = regs.iter().filter_map(|r| c.env(r)).map(|e| e.digest().into_owned()).collect();
            c.check("collection-order-independent", ds.len() == 1 && regs.iter().all(|r| c.is_ok(r)), "hashset-order", || format!("{} digests for one collection over {:?}", ds.len(), items));
        }
        // as predicate and object of an assertion on a subject that is a set
        let a = c.assign(&format!("assertion {} {}", regs_map[0], regs_set[1]));
        let host = c.assign(&format!("add {} {}", regs_set[0], a));
        roundtrip(c, &host);
        let a2 = c.assign(&format!("assertion {} {}", regs_map[2], regs_set[3]));
        let host2 = c.assign(&format!("add {} {}", regs_set[2], a2));
        c.obs(&format!("eq {} {}", host, host2));
        if let (Some(x), Some(y)) = (c.env(&host), c.env(&host2)) { c.check("collection-order-independent", x.is_identical_to(&y) && x.tagged_cbor().to_cbor_data() == y.tagged_cbor().to_cbor_data(), "hashset-order", || format!("{} vs {}", shape(&x), shape(&y))); }
        c.end();
    }
}

// ---------------------------------------------------------------------------------- C06

/// rewrite the deprecated leaf tag 24 to 201 at envelope positions (the only tolerated alias)
fn legacy_norm(c: &CBOR) -> CBOR {
    match c.as_case() {
        CBORCase::Tagged(t, item) => match t.value() {
            24 => CBOR::to_tagged_value(201u64, item.clone()),
            200 => CBOR::to_tagged_value(200u64, legacy_norm(item)),
            _ => c.clone(),
        },
        CBORCase::Array(xs) => CBORCase::Array(xs.iter().map(legacy_norm).collect()).into(),
        CBORCase::Map(m) => { let mut out = Map::new(); for (k, v) in m.iter() { out.insert(legacy_norm(k), legacy_norm(v)); } out.into() }
        _ => c.clone(),
    }
}

fn decode_case(c: &mut Ctx, family: &str, kind: &str, bytes: &[u8]) {
    c.begin(family);
    c.count(&format!("mutation:{}", kind));
    let hx = hex::encode(bytes);
    let r = if hx.is_empty() { c.assign("decode ") } else { c.assign(&format!("decode {}", hx)) };
    let v = c.val(&r);
    // classification of what the generator produced
    let parsed = CBOR::try_from_data(bytes);
    let g = match &parsed {
        Ok(cb) => match cb.as_case() { CBORCase::Tagged(t, inner) if t.value() == 200 => grammar(inner).map(|_| ()), _ => Err("missing envelope tag".to_string()) },
        Err(e) => Err(format!("not dCBOR: {}", e)),
    };
    c.count(if g.is_ok() { "input:grammatical" } else { "input:ungrammatical" });
    // every byte-level door gives the same verdict and the same envelope (from_tagged_cbor_data is the one the scenario uses)
    {
        let main = crate::interp::guarded(|| Envelope::from_tagged_cbor_data(bytes.to_vec()).ok().map(|e| e.tagged_cbor().to_cbor_data()));
        let door2 = crate::interp::guarded(|| Envelope::try_from_cbor_data(bytes.to_vec()).ok().map(|e| e.tagged_cbor().to_cbor_data()));
        let door3 = crate::interp::guarded(|| CBOR::try_from_data(bytes).ok().and_then(|cb| Envelope::try_from_cbor(cb).ok()).map(|e| e.tagged_cbor().to_cbor_data()));
        let door4 = crate::interp::guarded(|| CBOR::try_from_data(bytes).ok().and_then(|cb| Envelope::try_from(cb).ok()).map(|e| e.tagged_cbor().to_cbor_data()));
        c.check("decoder-doors-agree", main == door2 && main == door3 && main == door4, "decoder-doors-differ", || format!("{}: from_tagged_cbor_data {:?}, try_from_cbor_data {:?}, try_from_cbor {:?}, TryFrom<CBOR> {:?}", hx, main.as_ref().map(|o| o.as_ref().map(hex::encode)), door2.as_ref().map(|o| o.as_ref().map(hex::encode)), door3.as_ref().map(|o| o.as_ref().map(hex::encode)), door4.as_ref().map(|o| o.as_ref().map(hex::encode))));
    }
    match &v {
        crate::interp::Val::Panic(site) => { let site = site.clone(); c.check("decode-no-panic", false, "decode-panic", || format!("decode panicked at {} on {}", site, hx)); }
        crate::interp::Val::Env(e) => {
            c.count("decode:accepted");
            c.note_shape(e);
            c.obs(&format!("shape {}", r));
            c.obs(&format!("bytes {}", r));
            let re = e.tagged_cbor().to_cbor_data();
            let exact = re == bytes;
            let alias = !exact && parsed.as_ref().map(|cb| cb.to_cbor_data() == bytes && legacy_norm(cb).to_cbor_data() == re).unwrap_or(false);
            if alias { c.count("decode:legacy-alias"); }
            let why = match &g { Err(m) => m.clone(), Ok(()) => "grammar ok".into() };
            let dcbor_alias = parsed.as_ref().map(|cb| cb.to_cbor_data() != bytes).unwrap_or(false);
            let key = if dcbor_alias { "dcbor-noncanonical-number-accepted" } else if why.contains("ascending") { "accepts-misordered" } else if why.contains("repeated") { "accepts-repeated" }
                else if why.starts_with("encrypted") { "accepts-bad-encrypted" } else if why.starts_with("compressed") { "accepts-bad-compressed" }
                else { "accepts-noncanonical" };
            c.check("reencode-exact", exact || alias, key, || format!("decode accepted {} ({}; mutation {}) but re-encodes to {}", hx, why, kind, hex::encode(&re)));
            // the independent recogniser must agree on acceptance (modulo the alias)
            let g2 = if alias { Ok(()) } else { g.clone() };
            c.check("grammar-agrees", g2.is_ok() || !(exact || alias), key, || format!("decode accepted {} which the grammar rejects: {}", hx, why));
            let r2 = check_spec_digests(e);
            c.check("decoded-digests", r2.is_ok(), "decoded-digests", || r2.unwrap_err());
        }
        _ => { c.count("decode:rejected"); if g.is_ok() { c.count("decode:rejected-grammatical"); }
               if family == "valid" { let shown = v.show(); c.check("own-encoding-accepted", false, "own-encoding-rejected", || format!("the library's own encoding {} is refused: {}", hx, shown)); } }
    }
    c.end();
}

/// C06 - the decoder accepts only canonical envelopes and never crashes
pub fn c06(c: &mut Ctx, b: &Budget) {
    use crate::mutate::*;
    let mut cfg = GenCfg::default();
    cfg.small_alphabet = false;
    for (name, bytes) in handmade() { decode_case(c, "handmade", name, &bytes); }
    // the deprecated leaf tag #6.24 around every leaf of the alphabet, and around a byte string holding that leaf's encoding
    // (which "tag 24 = encoded CBOR" readers would unpack): read as #6.201 of the very same item, nothing else
    for l in leaf_alphabet() {
        let item = hex::decode(&l).unwrap();
        let mut direct = vec![0xd8, 0xc8, 0xd8, 0x18]; direct.extend_from_slice(&item);
        decode_case(c, "legacy-tag", "legacy-24-direct", &direct);
        let bs = CBOR::to_byte_string(item.clone()).to_cbor_data();
        let mut embedded = vec![0xd8, 0xc8, 0xd8, 0x18]; embedded.extend_from_slice(&bs);
        decode_case(c, "legacy-tag", "legacy-24-embedded-bytes", &embedded);
    }
    // deep encodings (the encoder's own output): runs of 250..260, 300, 513, 1025 wrappers, deep node-in-node and assertion chains -
    // accepted or refused, never a panic, and accepted ones re-encode exactly
    {
        let depths: Vec<usize> = if b.thorough { vec![31, 32, 33, 63, 64, 65, 127, 128, 129, 250, 255, 256, 257, 258, 259, 260, 300, 513, 1025] } else { vec![32, 33, 64, 65, 128, 129, 256, 257, 258, 300, 513] };
        for d in depths {
            let mut w: Vec<u8> = vec![]; for _ in 0..=d { w.extend_from_slice(&[0xd8, 0xc8]); } w.extend_from_slice(&[0xd8, 0xc9, 0x01]);
            decode_case(c, "deep-encoding", "wrappers", &w);
            // node whose subject is a node whose subject is ... (d levels), each with one assertion
            // (assembled as CBOR by hand, not through the decoder under test)
            let mut nn = Envelope::new("x").untagged_cbor();
            for k in 0..d.min(300) { nn = CBOR::from(vec![nn, Envelope::new_assertion(k as u64, 1).untagged_cbor()]); }
            decode_case(c, "deep-encoding", "node-under-node", &CBOR::to_tagged_value(200u64, nn).to_cbor_data());
            // what the API itself builds - wrap, add an assertion, wrap, ... - with a node on top and with a wrapper on top: the
            // encoder's own output is read back whatever its depth
            let mut wn = Envelope::new("x");
            for k in 0..d.min(300) { wn = wn.wrap_envelope().add_assertion(k as u64 % 3, 1); }
            for (what, top) in [("wrap-node-chain", wn.clone()), ("wrapped-wrap-node-chain", wn.wrap_envelope()), ("twice-wrapped-wrap-node-chain", wn.wrap_envelope().wrap_envelope())] {
                let bytes = top.tagged_cbor().to_cbor_data();
                decode_case(c, "deep-encoding", what, &bytes);
                let back = crate::interp::guarded(|| Envelope::try_from_cbor_data(bytes.clone()));
                c.check("own-output-decodes", matches!(&back, Ok(Ok(x)) if x.is_identical_to(&top)), "own-output-decodes", || format!("{} of depth {}: the encoder's output is not read back ({})", what, d, match &back { Ok(Ok(_)) => "another envelope".to_string(), Ok(Err(er)) => format!("refused: {}", er), Err(p) => format!("panic: {}", p) }));
            }
            let mut a = Envelope::new("bottom");
            for k in 0..d.min(300) { a = Envelope::new(k as u64).add_assertion("next", a); }
            decode_case(c, "deep-encoding", "object-chain", &a.tagged_cbor().to_cbor_data());
        }
    }
    // a valid encoding followed by one more byte, every value (white space, NUL, 0xff, a break code ...): trailing data is refused
    {
        let samples = [Envelope::new(1), Envelope::new("Alice").add_assertion("knows", "Bob"), Envelope::new("x").wrap_envelope(), Envelope::new("y").elide()];
        for (si, smp) in samples.iter().enumerate() {
            let base = smp.tagged_cbor().to_cbor_data();
            for v in 0..=255u8 { if !b.thorough && si > 0 && ![0x09u8, 0x0a, 0x0c, 0x0d, 0x20, 0x00, 0xff, 0xf6].contains(&v) { continue; } let mut x = base.clone(); x.push(v); decode_case(c, "trailing-byte", "appended-byte", &x); }
            for tail in [&b"\r\n"[..], &b"  "[..], &b"\n\n\n"[..], &b" \t"[..]] { let mut x = base.clone(); x.extend_from_slice(tail); decode_case(c, "trailing-byte", "appended-whitespace", &x); }
        }
    }
    // tags that are a real element tag plus a multiple of 2^8, 2^16, 2^32 (what a narrowing conversion would fold onto it), on the
    // outermost element and on inner ones
    {
        let inner_for = |t: u64| -> CBOR { match t { 200 => CBOR::to_tagged_value(201u64, "x"), 201 | 24 => CBOR::from("x"), 40002 | 40003 => CBOR::from(vec![CBOR::from(1)]), _ => CBOR::from(1) } };
        for t in [200u64, 201, 24, 40000, 40001, 40002, 40003] {
            for add in [1u64 << 8, 1 << 16, 1 << 24, 1 << 32, 1 << 33, 3 << 32, 1 << 48, 1 << 63] {
                let alias = t.wrapping_add(add);
                if [200u64, 201, 24, 40002, 40003].contains(&alias) { continue; }
                let elem = CBOR::to_tagged_value(alias, inner_for(t));
                decode_case(c, "tag-alias", "aliased-element-tag", &CBOR::to_tagged_value(200u64, elem.clone()).to_cbor_data());
                // as the object of an assertion inside a node
                let node = CBOR::from(vec![CBOR::to_tagged_value(201u64, "s"), CBOR::from({ let mut m = dcbor::Map::new(); m.insert(CBOR::to_tagged_value(201u64, "p"), elem.clone()); m })]);
                decode_case(c, "tag-alias", "aliased-element-tag-nested", &CBOR::to_tagged_value(200u64, node).to_cbor_data());
                // the outermost tag itself
                decode_case(c, "tag-alias", "aliased-outer-tag", &CBOR::to_tagged_value(200u64.wrapping_add(add), CBOR::to_tagged_value(201u64, "x")).to_cbor_data());
            }
        }
    }
    // rejected inputs whose *content* is awkward to describe: an unknown tag (and the other refusals) around long texts with
    // multi-byte characters at every offset, long byte strings, deep arrays - whatever an error message might quote or measure
    {
        let fillers = ["é", "€", "😀", "ｅ"];
        for pre in (0..70).step_by(if b.thorough { 1 } else { 3 }) {
            for f in fillers.iter().take(if b.thorough { 4 } else { 2 }) {
                let text = format!("{}{}", "a".repeat(pre), f.repeat(12));
                let item = CBOR::from(text.as_str()).to_cbor_data();
                for tag in [99u64, 40001, 4] {
                    let mut v = vec![0xd8, 0xc8]; v.extend_from_slice(&CBOR::to_tagged_value(tag, CBOR::try_from_data(&item).unwrap()).to_cbor_data());
                    decode_case(c, "awkward-content", "unknown-tag-around-non-ascii-text", &v);
                }
                // the text itself where an element is expected (not an envelope), and as a map key / array item of a refused shape
                let mut v = vec![0xd8, 0xc8]; v.extend_from_slice(&item); decode_case(c, "awkward-content", "bare-non-ascii-text", &v);
                let mut v = vec![0xd8, 0xc8, 0xa2]; v.extend_from_slice(&item); v.push(0x01); v.extend_from_slice(&[0x02, 0x03]); decode_case(c, "awkward-content", "two-entry-map-with-text-key", &v);
                let mut v = vec![0xd8, 0xc8, 0x81]; v.extend_from_slice(&item); decode_case(c, "awkward-content", "one-element-array-of-text", &v);
            }
        }
        for n in [33usize, 40, 41, 64, 255, 256, 1000] { let mut v = vec![0xd8, 0xc8]; v.extend_from_slice(&CBOR::to_tagged_value(99u64, CBOR::to_byte_string(vec![0xc3u8; n])).to_cbor_data()); decode_case(c, "awkward-content", "unknown-tag-around-bytes", &v); }
    }
    // encodings spliced from pieces of valid ones: any envelope / a node with a non-assertion subject in an assertion slot, a
    // repeated element, descending order, an obscured element out of place
    for i in 0..(b.scenarios / 2).max(40) {
        let mut scratch = Ctx::new("scratch", c.rng.next());
        scratch.begin("x");
        let subj = gen_leaf(&mut scratch, &cfg); let x = gen_env(&mut scratch, &cfg, 2); let y = gen_assertion(&mut scratch, &cfg, 1);
        if let (Some(se), Some(xe), Some(ye)) = (scratch.env(&subj), scratch.env(&x), scratch.env(&y)) {
            let z = Envelope::new_assertion("z", i as u64);
            let (hi, lo) = if ye.digest() < z.digest() { (z.clone(), ye.clone()) } else { (ye.clone(), z.clone()) };
            let (kind, parts): (&str, Vec<CBOR>) = match i % 6 {
                0 => ("spliced-any-in-slot", vec![se.untagged_cbor(), xe.untagged_cbor()]),
                1 => ("spliced-node-in-slot", { let inner = if xe.is_node() { xe.clone() } else { xe.add_assertion_envelope(ye.clone()).unwrap_or(xe.clone()) }; vec![se.untagged_cbor(), inner.untagged_cbor()] }),
                2 => ("spliced-leaf-node-in-slot", vec![se.untagged_cbor(), se.add_assertion_envelope(ye.clone()).unwrap().untagged_cbor()]),
                3 => ("spliced-repeated", vec![se.untagged_cbor(), ye.untagged_cbor(), ye.untagged_cbor()]),
                4 => ("spliced-descending", vec![se.untagged_cbor(), hi.untagged_cbor(), lo.untagged_cbor()]),
                _ => ("spliced-obscured-out-of-place", vec![se.untagged_cbor(), hi.untagged_cbor(), lo.elide().untagged_cbor()]),
            };
            let bytes = CBOR::to_tagged_value(200u64, CBOR::from(CBORCase::Array(parts))).to_cbor_data();
            decode_case(c, "spliced", kind, &bytes);
        }
    }
    for i in 0..b.scenarios {
        // a valid envelope, built silently on a scratch context
        let mut scratch = Ctx::new("scratch", c.rng.next());
        scratch.begin("x");
        let mut cur = gen_env(&mut scratch, &cfg, 3);
        if i % 2 == 0 { for _ in 0..scratch.rng.range(1, 2) { let n = gen_obscure(&mut scratch, &cur); if scratch.is_ok(&n) { cur = n; } } }
        let e = match scratch.env(&cur) { Some(e) => e, None => continue };
        let bytes = e.tagged_cbor().to_cbor_data();
        decode_case(c, "valid", "none", &bytes);
        let tree = CBOR::try_from_data(&bytes).unwrap();
        let n_mut = if b.thorough { 8 } else { 5 };
        for _ in 0..n_mut {
            let (m1, k1) = mutate_once(&mut c.rng, &tree);
            decode_case(c, "structural-1", k1, &m1.to_cbor_data());
            if c.rng.chance(1, 2) {
                let (m2, k2) = mutate_once(&mut c.rng, &m1);
                decode_case(c, "structural-2", k2, &m2.to_cbor_data());
            }
        }
        for _ in 0..n_mut {
            let (m, k) = byte_mutate(&mut c.rng, &bytes);
            decode_case(c, "byte", k, &m);
        }
        if i % 4 == 0 {
            let n = c.rng.range(1, 24);
            let mut rb = c.rng.bytes(n);
            if c.rng.chance(2, 3) { let mut p = vec![0xd8, 0xc8]; p.append(&mut rb); rb = p; }
            decode_case(c, "random", "random", &rb);
        }
    }
}

/// text that is not in Unicode NFC through every constructor route (&str, String, CBOR, decoded): one leaf, one digest, before and
/// after encoding; assertions built from it through different routes are one assertion
pub fn typed_text_routes(c: &mut Ctx, _b: &Budget, prop: &str) {
    c.begin("typed-text-routes");
    for t in ["Cafe\u{301}", "\u{212b}ngstr\u{f6}m", "\u{1112}\u{1161}\u{11ab}", "a\u{323}\u{307}", "e\u{301}\u{301}", "plain ascii", "\u{e9} precomposed", "nai\u{308}ve text that is longer than twenty-three bytes in any form"] {
        let by_str = Envelope::new(t); let by_string = Envelope::new(t.to_string()); let by_cbor = Envelope::new(CBOR::from(t));
        let decoded = Envelope::try_from_cbor_data(by_cbor.tagged_cbor().to_cbor_data()).ok();
        let same = |a: &Envelope, b2: &Envelope| a.digest() == b2.digest() && a.is_identical_to(b2) && a.tagged_cbor().to_cbor_data() == b2.tagged_cbor().to_cbor_data();
        c.check("equal-values-equal-digests", same(&by_str, &by_string) && same(&by_str, &by_cbor) && decoded.as_ref().map(|d| same(&by_str, d)).unwrap_or(false), "typed-text-route-differs", || format!("{:?}: &str {} String {} CBOR {} decoded {:?}", t, shape(&by_str), shape(&by_string), shape(&by_cbor), decoded.as_ref().map(shape)));
        let r = check_spec_digests(&by_str); c.check("spec-digest", r.is_ok(), "spec-digest", || r.unwrap_err());
        if prop == "C05" {
            for e in [by_str.clone(), Envelope::new("s").add_assertion(t, t.to_string()).add_assertion("k", t), Envelope::new(t).wrap_envelope()] {
                let imp = crate::props4::import(c, &e);
                roundtrip(c, &imp);
                let d = Envelope::try_from_cbor_data(e.tagged_cbor().to_cbor_data());
                c.check("roundtrip-identical", matches!(&d, Ok(x) if x.is_identical_to(&e) && x.digest() == e.digest()), "roundtrip-identical", || format!("{:?}: {} does not come back from its own encoding: {:?}", t, shape(&e), d.as_ref().map(shape).map_err(|x| x.to_string())));
            }
        } else {
            // C07: the same assertion through two routes is added once, removed by either
            let host = Envelope::new("host");
            let a1 = host.add_assertion("note", t); let a2 = a1.add_assertion("note", t.to_string()); let a3 = a2.add_assertion(CBOR::from("note"), CBOR::from(t));
            c.check("add-present-noop", same(&a1, &a2) && same(&a1, &a3) && a3.assertions().len() == 1, "add-present-changes", || format!("{:?} added through &str, String and CBOR: {}", t, shape(&a3)));
            let rm = a1.remove_assertion(Envelope::new_assertion("note", t.to_string()));
            c.check("remove-restores", same(&rm, &host), "remove-restores", || format!("{:?}: removing the String-built assertion does not undo the &str-built add: {}", t, shape(&rm)));
        }
    }
    c.end();
}

/// nodes of every size from 1 to 40 assertions (and a few larger), reached by adding, by removing from a larger one, by decoding,
/// with one assertion elided: specification digests and grammar at every size
pub fn node_sizes(c: &mut Ctx, b: &Budget, prop: &str) {
    c.begin("node-sizes");
    let s0 = c.assign("leaf 6173");
    let mut regs: Vec<String> = vec![];
    let max = if b.thorough { 70 } else { 40 };
    for k in 0..=max { let p = c.assign(&format!("leaf {}", hex::encode(CBOR::from(format!("q{}", k % 5).as_str()).to_cbor_data()))); let o = c.assign(&format!("leaf {}", hex::encode(CBOR::from(1000 + k as u64 * 13).to_cbor_data()))); regs.push(c.assign(&format!("assertion {} {}", p, o))); }
    let mut e = s0.clone();
    let mut by_size: Vec<String> = vec![];
    for a in &regs { e = c.assign(&format!("add {} {}", e, a)); by_size.push(e.clone()); }
    for (n, r) in by_size.iter().enumerate() {
        let env = match c.env(r) { Some(x) => x, None => continue };
        c.obs(&format!("digest {}", r));
        let v = check_spec_digests(&env); c.check("spec-digest", v.is_ok(), "spec-digest", || format!("node with {} assertions: {}", n + 1, v.unwrap_err()));
        if prop == "C04" { let g = check_grammar(&env); c.check("grammar", g.is_ok(), "grammar", || format!("node with {} assertions: {}", n + 1, g.unwrap_err())); }
        if n + 1 < by_size.len() && (n % 3 == 0 || (14..=17).contains(&n) || (30..=33).contains(&n)) {
            // the same node reached from the next larger one by a removal, and by decoding, and with one assertion elided
            let rm = c.assign(&format!("remove {} {}", by_size[n + 1], regs[n + 1]));
            c.obs(&format!("eq {} {}", r, rm));
            if let Some(x) = c.env(&rm) { let v = check_spec_digests(&x); c.check("spec-digest", v.is_ok() && x.digest() == env.digest(), "spec-digest", || format!("node with {} assertions reached by removal", n + 1)); }
            let rc = c.assign(&format!("recode {}", r));
            if let Some(x) = c.env(&rc) { let v = check_spec_digests(&x); c.check("spec-digest", v.is_ok() && x.digest() == env.digest(), "spec-digest", || format!("node with {} assertions decoded", n + 1)); }
            let el = c.assign(&format!("elide_set {} rem elide {}", r, regs[n / 2]));
            if let Some(x) = c.env(&el) { c.obs(&format!("digest {}", el)); let v = check_spec_digests(&x); c.check("spec-digest", v.is_ok() && x.digest() == env.digest(), "spec-digest", || format!("node with {} assertions, one elided", n + 1)); }
        }
    }
    c.end();
}
