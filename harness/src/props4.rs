//! Extension properties C09, C10, C11, C17, C18, C19: implementation-side oracles with real
//! cryptography; produced envelopes are also imported into the scenario (through their
//! encoding) so that the model re-derives every digest and shape.
use crate::ctx::Ctx;
use crate::gen::*;
use crate::interp::{guarded, shape, err_kind};
use crate::oracles::*;
use crate::props::Budget;
use bc_components::{ARID, DigestProvider, EncapsulationScheme, PrivateKeyBase, SSKRGroupSpec, SSKRSpec, Salt, SignatureScheme, SigningOptions, SigningPrivateKey, SigningPublicKey, SymmetricKey};
use bc_envelope::prelude::*;
use bc_envelope::SignatureMetadata;
use bc_components::Signer as _;
use std::collections::HashSet;

pub(crate) fn bytes_of(e: &Envelope) -> Vec<u8> { e.tagged_cbor().to_cbor_data() }

/// import an implementation-made envelope into the scenario: the model decodes the same
/// bytes, so shape, digest tree and re-encoding are compared
pub(crate) fn import(c: &mut Ctx, e: &Envelope) -> String {
    let r = c.assign(&format!("decode {}", hex::encode(bytes_of(e))));
    c.note_shape(e);
    c.obs(&format!("shape {}", r));
    c.obs(&format!("bytes {}", r));
    let ok = check_spec_digests(e);
    c.check("spec-digest", ok.is_ok(), "spec-digest", || ok.unwrap_err());
    r
}

pub(crate) fn base_envelope(c: &mut Ctx, depth: usize) -> Envelope {
    let mut scratch = Ctx::new("scratch", c.rng.next());
    scratch.begin("x");
    let cfg = GenCfg::default();
    // no pre-existing extension assertions ('signed', 'hasRecipient', 'sskrShare', 'isA', 'salt', attachments, result/error ...):
    // those are added deliberately by the families below
    const RESERVED: &[u64] = &[1, 3, 5, 6, 15, 16, 50, 51, 52];
    for _ in 0..50 {
        let r = gen_env(&mut scratch, &cfg, depth);
        if let Some(e) = scratch.env(&r) {
            let clean = elements(&e).iter().all(|(_, x)| x.as_known_value().map(|k| !RESERVED.contains(&k.value())).unwrap_or(true));
            if clean { return e; }
        }
    }
    Envelope::new("fallback")
}

pub(crate) struct Signer { pub name: &'static str, pub sk: SigningPrivateKey, pub pk: SigningPublicKey, pub opts: Option<SigningOptions> }

pub(crate) fn signers(thorough: bool) -> Vec<Signer> {
    let mut v = vec![];
    let mut schemes = vec![("schnorr", SignatureScheme::Schnorr), ("ecdsa", SignatureScheme::Ecdsa), ("ed25519", SignatureScheme::Ed25519), ("ssh-ed25519", SignatureScheme::SshEd25519), ("mldsa44", SignatureScheme::MLDSA44)];
    if thorough { schemes.push(("ssh-ecdsa-p256", SignatureScheme::SshEcdsaP256)); schemes.push(("mldsa65", SignatureScheme::MLDSA65)); }
    for (name, s) in schemes {
        let (sk, pk) = s.keypair();
        let opts = if name.starts_with("ssh") { Some(SigningOptions::Ssh { namespace: "test".into(), hash_alg: ssh_key_hash() }) } else { None };
        v.push(Signer { name, sk, pk, opts });
    }
    v
}

fn ssh_key_hash() -> ssh_key::HashAlg { ssh_key::HashAlg::Sha256 }

/// obscure parts of a signed envelope other than the 'signed' assertions
fn obscure_unsigned_parts(c: &mut Ctx, e: &Envelope) -> Envelope {
    let signed: HashSet<bc_components::Digest> = e.assertions_with_predicate(known_values::SIGNED).iter().flat_map(|a| elements(a).into_iter().map(|(_, x)| x.digest().into_owned())).collect();
    let cands: Vec<Envelope> = elements(e).into_iter().skip(1).map(|(_, x)| x).filter(|x| !signed.contains(&x.digest())).collect();
    if cands.is_empty() { return e.clone(); }
    let mut t = HashSet::new();
    for _ in 0..c.rng.range(1, 3) { t.insert(c.rng.pick(&cands).digest().into_owned()); }
    let key = SymmetricKey::from_data_ref(hex::decode(KEY1).unwrap()).unwrap();
    let act = match c.rng.below(3) { 0 => ObscureAction::Elide, 1 => ObscureAction::Compress, _ => ObscureAction::Encrypt(key) };
    e.elide_removing_set_with_action(&t, &act)
}

/// does some plain 'signed' assertion of `env` hold a signature that the dependency itself (bc-components, outside /repo)
/// accepts for `pk` over the subject digest?
fn raw_valid(env: &Envelope, pk: &SigningPublicKey) -> bool {
    let d = env.subject().digest().into_owned();
    env.assertions_with_predicate(known_values::SIGNED).iter().any(|a| a.subject().as_object().and_then(|o| o.extract_subject::<bc_components::Signature>().ok()).map(|sg| bc_components::Verifier::verify(pk, &sg, d.data())).unwrap_or(false))
}

/// SSH ECDSA keys from a seeded generator (key generation and RFC 6979 signing are deterministic, so every run sees the same
/// instances): a signature just made must verify under its own public key
fn c09_ssh_ecdsa(c: &mut Ctx, b: &Budget) {
    let n = if b.thorough { 1200u64 } else { 160 };
    c.begin("ssh-ecdsa-seeded");
    let e = Envelope::new("Hello.");
    for (name, scheme) in [("ssh-ecdsa-p256", SignatureScheme::SshEcdsaP256), ("ssh-ecdsa-p384", SignatureScheme::SshEcdsaP384)] {
        for seed in 0..n {
            let mut rng = bc_rand::SeededRandomNumberGenerator::new([seed, 1, 2, 3]);
            let (sk, pk) = match scheme.keypair_using(&mut rng, "") { Ok(x) => x, Err(_) => continue };
            let opts = Some(SigningOptions::Ssh { namespace: "test".into(), hash_alg: ssh_key_hash() });
            let signed = match guarded(|| e.add_signature_opt(&sk, opts.clone(), None)) { Ok(x) => x, Err(site) => { c.check("no-panic", false, "signing-panic", || site); continue; } };
            c.count(&format!("scheme:{}", name));
            let got = guarded(|| signed.has_signature_from(&pk));
            let ok = matches!(got, Ok(Ok(true)));
            if !ok {
                // whose fault? ask the dependency directly about the very signature object
                let dep_ok = raw_valid(&signed, &pk);
                let key = if dep_ok { "signature-lost" } else { "dependency-rejects-own-ssh-ecdsa-signature" };
                c.check("own-signature-verifies", false, key, || format!("{} key from SeededRandomNumberGenerator([{},1,2,3]), namespace \"test\", SHA-256, subject \"Hello.\": the signature just made does not verify under its own public key (bc-components' Verifier::verify on the same signature and digest says {})", name, seed, dep_ok));
            } else { c.check("own-signature-verifies", true, "signature-lost", || String::new()); }
        }
    }
    c.end();
}

/// C09 - signatures
/// an envelope carrying many 'signed' assertions (countersigners, signatures with metadata, objects that are no signatures): each genuine
/// signer verifies wherever its assertion sorts, alone, in thresholds and through the metadata door; a key that did not sign does not
fn c09_many_signed(c: &mut Ctx, b: &Budget) {
    for (round, total) in (if b.thorough { vec![17usize, 33, 40, 64, 100] } else { vec![17usize, 24, 40] }).into_iter().enumerate() {
        c.begin("many-signed");
        let e = if round % 2 == 0 { Envelope::new(format!("document {}", round)) } else { Envelope::new(format!("document {}", round)).add_assertion("k", round as u64).wrap_envelope() };
        let n_real = total / 2;
        let keys: Vec<(SigningPrivateKey, SigningPublicKey)> = (0..n_real).map(|k| [SignatureScheme::Ed25519, SignatureScheme::Schnorr, SignatureScheme::Ecdsa][k % 3].keypair()).collect();
        let (meta_sk, meta_pk) = SignatureScheme::Ed25519.keypair();
        let (_, stranger) = SignatureScheme::Ed25519.keypair();
        let mut x = e.clone();
        for (sk, _) in &keys { x = x.add_signature(sk); }
        x = x.add_signature_opt(&meta_sk, None, Some(bc_envelope::SignatureMetadata::new().with_assertion(known_values::NOTE, "with metadata")));
        // objects under 'signed' that are no signatures, and signatures of another message
        for k in 0..(total - n_real - 1) { x = if k % 2 == 0 { x.add_assertion(known_values::SIGNED, format!("no signature {}", k)) } else { x.add_assertion(known_values::SIGNED, keys[k % n_real].0.sign(&b"another message".to_vec()).unwrap()) }; }
        let n_signed = x.assertions_with_predicate(known_values::SIGNED).len();
        c.count_n("signed-assertions", n_signed as u64);
        for (k, (_, pk)) in keys.iter().enumerate() {
            let got = guarded(|| x.has_signature_from(pk));
            c.check("verifies-iff-signed", matches!(got, Ok(Ok(true))), "signature-lost", || format!("signer {} of {} on an envelope with {} 'signed' assertions: {:?}", k, n_real, n_signed, got.as_ref().map(|r| r.as_ref().map_err(|e| e.to_string()))));
        }
        let got = guarded(|| x.has_signature_from(&stranger));
        c.check("verifies-iff-signed", matches!(got, Ok(Ok(false))), "foreign-key-accepted", || format!("a key that did not sign, among {} 'signed' assertions: {:?}", n_signed, got.as_ref().map(|r| r.as_ref().map_err(|e| e.to_string()))));
        let got = guarded(|| x.has_signature_from_returning_metadata(&meta_pk).map(|m| m.is_some()));
        c.check("metadata-door", matches!(got, Ok(Ok(true))), "signature-lost", || format!("the signature with metadata among {} 'signed' assertions: {:?}", n_signed, got.as_ref().map(|r| r.as_ref().map_err(|e| e.to_string()))));
        let all: Vec<&dyn bc_envelope::Verifier> = keys.iter().map(|k| &k.1 as &dyn bc_envelope::Verifier).collect();
        for t in [1usize, n_real / 2, n_real.saturating_sub(1).max(1), n_real] {
            let got = guarded(|| x.has_signatures_from_threshold(&all, Some(t)));
            c.check("threshold-iff", matches!(got, Ok(Ok(true))), "threshold", || format!("threshold {} of {} genuine signers among {} 'signed' assertions: {:?}", t, n_real, n_signed, got.as_ref().map(|r| r.as_ref().map_err(|e| e.to_string()))));
        }
        let mut with_stranger = all.clone(); with_stranger.push(&stranger);
        let got = guarded(|| x.has_signatures_from_threshold(&with_stranger, Some(n_real + 1)));
        c.check("threshold-iff", matches!(got, Ok(Ok(false))), "threshold", || "threshold above the number of genuine signers was met".into());
        c.end();
    }
}

pub fn c09(c: &mut Ctx, b: &Budget) {
    c09_ssh_ecdsa(c, b);
    c09_many_signed(c, b);
    let sg = signers(b.thorough);
    let rounds = if b.thorough { b.scenarios / 10 } else { b.scenarios / 5 };
    for i in 0..rounds.max(10) {
        c.begin("sign");
        let e = base_envelope(c, 2);
        let k = c.rng.range(1, 3.min(sg.len()));
        let mut idx: Vec<usize> = (0..sg.len()).collect();
        c.rng.shuffle(&mut idx);
        let chosen: Vec<usize> = idx[..k].to_vec();
        let mut signed = e.clone();
        for &j in &chosen { signed = signed.add_signature_opt(&sg[j].sk, sg[j].opts.clone(), None); c.count(&format!("scheme:{}", sg[j].name)); }
        import(c, &signed);
        let verify_all = |c: &mut Ctx, env: &Envelope, what: &str| {
            for (j, s) in sg.iter().enumerate() {
                let want = chosen.contains(&j);
                let got = guarded(|| env.has_signature_from(&s.pk));
                match got {
                    Ok(Ok(v)) => c.check("verifies-iff-signed", v == want, if want { if s.name.starts_with("ssh-ecdsa") && !raw_valid(env, &s.pk) { "dependency-rejects-own-ssh-ecdsa-signature" } else { "signature-lost" } } else { "foreign-key-accepted" }, || format!("{}: key {} expected {} got {} on {}", what, s.name, want, v, shape(env))),
                    Ok(Err(x)) => c.check("verifies-iff-signed", false, "verification-error", || format!("{}: key {} expected {} got Err({}) on {}", what, s.name, want, x, shape(env))),
                    Err(site) => c.check("no-panic", false, "verification-panic", || site),
                }
                // verify_signature_from is has_signature_from with an error for `false`: the two must agree with each other
                let vr = guarded(|| env.verify_signature_from(&s.pk).is_ok());
                let has = guarded(|| env.has_signature_from(&s.pk).ok());
                c.check("verify-agrees", vr.is_err() || has.is_err() || has == vr.clone().map(Some), "verify-agrees", || format!("{}: verify_signature_from says {:?}, has_signature_from says {:?} for {}", what, vr, has, s.name));
            }
        };
        verify_all(c, &signed, "fresh");
        // survives obscuring of other parts and adding assertions
        let obsc = obscure_unsigned_parts(c, &signed);
        if obsc.digest() == signed.digest() { import(c, &obsc); verify_all(c, &obsc, "after obscuring other parts"); c.count("branch:obscured-after-signing"); }
        // the 'signed' predicate is a part of the envelope like any other: obscuring it changes no digest
        {
            let mut t = HashSet::new(); t.insert(Envelope::new(known_values::SIGNED).digest().into_owned());
            let key = SymmetricKey::from_data_ref(hex::decode(KEY1).unwrap()).unwrap();
            for act in [ObscureAction::Elide, ObscureAction::Compress, ObscureAction::Encrypt(key)] {
                let x = signed.elide_removing_set_with_action(&t, &act);
                if x.digest() == signed.digest() { import(c, &x); verify_all(c, &x, "after obscuring the 'signed' predicate"); c.count("branch:signed-predicate-obscured"); }
            }
        }
        // merging in a copy of the same envelope that discloses less (its 'signed' assertions elided, compressed, or their objects elided):
        // what is already held in the clear stays, and the signatures keep verifying
        for sa in signed.assertions_with_predicate(known_values::SIGNED) {
            let mut forms = vec![sa.elide(), sa.compress().unwrap_or(sa.clone())];
            if let Some(o) = sa.as_object() { forms.push(sa.elide_removing_target(&o)); }
            for f in forms {
                for merged in [guarded(|| signed.add_assertion_envelope(f.clone()).unwrap()), guarded(|| signed.add_assertions(&[f.clone()])), guarded(|| signed.add_assertion_envelope_salted(f.clone(), false).unwrap())] {
                    if let Ok(m) = merged { c.check("add-present-noop", m.is_identical_to(&signed), "signature-lost", || format!("adding a less disclosing copy of a held 'signed' assertion changed the envelope: {} -> {}", shape(&signed), shape(&m))); verify_all(c, &m, "after merging a redacted copy of a signature"); }
                }
            }
        }
        let more = signed.add_assertion("later", i as u64).add_assertion(known_values::NOTE, "added after signing");
        verify_all(c, &more, "after adding assertions");
        let enc = guarded(|| signed.encrypt_subject(&SymmetricKey::new()));
        if let Ok(Ok(x)) = enc { verify_all(c, &x, "after encrypting the subject"); }
        if let Ok(x) = signed.compress_subject() { verify_all(c, &x, "after compressing the subject"); }
        // with two or more signers: obscuring another signer's signature object must not disturb this signer
        if chosen.len() >= 2 {
            let sigs = signed.assertions_with_predicate(known_values::SIGNED);
            for victim in &sigs {
                let obj = victim.as_object().unwrap();
                let mut t = HashSet::new(); t.insert(obj.digest().into_owned());
                let x = signed.elide_removing_set(&t);
                // who signed the victim?
                for &j in &chosen {
                    let s = &sg[j];
                    let is_victims = obj.extract_subject::<bc_components::Signature>().map(|sgn| bc_components::Verifier::verify(&s.pk, &sgn, e.subject().digest().data())).unwrap_or(false);
                    if is_victims { continue; }
                    if s.name.starts_with("ssh-ecdsa") && !raw_valid(&signed, &s.pk) { continue; }
                    let got = guarded(|| x.has_signature_from(&s.pk));
                    c.count("branch:other-signature-elided");
                    c.check("verifies-with-other-signature-elided", matches!(got, Ok(Ok(true))), "order-dependent-error", || format!("key {} no longer verifies after ANOTHER signer's signature object was elided: {:?} on {}", s.name, got.map(|r| r.map_err(|e| e.to_string())), shape(&x)));
                }
            }
        }
        // a different subject does not verify
        let other = base_envelope(c, 1);
        if other.subject().digest() != signed.subject().digest() {
            let mut t = other.clone();
            for a in signed.assertions_with_predicate(known_values::SIGNED) { t = t.add_assertion_envelope(a).unwrap(); }
            for &j in &chosen { let got = guarded(|| t.has_signature_from(&sg[j].pk)); c.check("other-subject-rejected", matches!(got, Ok(Ok(false))), "other-subject-accepted", || format!("{:?}", got.map(|r| r.map_err(|e| e.to_string())))); }
        }
        // one signer contributing two distinct 'signed' assertions still counts once
        if let Some(&j0) = chosen.first() {
            let twice = signed.add_signature_opt(&sg[j0].sk, sg[j0].opts.clone(), None).add_signature_opt(&sg[j0].sk, sg[j0].opts.clone(), Some(SignatureMetadata::new().with_assertion(known_values::NOTE, "again")));
            let absent: Vec<usize> = (0..sg.len()).filter(|j| !chosen.contains(j)).collect();
            if let Some(&ja) = absent.first() {
                let got = guarded(|| twice.has_signatures_from_threshold(&[&sg[j0].pk as &dyn bc_envelope::Verifier, &sg[ja].pk as &dyn bc_envelope::Verifier], Some(2)));
                c.check("threshold-counts-signers", matches!(got, Ok(Ok(false))), "threshold-counts-signatures", || format!("two signatures of one signer satisfied a threshold of 2 over [signer, non-signer]: {:?}", got.map(|r| r.map_err(|e| e.to_string()))));
                c.count("branch:double-signature");
            }
        }
        // thresholds above the number of keys, over lists in which EVERY key has signed (nothing is missing - only the number is too large)
        {
            let signed_keys: Vec<&dyn bc_envelope::Verifier> = chosen.iter().filter(|&&j| !sg[j].name.starts_with("ssh-ecdsa")).map(|&j| &sg[j].pk as &dyn bc_envelope::Verifier).collect();
            if !signed_keys.is_empty() {
                for t in [signed_keys.len(), signed_keys.len() + 1, signed_keys.len() + 7, usize::MAX] {
                    let h = guarded(|| signed.has_signatures_from_threshold(&signed_keys, Some(t)).ok());
                    let v = guarded(|| signed.verify_signatures_from_threshold(&signed_keys, Some(t)).is_ok());
                    let want = t <= signed_keys.len();
                    c.check("threshold-iff", h == Ok(Some(want)) && v == Ok(want), "threshold", || format!("every one of {} keys has signed, threshold {}: has = {:?}, verify = {:?}", signed_keys.len(), t, h, v));
                }
            }
        }
        // threshold
        let keys: Vec<&dyn bc_envelope::Verifier> = sg.iter().map(|s| &s.pk as &dyn bc_envelope::Verifier).collect();
        // (a signer whose own signature the dependency refuses - the recorded SSH-ECDSA finding, reported by verify_all above - does not count)
        let valid = chosen.iter().filter(|&&j| !(sg[j].name.starts_with("ssh-ecdsa") && !raw_valid(&signed, &sg[j].pk))).count();
        for t in 1..=(sg.len() + 1) {
            let got = guarded(|| signed.has_signatures_from_threshold(&keys, Some(t)));
            c.check("threshold-iff", matches!(got, Ok(Ok(v)) if v == (valid >= t)), "threshold", || format!("threshold {} with {} valid of {}: {:?}", t, valid, sg.len(), got.map(|r| r.map_err(|e| e.to_string()))));
            // the chaining form is the same verdict as an error
            let v = guarded(|| signed.verify_signatures_from_threshold(&keys, Some(t)).is_ok());
            let h = guarded(|| signed.has_signatures_from_threshold(&keys, Some(t)).unwrap_or(false));
            c.check("threshold-iff", v == h, "threshold", || format!("threshold {} over {} keys: verify_signatures_from_threshold says {:?}, has_signatures_from_threshold says {:?}", t, keys.len(), v, h));
        }
        let got = guarded(|| signed.has_signatures_from(&keys));
        c.check("threshold-none-means-all", matches!(got, Ok(Ok(v)) if v == (valid == sg.len())), "threshold", || "None threshold".into());
        let sub: Vec<&dyn bc_envelope::Verifier> = chosen.iter().map(|&j| &sg[j].pk as &dyn bc_envelope::Verifier).collect();
        let got = guarded(|| signed.has_signatures_from(&sub));
        // (every signer listed: true unless one of them is the recorded SSH-ECDSA signer whose own signature the dependency refuses)
        c.check("threshold-none-means-all", matches!(got, Ok(Ok(v)) if v == (valid == chosen.len())), "threshold", || "all signers listed".into());
        c.end();
    }
    // metadata and adversarial 'signed' assertions
    for _ in 0..rounds.max(10) {
        c.begin("metadata");
        let e = base_envelope(c, 1);
        let a = &sg[c.rng.below(3)];
        let bkey = &sg[(c.rng.below(2) + 3) % sg.len()];
        let meta = SignatureMetadata::new().with_assertion(known_values::NOTE, "genuine");
        let signed = e.add_signature_opt(&a.sk, a.opts.clone(), Some(meta));
        import(c, &signed);
        let got = guarded(|| signed.verify_signature_from_returning_metadata(&a.pk));
        match got {
            Ok(Ok(m)) => {
                let note = m.extract_object_for_predicate::<String>(known_values::NOTE).unwrap_or_default();
                c.check("metadata-returned", note == "genuine", "metadata-returned", || shape(&m));
            }
            other => c.check("metadata-returned", false, "metadata-returned", || format!("{:?}", other.map(|r| r.map(|_| ()).map_err(|e| e.to_string())))),
        }
        // a signature-with-metadata moved onto another document must not verify there
        let other_doc = base_envelope(c, 1);
        if other_doc.subject().digest() != e.subject().digest() {
            if let Ok(so) = signed.object_for_predicate(known_values::SIGNED) {
                let moved = other_doc.add_assertion(known_values::SIGNED, so);
                let got = guarded(|| moved.has_signature_from(&a.pk));
                c.check("metadata-signature-bound-to-subject", matches!(got, Ok(Ok(false))), "transplanted-signature-accepted", || format!("{:?} on {}", got.map(|r| r.map_err(|e| e.to_string())), shape(&moved)));
                let got = guarded(|| moved.verify_signature_from_returning_metadata(&a.pk));
                c.check("metadata-signature-bound-to-subject", !matches!(got, Ok(Ok(_))), "transplanted-signature-accepted", || "metadata returned for another subject".into());
            }
        }
        // a whole metadata assertion inside the signature object obscured (its digest, and so the wrapper's, is unchanged)
        {
            let note_a = Envelope::new_assertion(known_values::NOTE, "genuine");
            let key = SymmetricKey::from_data_ref(hex::decode(KEY1).unwrap()).unwrap();
            for act in [ObscureAction::Elide, ObscureAction::Compress, ObscureAction::Encrypt(key)] {
                let x = signed.elide_removing_target_with_action(&note_a, &act);
                if x.digest() == signed.digest() && !x.is_identical_to(&signed) {
                    let got = guarded(|| x.has_signature_from(&a.pk));
                    c.check("verifies-with-metadata-assertion-obscured", matches!(got, Ok(Ok(true))), "signature-lost", || format!("after obscuring the metadata assertion inside the signature object: {:?} on {}", got.map(|r| r.map_err(|e| e.to_string())), shape(&x)));
                    let got = guarded(|| x.verify_signature_from_returning_metadata(&a.pk));
                    c.check("verifies-with-metadata-assertion-obscured", matches!(got, Ok(Ok(_))), "signature-lost", || "verify_signature_from_returning_metadata".into());
                    c.count("branch:metadata-assertion-obscured");
                }
            }
        }
        // the outer 'signed' predicate inside the signature-with-metadata object, obscured
        {
            let mut t = HashSet::new(); t.insert(Envelope::new(known_values::SIGNED).digest().into_owned());
            let x = signed.elide_removing_set(&t);
            if x.digest() == signed.digest() {
                let got = guarded(|| x.verify_signature_from_returning_metadata(&a.pk));
                c.check("metadata-with-signed-predicate-elided", matches!(got, Ok(Ok(_))), "signature-lost", || format!("after eliding every 'signed' predicate: {:?} on {}", got.map(|r| r.map(|_| ()).map_err(|e| e.to_string())), shape(&x)));
            }
        }
        let got = guarded(|| signed.has_signature_from(&bkey.pk));
        c.check("metadata-other-key-rejected", matches!(got, Ok(Ok(false))), "metadata-other-key", || format!("{:?}", got.map(|r| r.map_err(|e| e.to_string()))));
        // forged: inner signature by A is genuine (copied), metadata wrapper is NOT signed at all
        let inner_sig = a.sk.sign_with_options(e.subject().digest().data(), a.opts.clone()).unwrap();
        let forged_wrapper = Envelope::new(inner_sig.clone()).add_assertion(known_values::NOTE, "forged").wrap_envelope();
        let forged = e.add_assertion(known_values::SIGNED, forged_wrapper.clone());
        import(c, &forged);
        let got = guarded(|| forged.verify_signature_from_returning_metadata(&a.pk));
        c.check("unsigned-metadata-rejected", !matches!(got, Ok(Ok(_))), "unsigned-metadata-accepted", || format!("metadata wrapper without any outer signature accepted: {}", shape(&forged)));
        // forged: wrapper signed by ANOTHER key
        let outer_by_b = bkey.sk.sign_with_options(forged_wrapper.digest().data(), bkey.opts.clone()).unwrap();
        let forged2 = e.add_assertion(known_values::SIGNED, forged_wrapper.add_assertion(known_values::SIGNED, outer_by_b));
        let got = guarded(|| forged2.verify_signature_from_returning_metadata(&a.pk));
        c.check("foreign-signed-metadata-rejected", !matches!(got, Ok(Ok(_))), "foreign-signed-metadata-accepted", || shape(&forged2));
        // a plain (unwrapped) signature object that someone decorated with assertions of their own: the signature is genuine,
        // but nothing covers those assertions - whatever is returned as metadata must not carry them
        for levels in [1usize, 2] {
            let mut decorated = Envelope::new(inner_sig.clone()).add_assertion(known_values::NOTE, "forged");
            if levels == 2 { decorated = decorated.compress().unwrap().add_assertion("more", "forged").uncompress_subject().unwrap_or(decorated.clone()); }
            let x = e.add_assertion(known_values::SIGNED, decorated.clone());
            import(c, &x);
            let got = guarded(|| x.verify_signature_from_returning_metadata(&a.pk));
            c.count("branch:decorated-plain-signature");
            match got {
                Ok(Ok(m)) => {
                    let unsigned: Vec<String> = elements(&m).iter().filter(|(_, el)| el.digest() == Envelope::new("forged").digest()).map(|(p, _)| p.clone()).collect();
                    c.check("returned-metadata-covered", unsigned.is_empty(), "unsigned-metadata-returned", || format!("verify_signature_from_returning_metadata returned {} whose assertions no signature covers (signature object {})", shape(&m), shape(&decorated)));
                }
                Ok(Err(_)) => {}
                Err(site) => c.check("no-panic", false, "verification-panic", || site),
            }
        }
        // non-signature object next to a genuine signature: verification must still succeed
        let plain = e.add_signature_opt(&a.sk, a.opts.clone(), None);
        for junk in [Envelope::new("not a signature"), Envelope::new(42), Envelope::new(known_values::UNKNOWN_VALUE), Envelope::new("x").wrap_envelope()] {
            let x = plain.add_assertion(known_values::SIGNED, junk.clone());
            let got = guarded(|| x.has_signature_from(&a.pk));
            c.check("junk-signed-object-ignored", matches!(got, Ok(Ok(true))), "order-dependent-error", || format!("a genuine signature is present but a 'signed' assertion with object {} makes verification return {:?}", shape(&junk), got.map(|r| r.map_err(|e| e.to_string()))));
            let got = guarded(|| x.has_signature_from(&bkey.pk));
            c.check("junk-signed-object-ignored", matches!(got, Ok(Ok(false)) | Ok(Err(_))), "junk-accepted", || "junk object verified".into());
        }
        c.end();
    }
}

/// C09, model side: the verification glue on adversarial combinations of 'signed' assertions,
/// compared with the model under the idealised scheme "exactly the registered triples verify"
pub fn c09_glue(c: &mut Ctx, b: &Budget) {
    use crate::interp::sig_key;
    let rounds = (b.scenarios / 2).max(20);
    let cfg = GenCfg::default();
    for i in 0..rounds {
        c.begin("glue");
        let mut e = gen_env(c, &cfg, 1);
        let subject_digest = match c.env(&e) { Some(x) => x.subject().digest().into_owned(), None => { c.end(); continue; } };
        let nkeys = 3u64;
        let mut valid: Vec<u64> = vec![];
        // a random mixture of 'signed' assertions: genuine, for another message, wrapped with metadata
        // (properly signed, unsigned, foreign-signed, inner by another key), junk objects, elided ones
        let n = c.rng.range(1, 4);
        for _ in 0..n {
            let kid = 1 + c.rng.below(nkeys as usize) as u64;
            let (sk, _) = sig_key(kid);
            let sign = |c: &mut Ctx, kid: u64, msg: &bc_components::Digest| -> String {
                let (sk, _) = sig_key(kid);
                let sg = sk.sign_with_options(msg.data(), None).unwrap();
                let leaf = Envelope::new(sg);
                let hx = hex::encode(leaf.as_leaf().unwrap().to_cbor_data());
                c.line(format!("fact sig {} {} {}", kid, hx, hex::encode(msg.data())));
                c.assign(&format!("leaf {}", hx))
            };
            let _ = sk;
            match c.rng.below(9) {
                0 | 1 => { let s = sign(c, kid, &subject_digest); e = c.assign(&format!("add_sig {} {}", e, s)); if !valid.contains(&kid) { valid.push(kid); } c.count("sig:genuine"); }
                2 => { let other = bc_components::Digest::from_image(b"other message"); let s = sign(c, kid, &other); e = c.assign(&format!("add_sig {} {}", e, s)); c.count("sig:other-message"); }
                3 | 4 => {
                    // metadata wrapper: inner by kid, outer by okid
                    let okid = if c.rng.chance(2, 3) { kid } else { 1 + (kid % nkeys) };
                    let s = sign(c, kid, &subject_digest);
                    let np = c.assign("kv 4"); let no = c.assign("leaf 646e6f7465"); let na = c.assign(&format!("assertion {} {}", np, no));
                    // build the wrapper on the implementation to learn its digest
                    let wrapped = c.env(&s).unwrap().add_assertion_envelope(c.env(&na).unwrap()).unwrap().wrap_envelope();
                    let o = sign(c, okid, &wrapped.digest());
                    e = c.assign(&format!("add_sig_meta {} {} {} {}", e, s, o, na));
                    if okid == kid && !valid.contains(&kid) { valid.push(kid); }
                    c.count(if okid == kid { "sig:metadata-genuine" } else { "sig:metadata-foreign-outer" });
                }
                5 => {
                    // wrapper without any outer signature
                    let s = sign(c, kid, &subject_digest);
                    let np = c.assign("kv 4"); let no = c.assign("leaf 66666f72676564"); let na = c.assign(&format!("assertion {} {}", np, no));
                    let w0 = c.assign(&format!("add {} {}", s, na)); let w = c.assign(&format!("wrap {}", w0));
                    let p = c.assign("kv 3"); let a = c.assign(&format!("assertion {} {}", p, w));
                    e = c.assign(&format!("add {} {}", e, a)); c.count("sig:metadata-unsigned");
                }
                6 => { let p = c.assign("kv 3"); let o = gen_leaf(c, &cfg); let a = c.assign(&format!("assertion {} {}", p, o)); e = c.assign(&format!("add {} {}", e, a)); c.count("sig:junk-object"); }
                7 => { let om = bc_components::Digest::from_image(b"elided one"); let s = sign(c, kid, &om); let se = c.assign(&format!("elide {}", s)); let p = c.assign("kv 3"); let a = c.assign(&format!("assertion {} {}", p, se)); e = c.assign(&format!("add {} {}", e, a)); c.count("sig:elided-object"); }
                _ => { let s = sign(c, kid, &subject_digest); let p = c.assign("kv 3"); let a = c.assign(&format!("assertion {} {}", p, s)); let sp = c.assign("kv 15"); let so = c.assign("leaf 480102030405060708"); let sa = c.assign(&format!("assertion {} {}", sp, so)); let d = c.assign(&format!("add {} {}", a, sa)); e = c.assign(&format!("add {} {}", e, d)); if !valid.contains(&kid) { valid.push(kid); } c.count("sig:salted-assertion"); }
            }
        }
        if !c.is_ok(&e) { c.end(); continue; }
        c.obs(&format!("shape {}", e));
        for kid in 1..=nkeys {
            let out = c.obs(&format!("has_sig {} {}", e, kid));
            let want = valid.contains(&kid);
            c.check("glue-verifies-iff-valid", out.starts_with("some") == want && !out.starts_with("err") && !out.starts_with("panic"), "glue-verdict", || format!("key {} expected {} got {}", kid, want, out));
        }
        let all: Vec<String> = (1..=nkeys).map(|k| k.to_string()).collect();
        for t in 1..=(nkeys as usize + 1) {
            let out = c.obs(&format!("has_sigs {} {} {}", e, all.join(","), t));
            c.check("glue-threshold", out == (valid.len() >= t).to_string(), "glue-threshold", || format!("threshold {} valid {} got {}", t, valid.len(), out));
        }
        let out = c.obs(&format!("has_sigs {} {} -", e, all.join(",")));
        c.check("glue-threshold", out == (valid.len() == nkeys as usize).to_string(), "glue-threshold", || out.clone());
        // order independence: the same assertions on a recoded copy and after obscuring an unrelated part
        let r = c.assign(&format!("recode {}", e));
        for kid in 1..=nkeys { c.obs(&format!("has_sig {} {}", r, kid)); }
        let _ = i;
        c.end();
    }
}

/// C10 - recipients
pub fn c10(c: &mut Ctx, b: &Budget) {
    let schemes = [("x25519", EncapsulationScheme::X25519), ("mlkem512", EncapsulationScheme::MLKEM512), ("mlkem768", EncapsulationScheme::MLKEM768)];
    let rounds = (b.scenarios / 5).max(10);
    for ri in 0..rounds {
        c.begin("recipients");
        let e = base_envelope(c, 2);
        // subjects in every form that can be encrypted: in clear, compressed, elided (a redacted document sent on), and a bare compressed envelope
        let e = match ri % 5 { 1 => e.compress_subject().unwrap_or(e), 2 => { let s = e.subject(); if e.is_node() { e.elide_removing_target(&s) } else { e } }, 3 => e.subject().compress().unwrap_or(e), _ => e };
        if e.subject().is_encrypted() || (!e.is_node() && e.is_elided()) { c.end(); continue; }
        c.count(&format!("subject-form:{}", if e.subject().is_compressed() { "compressed" } else if e.subject().is_elided() { "elided" } else { "clear" }));
        let n = c.rng.range(1, 4);
        let mut keys = vec![];
        for _ in 0..n { let (name, s) = c.rng.pick(&schemes).clone(); let (sk, pk) = s.keypair(); c.count(&format!("scheme:{}", name)); keys.push((sk, pk)); }
        if c.rng.chance(1, 3) && n >= 1 { let d = keys[0].clone(); keys.push(d); c.count("branch:duplicate-recipient"); }
        let outsiders: Vec<_> = (0..2).map(|_| { let (_, s) = c.rng.pick(&schemes).clone(); s.keypair() }).collect();
        let pubs: Vec<&dyn bc_envelope::Encrypter> = keys.iter().map(|k| &k.1 as &dyn bc_envelope::Encrypter).collect();
        let enc = match guarded(|| e.encrypt_subject_to_recipients(&pubs)) { Ok(Ok(x)) => x, other => { c.check("encrypt-to-recipients", false, "encrypt-to-recipients", || format!("{:?} on {}", other.map(|r| r.map(|_| ()).map_err(|e| e.to_string())), shape(&e))); c.end(); continue; } };
        import(c, &enc);
        c.check("digest-preserved", enc.subject().digest() == e.subject().digest() && enc.subject().is_encrypted(), "digest-preserved", || shape(&enc));
        for (sk, _) in &keys {
            let got = guarded(|| enc.decrypt_subject_to_recipient(sk));
            match got { Ok(Ok(d)) => c.check("recipient-opens", d.subject().is_identical_to(&e.subject()) && d.subject().digest() == e.subject().digest(), "recipient-opens", || shape(&d)),
                        other => c.check("recipient-opens", false, "recipient-opens", || format!("{:?}", other.map(|r| r.map(|_| ()).map_err(|e| e.to_string())))) }
        }
        for (sk, _) in &outsiders {
            let got = guarded(|| enc.decrypt_subject_to_recipient(sk));
            c.check("outsider-fails", matches!(got, Ok(Err(_))), "outsider-opens", || "a private key that is not a recipient decrypted the subject".into());
        }
        // adding a recipient later leaves earlier recipients able to decrypt (needs the content key: use the explicit form)
        let ck = SymmetricKey::new();
        let mut e2 = e.encrypt_subject(&ck).unwrap();
        let mut added = vec![];
        for (sk, pk) in &keys {
            e2 = e2.add_recipient(pk, &ck); added.push(sk);
            for s in &added { let got = guarded(|| e2.decrypt_subject_to_recipient(*s)); c.check("add-recipient-monotone", matches!(&got, Ok(Ok(d)) if d.subject().is_identical_to(&e.subject())), "add-recipient-monotone", || "earlier recipient can no longer decrypt".into()); }
        }
        // decorated (salted) recipient assertion is still usable
        let (sk3, pk3) = schemes[0].1.keypair();
        let sealed = bc_components::SealedMessage::new(ck.to_cbor_data(), &pk3);
        let e3 = e.encrypt_subject(&ck).unwrap().add_assertion_salted(known_values::HAS_RECIPIENT, sealed, true);
        let got = guarded(|| e3.decrypt_subject_to_recipient(&sk3));
        c.check("salted-recipient-opens", matches!(&got, Ok(Ok(d)) if d.subject().is_identical_to(&e.subject())), "salted-recipient", || format!("{:?}", got.map(|r| r.map(|_| ()).map_err(|e| e.to_string()))));
        // wrap-and-encrypt form (also for an original that is itself a wrapped envelope)
        let (sk, pk) = &keys[0];
        for orig in [e.wrap_envelope(), e.wrap_envelope().wrap_envelope()] {
            if let Ok(w) = guarded(|| orig.encrypt_to_recipient(pk)) { let got = guarded(|| w.decrypt_to_recipient(sk)); c.check("encrypt-to-recipient-roundtrip", matches!(&got, Ok(Ok(d)) if d.is_identical_to(&orig) && d.digest() == orig.digest()), "encrypt-to-recipient-roundtrip", || format!("wrapped original {} came back as {:?}", shape(&orig), got.map(|r| r.map(|d| shape(&d)).map_err(|e| e.to_string())))); }
        }
        let w = guarded(|| e.encrypt_to_recipient(pk));
        if let Ok(w) = w { let got = guarded(|| w.decrypt_to_recipient(sk)); c.check("encrypt-to-recipient-roundtrip", matches!(&got, Ok(Ok(d)) if d.is_identical_to(&e)), "encrypt-to-recipient-roundtrip", || shape(&e));
            let got = guarded(|| w.decrypt_to_recipient(&outsiders[0].0)); c.check("outsider-fails", matches!(got, Ok(Err(_))), "outsider-opens", || "whole form".into()); }
        // recipients attached BEFORE the subject is encrypted (add_recipient takes the content key explicitly): on a bare envelope,
        // a wrapped one and one with assertions; every recipient opens it afterwards
        {
            let ck0 = SymmetricKey::new();
            for start in [Envelope::new("Hello."), e.wrap_envelope(), e.clone(), Envelope::new(known_values::NOTE), Envelope::new_assertion("p", "o")] {
                if start.subject().is_encrypted() || start.subject().is_elided() { continue; }
                let mut x = start.clone();
                for (_, pk0) in &keys { x = x.add_recipient(pk0, &ck0); }
                match guarded(|| x.encrypt_subject(&ck0)) {
                    Ok(Ok(enc0)) => {
                        c.check("recipients-before-encryption", guarded(|| enc0.recipients().map(|r| r.len()).ok()) == Ok(Some(keys.iter().map(|k| k.1.clone()).collect::<Vec<_>>().len())) || keys.len() != keys.iter().map(|k| format!("{:?}", k.1)).collect::<HashSet<_>>().len(), "recipients-before-encryption", || format!("recipients lost: {}", shape(&enc0)));
                        for (sk0, _) in &keys { let d = guarded(|| enc0.decrypt_subject_to_recipient(sk0)); c.check("recipients-before-encryption", matches!(&d, Ok(Ok(o)) if o.subject().is_identical_to(&start.subject())), "recipients-before-encryption", || format!("recipient added before the encryption of {} cannot open {}", shape(&start), shape(&enc0))); }
                    }
                    other => c.check("recipients-before-encryption", false, "recipients-before-encryption", || format!("{:?}", other.map(|r| r.map(|_| ()).map_err(|e| e.to_string())))),
                }
            }
            c.count("branch:recipients-before-encryption");
        }
        // layers: an envelope that is already encrypted to this very recipient, encrypted to it again (a relayed message): one
        // decrypt_to_recipient takes off one layer, no more
        if let Ok(inner) = guarded(|| e.encrypt_to_recipient(pk)) {
            if let Ok(outer) = guarded(|| inner.encrypt_to_recipient(pk)) {
                let got = guarded(|| outer.decrypt_to_recipient(sk));
                c.check("encrypt-to-recipient-roundtrip", matches!(&got, Ok(Ok(d)) if d.is_identical_to(&inner) && d.digest() == inner.digest()), "encrypt-to-recipient-roundtrip", || format!("two layers to one recipient: one decrypt returned {:?} instead of the inner encrypted envelope", got.as_ref().map(|r| r.as_ref().map(|d| shape(d)).map_err(|e| e.to_string()))));
                if let Ok(Ok(d)) = &got { let got2 = guarded(|| d.decrypt_to_recipient(sk)); c.check("encrypt-to-recipient-roundtrip", matches!(&got2, Ok(Ok(d2)) if d2.is_identical_to(&e)), "encrypt-to-recipient-roundtrip", || "second layer".into()); }
                import(c, &outer);
                c.count("branch:two-layers-one-recipient");
            }
            // ... and subject-only: the inner envelope as it stands gets a second recipient layer through the multi-recipient form
            let two: Vec<&dyn bc_envelope::Encrypter> = vec![pk as &dyn bc_envelope::Encrypter, &outsiders[1].1 as &dyn bc_envelope::Encrypter];
            if let Ok(Ok(outer2)) = guarded(|| inner.wrap_envelope().encrypt_subject_to_recipients(&two)) {
                let got = guarded(|| outer2.decrypt_subject_to_recipient(sk).and_then(|d| d.unwrap_envelope()));
                c.check("encrypt-to-recipient-roundtrip", matches!(&got, Ok(Ok(d)) if d.is_identical_to(&inner)), "encrypt-to-recipient-roundtrip", || "wrapped inner envelope through the multi-recipient form".into());
            }
        }
        // seal / unseal
        let sender = PrivateKeyBase::new();
        let recip = PrivateKeyBase::new();
        let sealed = guarded(|| e.seal(&sender, &recip.schnorr_public_keys()));
        if let Ok(s) = sealed {
            import(c, &s);
            let got = guarded(|| s.unseal(&sender.schnorr_public_keys(), &recip));
            c.check("seal-unseal", matches!(&got, Ok(Ok(d)) if d.is_identical_to(&e)), "seal-unseal", || format!("{:?}", got.map(|r| r.map(|_| ()).map_err(|e| e.to_string()))));
            let wrong = PrivateKeyBase::new();
            let got = guarded(|| s.unseal(&wrong.schnorr_public_keys(), &recip));
            c.check("unseal-wrong-sender", matches!(got, Ok(Err(_))), "unseal-wrong-sender", || "accepted".into());
            let got = guarded(|| s.unseal(&sender.schnorr_public_keys(), &wrong));
            c.check("unseal-wrong-recipient", matches!(got, Ok(Err(_))), "unseal-wrong-recipient", || "accepted".into());
            // whoever handles the sealed envelope can add assertions to it - a signature of his own over the (digest-preserving)
            // encrypted subject, a note: that makes him neither the sender nor changes what the genuine sender's unseal returns
            let mallory = PrivateKeyBase::new();
            let tampered = s.add_signature(&mallory).add_assertion(known_values::NOTE, "forwarded");
            let got = guarded(|| tampered.unseal(&mallory.schnorr_public_keys(), &recip));
            c.check("unseal-wrong-sender", matches!(got, Ok(Err(_))), "unseal-wrong-sender", || format!("a signature added to the sealed envelope from outside made its signer the sender: {:?}", got.map(|r| r.map(|d| shape(&d)).map_err(|e| e.to_string()))));
            let got = guarded(|| tampered.unseal(&sender.schnorr_public_keys(), &recip));
            c.check("seal-unseal", matches!(&got, Ok(Ok(d)) if d.is_identical_to(&e)), "seal-unseal", || "assertions added to the sealed envelope from outside changed what the genuine sender's unseal returns".into());
        }
        c.end();
    }
}

fn subsets<T: Clone>(xs: &[T]) -> Vec<Vec<T>> {
    (0..(1usize << xs.len())).map(|m| xs.iter().enumerate().filter(|(i, _)| m >> i & 1 == 1).map(|(_, x)| x.clone()).collect()).collect()
}

/// C11 - SSKR
/// the public, randomised entry points (`sskr_split`, `sskr_split_flattened`) called again and again on one envelope with one
/// content key under policies of the same shape but different thresholds: every split answers to its own policy
fn c11_resplit(c: &mut Ctx, b: &Budget) {
    let series: Vec<Vec<(usize, Vec<(usize, usize)>)>> = vec![
        vec![(1, vec![(2, 3)]), (1, vec![(3, 3)]), (1, vec![(1, 3)]), (1, vec![(2, 3)])],
        vec![(2, vec![(1, 2), (2, 2)]), (1, vec![(1, 2), (2, 2)]), (2, vec![(2, 2), (1, 2)])],
    ];
    for (si, policies) in series.iter().enumerate() {
        if si == 1 && !b.thorough && c.rng.chance(1, 2) { continue; }
        c.begin("sskr-resplit");
        let e = base_envelope(c, 1).wrap_envelope();
        let ck = SymmetricKey::new();
        let enc = e.encrypt_subject(&ck).unwrap();
        for (k, (gt, groups)) in policies.iter().enumerate() {
            let spec = SSKRSpec::new(*gt, groups.iter().map(|(t, n)| SSKRGroupSpec::new(*t, *n).unwrap()).collect()).unwrap();
            let shares: Vec<Vec<Envelope>> = if k % 2 == 0 { match guarded(|| enc.sskr_split(&spec, &ck)) { Ok(Ok(s)) => s, _ => { c.check("split", false, "split", || "sskr_split failed".into()); continue; } } }
                else { // the flattened form, regrouped by the policy's member counts
                    match guarded(|| enc.sskr_split_flattened(&spec, &ck)) { Ok(Ok(f)) => { let mut it = f.into_iter(); groups.iter().map(|(_, n)| (0..*n).filter_map(|_| it.next()).collect()).collect() } _ => { c.check("split", false, "split", || "sskr_split_flattened failed".into()); continue; } } };
            let flat: Vec<(usize, usize, Envelope)> = shares.iter().enumerate().flat_map(|(g, v)| v.iter().enumerate().map(move |(m, s)| (g, m, s.clone()))).collect();
            c.check("share-count", flat.len() == groups.iter().map(|g| g.1).sum::<usize>(), "share-count", || format!("{} shares", flat.len()));
            for sub in subsets(&flat) {
                let quorum = groups.iter().enumerate().filter(|(g, (t, _))| sub.iter().filter(|(gg, _, _)| gg == g).count() >= *t).count() >= *gt;
                let refs: Vec<&Envelope> = sub.iter().map(|x| &x.2).collect();
                match guarded(|| Envelope::sskr_join(&refs)) {
                    Ok(Ok(j)) => c.check("join-iff-quorum", quorum && j.is_identical_to(&e), if quorum { "join-wrong-envelope" } else { "join-without-quorum" }, || format!("split no. {} of one key, policy {}-of-{:?}, subset {:?} joined", k + 1, gt, groups, sub.iter().map(|x| (x.0, x.1)).collect::<Vec<_>>())),
                    Ok(Err(_)) => c.check("join-iff-quorum", !quorum, "join-fails-with-quorum", || format!("split no. {} of one key, policy {}-of-{:?}, subset {:?} refused", k + 1, gt, groups, sub.iter().map(|x| (x.0, x.1)).collect::<Vec<_>>())),
                    Err(site) => c.check("join-no-panic", false, "join-panic", || site),
                }
            }
            c.count("branch:resplit");
        }
        c.end();
    }
}

/// the largest groups the format allows (16 members, 16 groups): every pair with the last member, the last group
fn c11_largest(c: &mut Ctx, _b: &Budget) {
    c.begin("sskr-largest");
    let e = Envelope::new("largest").wrap_envelope();
    let ck = SymmetricKey::new();
    let enc = e.encrypt_subject(&ck).unwrap();
    for (gt, groups) in [(1usize, vec![(2usize, 16usize)]), (1, vec![(16, 16)]), (2, vec![(1, 1); 16]), (1, vec![(1, 16)])] {
        let spec = SSKRSpec::new(gt, groups.iter().map(|(t, n)| SSKRGroupSpec::new(*t, *n).unwrap()).collect()).unwrap();
        let mut rng = c.rng.lib_rng();
        let shares = match guarded(|| enc.sskr_split_using(&spec, &ck, &mut rng)) { Ok(Ok(s)) => s, other => { c.check("split", false, "split", || format!("{:?}", other.map(|r| r.map(|_| ()).map_err(|e| e.to_string())))); continue; } };
        let sets: Vec<Vec<&Envelope>> = if groups.len() == 16 { (0..15).map(|g| vec![&shares[g][0], &shares[15][0]]).collect() }
            else if groups[0].0 == 16 { vec![shares[0].iter().collect()] }
            else if groups[0].0 == 1 { (0..16).map(|m| vec![&shares[0][m]]).collect() }
            else { (0..15).map(|m| vec![&shares[0][m], &shares[0][15]]).collect() };
        for (k, set) in sets.iter().enumerate() {
            let got = guarded(|| Envelope::sskr_join(set));
            c.check("join-iff-quorum", matches!(&got, Ok(Ok(j)) if j.is_identical_to(&e)), "join-fails-with-quorum", || format!("policy {}-of-{:?}: quorum number {} containing the last member / group: {:?}", gt, groups, k, got.as_ref().map(|r| r.as_ref().map(|_| ()).map_err(|e| e.to_string()))));
        }
        c.count_n("largest-quorums", sets.len() as u64);
    }
    c.end();
}

pub fn c11(c: &mut Ctx, b: &Budget) {
    c11_resplit(c, b);
    c11_largest(c, b);
    let policies: Vec<(usize, Vec<(usize, usize)>)> = if b.thorough {
        vec![(1, vec![(1, 1)]), (1, vec![(2, 3)]), (1, vec![(3, 4)]), (2, vec![(1, 2), (2, 3)]), (2, vec![(2, 3), (2, 3), (1, 1)]), (1, vec![(2, 2), (3, 4)]), (3, vec![(1, 1), (2, 2), (2, 3)]), (2, vec![(2, 4), (3, 4), (1, 2)]), (2, vec![(2, 3), (3, 5)])]
    } else { vec![(1, vec![(1, 1)]), (1, vec![(2, 3)]), (2, vec![(1, 2), (2, 3)]), (2, vec![(2, 3), (2, 3), (1, 1)]), (1, vec![(2, 2), (3, 4)]), (2, vec![(3, 4), (2, 3)])] };
    for (pi, (gt, groups)) in policies.iter().enumerate() {
        c.begin("sskr");
        // the envelope that is split: a bare encrypted (wrapped) subject; an encrypted subject that keeps clear assertions of its own;
        // an encrypted subject with a clear note added after encryption.  `e` is what a quorum must give back: the decrypted subject.
        let ck = SymmetricKey::new();
        let base = base_envelope(c, 2);
        let (e, enc) = match pi % 3 {
            0 => { let w = base.wrap_envelope(); (w.clone(), w.encrypt_subject(&ck).unwrap()) }
            1 => { let n = if base.is_node() { base.clone() } else { base.add_assertion("kept", "in the clear") };
                   if n.subject().is_encrypted() || n.subject().is_elided() { let w = base.wrap_envelope(); (w.clone(), w.encrypt_subject(&ck).unwrap()) } else { (n.subject(), n.encrypt_subject(&ck).unwrap()) } }
            _ => { let w = base.wrap_envelope(); (w.clone(), w.encrypt_subject(&ck).unwrap().add_assertion(known_values::NOTE, "added after encryption")) }
        };
        c.count(&format!("split-form:{}", pi % 3));
        let spec = SSKRSpec::new(*gt, groups.iter().map(|(t, n)| SSKRGroupSpec::new(*t, *n).unwrap()).collect()).unwrap();
        let mut rng = c.rng.lib_rng();
        let shares = match guarded(|| enc.sskr_split_using(&spec, &ck, &mut rng)) { Ok(Ok(s)) => s, other => { c.check("split", false, "split", || format!("{:?}", other.map(|r| r.map(|_| ()).map_err(|e| e.to_string())))); c.end(); continue; } };
        let flat: Vec<(usize, usize, Envelope)> = shares.iter().enumerate().flat_map(|(g, v)| v.iter().enumerate().map(move |(m, s)| (g, m, s.clone()))).collect();
        for (_, _, s) in &flat {
            c.check("share-digest", s.subject().digest() == e.digest() && s.subject().is_encrypted(), "share-digest", || shape(s));
        }
        import(c, &flat[0].2);
        let all = subsets(&flat);
        let total = all.len();
        let pick: Vec<Vec<(usize, usize, Envelope)>> = if total > 4096 { let mut v = all; c.rng.shuffle(&mut v); v.truncate(4096); v } else { all };
        c.count_n("subsets", pick.len() as u64);
        for sub in &pick {
            let quorum = groups.iter().enumerate().filter(|(g, (t, _))| sub.iter().filter(|(gg, _, _)| gg == g).count() >= *t).count() >= *gt;
            let refs: Vec<&Envelope> = sub.iter().map(|x| &x.2).collect();
            match guarded(|| Envelope::sskr_join(&refs)) {
                Ok(Ok(j)) => c.check("join-iff-quorum", quorum && j.is_identical_to(&e), if quorum { "join-wrong-envelope" } else { "join-without-quorum" }, || format!("policy {}-of-{:?} subset {:?} joined to {}", gt, groups, sub.iter().map(|x| (x.0, x.1)).collect::<Vec<_>>(), shape(&j))),
                Ok(Err(x)) => c.check("join-iff-quorum", !quorum, "join-fails-with-quorum", || format!("policy {}-of-{:?} subset {:?}: {}", gt, groups, sub.iter().map(|x| (x.0, x.1)).collect::<Vec<_>>(), err_kind(&x))),
                Err(site) => c.check("join-no-panic", false, "join-panic", || site),
            }
        }
        // a share envelope that is split again under a second policy with the same key (the owner re-shares a returned copy): its
        // share envelopes carry two share assertions each; a quorum of the second policy joins to the same subject
        if pi % 2 == 0 {
            let spec2 = SSKRSpec::new(1, vec![SSKRGroupSpec::new(2, 3).unwrap()]).unwrap();
            let mut rng3 = c.rng.lib_rng();
            if let Ok(Ok(sh3)) = guarded(|| flat[0].2.sskr_split_using(&spec2, &ck, &mut rng3)) {
                let f3: Vec<Envelope> = sh3.into_iter().flatten().collect();
                c.check("resplit-share-shape", f3.iter().all(|s| s.assertions_with_predicate(known_values::SSKR_SHARE).len() == 2 && s.subject().digest() == e.digest()), "resplit-shape", || f3.first().map(shape).unwrap_or_default());
                for pair in [[0usize, 1], [1, 2], [2, 0]] {
                    let refs: Vec<&Envelope> = pair.iter().map(|k| &f3[*k]).collect();
                    let got = guarded(|| Envelope::sskr_join(&refs));
                    c.check("join-iff-quorum", matches!(&got, Ok(Ok(j)) if j.is_identical_to(&e)), "join-fails-with-quorum", || format!("a quorum of a re-split share envelope (two share assertions per envelope): {:?}", got.as_ref().map(|r| r.as_ref().map(shape).map_err(|e| e.to_string()))));
                }
                let got = guarded(|| Envelope::sskr_join(&[&f3[0]]));
                let q1 = groups.iter().enumerate().filter(|(g, (t, _))| (if *g == 0 { 1 } else { 0 }) >= *t).count() >= *gt;
                if !q1 { c.check("join-iff-quorum", matches!(got, Ok(Err(_))), "join-without-quorum", || "one re-split envelope alone joined".into()); }
                import(c, &f3[0]);
                c.count("branch:resplit");
            }
        }
        // the public sskr_split (its own random source) twice on the same envelope, same policy and another one: each split joins
        // by itself, and a quorum of one with a stray share of the other still joins
        if pi % 3 == 0 {
            let spec_b = SSKRSpec::new(1, vec![SSKRGroupSpec::new(2, 3).unwrap()]).unwrap();
            if let (Ok(Ok(sa)), Ok(Ok(sa2)), Ok(Ok(sb))) = (guarded(|| enc.sskr_split(&spec, &ck)), guarded(|| enc.sskr_split(&spec, &ck)), guarded(|| enc.sskr_split(&spec_b, &ck))) {
                let fa: Vec<Envelope> = sa.into_iter().flatten().collect(); let fa2: Vec<Envelope> = sa2.into_iter().flatten().collect(); let fb: Vec<Envelope> = sb.into_iter().flatten().collect();
                let all_a: Vec<&Envelope> = fa.iter().collect();
                let got = guarded(|| Envelope::sskr_join(&all_a));
                c.check("join-iff-quorum", matches!(&got, Ok(Ok(j)) if j.is_identical_to(&e)), "join-fails-with-quorum", || "all shares of one sskr_split".into());
                for (what, stray) in [("the same policy", &fa2[0]), ("another policy", &fb[0])] {
                    let mut pile: Vec<&Envelope> = fa.iter().collect(); pile.insert(1.min(pile.len()), stray);
                    let got = guarded(|| Envelope::sskr_join(&pile));
                    c.check("mixed-splits-join", matches!(&got, Ok(Ok(j)) if j.is_identical_to(&e)), "interleaved-splits", || format!("all shares of one sskr_split plus one share of a second sskr_split of the same envelope under {}: {:?}", what, got.as_ref().map(|r| r.as_ref().map(shape).map_err(|e| e.to_string()))));
                }
                let qb: Vec<&Envelope> = vec![&fb[0], &fb[2], &fa[0]];
                let got = guarded(|| Envelope::sskr_join(&qb));
                c.check("mixed-splits-join", matches!(&got, Ok(Ok(j)) if j.is_identical_to(&e)), "interleaved-splits", || "a quorum of the second split with a stray share of the first".into());
                c.count("branch:public-split-twice");
            }
        }
        // share assertions annotated or salted after the split (a custodian's name, a salt): a quorum of such envelopes still joins
        if pi % 2 == 1 {
            let decorate = |s: &Envelope, how: usize| -> Envelope {
                let sa = s.assertions_with_predicate(known_values::SSKR_SHARE)[0].clone();
                let deco = match how { 0 => sa.add_assertion("custodian", "Alice"), 1 => sa.add_salt(), _ => sa.clone() };
                s.remove_assertion(sa).add_assertion_envelope(deco).unwrap()
            };
            for how in 0..2 {
                let dshares: Vec<Envelope> = flat.iter().enumerate().map(|(k, x)| decorate(&x.2, if k % 3 == 2 { 2 } else { how })).collect();
                let refs: Vec<&Envelope> = dshares.iter().collect();
                let got = guarded(|| Envelope::sskr_join(&refs));
                c.check("join-iff-quorum", matches!(&got, Ok(Ok(j)) if j.is_identical_to(&e)), "join-fails-with-quorum", || format!("all share envelopes, their share assertions {}: {:?}", if how == 0 { "annotated" } else { "salted" }, got.as_ref().map(|r| r.as_ref().map(|_| ()).map_err(|e| e.to_string()))));
            }
            c.count("branch:decorated-shares");
        }
        // many joins on one thread: the thousandth quorum joins like the first (nothing accumulates across calls)
        if pi == 0 {
            let all_refs: Vec<&Envelope> = flat.iter().map(|x| &x.2).collect();
            let rounds = if b.thorough { 20000 } else { 4000 };
            let mut failed_at = None;
            for k in 0..rounds { if !matches!(guarded(|| Envelope::sskr_join(&all_refs)), Ok(Ok(_))) { failed_at = Some(k); break; } }
            c.check("join-iff-quorum", failed_at.is_none(), "join-fails-with-quorum", || format!("join number {} of the same full set of shares on one thread failed", failed_at.unwrap_or(0)));
            c.count_n("endurance-joins", rounds as u64);
        }
        // shares mixed from two different splits (identifier collisions regenerated)
        let ck2 = SymmetricKey::new();
        let e2 = Envelope::new("another secret").wrap_envelope();
        let enc2 = e2.encrypt_subject(&ck2).unwrap();
        let mut rng2 = c.rng.lib_rng();
        if let Ok(Ok(sh2)) = guarded(|| enc2.sskr_split_using(&spec, &ck2, &mut rng2)) {
            let flat2: Vec<Envelope> = sh2.into_iter().flatten().collect();
            // a quorum of split 1 plus extra shares of split 2: still joins to e (first envelope decides)
            let mut mixed: Vec<&Envelope> = flat.iter().map(|x| &x.2).collect();
            for s in flat2.iter().take(2) { mixed.push(s); }
            let got = guarded(|| Envelope::sskr_join(&mixed));
            c.check("mixed-splits", matches!(&got, Ok(Ok(j)) if j.is_identical_to(&e)) || matches!(&got, Ok(Err(_))), "mixed-splits-wrong-envelope", || "joined to a different envelope".into());
            // a quorum of split 1 interleaved with shares of split 2 (first envelope from split 1): must still join to e
            let quorum: Vec<&Envelope> = { let mut q: Vec<&Envelope> = vec![]; let mut groups_ok = 0; for (g, (t, _)) in groups.iter().enumerate() { if groups_ok >= *gt { break; } for x in flat.iter().filter(|x| x.0 == g).take(*t) { q.push(&x.2); } groups_ok += 1; } q };
            if quorum.len() >= 2 {
                let mut inter: Vec<&Envelope> = vec![];
                for (k, q) in quorum.iter().enumerate() { inter.push(q); if let Some(f) = flat2.get(k) { inter.push(f); } }
                let got = guarded(|| Envelope::sskr_join(&inter));
                c.check("interleaved-splits-join", matches!(&got, Ok(Ok(j)) if j.is_identical_to(&e)), "interleaved-splits", || format!("a quorum of one split interleaved with another split's shares: {:?}", got.map(|r| r.map(|j| shape(&j)).map_err(|e| e.to_string()))));
                c.count("branch:interleaved-splits");
                // every ordering of a tight quorum joins (the first share may come from any group)
                let mut rot = quorum.clone(); rot.rotate_left(1);
                let mut rev = quorum.clone(); rev.reverse();
                for ord in [rot, rev] { let got = guarded(|| Envelope::sskr_join(&ord)); c.check("quorum-any-order", matches!(&got, Ok(Ok(j)) if j.is_identical_to(&e)), "quorum-order-dependent", || "a tight quorum presented in another order did not join".into()); }
            }
            // below quorum of each: error
            if flat.len() >= 1 && *gt * groups[0].0 > 1 {
                let m2: Vec<&Envelope> = vec![&flat[0].2, &flat2[0]];
                let got = guarded(|| Envelope::sskr_join(&m2));
                let q1 = groups.iter().enumerate().filter(|(g, (t, _))| (if *g == 0 { 1 } else { 0 }) >= *t).count() >= *gt;
                if !q1 { c.check("mixed-below-quorum-fails", matches!(got, Ok(Err(_))), "mixed-below-quorum", || "joined without a quorum".into()); }
            }
        }
        c.end();
    }
}

/// C17 - salting
pub fn c17(c: &mut Ctx, b: &Budget) {
    let rounds = (b.scenarios / 2).max(20);
    for i in 0..rounds {
        c.begin("salt");
        let mut e = base_envelope(c, 2);
        // sizes up to ~100 KB
        if i % 5 == 0 { let n = [1usize, 10, 1000, 20000, 100000][(i / 5) % 5]; e = e.add_assertion("blob", CBOR::to_byte_string(vec![0x5au8; n])); }
        let size = bytes_of(&e).len();
        let check_one = |c: &mut Ctx, salted: &Envelope, lo: usize, hi: usize, what: &str| {
            let salts = salted.assertions_with_predicate(known_values::SALT);
            let new: Vec<&Envelope> = salts.iter().filter(|a| !e.assertions().iter().any(|x| x.digest() == a.digest())).collect();
            c.check("exactly-one-salt-assertion", new.len() == 1 && salted.assertions().len() == e.assertions().len() + 1, "salt-shape", || format!("{}: {} new salt assertions on {}", what, new.len(), shape(salted)));
            c.check("subject-unchanged", salted.subject().is_identical_to(&e.subject()) && e.assertions().iter().all(|a| salted.assertions().iter().any(|x| x.is_identical_to(a))), "salt-content-changed", || shape(salted));
            if let Some(a) = new.first() {
                match a.as_object().and_then(|o| o.extract_subject::<Salt>().ok()) {
                    Some(s) => c.check("salt-length", lo <= s.len() && s.len() <= hi, "salt-length", || format!("{}: salt of {} bytes outside {}..={} for size {}", what, s.len(), lo, hi, size)),
                    None => c.check("salt-length", false, "salt-not-salt", || shape(a)),
                }
            }
        };
        // add_salt: proportional range
        let lo = 8usize.max((size as f64 * 0.05).ceil() as usize);
        let hi = (lo + 8).max((size as f64 * 0.25).ceil() as usize);
        let s1 = e.add_salt(); let s2 = e.add_salt();
        check_one(c, &s1, lo, hi, "add_salt");
        import(c, &s1);
        c.check("independent-salts-differ", s1.digest() != s2.digest() && s1.elide().digest() != s2.elide().digest(), "salts-equal", || "two saltings gave one digest".into());
        c.check("salting-changes-digest", s1.digest() != e.digest(), "salting-noop", || shape(&s1));
        for n in [0usize, 1, 7, 8, 9, 16, 100, 255, 256, 257, 300, 512, 513, 1000, 4097] {
            match guarded(|| e.add_salt_with_len(n)) { Ok(Ok(s)) => { c.check("short-salt-refused", n >= 8, "short-salt-accepted", || format!("len {}", n)); check_one(c, &s, n, n, "add_salt_with_len"); }
                Ok(Err(_)) => c.check("short-salt-refused", n < 8, "valid-salt-refused", || format!("len {}", n)), Err(site) => c.check("no-panic", false, "salt-panic", || site) }
        }
        // the size that counts is the size of the form being salted: the elided, compressed, partly elided and full forms of one
        // digest get salts proportional to their own sizes, in whatever order they are salted
        if i % 3 == 0 {
            let mut forms: Vec<(&str, Envelope)> = vec![("full", e.clone()), ("elided", e.elide()), ("compressed", e.compress().unwrap_or(e.clone())), ("wrapped", e.wrap_envelope())];
            // ... and of a padded copy, so that the obscured forms that carry their payload (compressed, encrypted) are large while the elided one is not
            let padded = e.add_assertion("padding", CBOR::to_byte_string((0..1500u32).map(|x| (x.wrapping_mul(2654435761) >> 11) as u8).collect::<Vec<u8>>()));
            forms.push(("padded", padded.clone())); forms.push(("padded-elided", padded.elide())); forms.push(("padded-compressed", padded.compress().unwrap_or(padded.clone())));
            forms.push(("padded-encrypted", padded.encrypt(&SymmetricKey::new()))); forms.push(("padded-subject-encrypted", padded.wrap_envelope().encrypt_subject(&SymmetricKey::new()).unwrap()));
            if let Some(a) = e.assertions().first() { forms.push(("assertion-elided", e.elide_removing_target(a))); }
            forms.push(("subject-elided", e.elide_removing_target(&e.subject())));
            c.rng.shuffle(&mut forms);
            for (name, f) in &forms {
                let fsize = bytes_of(f).len();
                let flo = 8usize.max((fsize as f64 * 0.05).ceil() as usize);
                let fhi = (flo + 8).max((fsize as f64 * 0.25).ceil() as usize);
                for salted in [guarded(|| f.add_salt()), guarded(|| { let mut r = bc_rand::make_fake_random_number_generator(); f.add_salt_using(&mut r) })] {
                    if let Ok(sf) = salted {
                        let new: Vec<Envelope> = sf.assertions_with_predicate(known_values::SALT).into_iter().filter(|a| !f.assertions().iter().any(|x| x.digest() == a.digest())).collect();
                        let len = new.first().and_then(|a| a.as_object()).and_then(|o| o.extract_subject::<Salt>().ok()).map(|s| s.len());
                        c.check("salt-length", matches!(len, Some(n) if flo <= n && n <= fhi) && new.len() == 1, "salt-length", || format!("the {} form ({} bytes) got a salt of {:?} bytes, outside {}..={}", name, fsize, len, flo, fhi));
                    }
                }
                c.count("branch:forms-of-one-digest-salted");
            }
        }
        // a salted add that adds nothing (refused, or given no assertion) leaves no request behind: the next plain adds are plain
        if i % 3 == 1 {
            let plain = |x: &Envelope| x.add_assertion("knows", "Bob").add_assertion_envelope(Envelope::new_assertion("k", i as u64)).unwrap();
            let before = plain(&e);
            let r1 = guarded(|| e.add_assertion_envelope_salted(Envelope::new("not an assertion"), true).is_err());
            let after1 = plain(&e);
            let r2 = guarded(|| e.add_optional_assertion_envelope_salted(None, true).map(|x| x.is_identical_to(&e)).unwrap_or(false));
            let after2 = plain(&e);
            let _ = guarded(|| e.add_assertions_salted(&[], true));
            let after3 = plain(&e);
            c.check("refused-salted-add", r1 == Ok(true) && r2 == Ok(true), "salted-add-of-nothing", || format!("{:?} {:?}", r1, r2));
            for (name, a) in [("a refused salted add", &after1), ("a salted add of None", &after2), ("a salted bulk add of nothing", &after3)] {
                c.check("unsalted-add-deterministic", a.is_identical_to(&before) && a.assertions_with_predicate(known_values::SALT).len() == before.assertions_with_predicate(known_values::SALT).len() && bytes_of(a) == bytes_of(&before), "unsalted-add-salted",
                    || format!("after {} the next plain adds gave {} instead of {}", name, shape(a), shape(&before)));
            }
            let s_after = e.add_salt();
            let n_new = s_after.assertions().len() - e.assertions().len();
            c.check("exactly-one-salt-assertion", n_new == 1 && s_after.assertions_with_predicate(known_values::SALT).iter().all(|a| a.is_assertion()), "salt-shape", || format!("add_salt after refused salted adds: {}", shape(&s_after)));
            c.count("branch:salted-add-of-nothing");
        }
        // a salted add sizes its salt by the assertion it salts, whatever the size of the envelope it is added to: a small assertion
        // on a large envelope, a large assertion on a small one, through both doors
        if i % 3 == 2 {
            let small_recv = Envelope::new("s"); let big_recv = Envelope::new("big").add_assertion("blob", CBOR::to_byte_string(vec![7u8; 2000]));
            let big_obj = CBOR::to_byte_string(vec![9u8; 3000]);
            for (what, recv, pred, obj) in [("small assertion on a large envelope", &big_recv, "knows", CBOR::from("Bob")), ("large assertion on a small envelope", &small_recv, "data", big_obj.clone()), ("small on small", &small_recv, "k", CBOR::from(1))] {
                let bare = Envelope::new_assertion(pred, obj.clone());
                let asz = bytes_of(&bare).len();
                let alo = 8usize.max((asz as f64 * 0.05).ceil() as usize);
                let ahi = (alo + 8).max((asz as f64 * 0.25).ceil() as usize);
                for (door, got) in [("add_assertion_salted", guarded(|| recv.add_assertion_salted(pred, obj.clone(), true))), ("add_assertion_envelope_salted", guarded(|| recv.add_assertion_envelope_salted(bare.clone(), true).unwrap()))] {
                    if let Ok(x) = got {
                        let fresh: Vec<Envelope> = x.assertions().into_iter().filter(|a| !recv.assertions().iter().any(|y| y.digest() == a.digest())).collect();
                        let len = fresh.first().map(|f| f.assertions_with_predicate(known_values::SALT)).and_then(|v| v.first().cloned()).and_then(|sa| sa.as_object()).and_then(|o| o.extract_subject::<Salt>().ok()).map(|s| s.len());
                        c.check("salt-length", fresh.len() == 1 && matches!(len, Some(n) if alo <= n && n <= ahi), "salt-length", || format!("{} through {}: the assertion is {} bytes, its salt {:?} bytes, documented {}..={}", what, door, asz, len, alo, ahi));
                    }
                }
            }
            c.count("branch:salted-add-sizes");
        }
        // fresh threads: salts drawn on threads that have never salted before are as independent as any others
        if i % 4 == 0 {
            let bytes = bytes_of(&e);
            let hs: Vec<std::thread::JoinHandle<Option<Vec<Vec<u8>>>>> = (0..3).map(|_| { let bytes = bytes.clone(); std::thread::spawn(move || {
                std::panic::catch_unwind(|| {
                    let e = Envelope::try_from_cbor_data(bytes).ok()?;
                    let enc = |x: &Envelope| x.tagged_cbor().to_cbor_data();
                    Some(vec![enc(&e.add_salt()), enc(&e.add_salt_with_len(16).ok()?), enc(&e.add_salt_in_range(8..=16).ok()?), enc(&e.add_assertion_salted("p", "o", true)), enc(&e.add_salt())])
                }).ok().flatten()
            }) }).collect();
            let outs: Vec<Option<Vec<Vec<u8>>>> = hs.into_iter().map(|h| h.join().ok().flatten()).collect();
            c.check("salting-on-fresh-thread-succeeds", outs.iter().all(|o| o.is_some()), "salt-thread-failed", || "salting on a spawned thread failed".into());
            let outs: Vec<Vec<Vec<u8>>> = outs.into_iter().flatten().collect();
            for k in 0..5 {
                let mut seen: HashSet<&Vec<u8>> = HashSet::new();
                let distinct = outs.iter().all(|o| seen.insert(&o[k]));
                c.check("independent-salts-differ", distinct, "salts-equal", || format!("salting call {} gave the same envelope on two freshly spawned threads", k));
            }
            c.count("branch:fresh-thread-salts");
        }
        for (lo2, hi2) in [(0usize, 0usize), (0, 4), (4, 4), (7, 7), (7, 20), (8, 8), (8, 20), (30, 40)] {
            match guarded(|| e.add_salt_in_range(lo2..=hi2)) { Ok(Ok(s)) => { c.check("short-range-refused", lo2 >= 8, "short-salt-accepted", || format!("range {}..={}", lo2, hi2)); check_one(c, &s, lo2, hi2, "add_salt_in_range"); }
                Ok(Err(_)) => c.check("short-range-refused", lo2 < 8, "valid-salt-refused", || format!("range {}..={}", lo2, hi2)), Err(site) => c.check("no-panic", false, "salt-panic", || site) }
        }
        // salting an envelope that is salted already: every call adds one more 'salt' assertion and touches nothing else
        {
            let mut cur = e.clone();
            for round in 1..=3usize {
                let next = match round { 1 => cur.add_salt(), 2 => cur.add_salt_with_len(12).unwrap(), _ => cur.add_salt_instance(Salt::new_with_len(9).unwrap()) };
                let before = cur.assertions_with_predicate(known_values::SALT).len();
                let after = next.assertions_with_predicate(known_values::SALT).len();
                c.check("resalting-adds-one", after == before + 1 && next.assertions().len() == cur.assertions().len() + 1 && cur.assertions().iter().all(|a| next.assertions().iter().any(|x| x.is_identical_to(a))), "salt-shape",
                    || format!("salting round {}: {} -> {} salt assertions; {} -> {}", round, before, after, shape(&cur), shape(&next)));
                cur = next;
            }
            import(c, &cur);
            // a pre-salted assertion added with salted = true keeps its salt and gains one
            let pre = Envelope::new_assertion("pre", 1).add_salt();
            let twice = e.add_assertion_envelope_salted(pre.clone(), true).unwrap();
            let found = twice.assertions().into_iter().find(|a| a.subject().digest() == pre.subject().digest());
            c.check("presalted-keeps-its-salt", found.as_ref().map(|a| a.assertions_with_predicate(known_values::SALT).len() == 2).unwrap_or(false), "salt-shape", || shape(&twice));
        }
        // add_assertion_salted
        let (p, o) = (format!("pred{}", i % 3), i as u64);
        let a1 = e.add_assertion_salted(p.as_str(), o, true); let a2 = e.add_assertion_salted(p.as_str(), o, true);
        let u1 = e.add_assertion_salted(p.as_str(), o, false); let u2 = e.add_assertion(p.as_str(), o);
        import(c, &a1);
        c.check("unsalted-deterministic", bytes_of(&u1) == bytes_of(&u2), "unsalted-nondeterministic", || shape(&u1));
        c.check("salted-adds-differ", a1.digest() != a2.digest(), "salts-equal", || "salted adds equal".into());
        // a salted add of an assertion the envelope already holds in plain form still adds the salted form
        let sp = u2.add_assertion_salted(p.as_str(), o, true);
        c.check("salted-after-plain-adds", sp.assertions().len() == u2.assertions().len() + 1 && sp.digest() != u2.digest(), "salted-after-plain-dropped", || format!("{} -> {}", shape(&u2), shape(&sp)));
        let found = a1.assertions_with_predicate(p.as_str());
        let fresh: Vec<&Envelope> = found.iter().filter(|x| !e.assertions().iter().any(|y| y.digest() == x.digest())).collect();
        c.check("salted-found-by-predicate", fresh.len() == 1, "salted-not-found", || shape(&a1));
        if let Some(x) = fresh.first() {
            let inner_salts = x.assertions_with_predicate(known_values::SALT);
            c.check("salted-carries-one-salt", x.subject().is_assertion() && x.assertions().len() == 1 && inner_salts.len() == 1, "salted-shape", || shape(x));
            let plain = Envelope::new_assertion(p.as_str(), o);
            c.check("salted-assertion-content", x.subject().digest() == plain.digest(), "salted-shape", || shape(x));
            c.check("salted-decorrelates", x.digest() != plain.digest() && x.elide().digest() != plain.elide().digest(), "salted-correlates", || shape(x));
            let got = guarded(|| a1.object_for_predicate(p.as_str()));
            if e.assertions_with_predicate(p.as_str()).is_empty() { c.check("salted-object-lookup", matches!(&got, Ok(Ok(ob)) if ob.extract_subject::<u64>().ok() == Some(o)), "salted-object-lookup", || format!("{:?}", got.map(|r| r.map(|_| ()).map_err(|e| e.to_string())))); }
        }
        // objects of every kind - values that are random themselves (identifiers, nonces, salts, digests), dates, known values, structured and
        // obscured envelopes: the assertion added as salted carries one salt of its own whatever it says, two such adds differ
        if i % 3 == 0 {
            let objects: Vec<(&str, Envelope)> = vec![
                ("ARID", Envelope::new(bc_components::ARID::from_data_ref([i as u8; 32]).unwrap())), ("UUID", Envelope::new(bc_components::UUID::from_data([i as u8; 16]))),
                ("Nonce", Envelope::new(CBOR::from(bc_components::Nonce::from_data([i as u8; 12])))), ("Salt", Envelope::new(bc_components::Salt::from_data(vec![i as u8; 16]))),
                ("Digest", Envelope::new(bc_components::Digest::from_image([i as u8]))), ("Date", Envelope::new(dcbor::Date::from_timestamp(1_700_000_000.0 + i as f64))),
                ("known value", Envelope::new(known_values::IS_A)), ("bytes", Envelope::new(CBOR::to_byte_string(vec![i as u8; 32]))), ("empty text", Envelope::new("")),
                ("wrapped", e.wrap_envelope()), ("elided", Envelope::new("hidden").elide()), ("compressed", Envelope::new("a compressible object, a compressible object").compress().unwrap()),
                ("node", Envelope::new("o").add_assertion("k", "v")), ("assertion", Envelope::new_assertion("k", "v"))];
            for (kind, obj) in objects {
                let pred = format!("typed{}", i);
                let r1 = guarded(|| e.add_assertion_salted(pred.as_str(), obj.clone(), true)); let r2 = guarded(|| e.add_assertion_salted(pred.as_str(), obj.clone(), true));
                let (x1, x2) = match (r1, r2) { (Ok(a), Ok(b2)) => (a, b2), _ => { c.check("no-panic", false, "salt-panic", || format!("add_assertion_salted with a {} object", kind)); continue; } };
                let plain = Envelope::new_assertion(pred.as_str(), obj.clone());
                let fresh: Vec<Envelope> = x1.assertions().into_iter().filter(|a| !e.assertions().iter().any(|y| y.digest() == a.digest())).collect();
                c.check("salted-carries-one-salt", fresh.len() == 1 && fresh[0].subject().digest() == plain.digest() && fresh[0].assertions_with_predicate(known_values::SALT).len() == 1 && fresh[0].assertions().len() == 1, "salted-shape", || format!("object kind {}: {}", kind, fresh.iter().map(shape).collect::<Vec<_>>().join(" ")));
                c.check("salted-adds-differ", x1.digest() != x2.digest(), "salts-equal", || format!("two salted adds of an assertion with a {} object are equal", kind));
                if let Some(f) = fresh.first() { c.check("salted-decorrelates", f.digest() != plain.digest(), "salted-correlates", || format!("object kind {}", kind)); }
                let both = guarded(|| x1.add_assertion_salted(pred.as_str(), obj.clone(), true));
                c.check("salted-after-salted-adds", matches!(&both, Ok(bb) if bb.assertions().len() == x1.assertions().len() + 1), "salted-after-plain-dropped", || format!("a second salted add of the same assertion ({} object) added nothing", kind));
            }
            c.count("branch:salted-object-kinds");
        }
        c.end();
    }
}

/// C18 - expressions, requests, responses, events
/// function and parameter names: ordinary ones, the empty one, non-ASCII, names of known functions, and names that look
/// like numbers (a named function "42" is not the known function 42)
const FN_NAMES: &[&str] = &["foo", "add", "", "héllo", "42", "0", "007", "18446744073709551615", "-1", " 7", "1e3", "getBalance"];
const PARAM_NAMES: &[&str] = &["bar", "lhs", "x", "1", "blank", "", "02"];

pub fn c18(c: &mut Ctx, b: &Budget) {
    let rounds = (b.scenarios / 2).max(20);
    let through_bytes = |e: &Envelope| -> Envelope { Envelope::from_tagged_cbor_data(bytes_of(e)).unwrap() };
    for i in 0..rounds {
        c.begin("expressions");
        // every constructor: by value, by run-time name, by static name (the const constructors), known with a static / owned name
        let f: Function = match i % 6 { 0 => Function::from((i as u64 / 6) % 18), 2 => Function::from((i as u64 % 7) + 1), 1 => Function::from(FN_NAMES[(i / 2) % FN_NAMES.len()]), 3 => Function::new_static_named(FN_NAMES[(i / 2) % FN_NAMES.len()]),
            4 => Function::new_with_static_name((i as u64 % 7) + 1, "staticName"), _ => Function::new_known((i as u64 % 7) + 1, Some(format!("owned{}", i))) };
        c.count(&format!("function-ctor:{}", i % 6));
        let mut ex = Expression::new(f.clone());
        let np = c.rng.below(4);
        let mut params = vec![];
        for k in 0..np {
            let p: Parameter = match c.rng.below(5) { 0 | 1 => Parameter::from(k as u64 + 1), 2 => Parameter::from(PARAM_NAMES[(k + i) % PARAM_NAMES.len()]), 3 => Parameter::new_static_named(PARAM_NAMES[(k + i) % PARAM_NAMES.len()]), _ => Parameter::new_with_static_name(k as u64 + 1, "staticParam") };
            let v = base_envelope(c, 1);
            ex = ex.with_parameter(p.clone(), v.clone());
            params.push((p, v));
        }
        // the same parameter given more than once, in both orders of its arguments (and a parameter repeated with equal arguments)
        if i % 3 == 0 {
            let rp = Parameter::from(PARAM_NAMES[i % PARAM_NAMES.len()]);
            let (v1, v2) = (Envelope::new(format!("arg {}", i)), Envelope::new(i as u64));
            let (first, second) = if (i / 3) % 2 == 0 { (v1.clone(), v2.clone()) } else { (v2.clone(), v1.clone()) };
            ex = ex.with_parameter(rp.clone(), first.clone()).with_parameter(rp.clone(), second.clone());
            params.push((rp.clone(), first)); params.push((rp, second));
            c.count("branch:repeated-parameter");
        }
        let env: Envelope = ex.clone().into();
        import(c, &env);
        for via in [env.clone(), through_bytes(&env)] {
            match guarded(|| Expression::try_from(via.clone())) {
                Ok(Ok(p)) => {
                    c.check("expression-roundtrip", p == ex && p.function() == &f, "expression-roundtrip", || shape(&via));
                    // told to expect the very function it was built with
                    let r = Expression::try_from((via.clone(), Some(&f)));
                    c.check("expected-function-accepted", r.is_ok(), "expected-function-rejected", || format!("{:?} refused for {}", f, shape(&via)));
                    for (pp, v) in &params { let objs = p.objects_for_parameter(pp.clone()); c.check("parameter-value", objs.iter().any(|o| o.is_identical_to(v)), "parameter-value", || shape(&via)); }
                }
                other => c.check("expression-roundtrip", false, "expression-roundtrip", || format!("{:?}", other.map(|r| r.map(|_| ()).map_err(|e| e.to_string())))),
            }
        }
        // known vs named function with equal text are distinct
        let named = Function::from("add"); let known = bc_envelope::functions::ADD;
        c.check("known-vs-named-distinct", Envelope::new(named.clone()).digest() != Envelope::new(known.clone()).digest() && named != known, "known-vs-named", || "equal".into());
        let other_f = Function::from("another");
        let r = Expression::try_from((env.clone(), Some(&other_f)));
        c.check("rejects-other-function", r.is_err() || f == other_f, "accepts-other-function", || shape(&env));
        // the verdict may not depend on what was parsed before: accepted without an expectation, accepted with the right one, then
        // presented with a wrong one (the very same envelope, and a freshly decoded copy)
        for again in [env.clone(), through_bytes(&env)] {
            let _ = Expression::try_from(again.clone());
            let _ = Expression::try_from((again.clone(), Some(&f)));
            for wrong in [Function::from("another"), Function::from(9999u64), if i % 2 == 0 { Function::from(FN_NAMES[(i / 2) % FN_NAMES.len()]) } else { Function::from((i as u64 % 7) + 1) }] {
                if wrong == f { continue; }
                let r = Expression::try_from((again.clone(), Some(&wrong)));
                c.check("rejects-other-function", r.is_err(), "accepts-other-function", || format!("after earlier successful parses, expected {:?} accepted for {}", wrong, shape(&again)));
            }
        }
        // request
        let id = ARID::from_data_ref(c.rng.bytes(32)).unwrap();
        let mut req = Request::new_with_body(ex.clone(), id);
        let note = ["", "a note", "ünïcode", " ", "\t\n"][i % 5];
        if !note.is_empty() { req = req.with_note(note); }
        let date_kind = i % 4;
        let date = match date_kind { 0 => None, 1 => Some(dcbor::Date::from_timestamp(1_700_000_000.0 + i as f64)), 2 => Some(dcbor::Date::from_timestamp(-86_400.0 * (i as f64 + 1.0))), _ => Some(if i % 8 == 3 { dcbor::Date::from_timestamp(1_700_000_000.5 + i as f64 * 0.125) } else { dcbor::Date::from_string(format!("2024-07-04T11:11:{:02}.{}Z", i % 60, ["1", "123456789", "000001"][i % 3])).unwrap() }) };
        if let Some(d) = &date { req = req.with_date(d); }
        c.count(&format!("date-kind:{}", ["absent", "integral", "negative", "fractional"][date_kind]));
        let renv: Envelope = req.clone().into();
        import(c, &renv);
        for via in [renv.clone(), through_bytes(&renv)] {
            match guarded(|| Request::try_from(via.clone())) {
                Ok(Ok(p)) => {
                    let key = if date_kind == 3 { "fractional-date-roundtrip" } else { "request-roundtrip" };
                    c.check("request-roundtrip", p == req, key, || format!("date {:?} -> {:?}; note {:?} -> {:?}", req.date().map(|d| d.to_string()), p.date().map(|d| d.to_string()), req.note(), p.note()));
                }
                other => c.check("request-roundtrip", false, "request-roundtrip", || format!("{:?}", other.map(|r| r.map(|_| ()).map_err(|e| e.to_string())))),
            }
        }
        // a parsed request is as good as a built one: edited after parsing (a parameter, an optional parameter, a note, a date) it encodes
        // exactly like the built one edited the same way, and parses back to it
        if date_kind != 3 {
            if let Ok(Ok(parsed)) = guarded(|| Request::try_from(renv.clone())) {
                let d0 = dcbor::Date::from_timestamp(86_400.0);
                let edits: Vec<(&str, Box<dyn Fn(Request) -> Request>)> = vec![
                    ("with_parameter", Box::new(|r: Request| r.with_parameter("added later", 7))),
                    ("with_optional_parameter", Box::new(|r: Request| r.with_optional_parameter("optional", Some(8)).with_optional_parameter("absent", None::<u64>))),
                    ("with_note", Box::new(|r: Request| r.with_note("another note"))),
                    ("with_date", Box::new(move |r: Request| r.with_date(&d0))),
                    ("with_parameter twice, then note", Box::new(|r: Request| r.with_parameter("one", 1).with_parameter("two", "2").with_note("n")))];
                for (what, edit) in &edits {
                    let got = guarded(|| { let built: Envelope = edit(req.clone()).into(); let from_parsed: Envelope = edit(parsed.clone()).into(); (built, from_parsed) });
                    match got {
                        Ok((built, from_parsed)) => {
                            c.check("parsed-then-edited", built.is_identical_to(&from_parsed), "request-roundtrip", || format!("{} after parsing: {} ; on the built value: {}", what, shape(&from_parsed), shape(&built)));
                            let back = guarded(|| Request::try_from(from_parsed.clone()).ok());
                            c.check("parsed-then-edited", matches!(&back, Ok(Some(p)) if *p == edit(req.clone())), "request-roundtrip", || format!("{} after parsing does not parse back to the edited request", what));
                        }
                        Err(site) => c.check("no-panic", false, "request-roundtrip", || site),
                    }
                }
                c.count("branch:parsed-then-edited");
            }
        }
        // shape: subject tagged 40004 ARID, 'body' expression
        c.check("request-shape", renv.object_for_predicate(known_values::BODY).map(|b| b.is_identical_to(&env)).unwrap_or(false) && renv.assertions().len() == 1 + (!note.is_empty()) as usize + date.is_some() as usize, "request-shape", || shape(&renv));
        // wrong subject tag
        let wrong = renv.replace_subject(Envelope::new(CBOR::to_tagged_value(40005u64, id)));
        c.check("request-rejects-wrong-tag", Request::try_from(wrong.clone()).is_err(), "request-accepts-wrong-tag", || shape(&wrong));
        let nobody = renv.remove_assertion(renv.assertion_with_predicate(known_values::BODY).unwrap());
        c.check("request-rejects-missing-body", Request::try_from(nobody.clone()).is_err(), "request-accepts-missing-body", || shape(&nobody));
        // responses
        let result = base_envelope(c, 1);
        let variants: Vec<(&str, Response)> = vec![("success-ok", Response::new_success(id)), ("success", Response::new_success(id).with_result(result.clone())),
            ("success-null", Response::new_success(id).with_result(Envelope::null())), ("success-none", Response::new_success(id).with_optional_result(None::<String>)),
            ("success-false", Response::new_success(id).with_result(false)), ("success-zero", Response::new_success(id).with_result(0)), ("success-empty", Response::new_success(id).with_result("")),
            ("success-null-decorated", Response::new_success(id).with_result(Envelope::null().add_assertion("why", "nothing"))), ("failure-null", Response::new_failure(id).with_error(Envelope::null())),
            ("failure-none", Response::new_failure(id).with_optional_error(None::<String>)), ("success-unknown-kv", Response::new_success(id).with_result(known_values::UNKNOWN_VALUE)),
            ("failure", Response::new_failure(id).with_error("boom")), ("failure-default", Response::new_failure(id)), ("early-failure", Response::new_early_failure()), ("early-failure-msg", Response::new_early_failure().with_error(result.clone()))];
        for (name, resp) in &variants {
            let venv: Envelope = resp.clone().into();
            import(c, &venv);
            c.count(&format!("response:{}", name));
            for via in [venv.clone(), through_bytes(&venv)] {
                match guarded(|| Response::try_from(via.clone())) { Ok(Ok(p)) => c.check("response-roundtrip", &p == resp, "response-roundtrip", || format!("{}: {}", name, shape(&via))),
                    other => c.check("response-roundtrip", false, "response-roundtrip", || format!("{}: {:?}", name, other.map(|r| r.map(|_| ()).map_err(|e| e.to_string())))) }
            }
            // malformed: both, neither, wrong tag
            let both = if resp.is_ok() { venv.add_assertion(known_values::ERROR, "e") } else { venv.add_assertion(known_values::RESULT, "r") };
            c.check("response-rejects-both", Response::try_from(both.clone()).is_err(), "response-accepts-both", || shape(&both));
            let both2 = both.add_assertion(if resp.is_ok() { known_values::RESULT } else { known_values::ERROR }, "second");
            c.check("response-rejects-both", Response::try_from(both2.clone()).is_err(), "response-accepts-both-with-duplicate", || format!("an envelope with result AND error assertions was parsed: {}", shape(&both2)));
            let neither = venv.subject();
            c.check("response-rejects-neither", Response::try_from(neither.clone()).is_err(), "response-accepts-neither", || shape(&neither));
            // neither result nor error, but other assertions on the subject (a note, a date, an application assertion, a decorated one)
            for extra in [neither.add_assertion(known_values::NOTE, "annotated"), neither.add_assertion("retry-after", 30), neither.add_assertion(known_values::DATE, dcbor::Date::from_timestamp(1_700_000_000.0)).add_assertion(known_values::NOTE, "n"),
                          neither.add_assertion_salted("x", "y", true), neither.add_assertion(known_values::BODY, "b")] {
                for via in [extra.clone(), through_bytes(&extra)] {
                    c.check("response-rejects-neither", Response::try_from(via.clone()).is_err(), "response-accepts-neither", || format!("{}: no result and no error, yet parsed: {}", name, shape(&via)));
                }
            }
            let wrong = venv.replace_subject(Envelope::new(CBOR::to_tagged_value(40004u64, id)));
            c.check("response-rejects-wrong-tag", Response::try_from(wrong.clone()).is_err(), "response-accepts-wrong-tag", || shape(&wrong));
            // the subject re-tagged (request, event, an unassigned tag) with its content - ARID or 'Unknown' - left as it is
            if let Some(leaf) = venv.subject().as_leaf() { if let CBORCase::Tagged(_, inner) = leaf.as_case() {
                for t in [40010u64, 40012, 40006] {
                    let w = venv.replace_subject(Envelope::new(CBOR::to_tagged_value(t, inner.clone())));
                    for via in [w.clone(), through_bytes(&w)] { c.check("response-rejects-wrong-tag", Response::try_from(via.clone()).is_err(), "response-accepts-wrong-tag", || format!("{}: subject re-tagged #6.{}: {}", name, t, shape(&via))); }
                }
                let untagged = venv.replace_subject(Envelope::new(inner.clone()));
                c.check("response-rejects-wrong-tag", Response::try_from(untagged.clone()).is_err(), "response-accepts-wrong-tag", || format!("{}: untagged subject {}", name, shape(&untagged)));
            } }
            // both result and error where the added one is decorated (salted, or carrying a note of its own)
            let (kv_other, val) = if resp.is_ok() { (known_values::ERROR, "e") } else { (known_values::RESULT, "r") };
            let deco1 = venv.add_assertion_salted(kv_other.clone(), val, true);
            let deco2 = venv.add_assertion_envelope(Envelope::new_assertion(kv_other.clone(), val).add_assertion(known_values::NOTE, "annotated")).unwrap();
            for d in [deco1, deco2] { c.check("response-rejects-both", Response::try_from(d.clone()).is_err(), "response-accepts-both-decorated", || format!("{}: result AND error present, one of them decorated: {}", name, shape(&d))); }
            // ... or the genuine one is decorated and the added one is plain
            if let Some(g) = venv.assertions().iter().find(|a| a.is_assertion()).cloned() {
                let stripped = venv.remove_assertion(g.clone());
                let redecorated = stripped.add_assertion_envelope(g.add_assertion(known_values::NOTE, "annotated")).unwrap().add_assertion(kv_other, val);
                c.check("response-rejects-both", Response::try_from(redecorated.clone()).is_err(), "response-accepts-both-decorated", || format!("{}: {}", name, shape(&redecorated)));
            }
        }
        // event
        let mut ev = Event::<String>::new(format!("content {}", i), id);
        if !note.is_empty() { ev = ev.with_note(note); }
        if let Some(d) = &date { ev = ev.with_date(d); }
        let eenv: Envelope = ev.clone().into();
        import(c, &eenv);
        for via in [eenv.clone(), through_bytes(&eenv)] {
            match guarded(|| Event::<String>::try_from(via.clone())) {
                Ok(Ok(p)) => { let key = if date_kind == 3 { "fractional-date-roundtrip" } else { "event-roundtrip" }; c.check("event-roundtrip", p == ev, key, || format!("date {:?} -> {:?}", ev.date().map(|d| d.to_string()), p.date().map(|d| d.to_string()))) }
                other => c.check("event-roundtrip", false, "event-roundtrip", || format!("{:?}", other.map(|r| r.map(|_| ()).map_err(|e| e.to_string())))),
            }
        }
        if date_kind != 3 {
            if let Ok(Ok(parsed)) = guarded(|| Event::<String>::try_from(eenv.clone())) {
                let d0 = dcbor::Date::from_timestamp(86_400.0);
                let got = guarded(|| { let a: Envelope = ev.clone().with_note("later").with_date(&d0).into(); let b2: Envelope = parsed.clone().with_note("later").with_date(&d0).into(); (a, b2) });
                match got { Ok((a, b2)) => c.check("parsed-then-edited", a.is_identical_to(&b2), "event-roundtrip", || format!("note and date changed after parsing: {} ; on the built value: {}", shape(&b2), shape(&a))), Err(site) => c.check("no-panic", false, "event-roundtrip", || site) }
            }
        }
        // the one-line summary names the content of this event (and does not panic for any note / date)
        match guarded(|| ev.summary()) {
            Ok(sm) => c.check("event-summary", sm.contains(&format!("content {}", i)), "event-summary", || sm.clone()),
            Err(site) => c.check("no-panic", false, "event-summary", || site),
        }
        // events whose content is an envelope, in every form an envelope can take (whole-compressed, elided, encrypted, wrapped,
        // with its subject compressed ...): the content comes back as it went in
        {
            let inner = base_envelope(c, 2);
            let forms: Vec<(&str, Envelope)> = vec![("plain", inner.clone()), ("compressed", inner.compress().unwrap_or(inner.clone())), ("elided", inner.elide()), ("wrapped", inner.wrap_envelope()),
                ("wrapped-compressed", inner.wrap_envelope().compress().unwrap()), ("subject-compressed", inner.compress_subject().unwrap_or(inner.clone())), ("encrypted", inner.encrypt(&SymmetricKey::new())), ("known-value", Envelope::new(known_values::NOTE))];
            for (fname, content) in forms {
                let mut ev2 = Event::<Envelope>::new(content.clone(), id);
                if i % 2 == 0 { ev2 = ev2.with_note("n"); }
                let env2: Envelope = ev2.clone().into();
                for via in [env2.clone(), through_bytes(&env2)] {
                    match guarded(|| Event::<Envelope>::try_from(via.clone())) {
                        Ok(Ok(p)) => c.check("event-roundtrip", p == ev2 && p.content().is_identical_to(&content), "event-roundtrip", || format!("content in {} form {} came back as {}", fname, shape(&content), shape(p.content()))),
                        other => c.check("event-roundtrip", false, "event-roundtrip", || format!("{} content: {:?}", fname, other.map(|r| r.map(|_| ()).map_err(|e| e.to_string())))),
                    }
                }
                c.count(&format!("event-content:{}", fname));
            }
        }
        let wrong = eenv.replace_subject(Envelope::new(CBOR::to_tagged_value(40004u64, id)));
        c.check("event-rejects-wrong-tag", Event::<String>::try_from(wrong.clone()).is_err(), "event-accepts-wrong-tag", || shape(&wrong));
        c.end();
    }
}

/// C19 - attachments and types
pub fn c19(c: &mut Ctx, b: &Budget) {
    let rounds = (b.scenarios / 2).max(20);
    let vendors = ["com.example", "org.other", "com.example"];
    let confs = [None, Some("https://example.com/v1"), Some("spec-2")];
    for i in 0..rounds {
        c.begin("attachments");
        let e = base_envelope(c, 2);
        let n = c.rng.range(0, 4);
        let mut added: Vec<(Envelope, String, Option<String>)> = vec![];
        let mut cur = e.clone();
        for k in 0..n {
            // payloads in every form an envelope can take: the query hands back what was attached, as it was attached
            let payload = match (k + i) % 6 { 0 => base_envelope(c, 2), 1 => Envelope::new(format!("payload {}", k)), 2 => base_envelope(c, 2).compress().unwrap_or(Envelope::new("z")), 3 => base_envelope(c, 1).elide(),
                4 => base_envelope(c, 1).wrap_envelope(), _ => { let x = base_envelope(c, 2); x.compress_subject().unwrap_or(x) } };
            let v = vendors[c.rng.below(3)]; let cf = confs[c.rng.below(3)];
            cur = cur.add_attachment(payload.clone(), v, cf);
            // (an attachment whose digest the envelope already holds - the same payload in another form - is not added again: the first form stays)
            if !added.iter().any(|(p, vv, cc)| p.is_equivalent_to(&payload) && vv == v && cc.as_deref() == cf) { added.push((payload, v.to_string(), cf.map(|s| s.to_string()))); }
        }
        import(c, &cur);
        let pre_existing = e.assertions_with_predicate(known_values::ATTACHMENT).len();
        match guarded(|| cur.attachments()) {
            Ok(Ok(atts)) => {
                c.check("attachments-exact", atts.len() == added.len() + pre_existing, "attachments-count", || format!("{} returned, {} added: {}", atts.len(), added.len(), shape(&cur)));
                for (p, v, cf) in &added {
                    let hit = atts.iter().any(|a| a.attachment_payload().map(|x| x.is_identical_to(p)).unwrap_or(false) && a.attachment_vendor().ok().as_deref() == Some(v.as_str()) && a.attachment_conforms_to().ok().flatten() == *cf);
                    c.check("attachment-fields", hit, "attachment-fields", || format!("attachment ({}, {:?}) not returned intact", v, cf));
                }
            }
            Ok(Err(x)) => c.check("attachments-exact", pre_existing > 0, "attachments-error", || format!("{} on {}", x, shape(&cur))),
            Err(site) => c.check("no-panic", false, "attachments-panic", || site),
        }
        if pre_existing == 0 {
            for vf in [None, Some("com.example"), Some("org.other"), Some("absent")] { for cf in [None, Some("https://example.com/v1"), Some("spec-2"), Some("absent")] {
                let want: Vec<&(Envelope, String, Option<String>)> = added.iter().filter(|(_, v, cc)| vf.map(|x| x == v).unwrap_or(true) && cf.map(|x| cc.as_deref() == Some(x)).unwrap_or(true)).collect();
                match guarded(|| cur.attachments_with_vendor_and_conforms_to(vf, cf)) {
                    Ok(Ok(got)) => c.check("filter-exact", got.len() == want.len() && want.iter().all(|(p, _, _)| got.iter().any(|a| a.attachment_payload().map(|x| x.is_identical_to(p)).unwrap_or(false))), "filter-exact", || format!("filter ({:?},{:?}): {} vs {}", vf, cf, got.len(), want.len())),
                    other => c.check("filter-exact", false, "filter-error", || format!("{:?}", other.map(|r| r.map(|_| ()).map_err(|e| e.to_string())))),
                }
                let single = guarded(|| cur.attachment_with_vendor_and_conforms_to(vf, cf));
                match (want.len(), single) {
                    (0, Ok(Err(x))) => { let k = err_kind(&x); c.check("single-none", k == "NonexistentAttachment", "single-none-error", || k.clone()) }
                    (1, Ok(Ok(a))) => c.check("single-one", a.attachment_payload().map(|x| x.is_identical_to(&want[0].0)).unwrap_or(false), "single-one", || shape(&a)),
                    (nn, Ok(Err(x))) if nn > 1 => { let k = err_kind(&x); c.check("single-many", k == "AmbiguousAttachment", "single-many-error", || k.clone()) }
                    (nn, other) => c.check("single-result", false, "single-result", || format!("{} matches: {:?}", nn, other.map(|r| r.map(|_| ()).map_err(|e| e.to_string())))),
                }
            } }
        }
        // malformed attachment assertions
        let good = Envelope::new_attachment("payload", "com.example", Some("conf"));
        c.check("valid-attachment-validates", good.validate_attachment().is_ok(), "valid-attachment-rejected", || shape(&good));
        let obj = good.as_object().unwrap();
        let malformed: Vec<(&str, Envelope)> = vec![
            ("no-vendor", Envelope::new_assertion(known_values::ATTACHMENT, obj.remove_assertion(obj.assertion_with_predicate(known_values::VENDOR).unwrap()))),
            ("two-vendors", Envelope::new_assertion(known_values::ATTACHMENT, obj.add_assertion(known_values::VENDOR, "second"))),
            ("two-conforms", Envelope::new_assertion(known_values::ATTACHMENT, obj.add_assertion(known_values::CONFORMS_TO, "second"))),
            ("unwrapped-payload", Envelope::new_assertion(known_values::ATTACHMENT, Envelope::new("payload").add_assertion(known_values::VENDOR, "v"))),
            ("extra-assertion", Envelope::new_assertion(known_values::ATTACHMENT, obj.add_assertion("extra", 1))),
            ("vendor-not-text", Envelope::new_assertion(known_values::ATTACHMENT, Envelope::new("p").wrap_envelope().add_assertion(known_values::VENDOR, 7))),
            ("not-an-assertion", Envelope::new("plain")),
        ];
        // an attachment assertion that carries assertions of its own (annotated, salted) is not a valid attachment: the accessors
        // read the envelope itself, so validation must not look through to its subject either
        let mut malformed = malformed;
        malformed.push(("annotated-attachment", good.add_assertion(known_values::NOTE, "a note")));
        malformed.push(("salted-attachment", good.add_salt()));
        // every malformed attachment inside a host, under filters that select it and filters that do not: the envelope holds an invalid
        // attachment whichever attachments the caller asked for
        for (name, m) in malformed.iter().rev() {
            if !(m.is_subject_assertion() || m.is_subject_obscured()) { continue; }
            let host = e.add_assertion_envelope(m.clone()).unwrap();
            for (vf, cf) in [(Some("com.example"), None), (None, Some("conf")), (Some("com.example"), Some("conf")), (Some("nobody"), None)] {
                let got = guarded(|| host.attachments_with_vendor_and_conforms_to(vf, cf).map(|v| v.len()));
                c.check("malformed-invalid", matches!(got, Ok(Err(_))), "malformed-attachment-accepted", || format!("{} in a host, filter ({:?},{:?}): {:?}", name, vf, cf, got.as_ref().map(|r| r.as_ref().map_err(|e| e.to_string()))));
                let got1 = guarded(|| host.attachment_with_vendor_and_conforms_to(vf, cf).map(|a| shape(&a)));
                c.check("malformed-invalid", matches!(got1, Ok(Err(_))), "malformed-attachment-accepted", || format!("{} in a host, single-result form ({:?},{:?}): {:?}", name, vf, cf, got1.as_ref().map(|r| r.as_ref().map_err(|e| e.to_string()))));
            }
        }
        // the same attachment (same digest, validated above) with the parts validation must read obscured
        {
            let host_ok = e.add_assertion_envelope(good.clone()).unwrap();
            let _ = guarded(|| host_ok.attachments());
            let va = obj.assertion_with_predicate(known_values::VENDOR).unwrap();
            let ca = obj.assertion_with_predicate(known_values::CONFORMS_TO).unwrap();
            let mut t: HashSet<bc_components::Digest> = HashSet::new();
            let mut variant = |name: &'static str, targets: Vec<Envelope>, malformed: &mut Vec<(&str, Envelope)>| {
                t.clear(); for x in &targets { t.insert(x.digest().into_owned()); }
                for (k, m) in [good.elide_removing_set(&t), good.elide_removing_set_with_action(&t, &ObscureAction::Compress)].into_iter().enumerate() {
                    if m.digest() == good.digest() && !m.is_identical_to(&good) && m.is_assertion() { malformed.push((if k == 0 { name } else { "compressed-part" }, m)); }
                }
            };
            variant("object-elided", vec![obj.clone()], &mut malformed);
            variant("vendor-assertion-elided", vec![va.clone()], &mut malformed);
            variant("vendor-value-elided", vec![va.as_object().unwrap()], &mut malformed);
            variant("conforms-assertion-elided", vec![ca.clone()], &mut malformed);
            variant("conforms-value-elided", vec![ca.as_object().unwrap()], &mut malformed);
            variant("wrapped-payload-subject-elided", vec![obj.subject()], &mut malformed);
            c.count_n("branch:obscured-attachment-variants", malformed.len() as u64 - 9);
        }
        for (name, m) in &malformed {
            let got = guarded(|| m.validate_attachment());
            c.check("malformed-invalid", matches!(got, Ok(Err(_))), "malformed-attachment-accepted", || format!("{}: {}", name, shape(m)));
            if m.is_assertion() { let host = e.add_assertion_envelope(m.clone()).unwrap(); let got = guarded(|| host.attachments()); c.check("malformed-invalid", matches!(got, Ok(Err(_))), "malformed-attachment-accepted", || format!("{} inside an envelope", name)); }
        }
        // types
        let all_types: Vec<Envelope> = vec![Envelope::new(known_values::SEED_TYPE), Envelope::new(known_values::PRIVATE_KEY_TYPE), Envelope::new("Custom"), Envelope::new(7u64), Envelope::new(KnownValue::new(100000))];
        let base_t = e.subject();
        let mut te = base_t.clone();
        // the subject may itself be a node that already carries 'isA' assertions (a node can be the subject of a node): they count
        let mut mine: Vec<Envelope> = guarded(|| base_t.types()).unwrap_or_default();
        for t in &all_types { if c.rng.chance(1, 2) { te = te.add_type(t.clone()); mine.push(t.clone()); } }
        if i % 3 == 0 { if let Some(t) = mine.first() { te = te.add_assertion_salted(known_values::IS_A, t.clone(), true); } }
        import(c, &te);
        for t in &all_types {
            let want = mine.iter().any(|x| x.digest() == t.digest());
            let got = guarded(|| te.has_type_envelope(t.clone()));
            c.check("has-type-iff-added", got == Ok(want), "has-type", || format!("type {} expected {} got {:?} on {}", shape(t), want, got, shape(&te)));
            let chk = guarded(|| te.check_type_envelope(t.clone()).is_ok());
            c.check("check-type-iff-added", chk == Ok(want), "check-type", || shape(t));
            if let Some(kv) = t.as_known_value() { let got = guarded(|| te.has_type(kv)); c.check("has-type-iff-added", got == Ok(want), "has-type", || shape(t)); }
        }
        // a type object that is a known value carrying an assertion is not the bare known value
        let decorated_type = Envelope::new(known_values::SEED_TYPE).add_assertion("schemaVersion", 2);
        let td = base_t.add_type(decorated_type.clone());
        if !mine.iter().any(|x| x.digest() == Envelope::new(known_values::SEED_TYPE).digest()) {
            let got = guarded(|| td.has_type(&known_values::SEED_TYPE));
            c.check("has-type-iff-added", got == Ok(false), "has-type-ignores-type-assertions", || format!("has_type(Seed) = {:?} although only a decorated Seed type object was added", got));
            let got = guarded(|| td.check_type(&known_values::SEED_TYPE).is_ok());
            c.check("check-type-iff-added", got == Ok(false), "has-type-ignores-type-assertions", || "check_type".into());
        }
        let got = guarded(|| td.has_type_envelope(decorated_type.clone()));
        c.check("has-type-iff-added", got == Ok(true), "has-type", || "decorated type not found".into());
        // types are compared by digest: a structured type object that is partly obscured on one side only - in the document, or in
        // the checker's hand - is still that type
        {
            let inner = decorated_type.assertions()[0].clone();
            let key = SymmetricKey::from_data_ref(hex::decode(KEY1).unwrap()).unwrap();
            let mut t: HashSet<bc_components::Digest> = HashSet::new(); t.insert(inner.digest().into_owned());
            let forms: Vec<(&str, Envelope)> = vec![("assertion-elided", decorated_type.elide_removing_set(&t)), ("assertion-compressed", decorated_type.elide_removing_set_with_action(&t, &ObscureAction::Compress)),
                ("assertion-encrypted", decorated_type.elide_removing_set_with_action(&t, &ObscureAction::Encrypt(key.clone()))), ("whole-elided", decorated_type.elide()), ("whole-compressed", decorated_type.compress().unwrap())];
            for (name, form) in &forms {
                // the checker holds the obscured form
                let got = guarded(|| (td.has_type_envelope(form.clone()), td.check_type_envelope(form.clone()).is_ok()));
                c.check("has-type-iff-added", got == Ok((true, true)), "has-type", || format!("type object asked about in its {} form: {:?}", name, got));
                // the document holds the obscured form
                let td2 = base_t.add_type(form.clone());
                let got = guarded(|| (td2.has_type_envelope(decorated_type.clone()), td2.check_type_envelope(decorated_type.clone()).is_ok()));
                c.check("has-type-iff-added", got == Ok((true, true)), "has-type", || format!("type object held in its {} form: {:?}", name, got));
                c.count("branch:type-object-obscured-on-one-side");
            }
            // ... or obscured after it was added
            let td3 = td.elide_removing_set(&t);
            let got = guarded(|| td3.has_type_envelope(decorated_type.clone()));
            c.check("has-type-iff-added", got == Ok(true), "has-type", || "type object partly elided after it was added".into());
        }
        // the two doors - Envelope::add_attachment and the Attachments container - agree for every triple, the awkward ones included
        // (conformsTo present but empty, an empty vendor, text with blanks)
        for (v, cf) in [("com.example", Some("")), ("", Some("x")), ("", Some("")), ("com.example", None), (" padded ", Some(" padded ")), ("com.example", Some("conf"))] {
            let direct = guarded(|| e.add_attachment("payload", v, cf));
            let mut cont = bc_envelope::Attachments::new(); cont.add("payload", v, cf);
            let via = guarded(|| cont.add_to_envelope(e.clone()));
            c.check("container-agrees", matches!((&direct, &via), (Ok(a), Ok(b2)) if a.is_identical_to(b2)), "attachments-container", || format!("vendor {:?} conformsTo {:?}: add_attachment gives {:?}, the container {:?}", v, cf, direct.as_ref().map(shape), via.as_ref().map(shape)));
            if let Ok(x) = &via {
                let got = guarded(|| x.attachments_with_vendor_and_conforms_to(Some(v), cf).map(|l| l.len()).ok());
                c.check("filter-exact", got == Ok(Some(1)) || pre_existing > 0, "filter-exact", || format!("the attachment added through the container as ({:?}, {:?}) is not found by that very filter: {:?}", v, cf, got));
                if let Ok(Ok(l)) = guarded(|| x.attachments()) { if let Some(a) = l.iter().find(|a| a.attachment_vendor().ok().as_deref() == Some(v) && a.attachment_payload().map(|p| p.is_identical_to(&Envelope::new("payload"))).unwrap_or(false)) {
                    c.check("attachment-fields", a.attachment_conforms_to().ok().flatten().as_deref() == cf, "attachment-fields", || format!("conformsTo {:?} reads back as {:?}", cf, a.attachment_conforms_to().ok().flatten())); } }
            }
            let d = Envelope::new_attachment("payload", v, cf).digest().into_owned();
            c.check("container-get", cont.get(&d).is_some(), "attachments-container", || format!("get by the digest of new_attachment(payload, {:?}, {:?})", v, cf));
        }
        // the Attachments container: reading the attachments of an envelope and writing them (back, or onto the bare original)
        if pre_existing == 0 {
            match guarded(|| bc_envelope::Attachments::try_from_envelope(&cur)) {
                Ok(Ok(at)) => {
                    let back = guarded(|| at.add_to_envelope(cur.clone()));
                    c.check("container-writes-back", matches!(&back, Ok(x) if x.is_identical_to(&cur) && bytes_of(x) == bytes_of(&cur)), "attachments-container", || format!("writing an envelope's own attachments back changed it: {} -> {:?}", shape(&cur), back.as_ref().map(shape)));
                    let fresh = guarded(|| at.add_to_envelope(e.clone()));
                    c.check("container-writes-back", matches!(&fresh, Ok(x) if x.is_identical_to(&cur)), "attachments-container", || format!("writing the attachments onto the bare original does not rebuild the envelope: {:?} vs {}", fresh.as_ref().map(shape), shape(&cur)));
                    if let Ok(x) = &back { let n = guarded(|| x.attachments().map(|v| v.len()).ok()); c.check("attachments-exact", n == Ok(Some(added.len())), "attachments-count", || format!("{:?} attachments after writing {} back", n, added.len())); import(c, x); }
                    c.check("container-empty-iff", at.is_empty() == added.is_empty(), "attachments-container", || "is_empty".into());
                    // a container filled by hand with the same triples writes the same envelope
                    let mut hand = bc_envelope::Attachments::new();
                    for (p, v, cf) in &added { hand.add(p.clone(), v, cf.as_deref()); }
                    let built = guarded(|| hand.add_to_envelope(e.clone()));
                    c.check("container-writes-back", matches!(&built, Ok(x) if x.is_identical_to(&cur)), "attachments-container", || "a container filled by hand does not rebuild the envelope".into());
                    for (p, v, cf) in &added { let d = Envelope::new_attachment(p.clone(), v, cf.as_deref()).digest().into_owned(); c.check("container-get", hand.get(&d).is_some() && at.get(&d).map(|a| a.attachment_payload().map(|x| x.is_identical_to(p)).unwrap_or(false)).unwrap_or(false), "attachments-container", || "get".into()); }
                    if let Some((p, v, cf)) = added.first() { let d = Envelope::new_attachment(p.clone(), v, cf.as_deref()).digest().into_owned(); let r = hand.remove(&d); c.check("container-get", r.is_some() && hand.get(&d).is_none(), "attachments-container", || "remove".into()); hand.clear(); c.check("container-get", hand.is_empty(), "attachments-container", || "clear".into()); }
                    c.count("branch:attachments-container");
                }
                other => c.check("container-reads", false, "attachments-container", || format!("{:?}", other.map(|r| r.map(|_| ()).map_err(|e| e.to_string())))),
            }
        }
        let tys = guarded(|| te.types());
        if let Ok(tys) = tys { let distinct: HashSet<_> = tys.iter().map(|t| t.digest().into_owned()).collect(); let want: HashSet<_> = mine.iter().map(|t| t.digest().into_owned()).collect(); c.check("types-exact", distinct == want, "types-exact", || format!("{} vs {}", distinct.len(), want.len())); }
        let gt = guarded(|| te.get_type());
        c.check("get-type-single", matches!(&gt, Ok(Ok(_))) == (te.assertions_with_predicate(known_values::IS_A).len() == 1), "get-type", || format!("{:?}", gt.map(|r| r.map(|_| ()).map_err(|e| e.to_string()))));
        c.end();
    }
}

// ------------------------------------------------------------------ model-side families

fn hexs(s: &str) -> String { hex::encode(s.as_bytes()) }

/// C17, model side: salting through explicit salts, compared with the model
pub fn c17_model(c: &mut Ctx, b: &Budget) {
    let cfg = GenCfg::default();
    for i in 0..(b.scenarios / 2).max(20) {
        c.begin("salt-model");
        let e = gen_env(c, &cfg, 2);
        if !c.is_ok(&e) { c.end(); continue; }
        let sl = 8 + c.rng.below(12); let salt = hex::encode(c.rng.bytes(sl));
        let s = c.assign(&format!("add_salt_instance {} {}", e, salt));
        c.obs(&format!("shape {}", s));
        // the library's own random add_salt: read the drawn salt back and hand it to the model
        if let Some(env) = c.env(&e) {
            let salted = env.add_salt();
            let drawn = salted.assertions_with_predicate(known_values::SALT).into_iter().find(|a| !env.assertions().iter().any(|x| x.digest() == a.digest()))
                .and_then(|a| a.as_object()).and_then(|o| o.extract_subject::<Salt>().ok());
            if let Some(d) = drawn {
                let m = c.assign(&format!("add_salt_instance {} {}", e, hex::encode(d.data())));
                let imp = c.assign(&format!("decode {}", hex::encode(bytes_of(&salted))));
                c.obs(&format!("eq {} {}", m, imp));
                let same = c.env(&m).map(|x| x.digest() == salted.digest()).unwrap_or(false);
                c.check("add-salt-is-one-salt-assertion", same, "salt-shape", || "add_salt() differs from adding the drawn salt as one 'salt' assertion".into());
            }
        }
        for n in [0usize, 7, 8, 9, 30] { let bytes = hex::encode(c.rng.bytes(n.max(1))); c.assign(&format!("add_salt_with_len {} {} {}", e, n, bytes)); }
        let p = gen_leaf(c, &cfg); let o = gen_env(c, &cfg, 1);
        let sa = c.assign(&format!("add_salted {} {} {} {}", e, p, o, salt));
        let un = c.assign(&format!("add_salted {} {} {} -", e, p, o));
        let plain_a = c.assign(&format!("assertion {} {}", p, o));
        let plain = c.assign(&format!("add {} {}", e, plain_a));
        c.obs(&format!("shape {}", sa));
        c.obs(&format!("eq {} {}", un, plain));
        c.obs(&format!("awp {} {}", sa, p));
        c.obs(&format!("ofp {} {}", sa, p));
        c.obs(&format!("osfp {} {}", sa, p));
        let _ = i;
        c.end();
    }
}

/// C19, model side: attachments and types through the EVL
pub fn c19_model(c: &mut Ctx, b: &Budget) {
    let cfg = GenCfg::default();
    let vendors = ["com.example", "org.other"];
    let confs = ["-".to_string(), hexs("https://example.com/v1"), hexs("spec-2")];
    for i in 0..(b.scenarios / 2).max(20) {
        c.begin("attachments-model");
        let mut e = gen_leaf(c, &cfg);
        for _ in 0..c.rng.below(2) { let a = gen_assertion(c, &cfg, 1); let n = c.assign(&format!("add {} {}", e, a)); if c.is_ok(&n) { e = n; } }
        let n = c.rng.below(4);
        for _ in 0..n {
            let payload = gen_env(c, &cfg, 2);
            let v = hexs(vendors[c.rng.below(2)]); let cf = confs[c.rng.below(3)].clone();
            let r = c.assign(&format!("add_attachment {} {} {} {}", e, payload, v, cf));
            if c.is_ok(&r) { e = r; }
        }
        // sometimes a malformed or decorated attachment assertion
        if i % 3 == 0 {
            let k = c.assign("kv 50");
            let bad_obj = match c.rng.below(4) {
                0 => gen_leaf(c, &cfg),
                1 => { let pl = gen_leaf(c, &cfg); c.assign(&format!("wrap {}", pl)) }   // no vendor
                2 => { let pl = gen_leaf(c, &cfg); let w = c.assign(&format!("wrap {}", pl)); let vp = c.assign("kv 51"); let vo = c.assign("leaf 07"); let va = c.assign(&format!("assertion {} {}", vp, vo)); c.assign(&format!("add {} {}", w, va)) } // vendor not text
                _ => { let pl = gen_leaf(c, &cfg); let good = c.assign(&format!("new_attachment {} {} -", pl, hexs("v"))); let o = c.assign(&format!("at {} o", good)); let vp = c.assign("kv 51"); let vo = c.assign(&format!("leaf {}", hex::encode(CBOR::from("second").to_cbor_data()))); let va = c.assign(&format!("assertion {} {}", vp, vo)); c.assign(&format!("add {} {}", o, va)) } // two vendors
            };
            let a = c.assign(&format!("assertion {} {}", k, bad_obj));
            c.obs(&format!("validate_attachment {}", a));
            let r = c.assign(&format!("add {} {}", e, a));
            if c.is_ok(&r) { e = r; c.count("branch:malformed-attachment"); }
        }
        if i % 4 == 1 {
            // decorated (salted) attachment assertion
            let pl = gen_leaf(c, &cfg); let good = c.assign(&format!("new_attachment {} {} -", pl, hexs("com.example")));
            let sp = c.assign("kv 15"); let so = c.assign("leaf 480102030405060708"); let sa = c.assign(&format!("assertion {} {}", sp, so));
            let dec = c.assign(&format!("add {} {}", good, sa));
            let r = c.assign(&format!("add {} {}", e, dec));
            if c.is_ok(&r) { e = r; c.count("branch:decorated-attachment"); }
        }
        c.obs(&format!("shape {}", e));
        for v in ["-".to_string(), hexs("com.example"), hexs("org.other"), hexs("absent")] { for cf in ["-".to_string(), hexs("https://example.com/v1"), hexs("absent")] {
            c.obs(&format!("attachments {} {} {}", e, v, cf));
            c.assign(&format!("attachment1 {} {} {}", e, v, cf));
        } }
        if let Some(env) = c.env(&e) { for (k, a) in env.assertions().iter().enumerate() { if a.is_assertion() { let r = c.assign(&format!("at {} a{}", e, k)); c.obs(&format!("validate_attachment {}", r)); c.obs(&format!("attachment_fields {}", r)); } } }
        // types
        let mut te = gen_leaf(c, &cfg);
        let tys = [c.assign("kv 200"), c.assign("kv 201"), c.assign(&format!("leaf {}", hex::encode(CBOR::from("Custom").to_cbor_data()))), c.assign("leaf 07")];
        for t in &tys { if c.rng.chance(1, 2) { te = c.assign(&format!("add_type {} {}", te, t)); } }
        if i % 3 == 0 { let p = c.assign("kv 1"); te = c.assign(&format!("add_salted {} {} {} 0102030405060708", te, p, tys[0])); }
        c.obs(&format!("types {}", te));
        for t in &tys { c.obs(&format!("has_type {} {}", te, t)); }
        c.assign(&format!("get_type {}", te));
        c.end();
    }
}

/// C18, model side
pub fn c18_model(c: &mut Ctx, b: &Budget) {
    let cfg = GenCfg::default();
    for i in 0..(b.scenarios / 2).max(20) {
        c.begin("expressions-model");
        let f = if i % 2 == 0 { format!("k:{}", (i % 7) + 1) } else { format!("n:{}", hexs(FN_NAMES[(i / 2) % FN_NAMES.len()])) };
        let np = c.rng.below(4);
        let mut ps = vec![];
        for k in 0..np { let v = gen_env(c, &cfg, 1); let p = if c.rng.chance(1, 2) { format!("k:{}", k + 1) } else { format!("n:{}", hexs(PARAM_NAMES[(k + i) % PARAM_NAMES.len()])) }; ps.push(format!("{}={}", p, v)); }
        let pss = if ps.is_empty() { "-".to_string() } else { ps.join(",") };
        let ex = c.assign(&format!("mk_expression {} {}", f, pss));
        c.obs(&format!("shape {}", ex));
        c.obs(&format!("parse_expression {} -", ex));
        c.obs(&format!("parse_expression {} {}", ex, f));
        c.obs(&format!("parse_expression {} n:{}", ex, hexs("another")));
        c.obs(&format!("parse_expression {} k:999", ex));
        let id = hex::encode(c.rng.bytes(32));
        let note = ["-".to_string(), hexs("a note"), hexs("ünïcode")][i % 3].clone();
        let date = ["-".to_string(), format!("{}", 1_700_000_000i64 + i as i64), format!("-{}", 86_400 * (i as i64 + 1)), "0".to_string()][i % 4].clone();
        let rq = c.assign(&format!("mk_request {} {} {} {} {}", id, f, pss, note, date));
        c.obs(&format!("shape {}", rq));
        c.obs(&format!("parse_request {}", rq));
        let rc = c.assign(&format!("recode {}", rq)); c.obs(&format!("parse_request {}", rc));
        // malformed requests
        let wrong_tag = c.assign(&format!("leaf {}", hex::encode(CBOR::to_tagged_value(40005u64, CBOR::to_tagged_value(40012u64, CBOR::to_byte_string(vec![1u8; 32]))).to_cbor_data())));
        let w = c.assign(&format!("replace_subject {} {}", rq, wrong_tag)); c.obs(&format!("parse_request {}", w));
        if let Some(env) = c.env(&rq) { if let Some(k) = env.assertions().iter().position(|a| a.as_predicate().map(|p| p.digest() == Envelope::new(known_values::BODY).digest()).unwrap_or(false)) { let ba = c.assign(&format!("at {} a{}", rq, k)); let nb = c.assign(&format!("remove {} {}", rq, ba)); c.obs(&format!("parse_request {}", nb)); } }
        c.obs(&format!("parse_request {}", ex));
        // responses
        let body = gen_env(c, &cfg, 1);
        for (kind, idv) in [("success", id.clone()), ("failure", id.clone()), ("failure", "-".to_string())] {
            let rs = c.assign(&format!("mk_response {} {} {}", kind, idv, body));
            c.obs(&format!("shape {}", rs));
            c.obs(&format!("parse_response {}", rs));
            let rp = c.assign("kv 101"); let ep = c.assign("kv 102"); let x = gen_leaf(c, &cfg);
            let other = if kind == "success" { c.assign(&format!("assertion {} {}", ep, x)) } else { c.assign(&format!("assertion {} {}", rp, x)) };
            let both = c.assign(&format!("add {} {}", rs, other)); c.obs(&format!("parse_response {}", both));
            let y = gen_leaf(c, &cfg);
            let dup = if kind == "success" { c.assign(&format!("assertion {} {}", rp, y)) } else { c.assign(&format!("assertion {} {}", ep, y)) };
            let both2 = c.assign(&format!("add {} {}", both, dup)); c.obs(&format!("parse_response {}", both2));
            let two = c.assign(&format!("add {} {}", rs, dup)); c.obs(&format!("parse_response {}", two));
            let neither = c.assign(&format!("subject {}", rs)); c.obs(&format!("parse_response {}", neither));
            { let np = c.assign("kv 4"); let nv = gen_leaf(c, &cfg); let na = c.assign(&format!("assertion {} {}", np, nv)); let nn = c.assign(&format!("add {} {}", neither, na)); c.obs(&format!("parse_response {}", nn));
              let ap = gen_leaf(c, &cfg); let aa = c.assign(&format!("assertion {} {}", ap, nv)); let n2 = c.assign(&format!("add {} {}", nn, aa)); c.obs(&format!("parse_response {}", n2));
              // the genuine result / error assertion elided in its slot
              if let Some(re) = c.env(&rs) { if let Some(k) = re.assertions().iter().position(|a| a.is_assertion()) { let t = c.assign(&format!("at {} a{}", rs, k)); let el = c.assign(&format!("elide_set {} rem elide {}", rs, t)); c.obs(&format!("parse_response {}", el)); } } }
            let wt = c.assign(&format!("replace_subject {} {}", rs, wrong_tag)); c.obs(&format!("parse_response {}", wt));
            let kvsub = c.assign(&format!("leaf {}", hex::encode(CBOR::to_tagged_value(40005u64, CBOR::to_tagged_value(40000u64, 99u64)).to_cbor_data())));
            let ws = c.assign(&format!("replace_subject {} {}", rs, kvsub)); c.obs(&format!("parse_response {}", ws));
        }
        // events
        let ev = c.assign(&format!("mk_event {} {} {} {}", id, hexs(&format!("content {}", i)), note, date));
        c.obs(&format!("shape {}", ev));
        c.obs(&format!("parse_event {}", ev));
        let we = c.assign(&format!("replace_subject {} {}", ev, wrong_tag)); c.obs(&format!("parse_event {}", we));
        c.obs(&format!("parse_event {}", rq));
        c.end();
    }
}


// ---------------------------------------------------------------------------------- C10 / C11 on both sides

fn catch<T>(f: impl FnOnce() -> T) -> Option<T> { guarded(f).ok() }
fn c_show(c: &Ctx, r: &str) -> String { c.val(r).show() }

/// C10 with the model in the loop: content key, nonce and sealed messages are made here (real KEMs) and handed to both sides as
/// explicit arguments; what every private key of the scenario does with every sealed message is stated to the model as facts.
pub fn c10_model(c: &mut Ctx, b: &Budget) {
    let cfg = GenCfg::default();
    let schemes = [(0u64, EncapsulationScheme::X25519), (1, EncapsulationScheme::MLKEM512), (2, EncapsulationScheme::MLKEM768)];
    for i in 0..(b.scenarios / 3).max(20) {
        c.begin("recipients-model");
        let e = gen_env(c, &cfg, 2);
        let n = c.rng.range(1, 3);
        // key ids 1..=n are recipients, n+1 is added later, n+2 is an outsider
        let mut keys = vec![];
        for kid in 1..=(n as u64 + 2) {
            let (si, sch) = if i % 3 == 0 { schemes[0].clone() } else { c.rng.pick(&schemes).clone() };
            let (sk, pk) = sch.keypair();
            c.line(format!("fact kemkey {} {}", kid, hex::encode(CBOR::from(sk.clone()).to_cbor_data())));
            c.line(format!("fact kemscheme key {} {}", kid, si));
            c.count(&format!("scheme:{}", si));
            keys.push((kid, si, sk, pk));
        }
        let ck = c.rng.bytes(32); let nonce = c.rng.bytes(12);
        let ckobj = SymmetricKey::from_data_ref(&ck).unwrap();
        let mut seal = |c: &mut Ctx, to: usize, payload: Vec<u8>| -> String {
            let sm = bc_components::SealedMessage::new(payload, &keys[to].3);
            let hx = hex::encode(sm.to_cbor_data());
            let r = c.assign(&format!("leaf {}", hx));
            c.line(format!("fact kemscheme sealed {} {}", hx, keys[to].1));
            for (kid, si, sk, _) in &keys {
                if *si != keys[to].1 { continue; }   // the library never hands a message of another scheme to a key
                if let Some(Ok(pt)) = catch(|| sm.decrypt(sk)) { c.line(format!("fact kem {} {} {}", kid, hx, hex::encode(pt))); }
            }
            r
        };
        let mut sealed = vec![];
        for to in 0..n { sealed.push(seal(c, to, ckobj.to_cbor_data())); }
        if c.rng.chance(1, 4) { let d = sealed[0].clone(); sealed.push(d); c.count("branch:duplicate-recipient"); }
        if c.rng.chance(1, 4) { // a sealed message for recipient 1 that holds something other than the content key
            let junk = seal(c, 0, CBOR::from("not a key").to_cbor_data()); sealed.insert(0, junk); c.count("branch:sealed-junk-first"); }
        let x = c.assign(&format!("enc_to_recipients {} {} {} {}", e, hex::encode(&ck), hex::encode(&nonce), sealed.join(",")));
        c.obs(&format!("shape {}", x));
        c.obs(&format!("recipients {}", x));
        let all_kids: Vec<u64> = keys.iter().map(|k| k.0).collect();
        let ck_cbor = ckobj.to_cbor_data();
        let keys_ref = &keys;
        let orig_subject = c.env(&e).map(|x| x.subject());
        let try_all = |c: &mut Ctx, env: &str, what: &str| {
            // who must open: a key for which some *readable* (not obscured) sealed message of the envelope, of its own scheme,
            // decrypts to the content key - computed here from the envelope's parts and the real KEM, not from `recipients()`
            let readable: Vec<bc_components::SealedMessage> = c.env(env).map(|x| x.assertions_with_predicate(known_values::HAS_RECIPIENT).iter()
                .filter_map(|a| a.subject().as_object()).filter(|o| !o.is_obscured()).filter_map(|o| o.extract_subject::<bc_components::SealedMessage>().ok()).collect()).unwrap_or_default();
            // an envelope carrying a 'hasRecipient' object that is readable but no sealed message is malformed: `recipients()`
            // reports the extraction error to everybody; no expectation is attached to it
            let malformed = c.env(env).map(|x| x.assertions_with_predicate(known_values::HAS_RECIPIENT).iter().filter_map(|a| a.subject().as_object())
                .any(|o| !o.is_obscured() && o.extract_subject::<bc_components::SealedMessage>().is_err())).unwrap_or(false);
            for kid in &all_kids {
                let d = c.assign(&format!("decrypt_subject_to_recipient {} {}", env, kid));
                if c.is_ok(&d) { c.obs(&format!("shape {}", d)); c.count(&format!("outcome-model:{}:opens", what)); } else { c.count(&format!("outcome-model:{}:fails", what)); }
                if malformed { c.count("branch:malformed-recipient-object"); continue; }
                let k = keys_ref.iter().find(|k| k.0 == *kid).unwrap();
                let should = readable.iter().any(|sm| sm.encapsulation_scheme() == k.3.encapsulation_scheme() && catch(|| sm.decrypt(&k.2)).and_then(|r| r.ok()).map(|pt| pt == ck_cbor).unwrap_or(false));
                let junk_first = readable.iter().any(|sm| sm.encapsulation_scheme() == k.3.encapsulation_scheme() && catch(|| sm.decrypt(&k.2)).and_then(|r| r.ok()).map(|pt| pt != ck_cbor).unwrap_or(false));
                if should && !junk_first {
                    let ok = c.env(&d).zip(orig_subject.clone()).map(|(x, s0)| x.subject().is_identical_to(&s0)).unwrap_or(false);
                    let shown = c_show(c, &d);
                    c.check("recipient-opens", ok, "recipient-opens", || format!("{}: key {} holds a readable sealed message with the content key but decrypt_subject_to_recipient gave {}", what, kid, shown));
                } else if !should && !junk_first {
                    c.check("outsider-fails", !c.is_ok(&d), "outsider-opens", || format!("{}: key {} opened the envelope", what, kid));
                }
            }
        };
        if c.is_ok(&x) {
            try_all(c, &x, "listed");
            // a recipient added later
            let late = seal(c, n, ckobj.to_cbor_data());
            let y = c.assign(&format!("add_recipient {} {}", x, late));
            c.obs(&format!("shape {}", y)); c.obs(&format!("recipients {}", y));
            try_all(c, &y, "after-add");
            // the sealed message of one recipient elided / compressed: `recipients()` passes over obscured objects
            let act = if c.rng.chance(1, 2) { "elide" } else { "compress" };
            let z = c.assign(&format!("elide_set {} rem {} {}", y, act, sealed[sealed.len() - 1]));
            c.obs(&format!("recipients {}", z));
            try_all(c, &z, "one-sealed-obscured");
            // a 'hasRecipient' assertion whose object is not a sealed message
            let hr = c.assign("kv 5"); let junk = gen_leaf(c, &cfg); let a = c.assign(&format!("assertion {} {}", hr, junk));
            let q = c.assign(&format!("add {} {}", x, a));
            c.obs(&format!("recipients {}", q));
            try_all(c, &q, "junk-recipient-object");
        }
        // not encrypted at all
        let d0 = c.assign(&format!("decrypt_subject_to_recipient {} 1", e)); let _ = d0;
        // the wrapped whole
        let w = c.assign(&format!("encrypt_to_recipient {} {} {} {}", e, hex::encode(&ck), hex::encode(&nonce), sealed[sealed.len() - 1]));
        c.obs(&format!("shape {}", w));
        for kid in &all_kids { let d = c.assign(&format!("decrypt_to_recipient {} {}", w, kid)); if c.is_ok(&d) { c.obs(&format!("shape {}", d)); c.obs(&format!("eq {} {}", d, e)); } }
        c.end();
    }
}

/// C11 with the model in the loop: the shares are made here (real `sskr_generate`); the identifier of every share and the outcome of
/// `sskr_combine` on every identifier group the join will form are stated to the model as facts.
pub fn c11_model(c: &mut Ctx, b: &Budget) {
    use bc_components::{sskr_combine, sskr_generate, SSKRGroupSpec, SSKRSecret, SSKRShare, SSKRSpec};
    let cfg = GenCfg::default();
    let policies: Vec<(usize, Vec<(usize, usize)>)> = vec![(1, vec![(1, 1)]), (1, vec![(2, 3)]), (2, vec![(1, 2), (2, 3)]), (1, vec![(2, 2), (1, 1)]), (2, vec![(2, 3), (2, 3), (1, 1)])];
    for i in 0..(b.scenarios / 5).max(10) {
        c.begin("sskr-model");
        let e = gen_env(c, &cfg, 2);
        let ck = c.rng.bytes(32); let nonce = c.rng.bytes(12);
        let enc = c.assign(&format!("encrypt_subject {} {} {}", e, hex::encode(&ck), hex::encode(&nonce)));
        if !c.is_ok(&enc) { c.end(); continue; }
        let (gt, groups) = policies[i % policies.len()].clone();
        let spec = SSKRSpec::new(gt, groups.iter().map(|(t, n)| SSKRGroupSpec::new(*t, *n).unwrap()).collect()).unwrap();
        let secret = SSKRSecret::new(&ck).unwrap();
        // two splits of the same content key: different identifiers (regenerated on a collision)
        let split1 = sskr_generate(&spec, &secret).unwrap();
        let mut split2 = sskr_generate(&spec, &secret).unwrap();
        while split2[0][0].identifier() == split1[0][0].identifier() { split2 = sskr_generate(&spec, &secret).unwrap(); }
        let mut share_env = |c: &mut Ctx, sh: &SSKRShare| -> (String, SSKRShare) {
            let hx = hex::encode(sh.to_cbor_data());
            let l = c.assign(&format!("leaf {}", hx));
            c.line(format!("fact sskr id {} {}", hx, sh.identifier()));
            (c.assign(&format!("add_sskr_share {} {}", enc, l)), sh.clone())
        };
        let flat1: Vec<(String, SSKRShare)> = split1.iter().flatten().map(|s| share_env(c, s)).collect();
        let flat2: Vec<(String, SSKRShare)> = split2.iter().flatten().map(|s| share_env(c, s)).collect();
        c.obs(&format!("shape {}", flat1[0].0));
        // the presented selections
        let mut selections: Vec<Vec<(String, SSKRShare)>> = vec![flat1.clone(), vec![flat1[0].clone()], vec![]];
        for _ in 0..6 { let mut v = flat1.clone(); c.rng.shuffle(&mut v); let k = c.rng.range(1, v.len()); v.truncate(k); selections.push(v); }
        { let mut v = flat1.clone(); v.push(flat1[0].clone()); selections.push(v); c.count("branch:repeated-share-envelope"); }
        for _ in 0..3 { let mut v = flat1.clone(); v.extend(flat2.clone()); c.rng.shuffle(&mut v); let k = c.rng.range(1, v.len()); v.truncate(k); selections.push(v); c.count("branch:mixed-splits"); }
        for sel in selections {
            // the identifier groups the join forms, in order of first occurrence, and what the real combine says about each
            let mut order: Vec<u16> = vec![]; let mut by: std::collections::HashMap<u16, Vec<SSKRShare>> = Default::default();
            for (_, sh) in &sel { let id = sh.identifier(); if !by.contains_key(&id) { order.push(id); } by.entry(id).or_default().push(sh.clone()); }
            for id in &order {
                let g = &by[id];
                let key = g.iter().map(|s| hex::encode(s.to_cbor_data())).collect::<Vec<_>>().join(",");
                let out = match catch(|| sskr_combine(g)) { Some(Ok(sec)) => hex::encode(sec.as_ref() as &[u8]), _ => "none".to_string() };
                c.line(format!("fact sskr combine {} {}", key, out));
            }
            let regs = if sel.is_empty() { "-".to_string() } else { sel.iter().map(|x| x.0.clone()).collect::<Vec<_>>().join(",") };
            let j = c.assign(&format!("sskr_join {}", regs));
            if c.is_ok(&j) { c.obs(&format!("shape {}", j)); c.count("outcome-model:join:ok"); } else { c.count("outcome-model:join:refused"); }
            // whatever is recovered is the original subject and nothing else (not the subject plus left-over assertions)
            if let (Some(x), Some(o)) = (c.env(&j), c.env(&e)) { c.check("join-returns-original-subject", x.is_identical_to(&o.subject()), "join-other-envelope", || format!("sskr_join returned {} for an original with subject {}", shape(&x), shape(&o.subject()))); }
        }
        // a second envelope, encrypted under ANOTHER content key and split on its own: quorate share envelopes of both, mixed in one
        // call.  The first envelope decides what is recovered; the other split's shares (which combine to a key that does not open
        // it) must not get in the way, whichever identifier the join happens to try first.
        {
            let ck2 = c.rng.bytes(32); let nonce2 = c.rng.bytes(12);
            let enc2 = c.assign(&format!("encrypt_subject {} {} {}", e, hex::encode(&ck2), hex::encode(&nonce2)));
            let other = sskr_generate(&spec, &SSKRSecret::new(&ck2).unwrap()).unwrap();
            let clean_original = c.env(&e).map(|x| x.assertions_with_predicate(known_values::SSKR_SHARE).is_empty()).unwrap_or(false);
            if c.is_ok(&enc2) && clean_original && other[0][0].identifier() != split1[0][0].identifier() {
                let flat_o: Vec<(String, SSKRShare)> = other.iter().flatten().map(|sh| {
                    let hx = hex::encode(sh.to_cbor_data()); let l = c.assign(&format!("leaf {}", hx)); c.line(format!("fact sskr id {} {}", hx, sh.identifier()));
                    (c.assign(&format!("add_sskr_share {} {}", enc2, l)), sh.clone()) }).collect();
                for (first, second) in [(&flat1, &flat_o), (&flat_o, &flat1)] {
                    let sel: Vec<(String, SSKRShare)> = first.iter().chain(second.iter()).cloned().collect();
                    let mut order: Vec<u16> = vec![]; let mut by: std::collections::HashMap<u16, Vec<SSKRShare>> = Default::default();
                    for (_, sh) in &sel { let id = sh.identifier(); if !by.contains_key(&id) { order.push(id); } by.entry(id).or_default().push(sh.clone()); }
                    for id in &order { let g = &by[id]; let key = g.iter().map(|x| hex::encode(x.to_cbor_data())).collect::<Vec<_>>().join(",");
                        let out = match catch(|| sskr_combine(g)) { Some(Ok(sec)) => hex::encode(sec.as_ref() as &[u8]), _ => "none".to_string() }; c.line(format!("fact sskr combine {} {}", key, out)); }
                    let regs = sel.iter().map(|x| x.0.clone()).collect::<Vec<_>>().join(",");
                    // the iteration order of the library's HashMap varies from call to call: try several times
                    for _ in 0..6 {
                        let j = c.assign(&format!("sskr_join {}", regs));
                        if let Some(o) = c.env(&e) { let ok = c.env(&j).map(|x| x.is_identical_to(&o.subject())).unwrap_or(false);
                            let shown = c_show(c, &j);
                            c.check("join-with-two-quorate-splits", ok, "join-refused-quorum", || format!("all shares of two splits (different content keys) presented together: {}", shown)); }
                    }
                    c.count("branch:two-quorate-splits");
                }
            }
        }
        // an envelope carrying two shares; a junk 'sskrShare' object; an elided share
        let two = { let hx = hex::encode(flat1[flat1.len() - 1].1.to_cbor_data()); let l = c.assign(&format!("leaf {}", hx)); c.assign(&format!("add_sskr_share {} {}", flat1[0].0, l)) };
        { let g = vec![flat1[0].1.clone(), flat1[flat1.len() - 1].1.clone()];
          let mut ordered: Vec<SSKRShare> = vec![];
          if let Some(env) = c.env(&two) { for a in env.assertions_with_predicate(known_values::SSKR_SHARE) { if let Some(o) = a.as_object() { if let Ok(s) = o.extract_subject::<SSKRShare>() { ordered.push(s); } } } }
          let g = if ordered.len() == 2 { ordered } else { g };
          let key = g.iter().map(|s| hex::encode(s.to_cbor_data())).collect::<Vec<_>>().join(",");
          let out = match catch(|| sskr_combine(&g)) { Some(Ok(sec)) => hex::encode(sec.as_ref() as &[u8]), _ => "none".to_string() };
          c.line(format!("fact sskr combine {} {}", key, out)); }
        let j = c.assign(&format!("sskr_join {}", two)); if c.is_ok(&j) { c.obs(&format!("shape {}", j)); }
        let kvs = c.assign("kv 6"); let junk = gen_leaf(c, &cfg); let ja = c.assign(&format!("assertion {} {}", kvs, junk));
        let bad = c.assign(&format!("add {} {}", enc, ja));
        let _ = c.assign(&format!("sskr_join {}", bad));
        let _ = c.assign(&format!("sskr_join {},{}", bad, flat1[0].0));
        c.end();
    }
}
