//! Random walks over the public operations (the "histories" stream).
use crate::ctx::Ctx;
use crate::gen::*;
use bc_components::DigestProvider;

/// apply one random operation to the envelope in `cur`; returns the register holding the
/// result (which may hold an error)
pub fn random_op(c: &mut Ctx, cur: &str, cfg: &GenCfg) -> String {
    let e = match c.env(cur) { Some(e) => e, None => return cur.to_string() };
    let nas = e.assertions().len();
    match c.rng.below(35) {
        0 | 1 | 2 => { let a = gen_assertion(c, cfg, 1); c.assign(&format!("add {} {}", cur, a)) }
        3 => {
            // add a duplicate of an assertion already there
            if nas > 0 { let i = c.rng.below(nas); let a = c.assign(&format!("at {} a{}", cur, i)); c.count("hist:add-duplicate"); c.assign(&format!("add {} {}", cur, a)) }
            else { let a = gen_assertion(c, cfg, 1); c.assign(&format!("add {} {}", cur, a)) }
        }
        4 => {
            // add a non-assertion (must be refused) or an obscured element (accepted)
            let x = gen_leaf(c, cfg);
            let x = if c.rng.chance(1, 2) { c.count("hist:add-obscured"); c.assign(&format!("elide {}", x)) } else { c.count("hist:add-nonassertion"); x };
            c.assign(&format!("add {} {}", cur, x))
        }
        5 | 6 => {
            if nas > 0 { let i = c.rng.below(nas); let a = c.assign(&format!("at {} a{}", cur, i)); if nas == 1 { c.count("hist:remove-last"); } c.assign(&format!("remove {} {}", cur, a)) }
            else { let a = gen_assertion(c, cfg, 0); c.count("hist:remove-absent"); c.assign(&format!("remove {} {}", cur, a)) }
        }
        7 => {
            if nas > 0 { let i = c.rng.below(nas); let a = c.assign(&format!("at {} a{}", cur, i));
                // the replacement: an assertion, or something that may not stand in an assertion slot (must be refused)
                let b = match c.rng.below(4) { 0 => { c.count("hist:replace-by-nonassertion"); let x = gen_leaf(c, cfg); if c.rng.chance(1, 2) { c.assign(&format!("wrap {}", x)) } else { x } } _ => gen_assertion(c, cfg, 1) };
                c.assign(&format!("replace_assertion {} {} {}", cur, a, b)) }
            else { cur.to_string() }
        }
        8 | 9 => {
            let s = gen_env(c, cfg, 1);
            if c.env(&s).map(|x| x.is_node()).unwrap_or(false) { c.count("hist:replace-subject-by-node"); }
            c.assign(&format!("replace_subject {} {}", cur, s))
        }
        10 => c.assign(&format!("wrap {}", cur)),
        11 => c.assign(&format!("unwrap {}", cur)),
        12 | 13 | 14 => gen_obscure(c, cur),
        15 => c.assign(&format!("compress {}", cur)),
        16 => c.assign(&format!("compress_subject {}", cur)),
        17 => c.assign(&format!("uncompress {}", cur)),
        18 => c.assign(&format!("uncompress_subject {}", cur)),
        19 => { let n = hex::encode(c.rng.bytes(12)); c.assign(&format!("encrypt_subject {} {} {}", cur, KEY1, n)) }
        20 => { let k = if c.rng.chance(5, 6) { KEY1 } else { KEY2 }; c.assign(&format!("decrypt_subject {} {}", cur, k)) }
        21 => c.assign(&format!("recode {}", cur)),
        22 => c.assign(&format!("subject {}", cur)),
        23 => c.assign(&format!("elide {}", cur)),
        24 => { match gen_position(c, cur) { Some((r, _)) => r, None => cur.to_string() } }
        25 => { let n = hex::encode(c.rng.bytes(12)); c.assign(&format!("encrypt {} {} {}", cur, KEY1, n)) }
        26 => {
            // add an obscured form (elided / compressed / encrypted) of an assertion that is already present
            if nas > 0 { let i = c.rng.below(nas); let a = c.assign(&format!("at {} a{}", cur, i));
                let o = match c.rng.below(3) { 0 => c.assign(&format!("elide {}", a)), 1 => c.assign(&format!("compress {}", a)), _ => { let n = hex::encode(c.rng.bytes(12)); c.assign(&format!("encrypt_subject {} {} {}", a, KEY1, n)) } };
                c.count("hist:add-obscured-copy"); if c.is_ok(&o) { c.assign(&format!("add {} {}", cur, o)) } else { cur.to_string() } }
            else { cur.to_string() }
        }
        27 => {
            // an assertion element whose digest equals the subject's: the elided subject, or the subject itself when it is an assertion
            let s = c.assign(&format!("subject {}", cur));
            let x = if c.env(&s).map(|x| x.is_subject_assertion()).unwrap_or(false) && c.rng.chance(1, 2) { s } else { c.assign(&format!("elide {}", s)) };
            c.count("hist:add-subject-digest-element"); c.assign(&format!("add {} {}", cur, x))
        }
        28 => {
            // bulk add with a repetition that is not adjacent: [a, b, a]
            let a = gen_assertion(c, cfg, 1); let b = gen_assertion(c, cfg, 1);
            let list = match c.rng.below(3) { 0 => format!("{},{},{}", a, b, a), 1 => format!("{},{},{}", a, a, b), _ => { let d = gen_assertion(c, cfg, 0); format!("{},{},{},{}", a, b, d, a) } };
            c.count("hist:add-many-with-repeat"); c.assign(&format!("add_many {} {}", cur, list))
        }
        29 => {
            // replace an assertion by one the node already holds (possibly in obscured form)
            if nas >= 2 { let i = c.rng.below(nas); let mut j = c.rng.below(nas); if j == i { j = (j + 1) % nas; }
                let a = c.assign(&format!("at {} a{}", cur, i)); let mut b = c.assign(&format!("at {} a{}", cur, j));
                if c.rng.chance(1, 3) { b = c.assign(&format!("elide {}", b)); }
                c.count("hist:replace-by-present"); c.assign(&format!("replace_assertion {} {} {}", cur, a, b)) }
            else { cur.to_string() }
        }
        30 => {
            // replace the subject by a node that carries several assertions of its own
            let mut s = gen_leaf(c, cfg);
            for _ in 0..c.rng.range(2, 4) { let a = gen_assertion(c, cfg, 0); s = c.assign(&format!("add {} {}", s, a)); }
            c.count("hist:replace-subject-by-wide-node"); c.assign(&format!("replace_subject {} {}", cur, s))
        }
        31 => {
            // a key holder mis-declares content: encrypted element with this subject's digest but other content
            let subj = c.assign(&format!("subject {}", cur)); let other = gen_env(c, cfg, 1); let n = hex::encode(c.rng.bytes(12));
            let md = c.assign(&format!("misdeclare {} {} {} {}", subj, other, KEY1, n));
            let r = c.assign(&format!("replace_subject {} {}", cur, md));
            c.count("hist:misdeclared-subject"); c.assign(&format!("decrypt_subject {} {}", r, KEY1))
        }
        33 => {
            // an encrypted element made outside the library: only one whose additional data is a tagged digest may be admitted
            let d = e.subject().digest().data().to_vec();
            let mut tagged = vec![0xd9, 0x9c, 0x41, 0x58, 0x20]; tagged.extend_from_slice(&d);
            let mut untagged = vec![0x58, 0x20]; untagged.extend_from_slice(&d);
            let aad = match c.rng.below(7) { 0 => "-".to_string(), 1 => hex::encode(&d), 2 => hex::encode(&untagged), 3 => hex::encode(&tagged[..20]), 4 => "00".to_string(), 5 => { let mut t = tagged.clone(); t.push(0); hex::encode(t) } _ => hex::encode(&tagged) };
            let ct = hex::encode(c.rng.bytes(5));
            let f = c.assign(&format!("foreign_enc {} {}", ct, aad));
            c.count("hist:foreign-encrypted");
            if c.is_ok(&f) { if c.rng.chance(1, 2) { c.assign(&format!("replace_subject {} {}", cur, f)) } else { let p = gen_leaf(c, cfg); let a = c.assign(&format!("assertion {} {}", p, f)); c.assign(&format!("add {} {}", cur, a)) } }
            else { cur.to_string() }
        }
        34 => {
            // a decorated assertion whose assertion proper is obscured while its own assertions stay (`ELIDED [ 'salt': .. ]`):
            // still a legitimate assertion element; later rebuilding operations (replace_subject, compress_subject, ...) meet it
            let a = gen_assertion(c, cfg, 0); let aa = gen_assertion(c, cfg, 0);
            let d = c.assign(&format!("add {} {}", a, aa));
            let act = gen_action(c);
            c.count("hist:add-decorated-with-obscured-subject");
            if c.rng.chance(1, 2) {
                // obscured first, then added
                let o = c.assign(&format!("elide_set {} rem {} {}", d, act, a));
                if c.is_ok(&o) { c.assign(&format!("add {} {}", cur, o)) } else { cur.to_string() }
            } else {
                // added in the clear, obscured in place, and then the envelope is rebuilt around it
                let with = c.assign(&format!("add {} {}", cur, d));
                let o = c.assign(&format!("elide_set {} rem {} {}", with, act, a));
                if !c.is_ok(&o) { return cur.to_string(); }
                match c.rng.below(3) {
                    0 => { let s2 = gen_leaf(c, cfg); c.assign(&format!("replace_subject {} {}", o, s2)) }
                    1 => c.assign(&format!("compress_subject {}", o)),
                    _ => o,
                }
            }
        }
        _ => {
            // the same for compression
            let subj = c.assign(&format!("subject {}", cur)); let other = gen_env(c, cfg, 1);
            let mc = c.assign(&format!("miscompress {} {}", subj, other));
            let r = c.assign(&format!("replace_subject {} {}", cur, mc));
            c.count("hist:miscompressed-subject"); c.assign(&format!("uncompress_subject {} ", r).trim_end())
        }
    }
}
