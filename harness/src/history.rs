//! Random walks over the public operations (the "histories" stream).
use crate::ctx::Ctx;
use crate::gen::*;

/// apply one random operation to the envelope in `cur`; returns the register holding the
/// result (which may hold an error)
pub fn random_op(c: &mut Ctx, cur: &str, cfg: &GenCfg) -> String {
    let e = match c.env(cur) { Some(e) => e, None => return cur.to_string() };
    let nas = e.assertions().len();
    match c.rng.below(26) {
        0 | 1 | 2 => { let a = gen_assertion(c, cfg, 1); c.assign(&format!("add {} {}", cur, a)) }
        3 => {
            // add a duplicate of an assertion already there
            if nas > 0 { let i = c.rng.below(nas); let a = c.assign(&format!("at {} a{}", cur, i)); c.count("hist:add-duplicate"); c.assign(&format!("add {} {}", cur, a)) }
            else { let a = gen_assertion(c, cfg, 1); c.assign(&format!("add {} {}", cur, a)) }
        }
        4 => {
            // add a non-assertion (must be refused) or an obscured element (accepted)
            let x = gen_leaf(c, cfg);
            let x = if c.rng.chance(1, 2) { c.count("hist:add-obscured"); c.assign(&format!("elide {}", x)) } else { c.count("hist:add-nonassertion"); x };
            c.assign(&format!("add {} {}", cur, x))
        }
        5 | 6 => {
            if nas > 0 { let i = c.rng.below(nas); let a = c.assign(&format!("at {} a{}", cur, i)); if nas == 1 { c.count("hist:remove-last"); } c.assign(&format!("remove {} {}", cur, a)) }
            else { let a = gen_assertion(c, cfg, 0); c.count("hist:remove-absent"); c.assign(&format!("remove {} {}", cur, a)) }
        }
        7 => {
            if nas > 0 { let i = c.rng.below(nas); let a = c.assign(&format!("at {} a{}", cur, i)); let b = gen_assertion(c, cfg, 1); c.assign(&format!("replace_assertion {} {} {}", cur, a, b)) }
            else { cur.to_string() }
        }
        8 | 9 => {
            let s = gen_env(c, cfg, 1);
            if c.env(&s).map(|x| x.is_node()).unwrap_or(false) { c.count("hist:replace-subject-by-node"); }
            c.assign(&format!("replace_subject {} {}", cur, s))
        }
        10 => c.assign(&format!("wrap {}", cur)),
        11 => c.assign(&format!("unwrap {}", cur)),
        12 | 13 | 14 => gen_obscure(c, cur),
        15 => c.assign(&format!("compress {}", cur)),
        16 => c.assign(&format!("compress_subject {}", cur)),
        17 => c.assign(&format!("uncompress {}", cur)),
        18 => c.assign(&format!("uncompress_subject {}", cur)),
        19 => { let n = hex::encode(c.rng.bytes(12)); c.assign(&format!("encrypt_subject {} {} {}", cur, KEY1, n)) }
        20 => { let k = if c.rng.chance(5, 6) { KEY1 } else { KEY2 }; c.assign(&format!("decrypt_subject {} {}", cur, k)) }
        21 => c.assign(&format!("recode {}", cur)),
        22 => c.assign(&format!("subject {}", cur)),
        23 => c.assign(&format!("elide {}", cur)),
        24 => { match gen_position(c, cur) { Some((r, _)) => r, None => cur.to_string() } }
        _ => { let n = hex::encode(c.rng.bytes(12)); c.assign(&format!("encrypt {} {} {}", cur, KEY1, n)) }
    }
}
