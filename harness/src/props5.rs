//! API-variant agreement: every convenience form of the public API (the `*_array`, `*_target`, `*_if`, `*_opt`, `*_using`,
//! `try_*`, bulk and `new_or_*` forms) must behave as the canonical form it is documented to stand for.  The canonical forms
//! are the ones the model covers; these oracles extend each property's check to the whole family of entry points, so that a
//! slip in a rarely used door of the same room is seen too.  Implementation-side oracles; the results are also imported into
//! the scenario (decoded by the model, digests and shape compared).
use crate::ctx::Ctx;
use crate::gen::*;
use crate::interp::{guarded, shape};
use crate::oracles::*;
use crate::props::Budget;
use crate::props4::{base_envelope, bytes_of, import, signers};
use bc_components::{Digest, DigestProvider, EncapsulationScheme, Nonce, Salt, SymmetricKey};
use bc_envelope::prelude::*;
use bc_envelope::SignatureMetadata;
use bc_rand::make_fake_random_number_generator;
use std::collections::HashSet;

fn same(a: &Envelope, b: &Envelope) -> bool { a.digest() == b.digest() && a.is_identical_to(b) && bytes_of(a) == bytes_of(b) }

macro_rules! agree {
    ($c:expr, $name:expr, $got:expr, $want:expr, $ctx:expr) => {{
        let got = guarded(|| $got); let want = guarded(|| $want);
        match (&got, &want) {
            (Ok(g), Ok(w)) => $c.check("variant-agrees", same(g, w), concat!("variant-differs:", $name), || format!("{} gave {} but its canonical form gives {} ({})", $name, shape(g), shape(w), $ctx)),
            (Err(_), Err(_)) => $c.count(concat!("variant-both-panic:", $name)),
            (Err(site), Ok(_)) => $c.check("variant-agrees", false, concat!("variant-differs:", $name), || format!("{} panicked at {} but its canonical form returns ({})", $name, site, $ctx)),
            (Ok(_), Err(site)) => $c.check("variant-agrees", false, concat!("variant-differs:", $name), || format!("{} returned but its canonical form panicked at {} ({})", $name, site, $ctx)),
        }
        $c.count(concat!("variant:", $name));
    }};
}

fn pick_targets(c: &mut Ctx, e: &Envelope) -> Vec<Envelope> {
    let els = elements(e);
    let mut out = vec![];
    let n = c.rng.range(0, 3);
    for _ in 0..n { let k = c.rng.below(els.len()); out.push(els[k].1.clone()); }
    if c.rng.chance(1, 5) { out.push(Envelope::new("absent target")); }
    if c.rng.chance(1, 5) && !out.is_empty() { let d = out[0].clone(); out.push(d); }
    out
}

/// C02 / C03: the array, target and revealing/removing forms are the set form
pub fn elision_variants(c: &mut Ctx, b: &Budget) {
    let cfg = GenCfg::default();
    let key = SymmetricKey::from_data_ref(hex::decode(KEY1).unwrap()).unwrap();
    for i in 0..(b.scenarios / 3).max(20) {
        c.begin("elision-variants");
        let mut r = gen_env(c, &cfg, 3);
        if i % 3 == 0 { let n = gen_obscure(c, &r); if c.is_ok(&n) { r = n; } }
        let e = match c.env(&r) { Some(e) => e, None => { c.end(); continue; } };
        // through the scenario language too: the array and single-target doors against the model's definitions
        {
            let els = elements(&e);
            let mut regs: Vec<String> = vec![];
            for _ in 0..c.rng.range(0, 3) { let k = c.rng.below(els.len()); regs.push(c.assign(&format!("at {} {}", r, els[k].0))); }
            if c.rng.chance(1, 3) { regs.push(c.assign("leaf 6d616273656e7420746172676574")); }      // a target that occurs nowhere
            if c.rng.chance(1, 4) && !regs.is_empty() { let d = regs[0].clone(); regs.push(d); }
            for act in ["elide".to_string(), "compress".to_string(), format!("encrypt:{}", KEY1)] {
                for mode in ["rem", "rev"] {
                    if !regs.is_empty() {
                        let x = c.assign(&format!("elide_array {} {} {} {}", r, mode, act, regs.join(",")));
                        c.no_panic(&x, "obscuring"); c.obs(&format!("shape {}", x));
                        let y = c.assign(&format!("elide_set {} {} {} {}", r, mode, act, regs.join(",")));
                        c.obs(&format!("eq {} {}", x, y));
                    }
                    // the single-target door, also with a target that occurs nowhere
                    let t = if regs.is_empty() || c.rng.chance(1, 3) { c.assign("leaf 6d616273656e7420746172676574") } else { regs[c.rng.below(regs.len())].clone() };
                    let x = c.assign(&format!("elide_target {} {} {} {}", r, mode, act, t));
                    c.no_panic(&x, "obscuring"); c.obs(&format!("shape {}", x));
                    c.count("variant:evl-doors");
                }
            }
        }
        let ts = pick_targets(c, &e);
        let set: HashSet<Digest> = ts.iter().map(|t| t.digest().into_owned()).collect();
        let arr: Vec<&dyn DigestProvider> = ts.iter().map(|t| t as &dyn DigestProvider).collect();
        let ctx = format!("{} targets in {}", ts.len(), shape(&e));
        let actions = [ObscureAction::Elide, ObscureAction::Compress, ObscureAction::Encrypt(key.clone())];
        // digests that occur nowhere in the envelope make no difference, however many of them the target set holds (a disclosure policy
        // written for several documents; a document's reveal set applied to one of its parts)
        {
            let mut padded = set.clone();
            for k in 0..(elements(&e).len() + 40) { padded.insert(Envelope::new(format!("foreign element {}", k)).digest().into_owned()); }
            for (ai, a) in actions.iter().enumerate() { for rev in [false, true] {
                let want = guarded(|| e.elide_set_with_action(&set, rev, a));
                let forms: Vec<(&'static str, Result<Envelope, String>)> = vec![
                    ("elide_set_with_action(foreign digests)", guarded(|| e.elide_set_with_action(&padded, rev, a))),
                    ("revealing/removing set door (foreign digests)", guarded(|| if rev { e.elide_revealing_set_with_action(&padded, a) } else { e.elide_removing_set_with_action(&padded, a) })),
                    ("plain set door (foreign digests)", guarded(|| if ai != 0 { e.elide_set_with_action(&padded, rev, a) } else if rev { e.elide_revealing_set(&padded) } else { e.elide_removing_set(&padded) })),
                ];
                for (name, got) in forms {
                    match (&got, &want) {
                        (Ok(g), Ok(w)) => c.check("variant-agrees", g.digest() == w.digest() && mask_shape(g) == mask_shape(w), "variant-differs:foreign-digests", || format!("{} (action {}, revealing {}): {} but without the foreign digests {} ({})", name, ai, rev, shape(g), shape(w), ctx)),
                        (Err(_), Err(_)) => {}
                        _ => c.check("variant-agrees", false, "variant-differs:foreign-digests", || format!("{}: one form panicked", name)),
                    }
                }
            } }
            c.count("variant:foreign-digests");
        }
        // encrypting draws a random nonce: compare the encrypted form by digest and shape with ciphertexts masked
        let cmp = |g: &Envelope, w: &Envelope| g.digest() == w.digest() && mask_shape(g) == mask_shape(w);
        for (ai, a) in actions.iter().enumerate() {
            for rev in [false, true] {
                let want = guarded(|| e.elide_set_with_action(&set, rev, a));
                let forms: Vec<(&'static str, Result<Envelope, String>)> = vec![
                    ("elide_array_with_action", guarded(|| e.elide_array_with_action(&arr, rev, a))),
                    (if rev { "elide_revealing_set_with_action" } else { "elide_removing_set_with_action" }, guarded(|| if rev { e.elide_revealing_set_with_action(&set, a) } else { e.elide_removing_set_with_action(&set, a) })),
                    (if rev { "elide_revealing_array_with_action" } else { "elide_removing_array_with_action" }, guarded(|| if rev { e.elide_revealing_array_with_action(&arr, a) } else { e.elide_removing_array_with_action(&arr, a) })),
                ];
                for (name, got) in forms {
                    c.count(&format!("variant:{}", name));
                    match (&got, &want) {
                        (Ok(g), Ok(w)) => c.check("variant-agrees", cmp(g, w), &format!("variant-differs:{}", name), || format!("{} (action {}, revealing {}) gave {} but elide_set_with_action gives {} ({})", name, ai, rev, shape(g), shape(w), ctx)),
                        (Err(_), Err(_)) => {}
                        _ => c.check("variant-agrees", false, &format!("variant-differs:{}", name), || format!("{}: one form panicked, the other did not ({})", name, ctx)),
                    }
                }
                if ai == 0 {
                    // the forms without an action are the Elide action
                    let forms: Vec<(&'static str, Result<Envelope, String>)> = vec![
                        ("elide_set", guarded(|| e.elide_set(&set, rev))),
                        ("elide_array", guarded(|| e.elide_array(&arr, rev))),
                        (if rev { "elide_revealing_set" } else { "elide_removing_set" }, guarded(|| if rev { e.elide_revealing_set(&set) } else { e.elide_removing_set(&set) })),
                        (if rev { "elide_revealing_array" } else { "elide_removing_array" }, guarded(|| if rev { e.elide_revealing_array(&arr) } else { e.elide_removing_array(&arr) })),
                    ];
                    for (name, got) in forms {
                        c.count(&format!("variant:{}", name));
                        match (&got, &want) {
                            (Ok(g), Ok(w)) => c.check("variant-agrees", same(g, w), &format!("variant-differs:{}", name), || format!("{} (revealing {}) gave {} but elide_set_with_action(Elide) gives {} ({})", name, rev, shape(g), shape(w), ctx)),
                            (Err(_), Err(_)) => {}
                            _ => c.check("variant-agrees", false, &format!("variant-differs:{}", name), || format!("{}: one form panicked, the other did not ({})", name, ctx)),
                        }
                    }
                }
                // single-target forms
                if let Some(t) = ts.first() {
                    let one: HashSet<Digest> = [t.digest().into_owned()].into_iter().collect();
                    let want1 = guarded(|| e.elide_set_with_action(&one, rev, a));
                    let mut forms: Vec<(&'static str, Result<Envelope, String>)> = vec![
                        ("elide_target_with_action", guarded(|| e.elide_target_with_action(t, rev, a))),
                        (if rev { "elide_revealing_target_with_action" } else { "elide_removing_target_with_action" }, guarded(|| if rev { e.elide_revealing_target_with_action(t, a) } else { e.elide_removing_target_with_action(t, a) })),
                    ];
                    if ai == 0 {
                        forms.push(("elide_target", guarded(|| e.elide_target(t, rev))));
                        forms.push((if rev { "elide_revealing_target" } else { "elide_removing_target" }, guarded(|| if rev { e.elide_revealing_target(t) } else { e.elide_removing_target(t) })));
                    }
                    for (name, got) in forms {
                        c.count(&format!("variant:{}", name));
                        match (&got, &want1) {
                            (Ok(g), Ok(w)) => c.check("variant-agrees", cmp(g, w), &format!("variant-differs:{}", name), || format!("{} (action {}, revealing {}) gave {} but the one-element set form gives {} ({})", name, ai, rev, shape(g), shape(w), ctx)),
                            (Err(_), Err(_)) => {}
                            _ => c.check("variant-agrees", false, &format!("variant-differs:{}", name), || format!("{}: one form panicked, the other did not ({})", name, ctx)),
                        }
                    }
                }
                if let (Ok(w), 0) = (&want, ai) { if i % 4 == 0 { import(c, w); } }
            }
        }
        c.end();
    }
}

/// shape with the contents of encrypted elements reduced to their declared digest (nonces are random)
fn mask_shape(e: &Envelope) -> String {
    let mut out = String::new();
    for (p, x) in elements(e) {
        out.push_str(&p); out.push(':');
        out.push_str(crate::interp::case_name(&x)); out.push(':');
        out.push_str(&hex::encode(&x.digest().data()[..6])); out.push(' ');
    }
    out
}

/// C07: conditional, optional and bulk assertion forms
pub fn assertion_variants(c: &mut Ctx, b: &Budget) {
    let cfg = GenCfg::default();
    for i in 0..(b.scenarios / 3).max(20) {
        c.begin("assertion-variants");
        let r = gen_env(c, &cfg, 2);
        let e = match c.env(&r) { Some(e) => e, None => { c.end(); continue; } };
        let mut asserts: Vec<Envelope> = vec![];
        for _ in 0..c.rng.range(0, 4) { let a = gen_assertion(c, &cfg, 1); if let Some(x) = c.env(&a) { asserts.push(x); } }
        if c.rng.chance(1, 3) { if let Some(a) = asserts.first().cloned() { asserts.push(a); } }
        if c.rng.chance(1, 3) { if let Some(a) = e.assertions().first().cloned() { asserts.push(a); } }
        let ctx = format!("{} assertions onto {}", asserts.len(), shape(&e));
        // bulk = fold
        agree!(c, "add_assertions", e.add_assertions(&asserts), asserts.iter().fold(e.clone(), |acc, a| acc.add_assertion_envelope(a.clone()).unwrap()), ctx);
        let p = Envelope::new(format!("p{}", i % 3)); let o = Envelope::new(i as u64);
        for cond in [true, false] {
            agree!(c, "add_assertion_if", e.add_assertion_if(cond, p.clone(), o.clone()), if cond { e.add_assertion(p.clone(), o.clone()) } else { e.clone() }, ctx);
            if let Some(a) = asserts.first() {
                agree!(c, "add_assertion_envelope_if", e.add_assertion_envelope_if(cond, a.clone()).unwrap(), if cond { e.add_assertion_envelope(a.clone()).unwrap() } else { e.clone() }, ctx);
            }
        }
        for s in ["", "x", "text", " x", "x ", " ", "\t", "\n", "\u{a0}x", "  padded  ", "\u{3000}"] {
            agree!(c, "add_nonempty_string_assertion", e.add_nonempty_string_assertion(p.clone(), s), if s.is_empty() { e.clone() } else { e.add_assertion(p.clone(), s) }, ctx);
        }
        agree!(c, "add_optional_assertion_envelope", e.add_optional_assertion_envelope(None).unwrap(), e.clone(), ctx);
        agree!(c, "add_optional_assertion_envelope_salted", e.add_optional_assertion_envelope_salted(None, true).unwrap(), e.clone(), ctx);
        if let Some(a) = asserts.first() {
            agree!(c, "add_optional_assertion_envelope", e.add_optional_assertion_envelope(Some(a.clone())).unwrap(), e.add_assertion_envelope(a.clone()).unwrap(), ctx);
            agree!(c, "add_optional_assertion_envelope_salted", e.add_optional_assertion_envelope_salted(Some(a.clone()), false).unwrap(), e.add_assertion_envelope(a.clone()).unwrap(), ctx);
            agree!(c, "add_assertion_envelope_salted", e.add_assertion_envelope_salted(a.clone(), false).unwrap(), e.add_assertion_envelope(a.clone()).unwrap(), ctx);
            // salted: one more element, whose subject is the assertion and whose only new assertion is a salt
            for (name, got) in [("add_optional_assertion_envelope_salted", guarded(|| e.add_optional_assertion_envelope_salted(Some(a.clone()), true))), ("add_assertion_envelope_salted", guarded(|| e.add_assertion_envelope_salted(a.clone(), true)))] {
                if let Ok(Ok(g)) = got {
                    let fresh: Vec<Envelope> = g.assertions().into_iter().filter(|x| !e.assertions().iter().any(|y| y.digest() == x.digest())).collect();
                    let ok = fresh.len() == 1 && g.subject().is_identical_to(&e.subject()) && g.assertions().len() == e.assertions().len() + 1 && {
                        let f = &fresh[0];
                        let extra: Vec<Envelope> = f.assertions().into_iter().filter(|x| !a.assertions().iter().any(|y| y.digest() == x.digest())).collect();
                        f.subject().is_identical_to(&a.subject()) && extra.len() == 1 && extra[0].as_predicate().map(|p| p.digest() == Envelope::new(known_values::SALT).digest()).unwrap_or(false)
                    };
                    c.check("variant-agrees", ok, &format!("variant-differs:{}", name), || format!("{}(salted) of {} onto {} gave {}", name, shape(a), shape(&e), shape(&g)));
                }
            }
        }
        // non-assertions are refused by every envelope-taking form alike
        let bad = Envelope::new("not an assertion");
        let r1 = guarded(|| e.add_assertion_envelope(bad.clone()).is_ok());
        for (name, r2) in [("add_optional_assertion_envelope", guarded(|| e.add_optional_assertion_envelope(Some(bad.clone())).is_ok())), ("add_optional_assertion_envelope_salted", guarded(|| e.add_optional_assertion_envelope_salted(Some(bad.clone()), false).is_ok())),
            ("add_assertion_envelope_if", guarded(|| e.add_assertion_envelope_if(true, bad.clone()).is_ok())), ("add_assertion_envelope_salted", guarded(|| e.add_assertion_envelope_salted(bad.clone(), false).is_ok()))] {
            c.check("variant-agrees", r1 == r2, &format!("variant-differs:{}", name), || format!("{} of a non-assertion: {:?} vs add_assertion_envelope {:?}", name, r2, r1));
        }
        c.end();
    }
}

/// C01 / C04: optional constructors and the CBOR-value decoder door
pub fn constructor_variants(c: &mut Ctx, _b: &Budget) {
    c.begin("constructor-variants");
    for l in leaf_alphabet() {
        let r = c.assign(&format!("leaf {}", l));
        let e = c.env(&r).unwrap();
        if let Some(cb) = e.as_leaf() {
            agree!(c, "new_or_null", Envelope::new_or_null(Some(cb.clone())), Envelope::new(cb.clone()), l);
            agree!(c, "new_or_none", Envelope::new_or_none(Some(cb.clone())).unwrap(), Envelope::new(cb.clone()), l);
        }
        let tagged = e.tagged_cbor();
        agree!(c, "try_from_cbor", Envelope::try_from_cbor(tagged.clone()).unwrap(), Envelope::try_from_cbor_data(tagged.to_cbor_data()).unwrap(), l);
    }
    // the digest an `Assertion` hands out by reference is the digest it provides; a known value named by hand is that value
    for (p, o) in [("knows", "Bob"), ("", ""), ("p", "a rather longer object text, longer than twenty-three bytes")] {
        let a = bc_envelope::Assertion::new(p, o);
        c.check("variant-agrees", a.digest_ref() == &*a.digest() && a.digest_ref() == &*Envelope::new_assertion(p, o).digest(), "variant-differs:digest_ref", || format!("{} : {}", p, o));
    }
    for v in [0u64, 1, 24, 65536, u64::MAX] {
        let named = KnownValue::new_with_name(v, format!("name{}", v));
        c.check("variant-agrees", named.value() == v && named.name() == format!("name{}", v) && Envelope::new(named.clone()).digest() == Envelope::new(KnownValue::new(v)).digest(), "variant-differs:new_with_name", || format!("{}", v));
    }
    for (ed, want) in [(EdgeType::None, None), (EdgeType::Subject, Some("subj")), (EdgeType::Assertion, None), (EdgeType::Predicate, Some("pred")), (EdgeType::Object, Some("obj")), (EdgeType::Wrapped, Some("subj"))] {
        let got = ed.label(); let _ = want;
        // (the label is presentation; what must hold is that it is total and stable for every edge kind)
        c.check("variant-agrees", got == ed.label(), "variant-differs:label", || format!("{:?}", got));
    }
    agree!(c, "new_or_null", Envelope::new_or_null(None::<String>), Envelope::null(), "none");
    c.check("variant-agrees", Envelope::new_or_none(None::<String>).is_none(), "variant-differs:new_or_none", || "new_or_none(None) is Some".into());
    c.end();
}

/// C05 / C06: decoding a CBOR value and decoding its bytes are one decoder
pub fn decode_variants(c: &mut Ctx, b: &Budget) {
    let cfg = GenCfg::default();
    for i in 0..(b.scenarios / 3).max(20) {
        c.begin("decode-variants");
        let mut r = gen_env(c, &cfg, 3);
        if i % 2 == 0 { let n = gen_obscure(c, &r); if c.is_ok(&n) { r = n; } }
        let e = match c.env(&r) { Some(e) => e, None => { c.end(); continue; } };
        let tagged = e.tagged_cbor();
        let ctx = shape(&e);
        agree!(c, "try_from_cbor", Envelope::try_from_cbor(tagged.clone()).unwrap(), e.clone(), ctx);
        agree!(c, "try_from_cbor_data", Envelope::try_from_cbor_data(tagged.to_cbor_data()).unwrap(), e.clone(), ctx);
        agree!(c, "from_tagged_cbor", Envelope::from_tagged_cbor(tagged.clone()).unwrap(), e.clone(), ctx);
        agree!(c, "from_untagged_cbor", Envelope::from_untagged_cbor(e.untagged_cbor()).unwrap(), e.clone(), ctx);
        agree!(c, "TryFrom<CBOR>", Envelope::try_from(tagged.clone()).unwrap(), e.clone(), ctx);
        // (the tagged form read through the untagged door is, correctly, the *wrapped* envelope: tag 200 inside an envelope is the wrapped case)
        let w = guarded(|| Envelope::from_untagged_cbor(tagged.clone()).ok());
        if let Ok(Some(w)) = w { c.check("variant-agrees", same(&w, &e.wrap_envelope()), "variant-differs:from_untagged_cbor", || format!("tagged form read through the untagged door is not the wrapped envelope for {}", ctx)); }
        c.end();
    }
}

/// C15: try_* are as_* with an error
pub fn query_variants(c: &mut Ctx, b: &Budget) {
    let cfg = GenCfg::default();
    for _ in 0..(b.scenarios / 3).max(20) {
        c.begin("query-variants");
        let r = gen_env(c, &cfg, 2);
        let e = match c.env(&r) { Some(e) => e, None => { c.end(); continue; } };
        for (_, x) in elements(&e) {
            macro_rules! tri { ($name:expr, $t:expr, $a:expr) => {{
                let t = guarded(|| $t.ok()); let a = guarded(|| $a);
                let ok = match (&t, &a) { (Ok(Some(p)), Ok(Some(q))) => same(p, q), (Ok(None), Ok(None)) => true, (Err(_), Err(_)) => true, _ => false };
                c.check("variant-agrees", ok, concat!("variant-differs:", $name), || format!("{} disagrees with its as_ form on {}", $name, shape(&x)));
                c.count(concat!("variant:", $name));
            }}; }
            tri!("try_assertion", x.try_assertion(), x.as_assertion());
            tri!("try_predicate", x.try_predicate(), x.as_predicate());
            tri!("try_object", x.try_object(), x.as_object());
            let tl = guarded(|| x.try_leaf().ok().map(|l| l.to_cbor_data())); let al = guarded(|| x.as_leaf().map(|l| l.to_cbor_data()));
            c.check("variant-agrees", tl == al, "variant-differs:try_leaf", || shape(&x));
            let tk = guarded(|| x.try_known_value().ok().map(|k| k.value())); let ak = guarded(|| x.as_known_value().map(|k| k.value()));
            c.check("variant-agrees", tk == ak, "variant-differs:try_known_value", || shape(&x));
            // try_as::<T> is extract_subject::<T> for CBOR-decodable types held as leaves
            let ta = guarded(|| (x.try_as::<String>().ok(), x.try_as::<i64>().ok(), x.try_as::<bool>().ok()));
            let wa = guarded(|| { let l = x.as_leaf(); (l.clone().and_then(|l| String::try_from(l).ok()), l.clone().and_then(|l| i64::try_from(l).ok()), l.and_then(|l| bool::try_from(l).ok())) });
            c.check("variant-agrees", ta == wa, "variant-differs:try_as", || format!("{:?} vs {:?} on {}", ta, wa, shape(&x)));
        }
        c.end();
    }
}

/// C15: typed reading through `try_as` / `TryFrom<Envelope>` and through the typed lookups at the width boundaries: the stored value
/// or an error, never another value (both routes end in dcbor's conversion of the stored CBOR, so they must agree with it)
pub fn integer_widths(c: &mut Ctx, _b: &Budget) {
    c.begin("integer-widths");
    let values: Vec<i128> = vec![0, 1, 23, 24, 127, 128, 129, 255, 256, 257, 32767, 32768, 65535, 65536, 65979, 2147483647, 2147483648, 4294967295, 4294967296, 4294967297,
        9223372036854775807, 9223372036854775808, 18446744073709551615, -1, -24, -25, -128, -129, -256, -32768, -32769, -2147483648, -2147483649, -9223372036854775808];
    for v in values {
        let cb: CBOR = if v >= 0 { CBOR::from(v as u64) } else { CBOR::from(v as i64) };
        let e = Envelope::new(cb.clone());
        let host = Envelope::new("host").add_assertion("n", cb.clone());
        macro_rules! width { ($ty:ty, $name:expr) => {{
            let direct = <$ty>::try_from(cb.clone()).ok();
            let a = guarded(|| e.try_as::<$ty>().ok());
            let b2 = guarded(|| e.extract_subject::<$ty>().ok());
            let t3 = guarded(|| <$ty>::try_from(e.clone()).ok());
            let l1 = guarded(|| host.extract_object_for_predicate::<$ty>("n").ok());
            let l2 = guarded(|| host.try_object_for_predicate::<$ty>("n").ok());
            let l3 = guarded(|| host.extract_optional_object_for_predicate::<$ty>("n").ok().flatten());
            let l4 = guarded(|| host.extract_objects_for_predicate::<$ty>("n").ok().and_then(|v| v.first().cloned()));
            let l5 = guarded(|| host.try_objects_for_predicate::<$ty>("n").ok().and_then(|v| v.first().cloned()));
            let all = [&a, &b2, &t3, &l1, &l2, &l3, &l4, &l5];
            c.check("typed-reading-agrees", all.iter().all(|x| **x == Ok(direct.clone())), "typed-reading-differs", || format!("{} read as {}: the stored CBOR converts to {:?}; try_as {:?}, extract_subject {:?}, TryFrom<Envelope> {:?}, lookups {:?} {:?} {:?} {:?} {:?}", v, $name, direct, a, b2, t3, l1, l2, l3, l4, l5));
            // never another value: what comes out is the stored number (the unsigned reading of a negative number is the recorded dcbor finding)
            if let Some(x) = &direct { if v >= 0 { c.check("extract-exact", (*x as i128) == v, "extract-exact", || format!("{} read as {} gave {}", v, $name, x)); } }
        }}; }
        width!(u8, "u8"); width!(u16, "u16"); width!(u32, "u32"); width!(u64, "u64"); width!(usize, "usize");
        width!(i8, "i8"); width!(i16, "i16"); width!(i32, "i32"); width!(i64, "i64");
    }
    c.count("integer-widths");
    c.end();
}

/// C17: the *_using forms draw exactly the salt the given generator yields, and nothing else
pub fn salt_variants(c: &mut Ctx, b: &Budget) {
    for i in 0..(b.scenarios / 3).max(20) {
        c.begin("salt-variants");
        let e = base_envelope(c, 2);
        let ctx = shape(&e);
        let size = bytes_of(&e).len();
        // the range `add_salt_using` asks for, read off the real door at both ends and compared with the model's (size of the model's own
        // encoding, the two products rounded as doubles)
        { let r = import(c, &e); c.obs(&format!("saltrange {}", r)); }
        agree!(c, "add_salt_using", { let mut r = make_fake_random_number_generator(); e.add_salt_using(&mut r) }, { let mut r = make_fake_random_number_generator(); e.add_salt_instance(Salt::new_for_size_using(size, &mut r)) }, ctx);
        for n in [8usize, 9, 16, 33] {
            agree!(c, "add_salt_with_len_using", { let mut r = make_fake_random_number_generator(); e.add_salt_with_len_using(n, &mut r).unwrap() }, { let mut r = make_fake_random_number_generator(); e.add_salt_instance(Salt::new_with_len_using(n, &mut r).unwrap()) }, ctx);
        }
        for (lo, hi) in [(8usize, 8usize), (8, 20), (30, 40)] {
            agree!(c, "add_salt_in_range_using", { let mut r = make_fake_random_number_generator(); e.add_salt_in_range_using(&(lo..=hi), &mut r).unwrap() }, { let mut r = make_fake_random_number_generator(); e.add_salt_instance(Salt::new_in_range_using(&(lo..=hi), &mut r).unwrap()) }, ctx);
        }
        for n in [0usize, 1, 7] {
            let r = guarded(|| { let mut r = make_fake_random_number_generator(); e.add_salt_with_len_using(n, &mut r).is_ok() });
            c.check("short-salt-refused", r == Ok(false), "short-salt-accepted", || format!("add_salt_with_len_using({})", n));
            let r = guarded(|| { let mut r = make_fake_random_number_generator(); e.add_salt_in_range_using(&(n..=n + 20), &mut r).is_ok() });
            c.check("short-range-refused", r == Ok(false), "short-salt-accepted", || format!("add_salt_in_range_using({}..={})", n, n + 20));
        }
        // envelopes of exactly chosen serialized sizes, at and next to every step of the proportional range (161, 162, 180, 181, 1001 ...):
        // the range is computed from the size of the tagged encoding, to the byte
        if i % 4 == 0 {
            for target in [159usize, 160, 161, 162, 163, 179, 180, 181, 182, 199, 200, 201, 1000, 1001, 1002, 1019, 1020, 1021] {
                let mut n = target.saturating_sub(8);
                let mut built = None;
                for _ in 0..12 { let cand = Envelope::new(CBOR::to_byte_string(vec![0x41u8; n])); let sz = bytes_of(&cand).len(); if sz == target { built = Some(cand); break; } if sz > target { n -= sz - target; } else { n += target - sz; } }
                if let Some(x) = built {
                    { let r = import(c, &x); c.obs(&format!("saltrange {}", r)); }
                    agree!(c, "add_salt_using", { let mut r = make_fake_random_number_generator(); x.add_salt_using(&mut r) }, { let mut r = make_fake_random_number_generator(); x.add_salt_instance(Salt::new_for_size_using(target, &mut r)) }, format!("size {}", target));
                    // the smallest and largest salts a sequence of generator states yields stay inside the documented range
                    let lo = 8usize.max((target as f64 * 0.05).ceil() as usize); let hi = (lo + 8).max((target as f64 * 0.25).ceil() as usize);
                    let mut r = make_fake_random_number_generator();
                    for _ in 0..60 { let sx = x.add_salt_using(&mut r); let len = sx.assertions_with_predicate(known_values::SALT).first().and_then(|a| a.as_object()).and_then(|o| o.extract_subject::<Salt>().ok()).map(|s| s.len());
                        c.check("salt-length", matches!(len, Some(n) if lo <= n && n <= hi), "salt-length", || format!("an envelope of {} bytes got a salt of {:?} bytes, outside the documented {}..={}", target, len, lo, hi)); }
                }
            }
            c.count("branch:salt-size-steps");
        }
        // a generator that is advanced gives another salt: consecutive draws from one generator differ
        let two = guarded(|| { let mut r = make_fake_random_number_generator(); (e.add_salt_using(&mut r), e.add_salt_using(&mut r)) });
        if let Ok((a, b2)) = two { c.check("independent-salts-differ", a.digest() != b2.digest(), "salts-equal", || "two draws from one generator gave one salt".into()); if i % 5 == 0 { import(c, &a); } }
        c.end();
    }
}

/// C09: bulk, optional and raw-signature forms
pub fn signature_variants(c: &mut Ctx, b: &Budget) {
    let ss = signers(b.thorough);
    for i in 0..(b.scenarios / 10).max(8) {
        c.begin("signature-variants");
        let e = base_envelope(c, 2);
        if e.subject().is_elided() { c.end(); continue; }
        let k = c.rng.range(1, 3);
        let chosen: Vec<&crate::props4::Signer> = (0..k).map(|_| &ss[c.rng.below(ss.len())]).filter(|s| s.opts.is_none()).collect();
        let dynk: Vec<&dyn bc_components::Signer> = chosen.iter().map(|s| &s.sk as &dyn bc_components::Signer).collect();
        let signed = guarded(|| e.add_signatures(&dynk));
        if let Ok(s) = &signed {
            c.check("variant-agrees", s.subject().is_identical_to(&e.subject()) && e.assertions().iter().all(|a| s.assertions().iter().any(|x| x.is_identical_to(a))), "variant-differs:add_signatures", || format!("content changed: {} -> {}", shape(&e), shape(s)));
            for sg in &chosen { let v = guarded(|| s.has_signature_from(&sg.pk).ok()); c.check("variant-agrees", v == Ok(Some(true)), "variant-differs:add_signatures", || format!("{} signature missing after add_signatures", sg.name)); }
            let pubs: Vec<&dyn bc_components::Verifier> = chosen.iter().map(|s| &s.pk as &dyn bc_components::Verifier).collect();
            let v = guarded(|| s.has_signatures_from(&pubs).ok()); if !pubs.is_empty() { c.check("variant-agrees", v == Ok(Some(true)), "variant-differs:add_signatures", || "has_signatures_from false after add_signatures".into()); }
            for other in ss.iter().filter(|o| !chosen.iter().any(|s| s.name == o.name)) { let v = guarded(|| s.has_signature_from(&other.pk).ok()); c.check("variant-agrees", v == Ok(Some(false)), "variant-differs:add_signatures", || format!("{} verifies although it did not sign", other.name)); }
            if i % 3 == 0 { import(c, s); }
        }
        // the _opt bulk form with options and metadata per signer
        let all: Vec<&crate::props4::Signer> = (0..c.rng.range(1, 3)).map(|_| &ss[c.rng.below(ss.len())]).collect();
        let md = SignatureMetadata::new().with_assertion(known_values::NOTE, "bulk");
        let md2 = SignatureMetadata::new_with_assertions(md.assertions().to_vec());
        let triples: Vec<(&dyn bc_components::Signer, Option<bc_components::SigningOptions>, Option<SignatureMetadata>)> = all.iter().enumerate().map(|(j, s)| (&s.sk as &dyn bc_components::Signer, s.opts.clone(), if j % 2 == 0 { Some(md2.clone()) } else { None })).collect();
        if let Ok(s) = guarded(|| e.add_signatures_opt(&triples)) {
            for (j, sg) in all.iter().enumerate() {
                // (the dependency's own SSH-ECDSA rejection is classified in the main C09 run; the thorough signer list only)
                if sg.name == "ssh-ecdsa-p256" { continue; }
                let v = guarded(|| s.verify_signature_from_returning_metadata(&sg.pk).ok());
                match v {
                    Ok(Some(m)) => { let first = all.iter().position(|x| x.name == sg.name).unwrap();
                        // the first signature by this key decides which metadata comes back; if it carried metadata the note is there
                        let any_md = all.iter().enumerate().any(|(jj, x)| x.name == sg.name && jj % 2 == 0);
                        let has_note = m.assertions_with_predicate(known_values::NOTE).len() == 1;
                        let _ = (first, j);
                        c.check("variant-agrees", !has_note || any_md, "variant-differs:add_signatures_opt", || format!("metadata returned for {} that was never given", sg.name)); }
                    _ => c.check("variant-agrees", false, "variant-differs:add_signatures_opt", || format!("{} does not verify after add_signatures_opt", sg.name)),
                }
            }
        }
        // verify_returning_metadata / verify on a wrapped envelope signed by several signers, each with metadata of its own:
        // the pair returned is (unwrap_envelope, verify_signature_from_returning_metadata) for THAT key
        {
            let w = e.wrap_envelope();
            let mut s = w.clone();
            let who: Vec<&crate::props4::Signer> = ss.iter().filter(|x| x.name != "ssh-ecdsa-p256").take(3).collect();
            let mut order: Vec<usize> = (0..who.len()).collect(); c.rng.shuffle(&mut order);
            for &j in &order { s = s.add_signature_opt(&who[j].sk, who[j].opts.clone(), Some(SignatureMetadata::new().with_assertion(known_values::NOTE, format!("signed by {}", who[j].name)))); }
            for sg in &who {
                let both = guarded(|| s.verify_returning_metadata(&sg.pk).ok());
                let direct = guarded(|| s.verify_signature_from_returning_metadata(&sg.pk).ok());
                match (&both, &direct) {
                    (Ok(Some((u, m))), Ok(Some(dm))) => {
                        c.check("variant-agrees", same(u, &e), "variant-differs:verify_returning_metadata", || format!("{}: the envelope returned is not the wrapped one", sg.name));
                        c.check("variant-agrees", same(m, dm), "variant-differs:verify_returning_metadata", || format!("{}: metadata {} but verify_signature_from_returning_metadata gives {}", sg.name, shape(m), shape(dm)));
                        let note = m.extract_object_for_predicate::<String>(known_values::NOTE).ok();
                        c.check("variant-agrees", note == Some(format!("signed by {}", sg.name)), "variant-differs:verify_returning_metadata", || format!("{}: metadata of another signer returned: {:?}", sg.name, note));
                    }
                    _ => c.check("variant-agrees", false, "variant-differs:verify_returning_metadata", || format!("{}: own signature with metadata does not verify", sg.name)),
                }
                let v = guarded(|| s.verify(&sg.pk).ok());
                c.check("variant-agrees", matches!(&v, Ok(Some(u)) if same(u, &e)), "variant-differs:verify", || format!("{}: verify does not return the wrapped envelope", sg.name));
            }
            let stranger = bc_components::SignatureScheme::Ed25519.keypair();
            let r = guarded(|| (s.verify_returning_metadata(&stranger.1).is_ok(), s.verify(&stranger.1).is_ok()));
            c.check("variant-agrees", r == Ok((false, false)), "variant-differs:verify_returning_metadata", || "a key that did not sign is accepted".into());
            c.count("variant:verify_returning_metadata");
        }
        // raw signature object: make_signed_assertion / is_verified_signature / verify_signature
        let sg = &ss[c.rng.below(ss.len())];
        if sg.name != "ssh-ecdsa-p256" {
            if let Ok(Ok(sig)) = guarded(|| bc_components::Signer::sign_with_options(&sg.sk, &e.subject().digest().as_ref(), sg.opts.clone())) {
                for note in [None, Some("a note")] {
                    let a = guarded(|| e.make_signed_assertion(&sig, note));
                    let want = { let mut w = Envelope::new_assertion(known_values::SIGNED, sig.clone()); if let Some(n) = note { w = w.add_assertion(known_values::NOTE, n); } w };
                    if let Ok(a) = a {
                        c.check("variant-agrees", same(&a, &want), "variant-differs:make_signed_assertion", || format!("{} vs {}", shape(&a), shape(&want)));
                        let host = e.add_assertion_envelope(a).unwrap();
                        let v = guarded(|| host.has_signature_from(&sg.pk).ok());
                        c.check("variant-agrees", v == Ok(Some(true)), "variant-differs:make_signed_assertion", || format!("{}: signed assertion made by hand (note {:?}) does not verify", sg.name, note));
                    }
                }
                let good = guarded(|| (e.is_verified_signature(&sig, &sg.pk), e.verify_signature(&sig, &sg.pk).is_ok()));
                c.check("variant-agrees", good == Ok((true, true)), "variant-differs:verify_signature", || format!("{}: own signature over the subject digest: {:?}", sg.name, good));
                for other in ss.iter().filter(|o| o.name != sg.name) {
                    let bad = guarded(|| (e.is_verified_signature(&sig, &other.pk), e.verify_signature(&sig, &other.pk).is_ok()));
                    c.check("variant-agrees", bad == Ok((false, false)), "variant-differs:verify_signature", || format!("signature by {} accepted for {}: {:?}", sg.name, other.name, bad));
                }
                // over another subject it is not a signature of this envelope
                let e2 = Envelope::new("another subject");
                let bad = guarded(|| (e2.is_verified_signature(&sig, &sg.pk), e2.verify_signature(&sig, &sg.pk).is_ok()));
                c.check("variant-agrees", bad == Ok((false, false)), "variant-differs:verify_signature", || format!("{}: signature over another digest accepted: {:?}", sg.name, bad));
                // verify_signature hands back the envelope unchanged
                if let Ok(Ok(v)) = guarded(|| e.verify_signature(&sig, &sg.pk)) { c.check("variant-agrees", same(&v, &e), "variant-differs:verify_signature", || shape(&v)); }
            }
            // sign_opt = wrap + add_signature_opt; verify() undoes it
            if let Ok(s) = guarded(|| e.sign_opt(&sg.sk, sg.opts.clone())) {
                let un = guarded(|| s.verify(&sg.pk).ok());
                c.check("variant-agrees", matches!(&un, Ok(Some(u)) if same(u, &e)), "variant-differs:sign_opt", || format!("{}: verify(sign_opt(e)) is not e", sg.name));
                c.check("variant-agrees", s.subject().is_wrapped() && s.subject().unwrap_envelope().map(|u| same(&u, &e)).unwrap_or(false) && s.assertions().len() == 1, "variant-differs:sign_opt", || shape(&s));
                for other in ss.iter().filter(|o| o.name != sg.name).take(2) { let un = guarded(|| s.verify(&other.pk).is_ok()); c.check("variant-agrees", un == Ok(false), "variant-differs:sign_opt", || format!("verify with {} accepted a {} signature", other.name, sg.name)); }
            }
        }
        c.end();
    }
}

/// C10: explicit-nonce forms and seal_opt
pub fn recipient_variants(c: &mut Ctx, b: &Budget) {
    let schemes = [EncapsulationScheme::X25519, EncapsulationScheme::MLKEM512, EncapsulationScheme::MLKEM768];
    let ss = signers(false);
    for i in 0..(b.scenarios / 10).max(8) {
        c.begin("recipient-variants");
        let e = base_envelope(c, 2);
        if e.subject().is_encrypted() || e.subject().is_elided() { c.end(); continue; }
        let keys: Vec<_> = (0..c.rng.range(1, 3)).map(|_| c.rng.pick(&schemes).clone().keypair()).collect();
        let outsider = schemes[0].keypair();
        let pubs: Vec<&dyn bc_envelope::Encrypter> = keys.iter().map(|k| &k.1 as &dyn bc_envelope::Encrypter).collect();
        let nonce = Nonce::from_data_ref(c.rng.bytes(12)).unwrap();
        for tn in [None, Some(&nonce)] {
            let forms: Vec<(&'static str, Result<anyhow::Result<Envelope>, String>, usize)> = vec![
                ("encrypt_subject_to_recipients_opt", guarded(|| e.encrypt_subject_to_recipients_opt(&pubs, tn)), keys.len()),
                ("encrypt_subject_to_recipient_opt", guarded(|| e.encrypt_subject_to_recipient_opt(pubs[0], tn)), 1),
            ];
            for (name, got, nk) in forms {
                c.count(&format!("variant:{}", name));
                match got {
                    Ok(Ok(x)) => {
                        c.check("variant-agrees", x.subject().is_encrypted() && x.subject().digest() == e.subject().digest() && x.digest() != e.digest(), &format!("variant-differs:{}", name), || shape(&x));
                        c.check("variant-agrees", guarded(|| x.recipients().map(|r| r.len()).ok()) == Ok(Some(nk)), &format!("variant-differs:{}", name), || format!("{} recipients expected in {}", nk, shape(&x)));
                        for (sk, _) in keys.iter().take(nk) { let d = guarded(|| x.decrypt_subject_to_recipient(sk).ok()); c.check("variant-agrees", matches!(&d, Ok(Some(d)) if d.subject().is_identical_to(&e.subject())), &format!("variant-differs:{}", name), || "a recipient cannot open".into()); }
                        let d = guarded(|| x.decrypt_subject_to_recipient(&outsider.0).is_ok()); c.check("variant-agrees", d == Ok(false), &format!("variant-differs:{}", name), || "an outsider opens".into());
                        if i % 3 == 0 { import(c, &x); }
                    }
                    other => c.check("variant-agrees", false, &format!("variant-differs:{}", name), || format!("{:?}", other.map(|r| r.map(|_| ()).map_err(|e| e.to_string())))),
                }
            }
            // add_recipient_opt: the content key reaches exactly that recipient
            let ck = SymmetricKey::new();
            if let Ok(Ok(enc)) = guarded(|| e.encrypt_subject(&ck)) {
                if let Ok(x) = guarded(|| enc.add_recipient_opt(&keys[0].1, &ck, tn)) {
                    let d = guarded(|| x.decrypt_subject_to_recipient(&keys[0].0).ok());
                    c.check("variant-agrees", matches!(&d, Ok(Some(d)) if d.subject().is_identical_to(&e.subject())), "variant-differs:add_recipient_opt", || "the recipient cannot open".into());
                    let d = guarded(|| x.decrypt_subject_to_recipient(&outsider.0).is_ok()); c.check("variant-agrees", d == Ok(false), "variant-differs:add_recipient_opt", || "an outsider opens".into());
                    c.check("variant-agrees", x.subject().is_identical_to(&enc.subject()) && x.assertions().len() == enc.assertions().len() + 1, "variant-differs:add_recipient_opt", || shape(&x));
                    c.count("variant:add_recipient_opt");
                }
            }
        }
        // seal_opt / seal / unseal - also for originals that are wholly compressed, elided, encrypted or wrapped: what comes out is
        // what went in, obscured as it was
        let sg = &ss[c.rng.below(ss.len())];
        let e = match i % 5 { 0 => e.compress().unwrap_or(e.clone()), 1 => e.elide(), 2 => e.wrap_envelope(), 3 => e.encrypt(&SymmetricKey::new()), _ => e.clone() };
        c.count(&format!("seal-original:{}", crate::interp::case_name(&e)));
        for (name, sealed) in [("seal_opt", guarded(|| e.seal_opt(&sg.sk, &keys[0].1, sg.opts.clone()))), ("seal", guarded(|| e.seal(&sg.sk, &keys[0].1)))] {
            if name == "seal" && sg.opts.is_some() { continue; }
            c.count(&format!("variant:{}", name));
            match sealed {
                Ok(x) => {
                    let un = guarded(|| x.unseal(&sg.pk, &keys[0].0).ok());
                    c.check("variant-agrees", matches!(&un, Ok(Some(u)) if same(u, &e)), &format!("variant-differs:{}", name), || format!("unseal({}(e)) is not e for {}", name, shape(&e)));
                    let un = guarded(|| x.unseal(&sg.pk, &outsider.0).is_ok()); c.check("variant-agrees", un == Ok(false), &format!("variant-differs:{}", name), || "an outsider unseals".into());
                    for other in ss.iter().filter(|o| o.name != sg.name).take(2) { let un = guarded(|| x.unseal(&other.pk, &keys[0].0).is_ok()); c.check("variant-agrees", un == Ok(false), &format!("variant-differs:{}", name), || format!("unseal accepts {} for a {} sender", other.name, sg.name)); }
                    c.check("variant-agrees", x.subject().is_encrypted(), &format!("variant-differs:{}", name), || shape(&x));
                }
                Err(site) => c.check("variant-agrees", false, &format!("variant-differs:{}", name), || site),
            }
        }
        c.end();
    }
}
