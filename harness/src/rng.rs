//! SplitMix64: the single PRNG from which every random choice derives.
#[derive(Clone)]
pub struct Rng(pub u64);

impl Rng {
    pub fn new(seed: u64) -> Self { Rng(seed ^ 0x9E37_79B9_7F4A_7C15) }
    pub fn next(&mut self) -> u64 {
        self.0 = self.0.wrapping_add(0x9E37_79B9_7F4A_7C15);
        let mut z = self.0;
        z = (z ^ (z >> 30)).wrapping_mul(0xBF58_476D_1CE4_E5B9);
        z = (z ^ (z >> 27)).wrapping_mul(0x94D0_49BB_1331_11EB);
        z ^ (z >> 31)
    }
    /// uniform in 0..n (n > 0)
    pub fn below(&mut self, n: usize) -> usize { (self.next() % (n as u64)) as usize }
    pub fn range(&mut self, lo: usize, hi: usize) -> usize { lo + self.below(hi - lo + 1) }
    pub fn chance(&mut self, num: usize, den: usize) -> bool { self.below(den) < num }
    pub fn pick<'a, T>(&mut self, xs: &'a [T]) -> &'a T { &xs[self.below(xs.len())] }
    pub fn bytes(&mut self, n: usize) -> Vec<u8> { (0..n).map(|_| self.next() as u8).collect() }
    pub fn fork(&mut self) -> Rng { Rng::new(self.next()) }
    pub fn shuffle<T>(&mut self, xs: &mut Vec<T>) {
        for i in (1..xs.len()).rev() { let j = self.below(i + 1); xs.swap(i, j); }
    }
}

impl Rng {
    /// a library RNG (`bc_rand::SeededRandomNumberGenerator`) seeded from this stream
    pub fn lib_rng(&mut self) -> bc_rand::SeededRandomNumberGenerator {
        bc_rand::SeededRandomNumberGenerator::new([self.next(), self.next(), self.next(), self.next()])
    }
}
