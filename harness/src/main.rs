mod c20;
mod ctx;
mod gen;
mod history;
mod interp;
mod mutate;
mod oracles;
mod props;
mod props2;
mod props3;
mod props4;
mod props5;
mod props_enum;
mod enumr;
mod rng;

use std::io::{BufRead, Write};

fn json_str(s: &str) -> String {
    let mut o = String::from("\"");
    for ch in s.chars() {
        match ch {
            '"' => o.push_str("\\\""), '\\' => o.push_str("\\\\"), '\n' => o.push_str("\\n"), '\t' => o.push_str("\\t"), '\r' => o.push_str("\\r"),
            c if (c as u32) < 0x20 => o.push_str(&format!("\\u{:04x}", c as u32)),
            c => o.push(c),
        }
    }
    o.push('"');
    o
}

fn usage() -> ! {
    eprintln!("usage: evh run --prop Cxx --seed N --tier quick|thorough --out DIR [--scale K]\n       evh replay FILE");
    std::process::exit(2)
}

fn c20_no_register() {}

fn main() {
    let args: Vec<String> = std::env::args().collect();
    if args.len() < 2 { usage(); }
    // the C20 children must see first use: no registration, no panic hook side effects
    if !args[1].starts_with("c20-") {
        interp::install_panic_hook();
        bc_envelope::register_tags();
    }
    match args[1].as_str() {
        "replay" => {
            let f = std::fs::File::open(&args[2]).expect("open");
            let mut m = interp::Machine::default();
            let out = std::io::stdout();
            let mut out = out.lock();
            for l in std::io::BufReader::new(f).lines() {
                let l = l.unwrap();
                if let Some(o) = m.exec(&l) { writeln!(out, "{}", o).unwrap(); }
            }
        }
        "c20-trace-one" => { c20_no_register(); c20::trace_one(&args[2]); }
        "c20-variants-one" => { c20::variants_one(); }
        "c20-expected-one" => { c20::expected_one(args[2].parse().unwrap_or(0)); }
        "c20-stress-one" => { c20::stress_one_focus(args[2].parse().unwrap(), args[3].parse().unwrap(), args[4] == "1", args[5].parse().unwrap(), args.get(6).cloned()); }
        "c20" => { c20::campaign(&args[2], args.get(3).and_then(|s| s.parse().ok()).unwrap_or(1), args.get(4).map(|s| s == "thorough").unwrap_or(false)); }
        "run" => {
            let mut prop = String::new(); let mut seed = 1u64; let mut tier = "quick".to_string(); let mut outdir = String::new(); let mut scale = 1usize;
            let mut i = 2;
            while i + 1 < args.len() {
                match args[i].as_str() {
                    "--prop" => prop = args[i + 1].clone(),
                    "--seed" => seed = args[i + 1].parse().unwrap_or(1),
                    "--tier" => tier = args[i + 1].clone(),
                    "--out" => outdir = args[i + 1].clone(),
                    "--scale" => scale = args[i + 1].parse().unwrap_or(1),
                    _ => usage(),
                }
                i += 2;
            }
            if prop.is_empty() || outdir.is_empty() { usage(); }
            let thorough = tier == "thorough";
            let mut c = ctx::Ctx::new(&prop, seed);
            let base = if thorough { 1500 } else { 150 };
            let b = props::Budget { scenarios: base * scale, thorough };
            let t0 = std::time::Instant::now();
            let run = std::panic::catch_unwind(std::panic::AssertUnwindSafe(|| { let c = &mut c; match prop.as_str() {
                "C01" => { props::c01(c, &b); props2::special_other(c, &b, "C01"); props::node_sizes(c, &b, "C01"); props5::constructor_variants(c, &b); props_enum::run(c, "C01", &b); }
                "C02" => { props::c02(c, &b); props2::deep_elision(c, &b, "C02"); props2::special_elision(c, &b, "C02"); props2::special_other(c, &b, "C02"); props5::elision_variants(c, &b); props_enum::run(c, "C02", &b); }
                "C03" => { props2::c03(c, &b); props2::special_elision(c, &b, "C03"); props5::elision_variants(c, &b); props_enum::run(c, "C03", &b); }
                "C04" => { props::c04(c, &b); props2::special_other(c, &b, "C04"); props::node_sizes(c, &b, "C04"); props::c04_spliced(c, &b); props_enum::run(c, "C04", &b); }
                "C05" => { props::c05(c, &b); props2::deep_other(c, &b, "C05"); props2::special_other(c, &b, "C05"); props::typed_text_routes(c, &b, "C05"); props5::decode_variants(c, &b); props_enum::run(c, "C05", &b); }
                "C06" => props::c06(c, &b),
                "C07" => { props::c07(c, &b); props::typed_text_routes(c, &b, "C07"); props5::assertion_variants(c, &b); }
                "C08" => { props2::c08(c, &b); props2::deep_other(c, &b, "C08"); props2::special_other(c, &b, "C08"); props2::special_elision(c, &b, "C08"); }
                "C09" => { props4::c09(c, &b); props4::c09_glue(c, &b); props5::signature_variants(c, &b); }
                "C10" => { props4::c10(c, &b); props4::c10_model(c, &b); props5::recipient_variants(c, &b); props2::deep_other(c, &b, "C10"); }
                "C11" => { props4::c11(c, &b); props4::c11_model(c, &b); }
                "C12" => { props2::c12(c, &b); props2::deep_other(c, &b, "C12"); props_enum::run(c, "C12", &b); }
                "C13" => { props2::c13(c, &b); props2::deep_other(c, &b, "C13"); props2::special_other(c, &b, "C13"); }
                "C14" => { props2::c14(c, &b); props_enum::run(c, "C14", &b); }
                "C15" => { props2::c15(c, &b); props2::deep_other(c, &b, "C15"); props5::query_variants(c, &b); props5::integer_widths(c, &b); }
                "C16" => props3::c16(c, &b),
                "C17" => { props4::c17(c, &b); props4::c17_model(c, &b); props5::salt_variants(c, &b); }
                "C18" => { props4::c18(c, &b); props4::c18_model(c, &b); }
                "C19" => { props4::c19(c, &b); props4::c19_model(c, &b); }
                _ => { eprintln!("unknown property {}", prop); std::process::exit(2); }
            } }));
            if run.is_err() {
                // a library call made by the harness's own observation code (shape, digest, encoding of a produced envelope) panicked:
                // an operation of the public API crashed on an envelope the library itself produced
                let site = interp::last_panic();
                let scen = c.scenario.clone();
                c.oracles.push(ctx::OracleRec { scenario: scen, name: "no-panic-while-observing".into(), pass: false, key: format!("panic@{}", site),
                    detail: format!("a public operation applied by the harness to an envelope of this scenario panicked at {}", site) });
                // the observation stream is cut here; pad it so that both sides stay aligned
                let produced = c.lines.iter().filter(|l| { let t = l.trim(); !t.is_empty() && !t.starts_with('#') }).count();
                while c.outs.len() < produced { c.outs.push("harness-cut".into()); }
            }
            std::fs::create_dir_all(&outdir).unwrap();
            std::fs::write(format!("{}/scen.evl", outdir), c.lines.join("\n") + "\n").unwrap();
            std::fs::write(format!("{}/impl.obs", outdir), c.outs.join("\n") + "\n").unwrap();
            let mut o = String::new();
            for r in &c.oracles {
                o.push_str(&format!("{{\"scenario\":{},\"name\":{},\"pass\":{},\"key\":{},\"detail\":{}}}\n",
                    json_str(&r.scenario), json_str(&r.name), r.pass, json_str(&r.key), json_str(&r.detail)));
            }
            std::fs::write(format!("{}/oracle.jsonl", outdir), o).unwrap();
            let counters: Vec<String> = c.counters.iter().map(|(k, v)| format!("{}:{}", json_str(k), v)).collect();
            let samples: Vec<String> = c.samples.iter().map(|s| json_str(s)).collect();
            let stats = format!("{{\"prop\":{},\"seed\":{},\"tier\":{},\"scenarios\":{},\"lines\":{},\"observations\":{},\"distinct_shapes\":{},\"oracle_failures\":{},\"wall_s\":{:.3},\"counters\":{{{}}},\"samples\":[{}]}}\n",
                json_str(&prop), seed, json_str(&tier), c.n_scen, c.lines.len(), c.outs.len(), c.shapes.len(), c.oracles.len(), t0.elapsed().as_secs_f64(), counters.join(","), samples.join(","));
            std::fs::write(format!("{}/stats.json", outdir), stats).unwrap();
        }
        _ => usage(),
    }
}
