//! Properties C03, C08, C12..C16: scenario families and implementation-side oracles.
use crate::ctx::Ctx;
use crate::gen::*;
use crate::history::random_op;
use crate::interp::{case_name, guarded, has_opaque, path_at, shape, walk_visits, Val};
use crate::oracles::*;
use crate::props::Budget;
use bc_components::{Digest, DigestProvider};
use bc_envelope::base::envelope::EnvelopeCase;
use bc_envelope::prelude::*;
use std::collections::HashSet;

pub(crate) fn observe(c: &mut Ctx, reg: &str) {
    if let Some(e) = c.env(reg) { c.note_shape(&e); c.obs(&format!("shape {}", reg)); }
}

fn bytes_of(e: &Envelope) -> Vec<u8> { e.tagged_cbor().to_cbor_data() }

fn contains(hay: &[u8], needle: &[u8]) -> bool { needle.len() <= hay.len() && hay.windows(needle.len()).any(|w| w == needle) }

/// shallow equality: same case, same own content, same digest
fn shallow_eq(a: &Envelope, b: &Envelope) -> bool {
    if a.digest() != b.digest() || case_name(a) != case_name(b) { return false; }
    match (a.case(), b.case()) {
        (EnvelopeCase::Leaf { cbor: x, .. }, EnvelopeCase::Leaf { cbor: y, .. }) => x.to_cbor_data() == y.to_cbor_data(),
        (EnvelopeCase::KnownValue { value: x, .. }, EnvelopeCase::KnownValue { value: y, .. }) => x.value() == y.value(),
        (EnvelopeCase::Node { assertions: x, .. }, EnvelopeCase::Node { assertions: y, .. }) => x.len() == y.len(),
        _ => true,
    }
}

fn ancestors(p: &str) -> Vec<String> {
    // ancestor-or-self chain, root first
    if p == "." { return vec![".".into()]; }
    let parts: Vec<&str> = p.split('/').collect();
    let mut out = vec![".".to_string()];
    for i in 1..=parts.len() { out.push(parts[..i].join("/")); }
    out
}

/// C03: expected effect of an elision, computed independently of elide.rs
pub(crate) fn check_elision(orig: &Envelope, res: &Envelope, t: &HashSet<Digest>, revealing: bool, act: &str) -> Result<(usize, usize), String> {
    let els = elements(orig);
    let (mut hidden, mut visible) = (0, 0);
    for (p, y) in &els {
        let chain = ancestors(p);
        // is the element obscured at or above p ?
        let hit_at = chain.iter().position(|q| { let z = path_at(orig, q).unwrap(); t.contains(&z.digest()) != revealing });
        match hit_at {
            None => {
                visible += 1;
                let x = path_at(res, p).ok_or_else(|| format!("visible position {} is missing in the result", p))?;
                if !shallow_eq(&x, y) { return Err(format!("visible position {} changed: {} -> {}", p, shape(y), shape(&x))); }
            }
            Some(i) => {
                hidden += 1;
                let top = &chain[i];
                let x = path_at(res, top).ok_or_else(|| format!("placeholder position {} is missing", top))?;
                let z = path_at(orig, top).unwrap();
                if x.digest() != z.digest() { return Err(format!("placeholder at {} has another digest", top)); }
                let ok = match act {
                    "elide" => x.is_elided(),
                    "compress" => x.is_compressed() || (z.is_obscured() && case_name(&x) == case_name(&z)),
                    _ => x.is_encrypted(),
                };
                if !ok { return Err(format!("position {} should be the {} placeholder but is {}", top, act, shape(&x))); }
                if top != p && path_at(res, p).is_some() { return Err(format!("hidden position {} still exists below the placeholder", p)); }
            }
        }
    }
    // nothing else appeared
    for (p, _) in elements(res) { if path_at(orig, &p).is_none() { return Err(format!("result has a position {} the original lacks", p)); } }
    Ok((hidden, visible))
}

/// C03 - elision hides exactly the targets and leaves no trace
/// elision far below the root: no depth at which the walk stops looking (C02: digests preserved; C03: hides exactly the targets)
pub fn deep_elision(c: &mut Ctx, b: &Budget, prop: &str) {
    for (k, d) in deep_depths(b.thorough).into_iter().enumerate() {
        c.begin("deep");
        let dp = gen_deep(c, d, k % 2 == 1);
        let orig = match c.env(&dp.top) { Some(e) => e, None => { c.end(); continue; } };
        let bottom_d = c.env(&dp.bottom).unwrap().digest().into_owned();
        let mut reveal: Vec<String> = dp.chain.clone(); reveal.push(dp.second.clone());
        let reveal_set: HashSet<Digest> = reveal.iter().filter_map(|r| c.env(r)).map(|e| e.digest().into_owned()).collect();
        for act in ["elide".to_string(), "compress".to_string(), format!("encrypt:{}", KEY1)] {
            let a0 = act.split(':').next().unwrap().to_string();
            for (mode, ts, tset, revealing) in [("rem", dp.bottom.clone(), [bottom_d.clone()].into_iter().collect::<HashSet<Digest>>(), false), ("rev", reveal.join(","), reveal_set.clone(), true)] {
                let r = c.assign(&format!("elide_set {} {} {} {}", dp.top, mode, act, ts));
                c.no_panic(&r, "obscuring");
                if let Some(res) = c.env(&r) {
                    c.obs(&format!("digest {}", r));
                    if prop == "C02" {
                        let v = crate::props::check_positions(&orig, &res);
                        c.check("digests-preserved", v.is_ok(), "digests-preserved", || format!("depth {}: {}", d, v.unwrap_err()));
                    } else {
                        let v = check_elision(&orig, &res, &tset, revealing, &a0);
                        c.check("hides-exactly-targets", v.is_ok(), "hides-exactly-targets", || format!("depth {} mode {} action {}: {}", d, mode, a0, v.unwrap_err()));
                        // the bottom leaf must be gone from the bytes when it was elided
                        if a0 == "elide" { let bytes = res.tagged_cbor().to_cbor_data(); let gone = !bytes.windows(6).any(|w| w == b"bottom"); c.check("no-residue", gone, "marker-residue", || format!("depth {} mode {}: the hidden leaf is still in the encoding", d, mode)); }
                    }
                }
            }
        }
        c.end();
    }
}

/// the special shapes as *targets* of the elision walk, alone (the root) and embedded as subject and as object of a host, both
/// modes, all three actions; for C08 the encrypted placeholder must open to the identical element
pub fn special_elision(c: &mut Ctx, b: &Budget, prop: &str) {
    let cfg = GenCfg::default();
    for _ in 0..(if b.thorough { 8 } else { 2 }) {
        c.begin("special-targets");
        for (name, r) in special_shapes(c) {
            let shape_env = match c.env(&r) { Some(e) => e, None => continue };
            let p = gen_leaf(c, &cfg); let a = c.assign(&format!("assertion {} {}", p, r)); let s0 = gen_leaf(c, &cfg);
            let host_obj = c.assign(&format!("add {} {}", s0, a));
            let extra = gen_assertion(c, &cfg, 0);
            let host_subj = { let w = c.assign(&format!("wrap {}", r)); c.assign(&format!("add {} {}", w, extra)) };
            for host in [r.clone(), host_obj, host_subj] {
                let orig = match c.env(&host) { Some(e) => e, None => continue };
                let tset: HashSet<Digest> = [shape_env.digest().into_owned()].into_iter().collect();
                for act in ["elide".to_string(), "compress".to_string(), format!("encrypt:{}", KEY1)] {
                    let a0 = act.split(':').next().unwrap().to_string();
                    let res = c.assign(&format!("elide_set {} rem {} {}", host, act, r));
                    c.no_panic(&res, "obscuring");
                    let re = match c.env(&res) { Some(x) => x, None => continue };
                    c.obs(&format!("shape {}", res));
                    match prop {
                        "C02" => { let v = crate::props::check_positions(&orig, &re); c.check("digests-preserved", v.is_ok(), "digests-preserved", || format!("{} targeted ({}): {}", name, a0, v.unwrap_err())); }
                        "C03" => { let v = check_elision(&orig, &re, &tset, false, &a0); c.check("hides-exactly-targets", v.is_ok(), "hides-exactly-targets", || format!("{} targeted ({}): {}: {} -> {}", name, a0, v.unwrap_err(), shape(&orig), shape(&re))); }
                        "C08" if a0 == "encrypt" => {
                            // the placeholder at the topmost position of the target is an encrypted element that opens to the very element
                            for (pp, x) in elements(&orig) {
                                if x.digest() != shape_env.digest() || x.is_obscured() { continue; }
                                if let Some(ph) = path_at(&re, &pp) {
                                    let opened = guarded(|| ph.decrypt_subject(&bc_components::SymmetricKey::from_data_ref(hex::decode(KEY1).unwrap()).unwrap()).ok());
                                    c.check("action-encrypt-roundtrip", ph.is_encrypted() && matches!(&opened, Ok(Some(o)) if o.is_identical_to(&x)), "action-encrypt-roundtrip", || format!("{} targeted with the Encrypt action at {}: placeholder {} opens to {:?}", name, pp, shape(&ph), opened.as_ref().map(|o| o.as_ref().map(shape))));
                                }
                                break;
                            }
                        }
                        _ => {}
                    }
                }
            }
        }
        c.end();
    }
}

/// the special shapes (gen::special_shapes) through the operation each property is about
pub fn special_other(c: &mut Ctx, b: &Budget, prop: &str) {
    for round in 0..(if b.thorough { 12 } else { 3 }) {
        c.begin("special-shapes");
        let shapes = special_shapes(c);
        for (name, r) in shapes {
            let orig = match c.env(&r) { Some(e) => e, None => continue };
            let _ = round;
            match prop {
                "C02" => {
                    let n = hex::encode(c.rng.bytes(12));
                    for op in [format!("compress_subject {}", r), format!("encrypt_subject {} {} {}", r, KEY1, n), format!("compress {}", r), format!("elide {}", r)] {
                        let v = c.assign(&op);
                        c.no_panic(&v, "obscuring");
                        let opn = op.split(' ').next().unwrap().to_string();
                        match c.env(&v) {
                            Some(ve) => { c.obs(&format!("shape {}", v)); let pv = crate::props::check_positions(&orig, &ve); c.check("digests-preserved", pv.is_ok(), "digests-preserved", || format!("{} on {}: {}", opn, name, pv.unwrap_err())); }
                            None => {
                                // a refusal needs a reason the documentation gives: an encrypted or elided subject (element) cannot be encrypted or compressed; nothing else is refused
                                let s0 = orig.subject();
                                let reason = match opn.as_str() { "encrypt_subject" | "compress_subject" => s0.is_encrypted() || s0.is_elided(), "compress" => orig.is_encrypted() || orig.is_elided(), _ => false };
                                let shown = c.val(&v).show();
                                c.check("obscuring-refusal-justified", reason, "obscuring-refused", || format!("{} refused on {} ({}): {}", opn, name, shape(&orig), &shown[..shown.len().min(120)]));
                            }
                        }
                    }
                }
                "C01" => { observe(c, &r); let v = check_spec_digests(&orig); c.check("spec-digest", v.is_ok(), "spec-digest", || format!("{}: {}", name, v.unwrap_err())); }
                "C04" => {
                    observe(c, &r); let v = check_grammar(&orig); c.check("grammar", v.is_ok(), "grammar", || format!("{}: {}", name, v.unwrap_err()));
                    // editing a special shape: every one of its assertion elements removed in turn, one added, its subject replaced - each result well formed
                    let n_assertions = orig.assertions().len().min(6);
                    let fresh = gen_assertion(c, &GenCfg::default(), 0); let fresh_subject = gen_leaf(c, &GenCfg::default());
                    let mut edits: Vec<String> = (0..n_assertions).map(|k| { let a = c.assign(&format!("at {} a{}", r, k)); format!("remove {} {}", r, a) }).collect();
                    edits.push(format!("add {} {}", r, fresh)); edits.push(format!("replace_subject {} {}", r, fresh_subject));
                    for op in edits {
                        let v = c.assign(&op);
                        c.no_panic(&v, "editing");
                        if let Some(ve) = c.env(&v) { c.obs(&format!("shape {}", v)); let g = check_grammar(&ve); let opn = op.split(' ').next().unwrap().to_string(); c.check("grammar", g.is_ok(), "grammar", || format!("{} on {}: {}: {} -> {}", opn, name, g.unwrap_err(), shape(&orig), shape(&ve))); }
                    }
                }
                "C05" => crate::props::roundtrip(c, &r),
                "C13" => {
                    for (op, back) in [("compress", "uncompress"), ("compress_subject", "uncompress_subject")] {
                        let z = c.assign(&format!("{} {}", op, r));
                        c.no_panic(&z, "compressing");
                        if let Some(ze) = c.env(&z) {
                            c.obs(&format!("digest {}", z));
                            c.check("digest-preserved", ze.digest() == orig.digest(), "digest-preserved", || format!("{} of {}: {} -> {}", op, name, shape(&orig), shape(&ze)));
                            let u = c.assign(&format!("{} {}", back, z));
                            c.no_panic(&u, "uncompressing");
                            c.obs(&format!("eq {} {}", r, u));
                            // (where compressing was a no-op - the subject is compressed already - undoing it undoes the earlier compression)
                            let (okv, shown) = (ze.is_identical_to(&orig) || c.env(&u).map(|x| x.is_identical_to(&orig)).unwrap_or(false), c.val(&u).show());
                            c.check("roundtrip-identical", okv, "roundtrip-identical", || format!("{}({}(e)) on {}: {}", back, op, name, &shown[..shown.len().min(160)]));
                        }
                    }
                }
                "C08" => {
                    let n = hex::encode(c.rng.bytes(12));
                    let we = c.assign(&format!("encrypt {} {} {}", r, KEY1, n));
                    let wd = c.assign(&format!("decrypt {} {}", we, KEY1));
                    c.obs(&format!("eq {} {}", r, wd));
                    let (okv, shown) = (c.env(&wd).map(|x| x.is_identical_to(&orig)).unwrap_or(false), c.val(&wd).show());
                    c.check("whole-roundtrip", okv, "whole-roundtrip", || format!("{}: {}", name, &shown[..shown.len().min(160)]));
                    if !orig.subject().is_encrypted() && !orig.subject().is_elided() {
                        let se = c.assign(&format!("encrypt_subject {} {} {}", r, KEY1, n));
                        c.no_panic(&se, "encrypting the subject");
                        let sd = c.assign(&format!("decrypt_subject {} {}", se, KEY1));
                        c.obs(&format!("eq {} {}", r, sd));
                        let (okv, shown) = (c.env(&sd).map(|x| x.is_identical_to(&orig)).unwrap_or(false), c.val(&sd).show());
                        c.check("decrypt-identical", okv, "decrypt-identical", || format!("{}: {}", name, &shown[..shown.len().min(160)]));
                    }
                }
                _ => {}
            }
        }
        c.end();
    }
}

/// the same deep structures through the other operations that recurse over an envelope or decode one
pub fn deep_other(c: &mut Ctx, b: &Budget, prop: &str) {
    let cfg = GenCfg::default();
    let mut depths = deep_depths(b.thorough);
    if prop == "C10" { depths.extend([14usize, 27, 28, 29, 30, 31, 32, 33]); }      // around small powers of two as well: the encrypted forms add levels of their own
    for (k, d) in depths.into_iter().enumerate() {
        c.begin("deep");
        let dp = gen_deep(c, d, k % 2 == 0);
        let orig = match c.env(&dp.top) { Some(e) => e, None => { c.end(); continue; } };
        let bottom = c.env(&dp.bottom).unwrap();
        match prop {
            "C05" => crate::props::roundtrip(c, &dp.top),
            "C13" => {
                let z = c.assign(&format!("compress {}", dp.top));
                let u = c.assign(&format!("uncompress {}", z));
                c.obs(&format!("eq {} {}", dp.top, u));
                let (okv, shown) = (c.env(&u).map(|x| x.is_identical_to(&orig)).unwrap_or(false), c.val(&u).show());
                c.check("roundtrip-identical", okv, "roundtrip-identical", || format!("depth {}: uncompress(compress e) is not e: {}", d, &shown[..shown.len().min(120)]));
                // ... and with the bottom element compressed in place
                let zi = c.assign(&format!("elide_set {} rem compress {}", dp.top, dp.bottom));
                if let Some(x) = c.env(&zi) { c.obs(&format!("digest {}", zi)); c.check("digest-preserved", x.digest() == orig.digest() && !x.is_identical_to(&orig), "digest-preserved", || format!("depth {}", d)); }
            }
            "C08" => {
                let n = hex::encode(c.rng.bytes(12));
                let we = c.assign(&format!("encrypt {} {} {}", dp.top, KEY1, n));
                let wd = c.assign(&format!("decrypt {} {}", we, KEY1));
                c.obs(&format!("eq {} {}", dp.top, wd));
                let (okv, shown) = (c.env(&wd).map(|x| x.is_identical_to(&orig)).unwrap_or(false), c.val(&wd).show());
                c.check("whole-roundtrip", okv, "whole-roundtrip", || format!("depth {}: decrypt(encrypt e) is not e: {}", d, &shown[..shown.len().min(120)]));
            }
            "C10" => {
                // a deeply layered original through the public-key forms: what encryption can wrap, decryption can open
                let (sk, pk) = bc_components::EncapsulationScheme::X25519.keypair();
                let sender = bc_components::PrivateKeyBase::new();
                let got = guarded(|| orig.encrypt_to_recipient(&pk).decrypt_to_recipient(&sk).ok());
                c.check("encrypt-to-recipient-roundtrip", matches!(&got, Ok(Some(x)) if x.is_identical_to(&orig)), "encrypt-to-recipient-roundtrip", || format!("depth {}: the wrap-and-encrypt form does not return the original", d));
                let got = guarded(|| orig.seal(&sender, &pk).unseal(&sender.schnorr_public_keys(), &sk).ok());
                c.check("seal-unseal", matches!(&got, Ok(Some(x)) if x.is_identical_to(&orig)), "seal-unseal", || format!("depth {}: unseal(seal(e)) is not e", d));
                let got = guarded(|| orig.encrypt_subject_to_recipient(&pk).and_then(|x| x.decrypt_subject_to_recipient(&sk)).ok());
                c.check("recipient-opens", matches!(&got, Ok(Some(x)) if x.subject().is_identical_to(&orig.subject())), "recipient-opens", || format!("depth {}: subject form", d));
            }
            "C12" => {
                let alld: HashSet<Digest> = elements(&orig).iter().map(|(_, x)| x.digest().into_owned()).collect();
                c12_one(c, &cfg, &dp.top, &orig, &alld, &dp.bottom, &["deep".to_string()]);
            }
            "C15" => {
                c.obs(&format!("count {}", dp.top));
                c.obs(&format!("walk {} tree", dp.top));
                let n = elements(&orig).len();
                c.check("elements-count", orig.elements_count() == n, "elements-count", || format!("depth {}: {} vs {}", d, orig.elements_count(), n));
                let deep = orig.deep_digests();
                let all: HashSet<Digest> = elements(&orig).iter().flat_map(|(_, x)| vec![x.digest().into_owned(), x.subject().digest().into_owned()]).collect();
                c.check("deep-digests", deep == all && deep.contains(&bottom.digest()), "deep-digests", || format!("depth {}: {} vs {}", d, deep.len(), all.len()));
                for limit in [d, d + 1, d + 2, d + 3, d + 4, 2 * d + 8] { c.obs(&format!("digests {} {}", dp.top, limit)); }
                c.check("digests-level", orig.digests(usize::MAX) == deep, "digests-level", || format!("depth {}", d));
                let visits = walk_visits(&orig, false);
                c.check("walk-structure", visits.len() == n && visits.iter().any(|(x, _, _)| x.digest() == bottom.digest()), "walk-structure", || format!("depth {}: {} visits for {} elements", d, visits.len(), n));
            }
            _ => {}
        }
        c.end();
    }
}

pub fn c03(c: &mut Ctx, b: &Budget) {
    let cfg = GenCfg::default();
    deep_elision(c, b, "C03");
    for i in 0..b.scenarios {
        c.begin("elide");
        // markers at every position kind: subject, predicate, object, wrapped interior, assertion-on-assertion
        let tag = format!("{:08x}", c.rng.next() as u32);
        let mk = |c: &mut Ctx, n: usize| -> (String, Vec<u8>) {
            let text = format!("MARK{}-{}", n, tag);
            let cb: CBOR = text.as_str().into();
            (c.assign(&format!("leaf {}", hex::encode(cb.to_cbor_data()))), text.into_bytes())
        };
        let mut markers: Vec<(String, Vec<u8>)> = vec![];
        let (s, m) = mk(c, 0); markers.push((s.clone(), m));
        let (p1, m) = mk(c, 1); markers.push((p1.clone(), m));
        let (o1, m) = mk(c, 2); markers.push((o1.clone(), m));
        let (w, m) = mk(c, 3); markers.push((w.clone(), m));
        let (p2, m) = mk(c, 4); markers.push((p2.clone(), m));
        let (o2, m) = mk(c, 5); markers.push((o2.clone(), m));
        let (p3, m) = mk(c, 6); markers.push((p3.clone(), m));
        let (o3, m) = mk(c, 7); markers.push((o3.clone(), m));
        let a1 = c.assign(&format!("assertion {} {}", p1, o1));
        let wi = c.assign(&format!("add {} {}", w, a1));
        let ww = c.assign(&format!("wrap {}", wi));
        let a2 = c.assign(&format!("assertion {} {}", p2, ww));
        let a3 = c.assign(&format!("assertion {} {}", p3, o3));
        let a2d = c.assign(&format!("add {} {}", a2, a3)); // assertion-on-assertion
        let a4 = c.assign(&format!("assertion {} {}", o2, o2));
        let mut e = c.assign(&format!("add {} {}", s, a2d));
        e = c.assign(&format!("add {} {}", e, a4));
        // plus random extra structure
        for _ in 0..c.rng.below(3) { let a = gen_assertion(c, &cfg, 1); e = c.assign(&format!("add {} {}", e, a)); }
        if i % 3 == 0 { e = c.assign(&format!("wrap {}", e)); }
        // some elements are already compressed or encrypted before the elision under test
        if i % 2 == 1 {
            let (ts0, _) = gen_targets(c, &e, 2, false);
            let act0 = if c.rng.chance(1, 2) { "compress".to_string() } else { format!("encrypt:{}", KEY2) };
            let pre = c.assign(&format!("elide_set {} rem {} {}", e, act0, ts0));
            if c.is_ok(&pre) { e = pre; c.count("branch:pre-obscured"); }
        }
        observe(c, &e);
        let orig = c.env(&e).unwrap();
        for _ in 0..3 {
            let (ts, _) = gen_targets(c, &e, 4, true);
            let revealing = c.rng.chance(1, 2);
            let act = match c.rng.below(4) { 0 | 1 => "elide", 2 => "encrypt", _ => "compress" };
            let act_s = if act == "encrypt" { format!("encrypt:{}", KEY1) } else { act.to_string() };
            let r = c.assign(&format!("elide_set {} {} {} {}", e, if revealing { "rev" } else { "rem" }, act_s, ts));
            c.count(&format!("action:{}:{}", if revealing { "rev" } else { "rem" }, act));
            let tset: HashSet<Digest> = if ts == "-" { HashSet::new() } else { ts.split(',').filter_map(|k| c.env(k)).map(|x| x.digest().into_owned()).collect() };
            c.no_panic(&r, "elision");
            if let Some(res) = c.env(&r) {
                observe(c, &r);
                let v = check_elision(&orig, &res, &tset, revealing, act);
                if let Ok((h, vis)) = &v { c.count_n("positions-hidden", *h as u64); c.count_n("positions-visible", *vis as u64); if *h > 0 && *vis > 0 { c.count("branch:partial-elision"); } }
                c.check("hides-exactly-targets", v.is_ok(), "hides-exactly-targets", || format!("{} (mode {}, action {}): {} -> {}", v.unwrap_err(), if revealing { "reveal" } else { "remove" }, act, shape(&orig), shape(&res)));
                // residue: a marker's bytes appear in the serialization iff its leaf is still visible somewhere
                if act != "compress" {
                    let ser = bytes_of(&res);
                    let visible_leaves: Vec<Vec<u8>> = elements(&res).iter().filter_map(|(_, x)| x.as_leaf().map(|l| l.to_cbor_data())).collect();
                    let orig_leaves: Vec<Vec<u8>> = elements(&orig).iter().filter_map(|(_, x)| x.as_leaf().map(|l| l.to_cbor_data())).collect();
                    for (mr, text) in &markers {
                        let leaf_bytes = c.env(mr).unwrap().as_leaf().unwrap().to_cbor_data();
                        // a marker that sits inside an element compressed beforehand is in the bytes by construction: not this check's business
                        if !orig_leaves.iter().any(|l| l == &leaf_bytes) && contains(&bytes_of(&orig), text) { continue; }
                        let still = visible_leaves.iter().any(|l| l == &leaf_bytes);
                        let found = contains(&ser, text);
                        c.check("no-residue", found == still, "no-residue", || format!("marker {} visible={} but found-in-bytes={} ({} action) in {}", String::from_utf8_lossy(text), still, found, act, hex::encode(&ser)));
                    }
                }
                if act == "elide" {
                    // every elided element serializes as 58 20 || digest and nothing else
                    for (_, x) in elements(&res) { if x.is_elided() {
                        let ub = x.untagged_cbor().to_cbor_data();
                        let mut want = vec![0x58, 0x20]; want.extend_from_slice(x.digest().data());
                        c.check("elided-is-32-byte-digest", ub == want, "elided-is-32-byte-digest", || hex::encode(&ub));
                    } }
                }
            }
        }
        // unelide accepts only the element with the placeholder's digest
        if let Some((pos, _)) = gen_position(c, &e) {
            let ph = c.assign(&format!("elide {}", pos));
            let good = c.assign(&format!("unelide {} {}", ph, pos));
            let other = gen_leaf(c, &cfg);
            let bad = c.assign(&format!("unelide {} {}", ph, other));
            let same = c.env(&other).map(|x| x.digest() == c.env(&pos).unwrap().digest()).unwrap_or(false);
            c.check("unelide-accepts-original", c.is_ok(&good), "unelide", || "unelide of the original refused".into());
            if !same { let okb = c.is_ok(&bad); c.check("unelide-rejects-other", !okb, "unelide", || "unelide accepted an envelope with another digest".into()); }
        }
        // the receiver need not be a bare ELIDED element: a partially elided envelope, a wrapper around an elided element, or
        // the placeholder left by the encrypt / compress action - un-eliding still accepts exactly an equal digest, and hands
        // back the envelope it was given
        {
            let (ts, _) = gen_targets(c, &e, 2, false);
            let act = match c.rng.below(3) { 0 => "elide".to_string(), 1 => "compress".to_string(), _ => format!("encrypt:{}", KEY1) };
            let partial = if c.rng.chance(1, 4) { let el = c.assign(&format!("elide {}", e)); c.assign(&format!("wrap {}", el)) } else { c.assign(&format!("elide_set {} rem {} {}", e, act, ts)) };
            if let Some(pe) = c.env(&partial) {
                let fuller = if pe.digest() == orig.digest() { e.clone() } else { let w = c.assign(&format!("wrap {}", e)); w };
                let back = c.assign(&format!("unelide {} {}", partial, fuller));
                c.obs(&format!("shape {}", back));
                let matches = c.env(&fuller).map(|f| f.digest() == pe.digest()).unwrap_or(false);
                if matches {
                    let okf = c.env(&back).zip(c.env(&fuller)).map(|(b, f)| b.is_identical_to(&f)).unwrap_or(false);
                    c.check("unelide-returns-the-given-envelope", okf, "unelide", || format!("unelide of {} with an equal-digest envelope did not return that envelope", shape(&pe)));
                }
                let foreign = gen_env(c, &cfg, 1);
                let differs = c.env(&foreign).map(|f| f.digest() != pe.digest()).unwrap_or(false);
                let bad = c.assign(&format!("unelide {} {}", partial, foreign));
                if differs { let okb = c.is_ok(&bad); c.check("unelide-rejects-other", !okb, "unelide", || format!("unelide on the receiver {} accepted an envelope with another digest", shape(&pe))); }
                c.count("branch:unelide-non-placeholder-receiver");
            }
        }
        c.end();
    }
}

/// C08 - symmetric encryption
pub fn c08(c: &mut Ctx, b: &Budget) {
    let cfg = GenCfg::default();
    for i in 0..b.scenarios {
        c.begin("encrypt");
        // every subject case, with and without assertions
        let mut e = match i % 7 {
            0 => gen_leaf(c, &cfg),
            1 => { let v = *c.rng.pick(KNOWN_VALUES); c.assign(&format!("kv {}", v)) }
            2 => { let x = gen_env(c, &cfg, 2); c.assign(&format!("wrap {}", x)) }
            3 => gen_assertion(c, &cfg, 1),
            4 => { let x = if i % 14 == 4 {
                       // a subject the caller compressed whose expanded encoding is well above any "small payload" threshold
                       let text: String = std::iter::repeat("All work and no play makes Jack a dull boy. ").take(12 + i % 40).collect();
                       let l = c.assign(&format!("leaf {}", hex::encode(CBOR::from(text.as_str()).to_cbor_data())));
                       let a = gen_assertion(c, &cfg, 0); c.count("branch:large-compressed-subject"); c.assign(&format!("add {} {}", l, a))
                   } else { gen_env(c, &cfg, 1) }; c.assign(&format!("compress {}", x)) }
            5 => { let x = gen_env(c, &cfg, 1); c.assign(&format!("elide {}", x)) }
            _ => gen_env(c, &cfg, 2),
        };
        c.count(&format!("subject-case:{}", c.env(&e).map(|x| case_name(&x.subject())).unwrap_or("?")));
        if c.rng.chance(1, 2) && !c.env(&e).map(|x| x.is_node()).unwrap_or(true) {
            for _ in 0..c.rng.range(1, 3) { let a = gen_assertion(c, &cfg, 1); let n = c.assign(&format!("add {} {}", e, a)); if c.is_ok(&n) { e = n; } }
            c.count("branch:with-assertions");
        }
        let orig = match c.env(&e) { Some(x) => x, None => { c.end(); continue; } };
        observe(c, &e);
        // the Encrypt action with a target set that names an element together with elements beneath it (e.g. every digest): the
        // topmost hit is encrypted as it stands, and decrypting it gives back exactly that element
        {
            let host_subject = gen_leaf(c, &cfg); let pr = gen_leaf(c, &cfg);
            let asr = c.assign(&format!("assertion {} {}", pr, e));
            let host = c.assign(&format!("add {} {}", host_subject, asr));
            let els: Vec<String> = elements(&orig).iter().map(|(p, _)| p.clone()).collect();
            let mut ts = vec![c.assign(&format!("at {} .", e))];
            for p in els.iter().skip(1) { if c.rng.chance(2, 3) { ts.push(c.assign(&format!("at {} {}", e, p))); } }
            for (mode, tlist) in [("rem", ts.join(",")), ("rev", format!("{},{},{}", host, asr, host_subject))] {
                let x = c.assign(&format!("elide_set {} {} encrypt:{} {}", host, mode, KEY1, tlist));
                if let Some(xe) = c.env(&x) {
                    let obj = c.assign(&format!("at {} a0/o", x));
                    if c.env(&obj).map(|o| o.is_encrypted()).unwrap_or(false) {
                        let d = c.assign(&format!("decrypt_subject {} {}", obj, KEY1));
                        c.obs(&format!("eq {} {}", e, d));
                        if !orig.is_obscured() || orig.is_compressed() {
                            match c.env(&d) { Some(de) => c.check("action-encrypted-roundtrip", de.is_identical_to(&orig) && bytes_of(&de) == bytes_of(&orig), "decrypt-roundtrip", || format!("element {} encrypted by the Encrypt action ({} mode, nested targets) decrypts to {}", shape(&orig), mode, shape(&de))),
                                None => { let v = c.val(&d).show(); c.check("action-encrypted-roundtrip", false, "decrypt-roundtrip", || v) } }
                        }
                        c.count("branch:action-encrypt-nested-targets");
                    }
                    let _ = xe;
                }
            }
        }
        let nonce = hex::encode(c.rng.bytes(12));
        let enc = c.assign(&format!("encrypt_subject {} {} {}", e, KEY1, nonce));
        if let Some(x) = c.env(&enc) {
            observe(c, &enc);
            c.check("encrypted-digest", x.digest() == orig.digest(), "encrypted-digest", || shape(&x));
            c.check("subject-is-encrypted", x.subject().is_encrypted(), "subject-is-encrypted", || shape(&x));
            let dec = c.assign(&format!("decrypt_subject {} {}", enc, KEY1));
            c.obs(&format!("eq {} {}", e, dec));
            match c.env(&dec) {
                Some(d) => c.check("decrypt-roundtrip", d.is_identical_to(&orig) && bytes_of(&d) == bytes_of(&orig), "decrypt-roundtrip", || format!("{} -> {}", shape(&orig), shape(&d))),
                None => { let v = c.val(&dec).show(); c.check("decrypt-roundtrip", false, "decrypt-roundtrip", || v) }
            }
            let wrong = c.assign(&format!("decrypt_subject {} {}", enc, KEY2));
            let w_ok = c.is_ok(&wrong);
            c.check("wrong-key-fails", !w_ok, "wrong-key-fails", || shape(&orig));
            let twice = c.assign(&format!("encrypt_subject {} {} {}", enc, KEY2, nonce));
            let t_ok = c.is_ok(&twice);
            c.check("double-encryption-refused", !t_ok, "double-encryption-refused", || shape(&x));
            for f in ["ct", "nonce", "auth", "aad"] {
                let t = c.assign(&format!("tamper {} {}", enc, f));
                if c.is_ok(&t) {
                    let d = c.assign(&format!("decrypt_subject {} {}", t, KEY1));
                    let ok = c.is_ok(&d);
                    c.check("tampered-fails", !ok, "tampered-fails", || format!("field {} tampered, decrypt still succeeded", f));
                }
            }
            // exhaustive single-bit tampering on the implementation (real ChaCha20-Poly1305)
            if i % 10 == 0 || b.thorough { bit_tamper(c, &x); }
            // mis-declared digest: a key holder encrypts other content under this digest
            let other = gen_env(c, &cfg, 1);
            if c.env(&other).map(|o| o.digest() != orig.subject().digest()).unwrap_or(false) {
                let subj = c.assign(&format!("subject {}", e));
                let md = c.assign(&format!("misdeclare {} {} {} {}", subj, other, KEY1, nonce));
                let d = c.assign(&format!("decrypt_subject {} {}", md, KEY1));
                let ok = c.is_ok(&d);
                c.check("misdeclared-rejected", !ok, "misdeclared-rejected", || "content not hashing to the declared digest was accepted".into());
                // near misses: the subject's own content under its digest with one byte changed
                for k in [0usize, 3, 4, 5, 17, 31, c.rng.below(32)] {
                    let mn = c.assign(&format!("misdeclare_near {} {} {} {}", subj, k, KEY1, nonce));
                    let dn = c.assign(&format!("decrypt_subject {} {}", mn, KEY1));
                    let okn = c.is_ok(&dn);
                    c.check("misdeclared-rejected", !okn, "misdeclared-rejected", || format!("content declared under its digest with byte {} changed was accepted on decrypt", k));
                    c.count("branch:near-miss-declaration");
                }
                // permutations of the true digest's bytes (equal as multisets, equal under any byte-wise checksum)
                for kind in ["swap", "rot", "rev", "swapfar"] {
                    let mp = c.assign(&format!("misdeclare_perm {} {} {} {}", subj, kind, KEY1, nonce));
                    if !c.is_ok(&mp) { continue; }
                    for host in [mp.clone(), { let a = gen_assertion(c, &cfg, 0); c.assign(&format!("add {} {}", mp, a)) }] {
                        let dp = c.assign(&format!("decrypt_subject {} {}", host, KEY1));
                        let okp = c.is_ok(&dp);
                        c.check("misdeclared-rejected", !okp, "misdeclared-rejected", || format!("content declared under a permutation ({}) of its digest's bytes was accepted on decrypt", kind));
                    }
                    c.count("branch:permuted-declaration");
                }
                // ... also as the subject of a node
                let a = gen_assertion(c, &cfg, 0);
                let n = c.assign(&format!("add {} {}", md, a));
                let d2 = c.assign(&format!("decrypt_subject {} {}", n, KEY1));
                let ok2 = c.is_ok(&d2);
                c.check("misdeclared-rejected", !ok2, "misdeclared-rejected", || "mis-declared subject of a node was accepted".into());
            }
        } else {
            // refused: must be because the subject is already encrypted or elided
            let refusable = orig.subject().is_encrypted() || orig.subject().is_elided() || (!orig.is_node() && (orig.is_encrypted() || orig.is_elided()));
            let v = c.val(&enc).show();
            c.check("encrypt-refusal-justified", refusable, "encrypt-refusal", || format!("{} for {}", v, shape(&orig)));
        }
        // content that already holds obscured elements - an assertion (or the subject) encrypted under ANOTHER key, compressed or
        // elided - goes into the ciphertext as it stands and comes out as it went in (decryption is a decoder)
        if orig.is_node() && i % 2 == 0 {
            let na = orig.assertions().len();
            let k = c.rng.below(na);
            let t = c.assign(&format!("at {} a{}", e, k));
            // (under another key, and under the very key used below: what that key could open stays closed unless asked for)
            let act = match c.rng.below(5) { 0 => format!("encrypt:{}", KEY2), 1 | 4 => format!("encrypt:{}", KEY1), 2 => "compress".to_string(), _ => "elide".to_string() };
            let pre = c.assign(&format!("elide_set {} rem {} {}", e, act, t));
            if let Some(pe) = c.env(&pre) {
                c.count(&format!("branch:pre-obscured-assertion:{}", &act[..5]));
                // the subject form on the envelope itself: its obscured assertion elements are not the subject
                if !pe.subject().is_encrypted() && !pe.subject().is_elided() {
                    let nn = hex::encode(c.rng.bytes(12));
                    let se = c.assign(&format!("encrypt_subject {} {} {}", pre, KEY1, nn));
                    let sd = c.assign(&format!("decrypt_subject {} {}", se, KEY1));
                    c.obs(&format!("eq {} {}", pre, sd));
                    match c.env(&sd) { Some(d) => c.check("decrypt-identical", d.is_identical_to(&pe), "decrypt-identical", || format!("subject form, an assertion obscured before ({}): {} -> {}", &act[..5], shape(&pe), shape(&d))),
                        None => { let v = c.val(&sd).show(); c.check("decrypt-identical", false, "decrypt-identical", || format!("{} for {}", v, shape(&pe))) } }
                }
                let nn = hex::encode(c.rng.bytes(12));
                let we = c.assign(&format!("encrypt {} {} {}", pre, KEY1, nn));
                let wd = c.assign(&format!("decrypt {} {}", we, KEY1));
                c.obs(&format!("eq {} {}", pre, wd));
                match c.env(&wd) { Some(d) => c.check("whole-roundtrip", d.is_identical_to(&pe), "whole-roundtrip", || format!("{} -> {}", shape(&pe), shape(&d))),
                    None => { let v = c.val(&wd).show(); c.check("whole-roundtrip", false, "whole-roundtrip", || format!("{} for {}", v, shape(&pe))) } }
                // the same as the wrapped subject of a node, through decrypt_subject
                let w = c.assign(&format!("wrap {}", pre));
                let a = gen_assertion(c, &cfg, 0);
                let host = c.assign(&format!("add {} {}", w, a));
                let nn = hex::encode(c.rng.bytes(12));
                let he = c.assign(&format!("encrypt_subject {} {} {}", host, KEY1, nn));
                let hd = c.assign(&format!("decrypt_subject {} {}", he, KEY1));
                c.obs(&format!("eq {} {}", host, hd));
                if let Some(hh) = c.env(&host) {
                    match c.env(&hd) { Some(d) => c.check("decrypt-identical", d.is_identical_to(&hh), "decrypt-identical", || format!("{} -> {}", shape(&hh), shape(&d))),
                        None => { let v = c.val(&hd).show(); c.check("decrypt-identical", false, "decrypt-identical", || format!("{} for {}", v, shape(&hh))) } }
                }
            }
        }
        // mis-declared digests through the whole-envelope door: the content is a wrapped envelope, opened with decrypt()
        {
            let wa = c.assign(&format!("wrap {}", e));
            let other = gen_env(c, &cfg, 1);
            let wb = c.assign(&format!("wrap {}", other));
            let nn = hex::encode(c.rng.bytes(12));
            if c.env(&wa).zip(c.env(&wb)).map(|(x, y)| x.digest() != y.digest()).unwrap_or(false) {
                let md = c.assign(&format!("misdeclare {} {} {} {}", wa, wb, KEY1, nn));
                for host in [md.clone(), { let a = gen_assertion(c, &cfg, 0); c.assign(&format!("add {} {}", md, a)) }] {
                    let d = c.assign(&format!("decrypt {} {}", host, KEY1));
                    let ok = c.is_ok(&d);
                    c.check("misdeclared-rejected", !ok, "misdeclared-rejected", || "decrypt() accepted wrapped content that does not hash to the declared digest".into());
                }
                let kk = c.rng.below(32);
                let mn = c.assign(&format!("misdeclare_near {} {} {} {}", wa, kk, KEY1, nn));
                let d = c.assign(&format!("decrypt {} {}", mn, KEY1));
                let ok = c.is_ok(&d);
                c.check("misdeclared-rejected", !ok, "misdeclared-rejected", || format!("decrypt() accepted wrapped content declared under its digest with byte {} changed", kk));
                c.count("branch:misdeclared-through-decrypt");
            }
        }
        // whole-envelope form
        let n2 = hex::encode(c.rng.bytes(12));
        let we = c.assign(&format!("encrypt {} {} {}", e, KEY1, n2));
        let wd = c.assign(&format!("decrypt {} {}", we, KEY1));
        c.obs(&format!("eq {} {}", e, wd));
        if let Some(d) = c.env(&wd) { c.check("whole-roundtrip", d.is_identical_to(&orig), "whole-roundtrip", || shape(&d)); }
        else { let v = c.val(&wd).show(); c.check("whole-roundtrip", false, "whole-roundtrip", || v); }
        c.end();
    }
}

fn bit_tamper(c: &mut Ctx, enc: &Envelope) {
    use bc_components::{AuthenticationTag, EncryptedMessage, Nonce, SymmetricKey};
    let key = SymmetricKey::from_data_ref(hex::decode(KEY1).unwrap()).unwrap();
    let subj = enc.subject();
    let m = match subj.case() { EnvelopeCase::Encrypted(m) => m.clone(), _ => return };
    let fields: [(&str, Vec<u8>); 4] = [("ct", m.ciphertext().clone()), ("aad", m.aad().clone()), ("nonce", m.nonce().data().to_vec()), ("auth", m.authentication_tag().data().to_vec())];
    let mut n = 0u64;
    for (fi, (name, data)) in fields.iter().enumerate() {
        let nbits = (data.len() * 8).min(512);
        for bit in 0..nbits {
            let mut d = data.clone(); d[bit / 8] ^= 1 << (bit % 8);
            let mut parts: Vec<Vec<u8>> = fields.iter().map(|f| f.1.clone()).collect();
            parts[fi] = d;
            let m2 = EncryptedMessage::new(parts[0].clone(), parts[1].clone(), Nonce::from_data_ref(&parts[2]).unwrap(), AuthenticationTag::from_data_ref(&parts[3]).unwrap());
            let r = guarded(|| Envelope::try_from(m2).and_then(|s| enc.replace_subject(s).decrypt_subject(&key)));
            n += 1;
            let bad = matches!(r, Ok(Ok(_)));
            c.check("bit-tamper-fails", !bad, "bit-tamper-fails", || format!("bit {} of {} flipped and decryption still succeeded", bit, name));
            if let Err(site) = r { c.check("bit-tamper-no-panic", false, "bit-tamper-panic", || site); }
        }
    }
    c.count_n("bit-tamper-cases", n);
}

/// C12 - inclusion proofs
pub fn c12(c: &mut Ctx, b: &Budget) {
    let cfg = GenCfg::default();
    // copies of an on-path element elsewhere in the envelope - compressed, encrypted, or present with the target's branch
    // elided: they share the digest of an element on the path and must not show in the proof (repaired finding F5b)
    for k in 0..(if b.thorough { 60 } else { 12 }) {
        c.begin("digest-sharing-copy");
        let p = gen_leaf(c, &cfg); let o = gen_env(c, &cfg, 1);
        let target = if k % 2 == 0 { o.clone() } else { p.clone() };
        let inner = c.assign(&format!("assertion {} {}", p, o));
        // the on-path element: the assertion itself, or a wrapped node holding it
        let onpath = if k % 3 == 0 { inner.clone() } else { let s = gen_leaf(c, &cfg); let n = c.assign(&format!("add {} {}", s, inner)); c.assign(&format!("wrap {}", n)) };
        let copy = match k % 4 {
            0 => c.assign(&format!("compress {}", onpath)),
            1 => { let n = hex::encode(c.rng.bytes(12)); let w = c.assign(&format!("encrypt_subject {} {} {}", onpath, KEY1, n)); if c.env(&w).map(|x| x.is_encrypted()).unwrap_or(false) { w } else { c.assign(&format!("compress {}", onpath)) } }
            2 => c.assign(&format!("elide_set {} rem elide {}", onpath, target)),       // present copy, target's branch elided
            _ => { let ch = if k % 3 == 0 { p.clone() } else { inner.clone() }; c.assign(&format!("elide_set {} rem compress {}", onpath, ch)) }
        };
        // the copy as the subject, the original inside an assertion object (or as an assertion element when it can be one)
        let e = if k % 3 == 0 && k % 2 == 0 { c.assign(&format!("add {} {}", copy, onpath)) } else { let q = gen_leaf(c, &cfg); let a = c.assign(&format!("assertion {} {}", q, onpath)); c.assign(&format!("add {} {}", copy, a)) };
        if let Some(orig) = c.env(&e) {
            observe(c, &e);
            let all: HashSet<Digest> = elements(&orig).iter().map(|(_, x)| x.digest().into_owned()).collect();
            let paths: Vec<String> = elements(&orig).iter().filter(|(_, x)| c.env(&target).map(|t| t.digest() == x.digest()).unwrap_or(false)).map(|(p, _)| p.clone()).collect();
            c.count("branch:digest-sharing-copy");
            c12_one(c, &cfg, &e, &orig, &all, &target, &paths);
        }
        c.end();
    }
    for i in 0..b.scenarios {
        c.begin("proof");
        let mut e = gen_env(c, &cfg, 3);
        if i % 4 == 0 { let n = gen_obscure(c, &e); if c.is_ok(&n) { e = n; c.count("branch:pre-obscured"); } }
        let orig = match c.env(&e) { Some(x) => x, None => { c.end(); continue; } };
        observe(c, &e);
        let all: HashSet<Digest> = elements(&orig).iter().map(|(_, x)| x.digest().into_owned()).collect();
        for _ in 0..3 {
            let (ts, paths) = gen_targets(c, &e, 3, true);
            c12_one(c, &cfg, &e, &orig, &all, &ts, &paths);
        }
        c.end();
    }
}

/// C12 for one envelope and one target set: completeness, acceptance, soundness, minimality, a mutated proof
pub(crate) fn c12_one(c: &mut Ctx, cfg: &GenCfg, e: &str, orig: &Envelope, all: &HashSet<Digest>, ts: &str, paths: &[String]) {
    let (e, ts) = (e.to_string(), ts.to_string());
    let paths: Vec<String> = paths.to_vec();
            let tset: HashSet<Digest> = if ts == "-" { HashSet::new() } else { ts.split(',').filter_map(|k| c.env(k)).map(|x| x.digest().into_owned()).collect() };
            // classification
            if paths.len() >= 2 { for x in &paths { for y in &paths { if x != y && (y.starts_with(&format!("{}/", x)) || x == ".") { c.count("branch:nested-targets"); } } } }
            if paths.iter().any(|p| p == ".") { c.count("branch:root-target"); }
            let p = c.assign(&format!("proof {} {}", e, ts));
            let present = tset.iter().all(|d| all.contains(d));
            match c.val(&p) {
                Val::Env(pr) => {
                    observe(c, &p);
                    c.check("proof-only-if-present", present, "proof-only-if-present", || "a proof was produced for an absent target".into());
                    c.check("proof-root-digest", pr.digest() == orig.digest(), "proof-root-digest", || shape(&pr));
                    // accepted by a verifier who holds only the root digest
                    let root_only = c.assign(&format!("elide {}", e));
                    let v = c.obs(&format!("confirm {} {} {}", root_only, ts, p));
                    let nested = paths.iter().any(|x| paths.iter().any(|y| x != y && (y.starts_with(&format!("{}/", x)) || (x == "." && y != "."))))
                        || { // nested by digest: one target's digest occurs inside another target's subtree
                            let mut n = false;
                            for x in &paths { if let Some(sub) = path_at(&orig, x) { for (q, z) in elements(&sub) { if q != "." && tset.contains(&z.digest()) { n = true; } } } }
                            n };
                    c.check("proof-accepted", v == "true", if nested { "proof-nested-targets-rejected" } else { "proof-accepted" }, || format!("targets {:?}: proof {} of {} not accepted", paths, shape(&pr), shape(&orig)));
                    // soundness
                    let unrelated = gen_leaf(c, cfg);
                    if c.env(&unrelated).map(|u| u.digest() != orig.digest()).unwrap_or(false) {
                        let v2 = c.obs(&format!("confirm {} {} {}", unrelated, ts, p));
                        c.check("other-root-rejected", v2 == "false", "other-root-rejected", || "proof accepted against another root".into());
                    }
                    let absent = c.assign("leaf 676e6f7468657265");
                    if !all.contains(&c.env(&absent).unwrap().digest()) {
                        let ts2 = if ts == "-" { absent.clone() } else { format!("{},{}", ts, absent) };
                        let v3 = c.obs(&format!("confirm {} {} {}", e, ts2, p));
                        c.check("absent-target-rejected", v3 == "false", "absent-target-rejected", || "proof accepted for a target that does not occur in it".into());
                    }
                    // forged proofs: an obscured element that DECLARES the root's digest but holds the absent target (only a digest
                    // check on its content could tell; a verifier must not look inside at all)
                    if !all.contains(&c.env(&absent).unwrap().digest()) && paths.len() <= 1 {
                        let f1 = c.assign(&format!("miscompress {} {}", e, absent));
                        let nn = hex::encode(c.rng.bytes(12));
                        let f2 = c.assign(&format!("misdeclare {} {} {} {}", e, absent, KEY1, nn));
                        for f in [f1, f2] {
                            if c.env(&f).map(|x| x.digest() == orig.digest()).unwrap_or(false) {
                                let v5 = c.obs(&format!("confirm {} {} {}", e, absent, f));
                                c.check("forged-proof-rejected", v5 == "false", "forged-proof-accepted", || "an obscured element declaring the root digest and holding an absent target was accepted as a proof".into());
                                c.count("branch:forged-proof");
                            }
                        }
                    }
                    // the single-target doors are the set doors with one element - for every target, the root included, and for
                    // proofs that are not proofs of this envelope at all
                    {
                        let mut targets: Vec<Envelope> = ts.split(',').filter(|k| *k != "-").filter_map(|k| c.env(k)).collect();
                        targets.push(orig.clone());
                        let foreign = Envelope::new("another document").add_assertion("k", "v");
                        let foreign_proof = foreign.proof_contains_target(&Envelope::new("v")).unwrap_or(foreign.clone());
                        let candidates: Vec<(&str, Envelope)> = vec![("its proof", pr.clone()), ("the envelope itself", orig.clone()), ("a proof of another envelope", foreign_proof), ("an unrelated leaf", Envelope::new("unrelated")), ("the elided root", orig.elide())];
                        for t in targets.iter().take(3) {
                            let one: HashSet<Digest> = [t.digest().into_owned()].into_iter().collect();
                            let p1 = guarded(|| orig.proof_contains_target(t).map(|x| x.tagged_cbor().to_cbor_data()));
                            let p2 = guarded(|| orig.proof_contains_set(&one).map(|x| x.tagged_cbor().to_cbor_data()));
                            c.check("variant-agrees", p1 == p2, "variant-differs:proof_contains_target", || format!("target {}", shape(t)));
                            for (name, cand) in &candidates {
                                let v1 = guarded(|| orig.confirm_contains_target(t, cand));
                                let v2 = guarded(|| orig.confirm_contains_set(&one, cand));
                                c.check("variant-agrees", v1 == v2, "variant-differs:confirm_contains_target", || format!("target {} against {}: single-target form says {:?}, set form {:?}", shape(t), name, v1, v2));
                                if v1 == Ok(true) { c.check("other-root-rejected", cand.digest() == orig.digest(), "other-root-rejected", || format!("{} accepted although its root digest differs", name)); }
                            }
                        }
                    }
                    // minimal disclosure
                    let m = check_minimal(&orig, &pr, &tset);
                    let key = "proof-minimal";
                    c.check("proof-minimal", m.is_ok(), key, || format!("{}: targets {:?} proof {} of {}", m.unwrap_err(), paths, shape(&pr), shape(&orig)));
                    // mutated proof: elide one more on-path element; then some target must vanish or the proof is still valid - never a wrong accept
                    if let Some((pos, pp)) = gen_position(c, &p) {
                        if pp != "." {
                            let mutated = c.assign(&format!("elide_set {} rem elide {}", p, pos));
                            if let Some(mp) = c.env(&mutated) {
                                let v4 = c.obs(&format!("confirm {} {} {}", e, ts, mutated));
                                let still: bool = { let have: HashSet<Digest> = elements(&mp).iter().map(|(_, x)| x.digest().into_owned()).collect(); tset.iter().all(|d| have.contains(d)) };
                                c.check("mutated-proof-verdict", (v4 == "true") == (still && mp.digest() == orig.digest()), "mutated-proof-verdict", || shape(&mp));
                            }
                        }
                    }
                }
                Val::None => { c.check("proof-if-present", !present, "proof-if-present", || format!("no proof although every target occurs: {:?}", paths)); }
                other => { let s = other.show(); c.check("proof-no-panic", false, "proof-panic", || s); }
            }
}

/// every non-elided position of the proof is a proper ancestor of a target position;
/// every target position and every off-path position is elided
fn check_minimal(orig: &Envelope, proof: &Envelope, t: &HashSet<Digest>) -> Result<(), String> {
    // target positions in the original
    let els = elements(orig);
    let target_pos: Vec<&String> = els.iter().filter(|(_, x)| t.contains(&x.digest())).map(|(p, _)| p).collect();
    // on-path = proper ancestors of some target position
    let mut on_path: HashSet<String> = HashSet::new();
    for p in &target_pos { let ch = ancestors(p); for q in &ch[..ch.len() - 1] { on_path.insert(q.clone()); } }
    let on_path_digests: HashSet<Digest> = on_path.iter().filter_map(|q| path_at(orig, q)).map(|x| x.digest().into_owned()).collect();
    for (p, x) in elements(proof) {
        if x.is_elided() { continue; }
        if !on_path.contains(&p) {
            if (x.is_compressed() || x.is_encrypted()) && (on_path_digests.contains(&x.digest()) || t.contains(&x.digest())) {
                return Err(format!("obscured copy of an on-path element stays disclosed at {}", p));
            }
            if t.contains(&x.digest()) { return Err(format!("target at {} is not elided", p)); }
            return Err(format!("off-path position {} is disclosed as {}", p, case_name(&x)));
        }
    }
    Ok(())
}

/// C13 - compression
pub fn c13(c: &mut Ctx, b: &Budget) {
    let cfg = GenCfg::default();
    let payloads: Vec<CBOR> = vec!["".into(), "a".into(), "aaaaaaaaaaaaaaaaaaaaaaaaaaaaaaaaaaaaaaaaaaaaaaaaaaaaaaaaaaaaaaaaaaaaaaaaaaaaaaaaaaaaaaaaaaaaaaaaaaaaaaaaaaaaaaaaaaaaaaaaaaaaaaaaaaaa".into(),
        "Lorem ipsum dolor sit amet consectetur adipiscing elit mi nibh ornare proin blandit diam ridiculus, faucibus mus dui eu vehicula nam donec dictumst sed vivamus bibendum aliquet efficitur.".into(),
        CBOR::to_byte_string((0..200u32).map(|x| (x.wrapping_mul(2654435761) >> 13) as u8).collect::<Vec<u8>>()),
        // payloads that deflate better than 100:1 and better than 1000:1
        CBOR::to_byte_string(vec![0u8; 4096]), "A".repeat(8192).as_str().into(), CBOR::to_byte_string(vec![0u8; 300_000])];
    for i in 0..b.scenarios {
        c.begin("compress");
        let mut e = match i % 8 {
            0 => { let p = c.rng.pick(&payloads).clone(); c.assign(&format!("leaf {}", hex::encode(p.to_cbor_data()))) }
            1 => { let v = *c.rng.pick(KNOWN_VALUES); c.assign(&format!("kv {}", v)) }
            2 => { let x = gen_env(c, &cfg, 2); c.assign(&format!("wrap {}", x)) }
            3 => gen_assertion(c, &cfg, 1),
            4 => { let x = gen_env(c, &cfg, 2); c.assign(&format!("compress {}", x)) }
            _ => gen_env(c, &cfg, 3),
        };
        if i % 3 == 0 { let p = c.rng.pick(&payloads).clone(); let big = c.assign(&format!("leaf {}", hex::encode(p.to_cbor_data()))); let k = gen_leaf(c, &cfg); let a = c.assign(&format!("assertion {} {}", k, big)); let n = c.assign(&format!("add {} {}", e, a)); if c.is_ok(&n) { e = n; } }
        let orig = match c.env(&e) { Some(x) => x, None => { c.end(); continue; } };
        c.count(&format!("subject-case:{}", case_name(&orig.subject())));
        observe(c, &e);
        // whole
        let z = c.assign(&format!("compress {}", e));
        match c.env(&z) {
            Some(zz) => {
                observe(c, &z);
                c.check("compress-digest", zz.digest() == orig.digest(), "compress-digest", || shape(&zz));
                let z2 = c.assign(&format!("compress {}", z));
                if let Some(zz2) = c.env(&z2) { c.check("compress-idempotent", bytes_of(&zz2) == bytes_of(&zz), "compress-idempotent", || shape(&zz2)); }
                let u = c.assign(&format!("uncompress {}", z));
                c.obs(&format!("eq {} {}", e, u));
                match c.env(&u) {
                    Some(uu) => {
                        // for an already compressed original the round trip yields its uncompressed content (same digest)
                        let want_identical = !orig.is_compressed();
                        c.check("uncompress-roundtrip", uu.digest() == orig.digest() && (!want_identical || (uu.is_identical_to(&orig) && bytes_of(&uu) == bytes_of(&orig))), "uncompress-roundtrip", || format!("{} -> {}", shape(&orig), shape(&uu)));
                    }
                    None => { let v = c.val(&u).show(); c.check("uncompress-roundtrip", false, "uncompress-roundtrip", || v); }
                }
            }
            None => { let refusable = orig.is_encrypted() || orig.is_elided(); let v = c.val(&z).show(); c.check("compress-refusal-justified", refusable, "compress-refusal", || v); }
        }
        // subject only
        let zs = c.assign(&format!("compress_subject {}", e));
        if let Some(zzs) = c.env(&zs) {
            observe(c, &zs);
            c.check("compress-subject-digest", zzs.digest() == orig.digest(), "compress-subject-digest", || shape(&zzs));
            let us = c.assign(&format!("uncompress_subject {}", zs));
            c.obs(&format!("eq {} {}", e, us));
            if let Some(uus) = c.env(&us) {
                let want_identical = !orig.subject().is_compressed();
                let key = if zzs.subject().uncompress().map(|s| s.is_node()).unwrap_or(false) { "uncompress-subject-flattens-node" } else { "uncompress-subject-roundtrip" };
                c.check("uncompress-subject-roundtrip", uus.digest() == orig.digest() && (!want_identical || uus.is_identical_to(&orig)), key, || format!("{} -> {}", shape(&orig), shape(&uus)));
            }
            // a compressed element used as the subject of further assertions
            let a = gen_assertion(c, &cfg, 1);
            let more = c.assign(&format!("add {} {}", zs, a));
            let um = c.assign(&format!("uncompress_subject {}", more));
            if let (Some(mm), Some(uu)) = (c.env(&more), c.env(&um)) {
                observe(c, &um);
                let key = if mm.subject().uncompress().map(|s| s.is_node()).unwrap_or(false) { "uncompress-subject-flattens-node" } else { "uncompress-subject-digest" };
                c.check("uncompress-subject-digest", uu.digest() == mm.digest(), key, || format!("{} -> {}", shape(&mm), shape(&uu)));
            }
        }
        // mis-declared digest and corruption
        let other = gen_env(c, &cfg, 1);
        if c.env(&other).map(|o| o.digest() != orig.digest()).unwrap_or(false) {
            let mc = c.assign(&format!("miscompress {} {}", e, other));
            let u = c.assign(&format!("uncompress {}", mc));
            let ok = c.is_ok(&u);
            c.check("misdeclared-rejected", !ok, "misdeclared-rejected", || "content not hashing to the declared digest was accepted on uncompress".into());
            let a = gen_assertion(c, &cfg, 0);
            let n = c.assign(&format!("add {} {}", mc, a));
            let u2 = c.assign(&format!("uncompress_subject {}", n));
            let ok2 = c.is_ok(&u2);
            c.check("misdeclared-rejected", !ok2, "misdeclared-rejected", || "mis-declared compressed subject was accepted".into());
        }
        // near-miss declarations: the element's own content under its digest with a single byte changed, every byte index over time
        for k in [0usize, 3, 4, 5, 17, 31, c.rng.below(32)] {
            let mc = c.assign(&format!("miscompress_near {} {}", e, k));
            let u = c.assign(&format!("uncompress {}", mc));
            let ok = c.is_ok(&u);
            c.check("misdeclared-rejected", !ok, "misdeclared-rejected", || format!("content declared under its digest with byte {} changed was accepted on uncompress", k));
            c.count("branch:near-miss-declaration");
        }
        for kind in ["swap", "rot", "rev", "swapfar"] {
            let mp = c.assign(&format!("miscompress_perm {} {}", e, kind));
            if !c.is_ok(&mp) { continue; }
            let u = c.assign(&format!("uncompress {}", mp));
            let ok = c.is_ok(&u);
            c.check("misdeclared-rejected", !ok, "misdeclared-rejected", || format!("content declared under a permutation ({}) of its digest's bytes was accepted on uncompress", kind));
        }
        if let Some(zz) = c.env(&z) { if zz.is_compressed() { corrupt_compressed(c, &zz); } }
        c.end();
    }
}

fn corrupt_compressed(c: &mut Ctx, z: &Envelope) {
    use bc_components::Compressed;
    let comp = match z.case() { EnvelopeCase::Compressed(x) => x.clone(), _ => return };
    // re-parse its CBOR to get at the fields
    let cb = comp.untagged_cbor();
    let arr = match cb.as_case() { CBORCase::Array(a) => a.clone(), _ => return };
    let data: Vec<u8> = match arr[2].as_case() { CBORCase::ByteString(b) => b.as_ref().to_vec(), _ => return };
    if data.is_empty() { return; }
    let n = data.len().min(24);
    for k in 0..n {
        let i = (k * 7919) % data.len();
        let mut d = data.clone(); d[i] ^= 0x55;
        let mut a2 = arr.clone(); a2[2] = CBOR::to_byte_string(d);
        let r = guarded(|| Compressed::from_untagged_cbor(CBORCase::Array(a2.clone()).into()).and_then(Envelope::try_from).and_then(|e| e.uncompress()));
        match r {
            // accepted only if the content still hashes to the declared digest (then the bytes were redundant, e.g. deflate padding)
            Ok(Ok(u)) => { c.count("corrupt-benign-same-content"); c.check("corrupt-rejected", u.digest() == z.digest() && crate::oracles::check_spec_digests(&u).is_ok(), "corrupt-accepted", || format!("corrupt byte {} accepted with other content", i)) }
            Ok(Err(_)) => c.check("corrupt-rejected", true, "corrupt-accepted", || String::new()),
            Err(site) => c.check("corrupt-no-panic", false, "corrupt-panic", || site),
        }
    }
}

/// C14 on a pool of envelopes (the first is the reference): all pairwise relations against independently computed ones
pub(crate) fn c14_pool(c: &mut Ctx, pool: &[String]) {
    let orig = match c.env(&pool[0]) { Some(x) => x, None => return };
    // identity is preserved by encoding and decoding - for every member, whatever its pattern of obscured positions
    for x in pool.iter().take(8) {
        let r = c.assign(&format!("recode {}", x));
        c.obs(&format!("eq {} {}", x, r));
        if let (Some(a), Some(b2)) = (c.env(x), c.env(&r)) { c.check("decode-preserves-identity", a.is_identical_to(&b2) && a == b2 && a.structural_digest() == b2.structural_digest(), "decode-preserves-identity", || format!("{} decoded from its own encoding is {}", shape(&a), shape(&b2))); }
        else { c.check("decode-preserves-identity", false, "decode-preserves-identity", || "the encoding does not decode".into()); }
    }
        for x in pool.iter() { c.obs(&format!("sdigest {}", x)); }
        let envs: Vec<Envelope> = pool.iter().map(|r| c.env(r).unwrap()).collect();
        for (i, x) in pool.iter().enumerate() { for (j, y) in pool.iter().enumerate() {
            c.obs(&format!("eq {} {}", x, y));
            let (a, bb) = (&envs[i], &envs[j]);
            let equiv = a.is_equivalent_to(bb); let ident = a.is_identical_to(bb);
            c.check("equivalent-iff-digest", equiv == (a.digest() == bb.digest()), "equivalent-iff-digest", || format!("{} {}", shape(a), shape(bb)));
            // identical iff equivalent and same obscuration pattern (computed independently)
            let pattern = |e: &Envelope| -> Vec<(String, &'static str)> { elements(e).into_iter().filter(|(_, x)| x.is_obscured()).map(|(p, x)| (p, case_name(&x))).collect() };
            let same_pattern = pattern(a) == pattern(bb) && elements(a).len() == elements(bb).len();
            c.check("identical-iff-pattern", ident == (equiv && same_pattern), "identical-iff-pattern", || format!("ident={} equiv={} same_pattern={}: {} vs {}", ident, equiv, same_pattern, shape(a), shape(bb)));
            c.check("identical-implies-equivalent", !ident || equiv, "identical-implies-equivalent", || String::new());
            c.check("symmetric", ident == bb.is_identical_to(a) && equiv == bb.is_equivalent_to(a), "symmetric", || String::new());
            c.check("eq-operator", (a == bb) == ident, "eq-operator", || String::new());
            if i == j { c.check("reflexive", ident && equiv, "reflexive", || shape(a)); }
            for cc in &envs { if ident && bb.is_identical_to(cc) { c.check("transitive", a.is_identical_to(cc), "transitive", || String::new()); } }
        } }
        // obscuring a present, non-obscured element: equivalent, not identical
        for (k, x) in envs.iter().enumerate().skip(1) {
            if x.digest() == orig.digest() && shape(x) != shape(&orig) {
                c.check("obscured-equivalent-not-identical", x.is_equivalent_to(&orig) && !x.is_identical_to(&orig), "obscured-equivalent-not-identical", || format!("{} vs {} ({})", shape(&orig), shape(x), pool[k]));
            }
        }
}

/// deep structures: an obscured position far below the root still tells two envelopes apart (no depth at which the comparison
/// stops looking); chains of wrappers and hash-chained records, around powers of two and beyond
fn c14_deep(c: &mut Ctx, b: &Budget) {
    let depths: Vec<usize> = if b.thorough { vec![31, 63, 64, 65, 127, 128, 129, 130, 255, 256, 257, 300, 513, 1025] } else { vec![63, 65, 127, 128, 129, 130, 257, 300] };
    for (k, d) in depths.into_iter().enumerate() {
        c.begin("deep");
        let bottom = c.assign("leaf 66626f74746f6d");
        let second = c.assign("leaf 667365636f6e64");
        let inner = { let a = c.assign(&format!("assertion {} {}", second, bottom)); let s = c.assign("leaf 01"); c.assign(&format!("add {} {}", s, a)) };
        let nn = hex::encode(c.rng.bytes(12));
        let variants: Vec<String> = vec![inner.clone(), c.assign(&format!("elide_set {} rem elide {}", inner, bottom)), c.assign(&format!("elide_set {} rem compress {}", inner, bottom)),
            c.assign(&format!("elide_set {} rem encrypt:{} {}", inner, KEY1, bottom)), c.assign(&format!("elide_set {} rem elide {}", inner, second)), { let _ = nn; c.assign(&format!("elide {}", inner)) }];
        let mut pool = vec![];
        for v in variants {
            let mut cur = v;
            for lvl in 0..d {
                cur = if k % 2 == 0 || lvl % 2 == 0 { c.assign(&format!("wrap {}", cur)) } else { let p = c.assign("leaf 6470726576"); let a = c.assign(&format!("assertion {} {}", p, cur)); let s = c.assign(&format!("leaf {}", hex::encode(dcbor::CBOR::from(lvl as u64).to_cbor_data()))); c.assign(&format!("add {} {}", s, a)) };
            }
            pool.push(cur);
        }
        c.count(&format!("deep:{}", d));
        c14_pool(c, &pool);
        c.end();
    }
}

/// single leaves compared with themselves, with their decoded copies and with each other: values whose in-memory form is not
/// their encoding (NaN, text that is not NFC, reducible floats), every leaf of the alphabet, known values
fn c14_leaves(c: &mut Ctx, _b: &Budget) {
    c.begin("leaves");
    let mut leaves: Vec<(String, Envelope)> = vec![];
    for t in ["", "Hello", "Cafe\u{301}", "\u{212b}ngstr\u{f6}m", "\u{1112}\u{1161}\u{11ab}", "a\u{323}\u{307}"] { leaves.push((format!("text {:?}", t), Envelope::new(t))); }
    for v in [f64::NAN, -f64::NAN, f64::INFINITY, 0.0, -0.0, 1.5, 3.0e9, 1.0e300] { leaves.push((format!("f64 {}", v), Envelope::new(v))); }
    leaves.push(("array with NaN".into(), Envelope::new(CBOR::from(vec![CBOR::from(1), CBOR::from(f64::NAN)]))));
    leaves.push(("array with non-NFC text".into(), Envelope::new(CBOR::from(vec![CBOR::from("e\u{301}")]))));
    { let mut m = dcbor::Map::new(); m.insert("k", f64::NAN); m.insert("e\u{301}", 1); leaves.push(("map with NaN and non-NFC key".into(), Envelope::new(m))); }
    for v in [0u64, 1, 24, 65536] { leaves.push((format!("known value {}", v), Envelope::new(KnownValue::new(v)))); }
    for l in leaf_alphabet().into_iter().take(40) { if let Ok(cb) = CBOR::try_from_data(hex::decode(&l).unwrap()) { leaves.push((format!("alphabet {}", l), Envelope::new(cb))); } }
    for (name, e) in &leaves {
        let copy = e.clone();
        let decoded = Envelope::try_from_cbor_data(e.tagged_cbor().to_cbor_data()).ok();
        let rebuilt = e.as_leaf().map(Envelope::new);
        for (what, other) in [("a clone", Some(copy)), ("its decoded copy", decoded), ("a leaf rebuilt from its value", rebuilt)] {
            if let Some(o) = other {
                let r = guarded(|| (e.is_equivalent_to(&o), e.is_identical_to(&o), *e == o, o.is_equivalent_to(e), e.digest() == o.digest(), e.structural_digest() == o.structural_digest()));
                c.check("equivalent-iff-digest", matches!(r, Ok((eq, id, op, sym, d, sd)) if d && sd && eq && id && op && sym), "equivalent-iff-digest", || format!("{} compared with {}: (equivalent, identical, ==, symmetric, digests, structural digests) = {:?}", name, what, r));
            }
        }
    }
    // different leaves are different, whichever way round
    for (i, (n1, e1)) in leaves.iter().enumerate() { for (n2, e2) in leaves.iter().skip(i + 1).take(6) {
        if e1.digest() != e2.digest() { let r = guarded(|| (e1.is_equivalent_to(e2), e1.is_identical_to(e2), e2.is_equivalent_to(e1))); c.check("equivalent-iff-digest", r == Ok((false, false, false)), "equivalent-iff-digest", || format!("{} vs {}: {:?}", n1, n2, r)); }
    } }
    c.count_n("leaves-compared", leaves.len() as u64);
    c.end();
}

/// churn: envelopes are built, compared and dropped, and equivalent envelopes with another pattern of obscured positions are built
/// right after them (so that the allocator hands out the same addresses again): whatever a comparison remembers about an envelope
/// it has seen must not be taken for a fact about the next one
fn c14_churn(c: &mut Ctx, b: &Budget) {
    c.begin("churn");
    let cfg = GenCfg::default();
    let mut scratch = Ctx::new("scratch", c.rng.next());
    scratch.begin("x");
    let mut n_pairs = 0u64;
    for _ in 0..(if b.thorough { 40 } else { 8 }) {
        let r = gen_env(&mut scratch, &cfg, 2);
        let e = match scratch.env(&r) { Some(e) => e, None => continue };
        let plain = e.tagged_cbor().to_cbor_data();
        // variants with the same digest: each single position elided or compressed, and the whole thing
        let mut variants: Vec<Vec<u8>> = vec![];
        for (_, x) in elements(&e).into_iter().skip(1).take(6) {
            let mut t = HashSet::new(); t.insert(x.digest().into_owned());
            variants.push(e.elide_removing_set(&t).tagged_cbor().to_cbor_data());
            variants.push(e.elide_removing_set_with_action(&t, &ObscureAction::Compress).tagged_cbor().to_cbor_data());
        }
        variants.push(e.elide().tagged_cbor().to_cbor_data());
        variants.retain(|v| *v != plain);
        let reference = Envelope::try_from_cbor_data(plain.clone()).unwrap();
        for round in 0..(if b.thorough { 60 } else { 25 }) {
            for v in &variants {
                {   // the plain form: built, compared (so that anything memoised is memoised), dropped
                    let x = Envelope::try_from_cbor_data(plain.clone()).unwrap();
                    let same = x.is_identical_to(&reference) && x == reference && x.structural_digest() == reference.structural_digest();
                    c.check("decode-preserves-identity", same, "decode-preserves-identity", || "a fresh copy is not identical to the reference".into());
                }
                let y = Envelope::try_from_cbor_data(v.clone()).unwrap();
                let ok = y.is_equivalent_to(&reference) && !y.is_identical_to(&reference) && y != reference && !reference.is_identical_to(&y) && y.structural_digest() != reference.structural_digest();
                c.check("obscuring-changes-identity", ok, "obscured-equivalent-not-identical", || format!("round {}: {} built right after a dropped copy of {} is reported {}", round, shape(&y), shape(&reference), if y.is_equivalent_to(&reference) { "identical" } else { "not equivalent" }));
                // and the other way round: the variant first, then the plain form at its address
                drop(y);
                let z = Envelope::try_from_cbor_data(plain.clone()).unwrap();
                c.check("decode-preserves-identity", z.is_identical_to(&reference), "decode-preserves-identity", || format!("round {}: a fresh plain copy built right after a dropped variant is not identical to the reference", round));
                n_pairs += 1;
            }
        }
    }
    c.count_n("churn-pairs", n_pairs);
    c.end();
}

/// the special shapes: each against its decoded copy and its obscured variants; a subject-level or targeted obscuring of an element that is
/// present (not obscured one level down, whatever lies deeper) never returns an identical envelope
fn c14_special(c: &mut Ctx, b: &Budget) {
    for _ in 0..(if b.thorough { 6 } else { 2 }) {
        c.begin("special-shapes");
        for (name, r) in special_shapes(c) {
            let orig = match c.env(&r) { Some(e) => e, None => continue };
            let mut pool = vec![r.clone()];
            let subj = c.assign(&format!("subject {}", r));
            let subj_obscured = orig.subject().is_obscured();
            for op in [format!("compress_subject {}", r), format!("elide_set {} rem elide {}", r, subj), format!("elide_set {} rem compress {}", r, subj), format!("compress {}", r), format!("elide {}", r)] {
                let v = c.assign(&op);
                if let Some(ve) = c.env(&v) {
                    let whole = op.starts_with("compress r") || op.starts_with("compress ") && !op.starts_with("compress_subject") || op.starts_with("elide r") || (op.starts_with("elide ") && !op.starts_with("elide_set"));
                    let target_present = if whole { !orig.is_obscured() } else { !subj_obscured };
                    if target_present { c.check("obscuring-changes-identity", ve.is_equivalent_to(&orig) && !ve.is_identical_to(&orig), "obscured-equivalent-not-identical", || format!("{} on {}: {} -> {}", op.split(' ').next().unwrap(), name, shape(&orig), shape(&ve))); }
                    pool.push(v);
                }
            }
            pool.truncate(6);
            c14_pool(c, &pool);
        }
        c.end();
    }
}

/// C14 - equivalence and identity
pub fn c14(c: &mut Ctx, b: &Budget) {
    let cfg = GenCfg::default();
    c14_special(c, b);
    c14_churn(c, b);
    c14_deep(c, b);
    c14_leaves(c, b);
    for sc in 0..b.scenarios {
        c.begin("relations");
        let e = gen_env(c, &cfg, 3);
        let orig = match c.env(&e) { Some(x) => x, None => { c.end(); continue; } };
        let mut pool = vec![e.clone()];
        for _ in 0..c.rng.range(2, 4) {
            let v = match c.rng.below(5) {
                0 => c.assign(&format!("recode {}", e)),
                1 => { let o = gen_env(c, &cfg, 2); c.count("pool:unrelated"); o }
                _ => {
                    // obscure exactly one present element
                    match gen_position(c, &e) {
                        Some((pos, _)) => { let act = gen_action(c); c.count("pool:single-obscured"); c.assign(&format!("elide_set {} rem {} {}", e, act, pos)) }
                        None => e.clone(),
                    }
                }
            };
            if c.is_ok(&v) { pool.push(v); }
        }
        if let Some((pos, _)) = gen_position(c, &e) {
            for act in ["elide".to_string(), "compress".to_string(), format!("encrypt:{}", KEY1)] { let v = c.assign(&format!("elide_set {} rem {} {}", e, act, pos)); if c.is_ok(&v) { pool.push(v); } }
            c.count("pool:three-actions-one-position");
        }
        if sc % 3 == 0 {
            // one value at several positions (subject, two objects), each occurrence in its own form: such envelopes are only
            // reachable by assembling from obscured parts or decoding, never by a digest-targeted elision (which hits every occurrence)
            let x = gen_env(c, &cfg, 1); let p1 = gen_leaf(c, &cfg); let p2 = gen_leaf(c, &cfg);
            let mut form = |c: &mut Ctx| -> String {
                match c.rng.below(4) {
                    0 => x.clone(),
                    1 => c.assign(&format!("elide {}", x)),
                    2 => { let z = c.assign(&format!("compress {}", x)); if c.is_ok(&z) { z } else { x.clone() } }
                    _ => { let n = hex::encode(c.rng.bytes(12)); let z = c.assign(&format!("encrypt_subject {} {} {}", x, KEY1, n)); if c.is_ok(&z) && c.env(&z).map(|e| !e.is_node()).unwrap_or(false) { z } else { x.clone() } }
                }
            };
            for _ in 0..c.rng.range(3, 5) {
                let (fs, f1, f2) = (form(c), form(c), form(c));
                let a1 = c.assign(&format!("assertion {} {}", p1, f1)); let a2 = c.assign(&format!("assertion {} {}", p2, f2));
                let n1 = c.assign(&format!("add {} {}", fs, a1)); let n2 = c.assign(&format!("add {} {}", n1, a2));
                if c.is_ok(&n2) { pool.push(n2); c.count("pool:repeated-value-mixed-forms"); }
            }
        }
        c14_pool(c, &pool);
        // obscuring a present element always changes identity and never equivalence - also the second time round, on an envelope
        // that already has obscured parts (e.g. a node whose subject is obscured, targeted as a whole)
        let mut cur = e.clone();
        for round in 0..3 {
            let env = match c.env(&cur) { Some(x) => x, None => break };
            // a position whose element is present (nothing obscured at or above it)
            let cands: Vec<(String, Envelope)> = elements(&env).into_iter().filter(|(p, x)| !x.is_obscured() && {
                let mut ok = true; let mut q = p.clone();
                while let Some(i) = q.rfind('/') { q.truncate(i); if path_at(&env, &q).map(|z| z.is_obscured()).unwrap_or(false) { ok = false; } }
                ok }).collect();
            if cands.is_empty() { break; }
            // prefer, in later rounds, a node whose subject is already obscured
            let pick = cands.iter().find(|(_, x)| round > 0 && x.is_node() && x.subject().is_obscured()).cloned().unwrap_or_else(|| c.rng.pick(&cands).clone());
            let t = c.assign(&format!("at {} {}", cur, pick.0));
            let act = if round == 0 { // first round: obscure a subject, so that later rounds can meet "node with obscured subject"
                    gen_action(c) } else { ["compress".to_string(), "elide".to_string(), format!("encrypt:{}", KEY1)][c.rng.below(3)].clone() };
            let tgt = if round == 0 && env.is_node() { c.assign(&format!("at {} s", cur)) } else { t };
            let tenv = c.env(&tgt);
            let next = c.assign(&format!("elide_set {} rem {} {}", cur, act, tgt));
            c.obs(&format!("eq {} {}", cur, next));
            if let (Some(nx), Some(te)) = (c.env(&next), tenv) {
                if !te.is_obscured() {
                    c.check("obscuring-changes-identity", nx.is_equivalent_to(&env) && !nx.is_identical_to(&env) && nx != env, "obscured-equivalent-not-identical",
                        || format!("round {}: after the {} action on the present element {} of {} the result {} is {}", round, act, shape(&te), shape(&env), shape(&nx), if nx.is_identical_to(&env) { "identical to the input" } else { "not equivalent" }));
                    c.count("branch:obscure-present-element");
                }
                cur = next;
            } else { break; }
        }
        c.end();
    }
}

/// independent traversal for C15
fn my_walk(e: &Envelope, level: usize, edge: &'static str, out: &mut Vec<(usize, &'static str, Envelope)>) {
    out.push((level, edge, e.clone()));
    match e.case() {
        EnvelopeCase::Node { subject, assertions, .. } => { my_walk(subject, level + 1, "subj", out); for a in assertions { my_walk(a, level + 1, "assert", out); } }
        EnvelopeCase::Wrapped { envelope, .. } => my_walk(envelope, level + 1, "wrap", out),
        EnvelopeCase::Assertion(a) => { my_walk(&a.predicate(), level + 1, "pred", out); my_walk(&a.object(), level + 1, "obj", out); }
        _ => {}
    }
}

/// C15 - traversal and queries
pub fn c15(c: &mut Ctx, b: &Budget) {
    let mut cfg = GenCfg::default();
    cfg.small_alphabet = true;
    for i in 0..b.scenarios {
        c.begin("queries");
        let mut e = gen_env(c, &cfg, 3);
        if i % 3 == 0 { let n = gen_obscure(c, &e); if c.is_ok(&n) { e = n; } }
        if i % 5 == 2 {
            // one value at two positions, obscured where the walk comes first and in full where it comes later (and the other way
            // round): what lies beneath the full copy belongs to the structure whatever was seen before
            let x = { let s = gen_leaf(c, &cfg); let a = gen_assertion(c, &cfg, 1); let n = c.assign(&format!("add {} {}", s, a)); let a2 = gen_assertion(c, &cfg, 0); let n2 = c.assign(&format!("add {} {}", n, a2)); if c.is_ok(&n2) { n2 } else { n } };
            let nn = hex::encode(c.rng.bytes(12));
            let hidden = match c.rng.below(4) { 0 => c.assign(&format!("elide {}", x)), 1 => c.assign(&format!("compress {}", x)), 2 => c.assign(&format!("encrypt {} {} {}", x, KEY1, nn)),
                _ => { let t = c.assign(&format!("at {} a0", x)); c.assign(&format!("elide_set {} rem elide {}", x, t)) } };
            let p = gen_leaf(c, &cfg);
            let (first, later) = if c.rng.chance(2, 3) { (hidden.clone(), x.clone()) } else { (x.clone(), hidden.clone()) };
            let host = match c.rng.below(3) {
                0 => { let a = c.assign(&format!("assertion {} {}", p, later)); c.assign(&format!("add {} {}", first, a)) }
                1 => { let a = c.assign(&format!("assertion {} {}", first, later)); let s = gen_leaf(c, &cfg); c.assign(&format!("add {} {}", s, a)) }
                _ => { let w1 = c.assign(&format!("wrap {}", first)); let a = c.assign(&format!("assertion {} {}", p, later)); c.assign(&format!("add {} {}", w1, a)) }
            };
            if c.is_ok(&host) { e = host; c.count("branch:one-digest-obscured-and-full"); }
        }
        if i % 4 == 1 {
            // several distinct assertions with one predicate and one object: bare, decorated (twice, differently), salted
            let p = gen_leaf(c, &cfg); let o = gen_leaf(c, &cfg);
            let bare = c.assign(&format!("assertion {} {}", p, o));
            let d1 = gen_assertion(c, &cfg, 0); let d2 = gen_assertion(c, &cfg, 0);
            let dec1 = c.assign(&format!("add {} {}", bare, d1));
            let dec2 = c.assign(&format!("add {} {}", bare, d2));
            let which = (c.rng.below(7) + 1) as u64;
            for (bit, a) in [(1u64, &bare), (2, &dec1), (4, &dec2)] {
                if which & bit != 0 { let n = c.assign(&format!("add {} {}", e, a)); if c.is_ok(&n) { e = n; } }
            }
            c.count("branch:same-predicate-same-object");
        }
        let orig = match c.env(&e) { Some(x) => x, None => { c.end(); continue; } };
        observe(c, &e);
        c.obs(&format!("walk {} structure", e));
        c.obs(&format!("walk {} tree", e));
        c.obs(&format!("count {}", e));
        c.obs(&format!("flags {}", e));
        let mut mine = vec![]; my_walk(&orig, 0, "none", &mut mine);
        let lib: Vec<(usize, &'static str, Envelope)> = walk_visits(&orig, false).into_iter().map(|(x, l, ed)| (l, crate::interp::edge_name(ed), x)).collect();
        let same = mine.len() == lib.len() && mine.iter().zip(lib.iter()).all(|(a, b)| a.0 == b.0 && a.1 == b.1 && a.2.digest() == b.2.digest() && case_name(&a.2) == case_name(&b.2));
        c.check("walk-structure", same, "walk-structure", || shape(&orig));
        c.check("elements-count", orig.elements_count() == mine.len(), "elements-count", || format!("{} vs {}", orig.elements_count(), mine.len()));
        // the context each visit receives is the value the visitor returned for the element it hangs under - in both modes, compared
        // with an independent traversal that hands its own visit index down
        for hide in [false, true] {
            let seen: std::cell::RefCell<Vec<(Digest, usize, Option<usize>)>> = std::cell::RefCell::new(vec![]);
            let visitor = |x: Envelope, level: usize, _: EdgeType, parent: Option<usize>| -> Option<usize> { let mut v = seen.borrow_mut(); v.push((x.digest().into_owned(), level, parent)); Some(v.len() - 1) };
            orig.walk(hide, &visitor);
            let got = seen.into_inner();
            let mut want: Vec<(Digest, usize, Option<usize>)> = vec![];
            fn structure(e: &Envelope, level: usize, parent: Option<usize>, out: &mut Vec<(Digest, usize, Option<usize>)>) {
                out.push((e.digest().into_owned(), level, parent)); let me = Some(out.len() - 1);
                match e.case() {
                    EnvelopeCase::Node { subject, assertions, .. } => { structure(subject, level + 1, me, out); for a in assertions { structure(a, level + 1, me, out); } }
                    EnvelopeCase::Wrapped { envelope, .. } => structure(envelope, level + 1, me, out),
                    EnvelopeCase::Assertion(a) => { structure(&a.predicate(), level + 1, me, out); structure(&a.object(), level + 1, me, out); }
                    _ => {}
                }
            }
            fn tree(e: &Envelope, level: usize, parent: Option<usize>, out: &mut Vec<(Digest, usize, Option<usize>)>) -> Option<usize> {
                let (own, sub) = if e.is_node() { (parent, level) } else { out.push((e.digest().into_owned(), level, parent)); (Some(out.len() - 1), level + 1) };
                match e.case() {
                    EnvelopeCase::Node { subject, assertions, .. } => { let ap = tree(subject, sub, own, out); for a in assertions { tree(a, sub + 1, ap, out); } }
                    EnvelopeCase::Wrapped { envelope, .. } => { tree(envelope, sub, own, out); }
                    EnvelopeCase::Assertion(a) => { tree(&a.predicate(), sub, own, out); tree(&a.object(), sub, own, out); }
                    _ => {}
                }
                own
            }
            if hide { tree(&orig, 0, None, &mut want); } else { structure(&orig, 0, None, &mut want); }
            c.check("walk-parent-contexts", got == want, "walk-parent-contexts", || { let k = got.iter().zip(want.iter()).position(|(a, b2)| a != b2).unwrap_or(got.len().min(want.len())); format!("{} walk of {}: visit {} received (level, context) {:?}, expected {:?}", if hide { "tree" } else { "structure" }, shape(&orig), k, got.get(k).map(|x| (x.1, x.2)), want.get(k).map(|x| (x.1, x.2))) });
        }
        let tree = walk_visits(&orig, true);
        let non_nodes = mine.iter().filter(|v| !v.2.is_node()).count();
        c.check("walk-tree-visits-non-nodes-once", tree.len() == non_nodes && tree.iter().all(|(x, _, _)| !x.is_node()), "walk-tree", || shape(&orig));
        let depth = mine.iter().map(|v| v.0).max().unwrap_or(0);
        for limit in 0..=(depth + 2) {
            c.obs(&format!("digests {} {}", e, limit));
            let want: HashSet<Digest> = mine.iter().filter(|v| v.0 < limit).flat_map(|v| vec![v.2.digest().into_owned(), v.2.subject().digest().into_owned()]).collect();
            let got = orig.digests(limit);
            c.check("digests-level", got == want, "digests-level", || format!("limit {}: {} vs {}", limit, got.len(), want.len()));
        }
        let deep: HashSet<Digest> = mine.iter().flat_map(|v| vec![v.2.digest().into_owned(), v.2.subject().digest().into_owned()]).collect();
        c.check("deep-digests", orig.deep_digests() == deep, "deep-digests", || shape(&orig));
        // predicates present and absent
        let mut preds: Vec<String> = vec![];
        for (k, a) in orig.assertions().iter().enumerate() {
            if a.subject().is_assertion() { let path = if a.is_assertion() { format!("a{}/p", k) } else { format!("a{}/s/p", k) }; preds.push(c.assign(&format!("at {} {}", e, path))); }
        }
        preds.push(c.assign("leaf 66616273656e74"));
        preds.truncate(4);
        for p in &preds {
            let pe = c.env(p).unwrap();
            let lines = c.obs(&format!("awp {} {}", e, p));
            let _ = lines;
            let want: Vec<Envelope> = orig.assertions().into_iter().filter(|a| match a.subject().case() { EnvelopeCase::Assertion(x) => x.predicate().digest() == pe.digest(), _ => false }).collect();
            let got = orig.assertions_with_predicate(pe.clone());
            c.check("awp-exact", got.len() == want.len() && got.iter().zip(want.iter()).all(|(x, y)| x.is_identical_to(y)), "awp-exact", || shape(&orig));
            let decorated = want.iter().any(|a| !a.is_assertion());
            if decorated { c.count("branch:decorated-match"); }
            // the typed lookups are the untyped lookup followed by typed extraction: same verdict, same value - also when the matching
            // assertion carries assertions of its own
            macro_rules! typed_agrees { ($ty:ty, $name:expr) => {{
                let direct = guarded(|| orig.extract_object_for_predicate::<$ty>(pe.clone()).ok());
                let composed = guarded(|| orig.object_for_predicate(pe.clone()).ok().and_then(|o| o.extract_subject::<$ty>().ok()));
                c.check("typed-lookup-agrees", direct == composed, "typed-lookup-differs", || format!("extract_object_for_predicate::<{}> gave {:?} but object_for_predicate + extract_subject gives {:?} on {}", $name, direct, composed, shape(&orig)));
                let opt = guarded(|| orig.extract_optional_object_for_predicate::<$ty>(pe.clone()).ok());
                let composed_opt = guarded(|| orig.optional_object_for_predicate(pe.clone()).ok().and_then(|o| match o { Some(x) => x.extract_subject::<$ty>().ok().map(Some), None => Some(None) }));
                c.check("typed-lookup-agrees", opt == composed_opt, "typed-lookup-differs", || format!("extract_optional_object_for_predicate::<{}> gave {:?}, composed {:?}", $name, opt, composed_opt));
                let many = guarded(|| orig.extract_objects_for_predicate::<$ty>(pe.clone()).ok());
                let composed_many = guarded(|| orig.objects_for_predicate(pe.clone()).iter().map(|o| o.extract_subject::<$ty>().ok()).collect::<Option<Vec<$ty>>>());
                c.check("typed-lookup-agrees", many == composed_many, "typed-lookup-differs", || format!("extract_objects_for_predicate::<{}> gave {:?}, composed {:?}", $name, many, composed_many));
            }}; }
            typed_agrees!(String, "String"); typed_agrees!(u64, "u64"); typed_agrees!(bool, "bool");
            // ... and against the model, where they are that composition by definition (signed and non-numeric types: unsigned
            // extraction from a negative leaf is the recorded dcbor finding)
            for ty in ["i64", "text", "bool", "bytes"] { for op in ["eofp", "eoofp", "eosfp", "eofpd"] { c.obs(&format!("{} {} {} {}", op, e, p, ty)); } }
            // single-result forms
            let r = guarded(|| orig.assertion_with_predicate(pe.clone()));
            match (&r, want.len()) {
                (Ok(Ok(a)), 1) => c.check("awp-single", a.is_identical_to(&want[0]), "awp-single", || String::new()),
                (Ok(Err(x)), 0) => { let k = crate::interp::err_kind(x); c.check("awp-none-error", k == "NonexistentPredicate", "awp-none-error", || k.clone()) }
                (Ok(Err(x)), n) if n > 1 => { let k = crate::interp::err_kind(x); c.check("awp-ambiguous-error", k == "AmbiguousPredicate", "awp-ambiguous-error", || k.clone()) }
                _ => c.check("awp-single", false, "awp-single", || format!("{} matches", want.len())),
            }
            // bulk and optional lookups against the matching assertions, decorated ones included
            {
                let wanto: Vec<Envelope> = want.iter().map(|a| match a.subject().case() { EnvelopeCase::Assertion(x) => x.object(), _ => unreachable!() }).collect();
                if let Ok(objs) = guarded(|| orig.objects_for_predicate(pe.clone())) {
                    c.check("objects-one-per-matching-assertion", objs.len() == wanto.len() && objs.iter().zip(wanto.iter()).all(|(x, y)| x.is_identical_to(y)), "objects-exact", || format!("{} objects for {} matching assertions in {}", objs.len(), wanto.len(), shape(&orig)));
                }
                let kind = |r: &Result<Option<Envelope>, anyhow::Error>| match r { Ok(Some(_)) => "some".to_string(), Ok(None) => "none".to_string(), Err(x) => crate::interp::err_kind(x) };
                let expect = match want.len() { 0 => "none", 1 => "some", _ => "AmbiguousPredicate" };
                if let Ok(r) = guarded(|| orig.optional_assertion_with_predicate(pe.clone())) {
                    let k = kind(&r);
                    c.check("optional-lookup-verdict", k == expect, "optional-lookup-verdict", || format!("optional_assertion_with_predicate gave {} with {} matches", k, want.len()));
                    if let (Ok(Some(a)), 1) = (&r, want.len()) { c.check("optional-lookup-verdict", a.is_identical_to(&want[0]), "optional-lookup-verdict", || "wrong assertion".into()); }
                }
                if let Ok(r) = guarded(|| orig.optional_object_for_predicate(pe.clone())) {
                    let k = kind(&r);
                    c.check("optional-lookup-verdict", k == expect, "optional-lookup-verdict", || format!("optional_object_for_predicate gave {} with {} matches", k, want.len()));
                    if let (Ok(Some(o)), 1) = (&r, want.len()) { c.check("optional-lookup-verdict", o.is_identical_to(&wanto[0]), "optional-lookup-verdict", || "wrong object".into()); }
                }
                // typed forms with a default: the default only when nothing matches, an error when several do
                if let Ok(r) = guarded(|| orig.extract_object_for_predicate_with_default::<String>(pe.clone(), "\u{1}default".to_string())) {
                    match (want.len(), &r) {
                        (0, Ok(v)) => c.check("default-lookup-verdict", v == "\u{1}default", "default-lookup-verdict", || format!("no match but {:?}", v)),
                        (0, Err(x)) => { let k = crate::interp::err_kind(x); c.check("default-lookup-verdict", false, "default-lookup-verdict", || format!("no match gave {}", k)) }
                        (1, Ok(v)) => { let w = wanto[0].extract_subject::<String>().ok(); c.check("default-lookup-verdict", w.as_ref() == Some(v), "default-lookup-verdict", || format!("{:?} vs {:?}", v, w)) }
                        (1, Err(_)) => { let w = wanto[0].extract_subject::<String>().is_err(); c.check("default-lookup-verdict", w, "default-lookup-verdict", || "error although the single object is a text".into()) }
                        (_, Ok(v)) => c.check("default-lookup-verdict", false, "default-lookup-verdict", || format!("{} matches but Ok({:?})", want.len(), v)),
                        (_, Err(x)) => { let k = crate::interp::err_kind(x); c.check("default-lookup-verdict", k == "AmbiguousPredicate", "default-lookup-verdict", || k.clone()) }
                    }
                }
            }
            if !decorated {
                c.obs(&format!("ofp {} {}", e, p));
                c.obs(&format!("osfp {} {}", e, p));
                c.obs(&format!("oofp {} {}", e, p));
                let objs = guarded(|| orig.objects_for_predicate(pe.clone()));
                if let Ok(objs) = objs {
                    let wanto: Vec<Envelope> = want.iter().filter_map(|a| a.as_object()).collect();
                    c.check("objects-exact", objs.len() == wanto.len() && objs.iter().zip(wanto.iter()).all(|(x, y)| x.is_identical_to(y)), "objects-exact", || shape(&orig));
                }
            }
        }
        // a predicate matched through elision
        if let Some((k, a)) = orig.assertions().iter().enumerate().find(|(_, a)| a.is_assertion()) {
            let pr = c.assign(&format!("at {} a{}/p", e, k));
            let el = c.assign(&format!("elide_set {} rem elide {}", e, pr));
            c.obs(&format!("awp {} {}", el, pr));
            if let Some(ee) = c.env(&el) {
                let got = ee.assertions_with_predicate(a.as_predicate().unwrap());
                c.check("awp-through-elided", got.iter().any(|x| x.digest() == a.digest()), "awp-through-elided", || shape(&ee));
                c.count("branch:elided-predicate");
            }
        }
        // typed extraction on every leaf kind
        for ty in ["u8", "u16", "u32", "u64", "i8", "i16", "i32", "i64", "bool", "text", "bytes"] {
            // extract_subject recurses through node subjects (a node can be the subject of a node)
            let mut leaf = orig.subject();
            while leaf.is_node() { leaf = leaf.subject(); }
            let neg_unsigned = ty.starts_with('u') && matches!(leaf.as_leaf().map(|l| l.into_case()), Some(CBORCase::Negative(_)));
            if neg_unsigned {
                // known dependency defect: unsigned extraction from a negative integer wraps around
                let r = extract_ok(&orig, ty);
                c.check("extract-exact", r.is_none(), "extract-unsigned-from-negative", || format!("extract::<{}> of negative leaf {} returned {:?}", ty, shape(&leaf), r));
            } else {
                c.obs(&format!("extract {} {}", e, ty));
                let r = extract_ok(&orig, ty);
                let want = independent_extract(&leaf, ty);
                c.check("extract-exact", r == want, "extract-exact", || format!("extract::<{}> of {} gave {:?}, stored value denotes {:?}", ty, shape(&leaf), r, want));
            }
        }
        c.end();
    }
    // extraction over the whole leaf alphabet
    c.begin("extract-alphabet");
    for l in leaf_alphabet() {
        let r = c.assign(&format!("leaf {}", l));
        let e = c.env(&r).unwrap();
        for ty in ["u8", "u16", "u32", "u64", "i8", "i16", "i32", "i64", "bool", "text", "bytes"] {
            let neg_unsigned = ty.starts_with('u') && matches!(e.as_leaf().map(|x| x.into_case()), Some(CBORCase::Negative(_)));
            let got = extract_ok(&e, ty);
            let want = independent_extract(&e, ty);
            if neg_unsigned { c.check("extract-exact", got.is_none(), "extract-unsigned-from-negative", || format!("extract::<{}> of negative leaf {} returned {:?}", ty, l, got)); }
            else { c.obs(&format!("extract {} {}", r, ty)); c.check("extract-exact", got == want, "extract-exact", || format!("{} as {}: {:?} vs {:?}", l, ty, got, want)); }
        }
    }
    c.end();
}

fn extract_ok(e: &Envelope, ty: &str) -> Option<String> {
    let mut m = crate::interp::Machine::default();
    m.regs.insert("x".into(), Val::Env(e.clone()));
    let o = m.exec(&format!("obs extract x {}", ty))?;
    o.strip_prefix("ok ").map(|s| s.to_string())
}

/// what the stored leaf denotes, decoded by hand from its dCBOR bytes
fn independent_extract(e: &Envelope, ty: &str) -> Option<String> {
    let mut inner = e.subject();
    while inner.is_node() { inner = inner.subject(); }
    let leaf = inner.as_leaf()?;
    let b = leaf.to_cbor_data();
    let (mt, ai) = (b[0] >> 5, b[0] & 31);
    let arg = |b: &[u8]| -> Option<(u128, usize)> {
        match ai { 0..=23 => Some((ai as u128, 1)), 24 => Some((b[1] as u128, 2)), 25 => Some((u16::from_be_bytes([b[1], b[2]]) as u128, 3)),
            26 => Some((u32::from_be_bytes([b[1], b[2], b[3], b[4]]) as u128, 5)), 27 => Some((u64::from_be_bytes(b[1..9].try_into().ok()?) as u128, 9)), _ => None }
    };
    let range = |lo: i128, hi: i128| -> Option<String> {
        let (v, n) = arg(&b)?; if n != b.len() { return None; }
        let val: i128 = match mt { 0 => v as i128, 1 => -1 - (v as i128), _ => return None };
        if lo <= val && val <= hi { Some(val.to_string()) } else { None }
    };
    match ty {
        "u8" => range(0, u8::MAX as i128), "u16" => range(0, u16::MAX as i128), "u32" => range(0, u32::MAX as i128), "u64" => range(0, u64::MAX as i128),
        "i8" => range(i8::MIN as i128, i8::MAX as i128), "i16" => range(i16::MIN as i128, i16::MAX as i128), "i32" => range(i32::MIN as i128, i32::MAX as i128), "i64" => range(i64::MIN as i128, i64::MAX as i128),
        "bool" => match b.as_slice() { [0xf4] => Some("false".into()), [0xf5] => Some("true".into()), _ => None },
        "text" => { if mt != 3 { return None; } let (v, n) = arg(&b)?; if n + v as usize != b.len() { return None; } Some(hex::encode(&b[n..])) }
        "bytes" => { if mt != 2 { return None; } let (v, n) = arg(&b)?; if n + v as usize != b.len() { return None; } Some(hex::encode(&b[n..])) }
        _ => None,
    }
}
