//! Type-directed generators of envelopes and obscuration patterns, emitting EVL.
use crate::ctx::Ctx;
use crate::interp::path_at;
use bc_envelope::base::envelope::EnvelopeCase;
use bc_envelope::prelude::*;

/// the leaf alphabet: every dCBOR kind, few distinct values (so equal digests at several
/// positions are common)
pub fn leaf_alphabet() -> Vec<String> {
    let mut v: Vec<CBOR> = vec![
        "Hello".into(), "".into(), "knows".into(), "Bob".into(), "Alice".into(), "héllo wörld ✓".into(),
        0u64.into(), 1u64.into(), 23u64.into(), 24u64.into(), 255u64.into(), 256u64.into(), 65535u64.into(), 65536u64.into(),
        4294967295u64.into(), 4294967296u64.into(), u64::MAX.into(),
        (-1i64).into(), (-24i64).into(), (-25i64).into(), (-256i64).into(), (-257i64).into(), i64::MIN.into(),
        CBOR::to_byte_string(Vec::<u8>::new()), CBOR::to_byte_string(vec![1u8, 2, 3, 4]),
        CBOR::to_byte_string(vec![7u8; 30]), CBOR::to_byte_string(vec![7u8; 32]), CBOR::to_byte_string(vec![7u8; 33]),
        true.into(), false.into(), CBOR::null(),
        1.5f64.into(), 1.1f64.into(), (-2.5f64).into(), 1.0e300f64.into(), f64::INFINITY.into(), f64::NEG_INFINITY.into(), f64::NAN.into(),
        3.0f64.into(), (-7.0f64).into(), 65504.0f64.into(), 100000.5f64.into(), (0.1f32 as f64).into(),
        vec![1u64, 2, 3].into(), Vec::<u64>::new().into(),
        CBOR::to_tagged_value(1u64, 1700000000u64), CBOR::to_tagged_value(100u64, "x"),
        CBOR::to_tagged_value(200u64, CBOR::to_tagged_value(201u64, "inner")),
        // leaves whose content looks like an envelope-level encoding: a tagged known value, a tagged digest, leaf tags, the
        // arrays of an encrypted / compressed element, a bare 32-byte string
        CBOR::to_tagged_value(40000u64, 7u64), CBOR::to_tagged_value(40000u64, 1u64), CBOR::to_tagged_value(40001u64, CBOR::to_byte_string(vec![5u8; 32])),
        CBOR::to_tagged_value(201u64, "x"), CBOR::to_tagged_value(24u64, "x"),
        CBOR::to_tagged_value(40002u64, vec![CBOR::to_byte_string(vec![1u8]), CBOR::to_byte_string(vec![0u8; 12]), CBOR::to_byte_string(vec![0u8; 16])]),
        CBOR::to_tagged_value(40003u64, vec![CBOR::from(0u64), CBOR::from(0u64), CBOR::to_byte_string(Vec::<u8>::new())]),
        CBOR::to_byte_string(vec![9u8; 32]), 40000u64.into(),
    ];
    for pad in 0..4usize { v.push(format!("{}{}", "a".repeat(37 + pad), "é✓".repeat(12)).as_str().into()); }
    v.push("é".repeat(60).as_str().into());
    let mut m = Map::new(); m.insert(1u64, "a"); m.insert("k", vec![1u64]); m.insert(-1i64, false);
    v.push(m.into());
    v.push(Map::new().into());
    let nested: CBOR = vec![CBOR::from(vec![CBOR::from("x"), CBOR::to_byte_string(vec![0u8])]), CBOR::from(1.5f64)].into();
    v.push(nested);
    v.iter().map(|c| hex::encode(c.to_cbor_data())).collect()
}

pub const SMALL_LEAVES: &[&str] = &["6548656c6c6f", "01", "63426f62", "656b6e6f7773", "f5", "4401020304"];
pub const KNOWN_VALUES: &[u64] = &[1, 3, 4, 5, 6, 15, 16, 50, 51, 52, 0, 1000, u64::MAX,
    // every boundary of the CBOR head sizes
    23, 24, 255, 256, 65535, 65536, 4294967295, 4294967296];

pub struct GenCfg {
    pub max_depth: usize,
    pub max_assertions: usize,
    pub small_alphabet: bool,
}

impl Default for GenCfg { fn default() -> Self { GenCfg { max_depth: 3, max_assertions: 4, small_alphabet: true } } }

pub fn gen_leaf(c: &mut Ctx, cfg: &GenCfg) -> String {
    if c.rng.chance(1, 6) {
        let v = *c.rng.pick(KNOWN_VALUES);
        c.assign(&format!("kv {}", v))
    } else if cfg.small_alphabet && c.rng.chance(3, 4) {
        let l = *c.rng.pick(SMALL_LEAVES);
        c.assign(&format!("leaf {}", l))
    } else {
        let alpha = leaf_alphabet();
        let l = c.rng.pick(&alpha).clone();
        c.assign(&format!("leaf {}", l))
    }
}

pub fn gen_assertion(c: &mut Ctx, cfg: &GenCfg, depth: usize) -> String {
    let p = if c.rng.chance(4, 5) { gen_leaf(c, cfg) } else { gen_env(c, cfg, depth.saturating_sub(1)) };
    let o = gen_env(c, cfg, depth.saturating_sub(1));
    let a = c.assign(&format!("assertion {} {}", p, o));
    if depth > 0 && c.rng.chance(1, 5) {
        // assertion carrying its own assertion
        let aa = gen_assertion(c, cfg, 0);
        c.count("gen:decorated-assertion");
        let d1 = c.assign(&format!("add {} {}", a, aa));
        if c.rng.chance(1, 3) {
            // decorated at two levels, `{ {p: o} [a1] } [a2]`: a node whose subject is a node whose subject is the assertion
            // (reachable through compress -> add -> uncompress_subject, decrypt_subject, or decoding)
            let z = c.assign(&format!("compress {}", d1));
            let bb = gen_assertion(c, cfg, 0);
            let z2 = c.assign(&format!("add {} {}", z, bb));
            let u = c.assign(&format!("uncompress_subject {}", z2));
            if c.is_ok(&u) { c.count("gen:doubly-decorated-assertion"); u } else { d1 }
        } else { d1 }
    } else { a }
}

pub fn gen_env(c: &mut Ctx, cfg: &GenCfg, depth: usize) -> String {
    if depth == 0 { return gen_leaf(c, cfg); }
    match c.rng.below(11) {
        10 => {
            // a node whose subject is itself a node (only reachable through uncompress_subject / decrypt_subject / decode)
            let inner = { let s = gen_leaf(c, cfg); let a = gen_assertion(c, cfg, 0); let n = c.assign(&format!("add {} {}", s, a)); if c.rng.chance(1, 2) { let b = gen_assertion(c, cfg, 0); c.assign(&format!("add {} {}", n, b)) } else { n } };
            let z = c.assign(&format!("compress {}", inner));
            let a = gen_assertion(c, cfg, depth - 1);
            let outer = c.assign(&format!("add {} {}", z, a));
            let u = c.assign(&format!("uncompress_subject {}", outer));
            if c.is_ok(&u) { c.count("gen:node-subject-node"); u } else { inner }
        }
        0..=2 => gen_leaf(c, cfg),
        3 => { let inner = gen_env(c, cfg, depth - 1); c.assign(&format!("wrap {}", inner)) }
        4 => gen_assertion(c, cfg, depth - 1),
        _ => {
            let mut e = if c.rng.chance(1, 6) { let i = gen_env(c, cfg, depth - 1); c.assign(&format!("wrap {}", i)) } else { gen_leaf(c, cfg) };
            let n = c.rng.range(1, cfg.max_assertions);
            for _ in 0..n {
                let a = gen_assertion(c, cfg, depth - 1);
                e = c.assign(&format!("add {} {}", e, a));
            }
            e
        }
    }
}

/// all positions (paths) of an envelope, pre-order
pub fn positions(e: &Envelope) -> Vec<String> {
    fn go(e: &Envelope, path: String, out: &mut Vec<String>) {
        out.push(if path.is_empty() { ".".into() } else { path.clone() });
        let j = |s: &str| if path.is_empty() { s.to_string() } else { format!("{}/{}", path, s) };
        match e.case() {
            EnvelopeCase::Node { subject, assertions, .. } => {
                go(subject, j("s"), out);
                for (i, a) in assertions.iter().enumerate() { go(a, j(&format!("a{}", i)), out); }
            }
            EnvelopeCase::Wrapped { envelope, .. } => go(envelope, j("w"), out),
            EnvelopeCase::Assertion(a) => { go(&a.predicate(), j("p"), out); go(&a.object(), j("o"), out); }
            _ => {}
        }
    }
    let mut out = vec![];
    go(e, String::new(), &mut out);
    out
}

/// pick a random subset of positions and bind them to registers; returns the comma list
pub fn gen_targets(c: &mut Ctx, reg: &str, max: usize, allow_absent: bool) -> (String, Vec<String>) {
    let e = match c.env(reg) { Some(e) => e, None => return ("-".into(), vec![]) };
    let pos = positions(&e);
    let n = c.rng.below(max + 1).min(pos.len());
    let mut regs = vec![];
    let mut paths = vec![];
    for _ in 0..n {
        let p = c.rng.pick(&pos).clone();
        let r = c.assign(&format!("at {} {}", reg, p));
        regs.push(r);
        paths.push(p);
    }
    if allow_absent && c.rng.chance(1, 4) {
        let r = c.assign("leaf 66616273656e74");
        regs.push(r);
        c.count("gen:absent-target");
    }
    if regs.is_empty() { ("-".into(), paths) } else { (regs.join(","), paths) }
}

pub const KEY1: &str = "0101010101010101010101010101010101010101010101010101010101010101";
pub const KEY2: &str = "0202020202020202020202020202020202020202020202020202020202020202";

pub fn gen_action(c: &mut Ctx) -> String {
    match c.rng.below(4) { 0 | 1 => "elide".into(), 2 => "compress".into(), _ => format!("encrypt:{}", KEY1) }
}

/// apply a random obscuration to `reg`; the result register (always ok unless the library panics)
pub fn gen_obscure(c: &mut Ctx, reg: &str) -> String {
    let (ts, _) = gen_targets(c, reg, 3, true);
    let mode = if c.rng.chance(2, 3) { "rem" } else { "rev" };
    let act = gen_action(c);
    c.assign(&format!("elide_set {} {} {} {}", reg, mode, act, ts))
}

/// a random element of the envelope in a register, as a register
pub fn gen_position(c: &mut Ctx, reg: &str) -> Option<(String, String)> {
    let e = c.env(reg)?;
    let pos = positions(&e);
    let p = c.rng.pick(&pos).clone();
    let r = c.assign(&format!("at {} {}", reg, p));
    let _ = path_at(&e, &p)?;
    Some((r, p))
}

/// A deep structure: a small node (`1 [ "second": "bottom" ]`) under `depth` levels of wrappers (or, with `mix`, alternately a
/// wrapper and a record `n [ "prev": <inner> ]`).  `chain` holds a register for every element on the way from the top down to
/// the inner assertion (nodes, assertions, wrapped elements), top first.
pub struct Deep { pub top: String, pub chain: Vec<String>, pub bottom: String, pub second: String, pub depth: usize }

pub fn gen_deep(c: &mut Ctx, depth: usize, mix: bool) -> Deep {
    let bottom = c.assign("leaf 66626f74746f6d");
    let second = c.assign("leaf 667365636f6e64");
    let a = c.assign(&format!("assertion {} {}", second, bottom));
    let s = c.assign("leaf 01");
    let inner = c.assign(&format!("add {} {}", s, a));
    let mut chain = vec![a, inner.clone()];
    let mut cur = inner;
    for lvl in 0..depth {
        if !mix || lvl % 2 == 0 { cur = c.assign(&format!("wrap {}", cur)); chain.push(cur.clone()); }
        else {
            let p = c.assign("leaf 6470726576");
            let asr = c.assign(&format!("assertion {} {}", p, cur));
            let subj = c.assign(&format!("leaf {}", hex::encode(dcbor::CBOR::from(lvl as u64).to_cbor_data())));
            cur = c.assign(&format!("add {} {}", subj, asr));
            chain.push(asr); chain.push(cur.clone());
        }
    }
    chain.reverse();
    c.count(&format!("deep:{}", depth));
    Deep { top: cur, chain, bottom, second, depth }
}

pub fn deep_depths(thorough: bool) -> Vec<usize> { if thorough { vec![31, 63, 64, 65, 127, 128, 129, 255, 256, 257, 513] } else { vec![63, 65, 129, 257] } }

/// Shapes that only particular histories produce and that transformation code tends to forget: a decorated assertion whose core
/// is obscured (in each of the three ways), twin assertions, a node whose subject is a node, a node whose subject is an
/// obscured node, an object that is a wrapped node with an obscured part.  Returns (name, register).
pub fn special_shapes(c: &mut Ctx) -> Vec<(String, String)> {
    let cfg = GenCfg::default();
    let mut out: Vec<(String, String)> = vec![];
    let s0 = gen_leaf(c, &cfg);
    let core = { let p = gen_leaf(c, &cfg); let o = gen_leaf(c, &cfg); c.assign(&format!("assertion {} {}", p, o)) };
    let meta = gen_assertion(c, &cfg, 0);
    let other = gen_assertion(c, &cfg, 0);
    let dec = c.assign(&format!("add {} {}", core, meta));
    let host = { let h = c.assign(&format!("add {} {}", s0, dec)); c.assign(&format!("add {} {}", h, other)) };
    for act in ["elide".to_string(), "compress".to_string(), format!("encrypt:{}", KEY2)] {
        let r = c.assign(&format!("elide_set {} rem {} {}", host, act, core));
        if c.is_ok(&r) { out.push((format!("decorated-assertion-core-{}", &act[..5]), r)); }
    }
    // a plain node whose subject alone is obscured, its assertions readable
    {
        let plain = { let s1 = gen_leaf(c, &cfg); let a1 = gen_assertion(c, &cfg, 0); let a2 = gen_assertion(c, &cfg, 0); let n = c.assign(&format!("add {} {}", s1, a1)); let n2 = c.assign(&format!("add {} {}", n, a2)); if c.is_ok(&n2) { n2 } else { n } };
        let subj = c.assign(&format!("subject {}", plain));
        for act in ["elide".to_string(), "compress".to_string(), format!("encrypt:{}", KEY2)] {
            let r = c.assign(&format!("elide_set {} rem {} {}", plain, act, subj));
            if c.is_ok(&r) { out.push((format!("node-with-{}-subject", &act[..5]), r)); }
        }
    }
    // an assertion under two layers of decoration ({ {P:O} [a] } [b], reachable by encrypting a decorated assertion whole, annotating it and
    // decrypting its subject), with the core in clear and obscured; and a node under a node whose innermost subject is compressed
    {
        let extra2 = gen_assertion(c, &cfg, 0);
        let n = hex::encode(c.rng.bytes(12));
        let enc = c.assign(&format!("encrypt {} {} {}", dec, KEY2, n));      // wrap + encrypt_subject
        let inner_enc = c.assign(&format!("elide_set {} rem encrypt:{} {}", dec, KEY2, dec));   // the decorated assertion as one encrypted element
        let _ = enc;
        let annotated = c.assign(&format!("add {} {}", inner_enc, extra2));
        let two = c.assign(&format!("decrypt_subject {} {}", annotated, KEY2));
        if c.is_ok(&two) {
            let s2 = gen_leaf(c, &cfg);
            let h2 = c.assign(&format!("add {} {}", s2, two));
            if c.is_ok(&h2) { out.push(("assertion-under-two-decorations".into(), h2.clone()));
                for act in ["elide".to_string(), "compress".to_string()] { let r = c.assign(&format!("elide_set {} rem {} {}", h2, act, core)); if c.is_ok(&r) { out.push((format!("two-decorations-core-{}", &act[..5]), r)); } } }
        }
    }
    let twins = c.assign(&format!("add {} {}", host, core));
    if c.is_ok(&twins) { out.push(("twin-assertions".into(), twins)); }
    // node whose subject is a node: compress the inner node, add to it, inflate the subject again
    let z = c.assign(&format!("compress {}", host));
    let extra = gen_assertion(c, &cfg, 0);
    let zn = c.assign(&format!("add {} {}", z, extra));
    if c.is_ok(&zn) { out.push(("node-with-compressed-node-subject".into(), zn.clone())); }
    let nn = c.assign(&format!("uncompress_subject {}", zn));
    if c.is_ok(&nn) { out.push(("node-with-node-subject".into(), nn.clone())); let w = c.assign(&format!("wrap {}", nn)); out.push(("wrapped-node-with-node-subject".into(), w));
        // ... whose innermost subject is compressed / elided (the outer subject - a node - is not)
        let innermost = c.assign(&format!("at {} s/s", nn));
        if c.is_ok(&innermost) { for act in ["compress", "elide"] { let r = c.assign(&format!("elide_set {} rem {} {}", nn, act, innermost)); if c.is_ok(&r) { out.push((format!("node-under-node-core-{}", &act[..5]), r)); } } } }
    // ... and one where the outer node repeats an assertion the inner node makes (legal: they are elements of different nodes)
    {
        let zs = c.assign(&format!("add {} {}", zn, other));
        let ns = c.assign(&format!("uncompress_subject {}", zs));
        if c.is_ok(&ns) { out.push(("node-under-node-shared-assertion".into(), ns)); }
    }
    // ... and one whose inner node is as small as a node can be (known values only, seven bytes encoded), reached by the encrypting route
    {
        let k1 = c.assign("kv 1"); let k4 = c.assign("kv 4"); let k16 = c.assign("kv 16");
        let a = c.assign(&format!("assertion {} {}", k4, k16));
        let tiny = c.assign(&format!("add {} {}", k1, a));
        let enc = c.assign(&format!("elide_set {} rem encrypt:{} {}", tiny, KEY2, tiny));
        let extra3 = gen_assertion(c, &cfg, 0);
        let ann = c.assign(&format!("add {} {}", enc, extra3));
        let two = c.assign(&format!("decrypt_subject {} {}", ann, KEY2));
        if c.is_ok(&two) { out.push(("tiny-node-under-node".into(), two.clone()));
            let p = gen_leaf(c, &cfg); let oa = c.assign(&format!("assertion {} {}", p, two)); let s9 = gen_leaf(c, &cfg); let h9 = c.assign(&format!("add {} {}", s9, oa));
            if c.is_ok(&h9) { out.push(("object-tiny-node-under-node".into(), h9)); } }
    }
    // an object that is a wrapped node with an obscured part
    if let Some((name, first)) = out.first().cloned() { let w = c.assign(&format!("wrap {}", first)); let p = gen_leaf(c, &cfg); let a = c.assign(&format!("assertion {} {}", p, w)); let s = gen_leaf(c, &cfg); let h = c.assign(&format!("add {} {}", s, a)); if c.is_ok(&h) { out.push((format!("object-wrapping-{}", name), h)); } }
    for (n, _) in &out { c.count(&format!("special:{}", n)); }
    out
}
