//! C16: no operation panics.  (i) histories through the EVL (compared with the model's
//! explicit panic branches); (ii) a battery of public API calls under catch_unwind.
use crate::ctx::Ctx;
use crate::gen::*;
use crate::history::random_op;
use crate::interp::{guarded, shape, Val};
use crate::props::Budget;
use bc_components::{DigestProvider, PrivateKeyBase, SymmetricKey};
use bc_envelope::prelude::*;
use std::collections::HashSet;

/// call the public API on `e`; returns the panic sites hit, with the call that hit them
pub fn battery(e: &Envelope, other: &Envelope, keys: &Keys) -> Vec<(String, String)> {
    let mut hits: Vec<(String, String)> = vec![];
    macro_rules! t { ($name:expr, $body:expr) => { if let Err(site) = guarded(|| { let _ = $body; }) { hits.push(($name.to_string(), site)); } }; }
    let preds: Vec<Envelope> = {
        let mut v: Vec<Envelope> = vec![Envelope::new(known_values::SIGNED), Envelope::new(known_values::HAS_RECIPIENT), Envelope::new(known_values::SSKR_SHARE),
            Envelope::new(known_values::IS_A), Envelope::new(known_values::SALT), Envelope::new(known_values::ATTACHMENT), Envelope::new(known_values::NOTE),
            Envelope::new(known_values::VENDOR), Envelope::new(known_values::CONFORMS_TO), Envelope::new(known_values::RESULT), Envelope::new(known_values::ERROR),
            Envelope::new(known_values::DATE), Envelope::new(known_values::BODY), Envelope::new("knows"), other.clone()];
        for a in e.assertions() { if let Some(p) = a.subject().as_predicate() { v.push(p); } }
        v
    };
    // queries
    t!("subject", e.subject()); t!("assertions", e.assertions()); t!("has_assertions", e.has_assertions());
    t!("as_assertion", e.as_assertion()); t!("as_predicate", e.as_predicate()); t!("as_object", e.as_object()); t!("as_leaf", e.as_leaf());
    t!("try_leaf", e.try_leaf()); t!("try_byte_string", e.try_byte_string()); t!("try_known_value", e.try_known_value().map(|k| k.value()));
    t!("is_*", (e.is_leaf(), e.is_node(), e.is_wrapped(), e.is_known_value(), e.is_assertion(), e.is_encrypted(), e.is_compressed(), e.is_elided(),
        e.is_subject_assertion(), e.is_subject_encrypted(), e.is_subject_compressed(), e.is_subject_elided(), e.is_subject_obscured(), e.is_internal(), e.is_obscured()));
    t!("is_bool", (e.is_false(), e.is_true(), e.is_null()));
    t!("extract::<String>", e.extract_subject::<String>()); t!("extract::<u8>", e.extract_subject::<u8>()); t!("extract::<i64>", e.extract_subject::<i64>());
    t!("extract::<u64>", e.extract_subject::<u64>()); t!("extract::<f64>", e.extract_subject::<f64>()); t!("extract::<bool>", e.extract_subject::<bool>());
    t!("extract::<ByteString>", e.extract_subject::<ByteString>()); t!("extract::<Date>", e.extract_subject::<dcbor::Date>());
    t!("extract::<Vec<u64>>", e.extract_subject::<Vec<u64>>()); t!("extract::<Vec<String>>", e.extract_subject::<Vec<String>>());
    t!("extract::<Digest>", e.extract_subject::<bc_components::Digest>()); t!("extract::<KnownValue>", e.extract_subject::<KnownValue>());
    t!("extract::<Envelope>", e.extract_subject::<Envelope>()); t!("extract::<Assertion>", e.extract_subject::<bc_envelope::Assertion>());
    t!("extract::<Signature>", e.extract_subject::<bc_components::Signature>()); t!("extract::<SealedMessage>", e.extract_subject::<bc_components::SealedMessage>());
    t!("extract::<SSKRShare>", e.extract_subject::<bc_components::SSKRShare>()); t!("extract::<Salt>", e.extract_subject::<bc_components::Salt>());
    t!("extract::<ARID>", e.extract_subject::<bc_components::ARID>());
    t!("extract::<HashMap>", e.extract_subject::<std::collections::HashMap<String, u64>>()); t!("extract::<HashSet>", e.extract_subject::<HashSet<u64>>());
    t!("extract_object", e.extract_object::<String>()); t!("extract_predicate", e.extract_predicate::<String>());
    for p in &preds {
        t!("assertions_with_predicate", e.assertions_with_predicate(p.clone()));
        t!("assertion_with_predicate", e.assertion_with_predicate(p.clone()));
        t!("optional_assertion_with_predicate", e.optional_assertion_with_predicate(p.clone()));
        t!("object_for_predicate", e.object_for_predicate(p.clone()));
        t!("optional_object_for_predicate", e.optional_object_for_predicate(p.clone()));
        t!("objects_for_predicate", e.objects_for_predicate(p.clone()));
        t!("extract_object_for_predicate", e.extract_object_for_predicate::<String>(p.clone()));
        t!("extract_optional_object_for_predicate", e.extract_optional_object_for_predicate::<String>(p.clone()));
        t!("extract_object_for_predicate_with_default", e.extract_object_for_predicate_with_default::<u64>(p.clone(), 7));
        t!("extract_objects_for_predicate", e.extract_objects_for_predicate::<String>(p.clone()));
        t!("try_object_for_predicate", e.try_object_for_predicate::<Expression>(p.clone()));
        t!("try_optional_object_for_predicate", e.try_optional_object_for_predicate::<Expression>(p.clone()));
        t!("try_objects_for_predicate", e.try_objects_for_predicate::<Expression>(p.clone()));
    }
    t!("elements_count", e.elements_count()); t!("digests", (e.digests(0), e.digests(1), e.digests(3), e.deep_digests(), e.shallow_digests()));
    t!("structural_digest", e.structural_digest()); t!("is_equivalent_to", e.is_equivalent_to(other)); t!("is_identical_to", e.is_identical_to(other));
    t!("walk", (crate::interp::walk_visits(e, false), crate::interp::walk_visits(e, true)));
    // transformations
    t!("add_assertion_envelope", e.add_assertion_envelope(other.clone())); t!("add_assertion", e.add_assertion("k", "v"));
    t!("add_assertion_envelopes", e.add_assertion_envelopes(&e.assertions())); t!("add_optional_assertion", e.add_optional_assertion("k", None::<String>));
    t!("add_assertion_salted", e.add_assertion_salted("k", "v", true)); t!("add_assertion_envelope_salted", e.add_assertion_envelope_salted(other.clone(), true));
    t!("remove_assertion", e.remove_assertion(other.clone())); t!("replace_assertion", e.replace_assertion(other.clone(), Envelope::new_assertion("a", "b")));
    t!("replace_subject", e.replace_subject(other.clone())); t!("replace_subject2", other.replace_subject(e.clone()));
    t!("wrap", e.wrap_envelope()); t!("unwrap", e.unwrap_envelope());
    // obscuring
    let tset: HashSet<bc_components::Digest> = [other.digest().into_owned(), e.subject().digest().into_owned()].into_iter().chain(e.assertions().iter().take(1).map(|a| a.digest().into_owned())).collect();
    let deep: HashSet<bc_components::Digest> = e.deep_digests();
    for (an, action) in [("elide", ObscureAction::Elide), ("compress", ObscureAction::Compress), ("encrypt", ObscureAction::Encrypt(keys.sym.clone()))] {
        for (tn, set) in [("some", &tset), ("all", &deep)] {
            for rev in [false, true] {
                t!(format!("elide_set_with_action({},{},rev={})", an, tn, rev), e.elide_set_with_action(set, rev, &action));
            }
        }
    }
    t!("elide", e.elide()); t!("elide_removing_target", e.elide_removing_target(other)); t!("elide_revealing_target", e.elide_revealing_target(other));
    t!("unelide", e.unelide(other.clone()));
    t!("compress", e.compress()); t!("uncompress", e.uncompress()); t!("compress_subject", e.compress_subject()); t!("uncompress_subject", e.uncompress_subject());
    t!("encrypt_subject", e.encrypt_subject(&keys.sym)); t!("decrypt_subject", e.decrypt_subject(&keys.sym)); t!("decrypt", e.decrypt(&keys.sym));
    t!("encrypt", if !(e.subject().is_encrypted() || e.subject().is_elided()) || e.is_node() { e.encrypt(&keys.sym) } else { e.clone() });
    // an assertion replaced by an equal-digest form of itself (elided, compressed) and by itself; removed and re-added
    for a in e.assertions().into_iter().take(3) {
        t!("replace_assertion(a, a.elide())", e.replace_assertion(a.clone(), a.elide()));
        t!("replace_assertion(a, a)", e.replace_assertion(a.clone(), a.clone()));
        if let Ok(z) = a.compress() { t!("replace_assertion(a, a.compress())", e.replace_assertion(a.clone(), z)); }
        t!("remove+add", e.remove_assertion(a.clone()).add_assertion_envelope(a.clone()));
        t!("replace_assertion(a, non-assertion)", e.replace_assertion(a.clone(), Envelope::new("x")));
    }
    // salt / types / attachments
    t!("add_salt", e.add_salt()); t!("add_salt_with_len", e.add_salt_with_len(8)); t!("add_salt_with_len(7)", e.add_salt_with_len(7)); t!("add_salt_in_range", e.add_salt_in_range(8..=10));
    t!("add_type", e.add_type("T")); t!("types", e.types()); t!("get_type", e.get_type()); t!("has_type", e.has_type(&known_values::SEED_TYPE)); t!("has_type_envelope", e.has_type_envelope("T"));
    t!("check_type", e.check_type(&known_values::SEED_TYPE)); t!("check_type_envelope", e.check_type_envelope("T"));
    t!("add_attachment", e.add_attachment("payload", "vendor", Some("conf"))); t!("attachments", e.attachments());
    t!("attachments_with_vendor_and_conforms_to", e.attachments_with_vendor_and_conforms_to(Some("vendor"), None));
    t!("attachment_with_vendor_and_conforms_to", e.attachment_with_vendor_and_conforms_to(None, Some("conf")));
    t!("attachment_payload", e.attachment_payload()); t!("attachment_vendor", e.attachment_vendor()); t!("attachment_conforms_to", e.attachment_conforms_to());
    t!("validate_attachment", e.validate_attachment());
    // signatures, recipients, sskr
    let pubk = keys.base.schnorr_public_keys();
    t!("add_signature", e.add_signature(&keys.base)); t!("has_signature_from", e.has_signature_from(&pubk)); t!("verify_signature_from", e.verify_signature_from(&pubk));
    t!("has_signature_from_returning_metadata", e.has_signature_from_returning_metadata(&pubk)); t!("verify_signature_from_returning_metadata", e.verify_signature_from_returning_metadata(&pubk));
    t!("has_signatures_from_threshold", e.has_signatures_from_threshold(&[&pubk, &keys.base2.schnorr_public_keys()], Some(1)));
    t!("verify_signatures_from", e.verify_signatures_from(&[&pubk])); t!("verify", e.verify(&pubk)); t!("verify_returning_metadata", e.verify_returning_metadata(&pubk));
    // every choice of key list and threshold, also the silly ones: no keys, threshold 0, threshold above the number of keys
    { let k2 = keys.base2.schnorr_public_keys();
      let lists: Vec<Vec<&dyn bc_envelope::Verifier>> = vec![vec![], vec![&pubk], vec![&pubk, &k2], vec![&k2, &pubk, &k2]];
      for l in &lists { for t in [None, Some(0usize), Some(1), Some(2), Some(3), Some(4), Some(usize::MAX)] {
          t!("has_signatures_from_threshold(args)", e.has_signatures_from_threshold(l, t));
          t!("verify_signatures_from_threshold(args)", e.verify_signatures_from_threshold(l, t));
      } t!("has_signatures_from(args)", e.has_signatures_from(l)); t!("verify_signatures_from(args)", e.verify_signatures_from(l)); } }
    t!("sign", e.sign(&keys.base));
    t!("recipients", e.recipients()); t!("add_recipient", e.add_recipient(&pubk, &keys.sym)); t!("decrypt_subject_to_recipient", e.decrypt_subject_to_recipient(&keys.base));
    t!("decrypt_to_recipient", e.decrypt_to_recipient(&keys.base)); t!("encrypt_subject_to_recipient", e.encrypt_subject_to_recipient(&pubk));
    for (sk, _) in &keys.kems { t!("decrypt_subject_to_recipient(kem)", e.decrypt_subject_to_recipient(sk)); t!("decrypt_to_recipient(kem)", e.decrypt_to_recipient(sk)); t!("unseal(kem)", e.unseal(&pubk, sk)); }
    t!("sskr_join", Envelope::sskr_join(&[e, other])); t!("sskr_join1", Envelope::sskr_join(&[e]));
    t!("unseal", e.unseal(&pubk, &keys.base));
    // proofs
    t!("proof_contains_set", e.proof_contains_set(&tset)); t!("proof_contains_target", e.proof_contains_target(other)); t!("confirm_contains_set", e.confirm_contains_set(&tset, other));
    t!("confirm_contains_target", other.confirm_contains_target(e, e));
    // proofs for the envelope's own elements, produced and confirmed: every digest alone, neighbouring pairs, all of them together (a
    // digest may sit at several positions); and the same after an assertion whose predicate, object and the subject are one envelope
    {
        let s0 = e.subject();
        let twin = if s0.is_subject_assertion() || s0.is_obscured() { e.clone() } else { e.add_assertion(s0.clone(), s0.clone()).add_assertion("knows", s0.clone()).add_assertion("likes", s0.clone()) };
        for host in [e, &twin] {
            let mut ds: Vec<bc_components::Digest> = vec![];
            for (_, x) in crate::oracles::elements(host) { let d = x.digest().into_owned(); if !ds.contains(&d) { ds.push(d); } if ds.len() >= 14 { break; } }
            let mut sets: Vec<HashSet<bc_components::Digest>> = ds.iter().map(|d| [d.clone()].into_iter().collect()).collect();
            for w in ds.windows(2) { sets.push(w.iter().cloned().collect()); }
            for w in ds.windows(3) { sets.push([w[0].clone(), w[2].clone()].into_iter().collect()); }
            sets.push(ds.iter().cloned().collect());
            let root = host.elide();
            for set in &sets {
                if let Ok(Some(p)) = guarded(|| host.proof_contains_set(set)) {
                    t!("confirm_contains_set(own proof)", host.confirm_contains_set(set, &p));
                    t!("confirm_contains_set(own proof, root only)", root.confirm_contains_set(set, &p));
                    if set.len() == 1 { let d = set.iter().next().unwrap().clone(); if let Some((_, x)) = crate::oracles::elements(host).into_iter().find(|(_, x)| *x.digest() == d) { t!("confirm_contains_target(own proof)", root.confirm_contains_target(&x, &p)); } }
                } else { t!("proof_contains_set(own digests)", host.proof_contains_set(set)); }
            }
        }
    }
    // formatting and encoding
    t!("format", e.format()); t!("format_flat", e.format_flat()); t!("tree_format(false)", e.tree_format(false)); t!("tree_format(true)", e.tree_format(true));
    t!("tree_format_with_target", e.tree_format_with_target(false, &tset));
    t!("diagnostic", e.diagnostic()); t!("diagnostic_annotated", e.diagnostic_annotated()); t!("hex", e.hex()); t!("short_id", e.short_id());
    t!("ur_string", e.ur_string()); t!("tagged_cbor", e.tagged_cbor().to_cbor_data()); t!("to_cbor", e.to_cbor());
    // parsing of expression-family values
    t!("Expression::try_from", Expression::try_from(e.clone())); t!("Request::try_from", Request::try_from(e.clone()));
    t!("Response::try_from", Response::try_from(e.clone())); t!("Event::<String>::try_from", Event::<String>::try_from(e.clone()));
    t!("Function::try_from", Function::try_from(e.clone())); t!("extract::<Parameter>", e.extract_subject::<Parameter>()); t!("extract::<Function>", e.extract_subject::<Function>());
    t!("Attachments::try_from_envelope", bc_envelope::Attachments::try_from_envelope(e));
    hits
}

pub struct Keys { pub sym: SymmetricKey, pub base: PrivateKeyBase, pub base2: PrivateKeyBase, pub kems: Vec<(bc_components::EncapsulationPrivateKey, bc_components::EncapsulationPublicKey)> }

impl Keys {
    pub fn new() -> Self {
        Keys { sym: SymmetricKey::from_data_ref(hex::decode(KEY1).unwrap()).unwrap(),
               base: PrivateKeyBase::from_data(&[7u8; 32]), base2: PrivateKeyBase::from_data(&[9u8; 32]),
               // one key pair of every encapsulation scheme and level: a key of one scheme / level presented to a message of another
               kems: [bc_components::EncapsulationScheme::X25519, bc_components::EncapsulationScheme::MLKEM512, bc_components::EncapsulationScheme::MLKEM768, bc_components::EncapsulationScheme::MLKEM1024].iter().map(|s| s.keypair()).collect() }
    }
}

fn run_battery(c: &mut Ctx, reg: &str, other: &str, keys: &Keys) {
    let (e, o) = match (c.env(reg), c.env(other)) { (Some(e), Some(o)) => (e, o), _ => return };
    c.note_shape(&e);
    let hits = battery(&e, &o, keys);
    c.count("battery-runs");
    let mut seen = HashSet::new();
    for (call, site) in hits {
        if !seen.insert(site.clone()) { continue; }
        c.check("no-panic", false, &format!("panic@{}", site), || format!("{} panicked at {} on {}", call, site, shape(&e)));
    }
    c.check("no-panic", true, "-", || String::new());
}

/// envelopes with decorated (salted) extension assertions and wrongly typed objects
fn special_envelopes(c: &mut Ctx) -> Vec<String> {
    let mut out = vec![];
    // expression-family shapes: a response / request / event subject with every small multiset of result, error, body,
    // content, note and date assertions (none, one, repeated, decorated, object elided)
    {
        let arid = CBOR::to_tagged_value(40012u64, CBOR::to_byte_string(vec![3u8; 32]));
        let unknown = CBOR::to_tagged_value(40000u64, 0u64);
        for (tag, inner) in [(40011u64, arid.clone()), (40011, unknown.clone()), (40010, arid.clone()), (40012, arid.clone())] {
            let subj = c.assign(&format!("leaf {}", hex::encode(CBOR::to_tagged_value(tag, inner).to_cbor_data())));
            let parts: Vec<(u64, &str)> = vec![(101, "6161"), (101, "6162"), (102, "6163"), (102, "6164"), (100, "01"), (100, "02"), (103, "6165"), (4, "6166"), (16, "c11a6553f100")];
            let mut regs = vec![];
            for (kv, leaf) in &parts { let p = c.assign(&format!("kv {}", kv)); let o = c.assign(&format!("leaf {}", leaf)); regs.push(c.assign(&format!("assertion {} {}", p, o))); }
            for mask in [0b000000001u32, 0b000000011, 0b000000101, 0b000001100, 0b000000111, 0b000110000, 0b000010000, 0b001000000, 0b011000011, 0b110010000, 0] {
                let mut e = subj.clone();
                for (i, r) in regs.iter().enumerate() { if mask >> i & 1 == 1 { e = c.assign(&format!("add {} {}", e, r)); } }
                out.push(e.clone());
                // one part decorated, one part with its object elided
                if mask & 3 == 3 {
                    let note = c.assign("kv 4"); let t = c.assign("leaf 6174"); let deco = c.assign(&format!("assertion {} {}", note, t));
                    let d0 = c.assign(&format!("add {} {}", regs[0], deco));
                    let base = c.assign(&format!("add {} {}", subj, d0));
                    out.push(c.assign(&format!("add {} {}", base, regs[1])));
                    let o1 = c.assign(&format!("at {} o", regs[1]));
                    out.push(c.assign(&format!("elide_set {} rem elide {}", e, o1)));
                }
            }
        }
    }
    let kvs = [3u64, 5, 6, 1, 15, 50, 16, 4, 51, 52, 9, 10, 13, 14, 23];
    let s = c.assign("leaf 6548656c6c6f");
    for kv in kvs {
        let p = c.assign(&format!("kv {}", kv));
        let o = gen_leaf(c, &GenCfg::default());
        let a = c.assign(&format!("assertion {} {}", p, o));
        // decorate the assertion with an assertion of its own (what add_assertion_salted produces)
        let sp = c.assign("kv 15");
        let so = c.assign("leaf 480102030405060708");
        let sa = c.assign(&format!("assertion {} {}", sp, so));
        let dec = c.assign(&format!("add {} {}", a, sa));
        out.push(c.assign(&format!("add {} {}", s, dec)));
        out.push(c.assign(&format!("add {} {}", s, a)));
        // object obscured
        let oe = c.assign(&format!("elide {}", o));
        let a2 = c.assign(&format!("assertion {} {}", p, oe));
        out.push(c.assign(&format!("add {} {}", s, a2)));
        // whole assertion elided in its slot
        let ae = c.assign(&format!("elide {}", a));
        out.push(c.assign(&format!("add {} {}", s, ae)));
    }
    // leaves with awkward tagged content
    // SSKR share objects that are too short to carry an identifier, sealed messages / signatures with odd content
    for hx in ["d99d7540", "d99d754112", "d99d75421234", "d99c5380", "d99c5440"] {
        let l = c.assign(&format!("leaf {}", hx));
        if c.is_ok(&l) { for kv in [6u64, 5, 3] { let p = c.assign(&format!("kv {}", kv)); let a = c.assign(&format!("assertion {} {}", p, l)); out.push(c.assign(&format!("add {} {}", s, a))); } }
    }
    for hx in ["c1fb7e37e43c8800759c", "c1f97c00", "c1f97e00", "c16161", "d99c58a0", "d99c4c4100", "d99c565820", "d99c5a00", "d99c5b6161", "d8c8d8c901", "d99c4080", "d99c5280", "d99d7500"] {
        let l = c.assign(&format!("leaf {}", hx));
        if c.is_ok(&l) { out.push(l.clone()); let p = c.assign("kv 16"); let a = c.assign(&format!("assertion {} {}", p, l)); out.push(c.assign(&format!("add {} {}", s, a))); }
    }
    out
}

pub fn c16(c: &mut Ctx, b: &Budget) {
    let cfg = GenCfg::default();
    let keys = Keys::new();
    c.begin("special");
    let other = c.assign("leaf 63426f62");
    for r in special_envelopes(c) { if c.is_ok(&r) { c.obs(&format!("shape {}", r)); run_battery(c, &r, &other, &keys); } }
    // shapes built with the library itself and imported through their encoding: valid attachments that carry assertions of their
    // own (salted, annotated), envelopes encrypted to exactly one recipient of each scheme and level, to two, and sealed
    {
        let host = Envelope::new("host").add_assertion("k", 1);
        let att = Envelope::new_attachment("payload", "vendor", Some("conf"));
        let mut made: Vec<Envelope> = vec![
            host.add_assertion_envelope(att.add_assertion(known_values::NOTE, "annotated")).unwrap(),
            host.add_assertion_envelope_salted(att.clone(), true).unwrap(),
            host.add_assertion_envelope(att.clone()).unwrap().add_assertion_envelope(att.add_assertion("x", 1)).unwrap(),
        ];
        for (_, pk) in &keys.kems {
            if let Ok(Ok(x)) = guarded(|| host.encrypt_subject_to_recipient(pk)) { made.push(x); }
            if let Ok(x) = guarded(|| host.encrypt_to_recipient(pk)) { made.push(x); }
            if let Ok(x) = guarded(|| host.seal(&keys.base, pk)) { made.push(x); }
        }
        if let Ok(Ok(x)) = guarded(|| host.encrypt_subject_to_recipients(&[&keys.kems[1].1 as &dyn bc_envelope::Encrypter, &keys.kems[3].1 as &dyn bc_envelope::Encrypter])) { made.push(x); }
        for m in made { let r = c.assign(&format!("decode {}", hex::encode(m.tagged_cbor().to_cbor_data()))); if c.is_ok(&r) { c.obs(&format!("shape {}", r)); run_battery(c, &r, &other, &keys); c.count("special:library-built"); } }
    }
    c.end();
    for i in 0..b.scenarios {
        c.begin("history");
        let mut cur = gen_env(c, &cfg, 2);
        let other = gen_env(c, &cfg, 1);
        let steps = c.rng.range(1, 6);
        for _ in 0..steps {
            let next = random_op(c, &cur, &cfg);
            if let Val::Panic(site) = c.val(&next) { let l = c.lines.last().cloned().unwrap_or_default(); let sh = c.env(&cur).map(|e| shape(&e)).unwrap_or_default(); c.check("no-panic", false, &format!("panic@{}", site), || format!("{} panicked at {} on {}", l, site, sh)); }
            if c.is_ok(&next) { cur = next; }
        }
        if c.is_ok(&cur) { c.obs(&format!("shape {}", cur)); if i % 2 == 0 || b.thorough { run_battery(c, &cur, &other, &keys); } }
        c.end();
    }
    // adversarially decoded envelopes
    for _ in 0..(b.scenarios / 2) {
        let mut scratch = Ctx::new("scratch", c.rng.next());
        scratch.begin("x");
        let cur = gen_env(&mut scratch, &cfg, 3);
        let e = match scratch.env(&cur) { Some(e) => e, None => continue };
        let tree = CBOR::try_from_data(e.tagged_cbor().to_cbor_data()).unwrap();
        let (m, _) = crate::mutate::mutate_once(&mut c.rng, &tree);
        c.begin("decoded");
        let r = c.assign(&format!("decode {}", hex::encode(m.to_cbor_data())));
        if let Val::Panic(site) = c.val(&r) { c.check("no-panic", false, &format!("panic@{}", site), || format!("decode panicked at {}", site)); }
        if c.is_ok(&r) { let other = c.assign("leaf 01"); c.obs(&format!("shape {}", r)); run_battery(c, &r, &other, &keys); c.count("decoded-accepted"); }
        c.end();
    }
}
