//! Small-scope exhaustive families (DESIGN 2.5): every envelope with at most k positions over a three-symbol alphabet
//! (obscured forms at every position included), crossed - where the property quantifies over target sets - with every
//! subset of its digests, both modes and all three actions.  A search aid and correspondence amplifier, not a proof.
use crate::ctx::Ctx;
use crate::enumr::{self, T};
use crate::gen::*;
use crate::interp::shape;
use crate::oracles::*;
use crate::props::{check_positions, observe_env, roundtrip, Budget};
use crate::props2::{c12_one, check_elision};
use bc_components::{Digest, DigestProvider};
use bc_envelope::prelude::*;
use std::collections::HashSet;

/// registers bound to one position of every distinct digest of the envelope in `reg` (at most `cap`, root and deepest first)
fn digest_registers(c: &mut Ctx, reg: &str, cap: usize) -> Vec<(String, String)> {
    let e = match c.env(reg) { Some(e) => e, None => return vec![] };
    let mut seen: HashSet<Digest> = HashSet::new();
    let mut pos: Vec<String> = vec![];
    for (p, x) in elements(&e) { if seen.insert(x.digest().into_owned()) { pos.push(p); } }
    if pos.len() > cap {
        // keep the root, then a deterministic spread
        let mut keep = vec![pos[0].clone()];
        let step = (pos.len() - 1) as f64 / (cap - 1) as f64;
        for i in 1..cap { keep.push(pos[1 + (((i - 1) as f64) * step) as usize].clone()); }
        keep.dedup();
        pos = keep;
    }
    pos.into_iter().map(|p| { let r = c.assign(&format!("at {} {}", reg, p)); (r, p) }).collect()
}

fn subsets<Tt: Clone>(xs: &[Tt]) -> Vec<Vec<Tt>> {
    (0..(1usize << xs.len())).map(|m| xs.iter().enumerate().filter(|(i, _)| m >> i & 1 == 1).map(|(_, x)| x.clone()).collect()).collect()
}

/// obscure single positions of a tree (position-wise, not by digest): all variants with one obscured position, and a sample with two
fn variants(t: &T, out: &mut Vec<T>) {
    fn at(t: &T, f: &mut dyn FnMut(&T) -> Option<T>) -> Vec<T> {
        // all trees obtained by replacing exactly one proper-or-improper subtree s by f(s)
        let mut res = vec![];
        if let Some(r) = f(t) { res.push(r); }
        match t {
            T::Wrap(x) => for v in at(x, f) { res.push(T::Wrap(Box::new(v))); },
            T::Assert(p, o) => {
                for v in at(p, f) { res.push(T::Assert(Box::new(v), o.clone())); }
                for v in at(o, f) { res.push(T::Assert(p.clone(), Box::new(v))); }
            }
            T::Node(s, l) => {
                for v in at(s, f) { res.push(T::Node(Box::new(v), l.clone())); }
                for i in 0..l.len() { for v in at(&l[i], f) { let mut l2 = l.clone(); l2[i] = v; res.push(T::Node(s.clone(), l2)); } }
            }
            _ => {}
        }
        res
    }
    for k in 0..3u8 {
        let mut f = |s: &T| -> Option<T> { if matches!(s, T::Obsc(..)) { None } else { Some(T::Obsc(k, Box::new(s.clone()))) } };
        out.extend(at(t, &mut f));
    }
}

pub fn run(c: &mut Ctx, prop: &str, b: &Budget) {
    let (k, cap) = match (prop, b.thorough) {
        ("C02", false) | ("C03", false) | ("C12", false) => (5, 120),
        ("C02", true) | ("C03", true) | ("C12", true) => (6, 1200),
        ("C14", false) => (4, 40),
        ("C14", true) => (5, 400),
        (_, false) => (5, 1200),
        (_, true) => (6, 12000),
    };
    let with_obscured = prop != "C14";
    let all = enumr::up_to(k, with_obscured);
    c.count_n("enum:trees-in-scope", all.len() as u64);
    let trees = enumr::sample(all, cap, c);
    c.count_n("enum:trees-run", trees.len() as u64);
    c.count_n("enum:k", k as u64);
    let cfg = GenCfg::default();
    for t in &trees {
        c.begin("enum");
        let e = enumr::emit(c, t);
        let orig = match c.env(&e) { Some(x) => x, None => { c.count("enum:assembly-refused"); c.end(); continue; } };
        match prop {
            "C01" => {
                observe_env(c, &e, false);
                let r = check_spec_digests(&orig);
                c.check("spec-digest", r.is_ok(), "spec-digest", || format!("{} in {}", r.unwrap_err(), shape(&orig)));
            }
            "C04" => {
                observe_env(c, &e, true);
                let r = check_grammar(&orig);
                c.check("grammar", r.is_ok(), "grammar", || format!("{} in {}", r.unwrap_err(), shape(&orig)));
                let r2 = check_spec_digests(&orig);
                c.check("held-digests-recompute", r2.is_ok(), "held-digests-recompute", || r2.unwrap_err());
            }
            "C05" => roundtrip(c, &e),
            "C02" | "C03" => {
                observe_env(c, &e, false);
                let regs = digest_registers(c, &e, if b.thorough { 5 } else { 4 });
                let mut names: Vec<String> = regs.iter().map(|(r, _)| r.clone()).collect();
                let absent = c.assign("leaf 66616273656e74"); names.push(absent);
                for sub in subsets(&names) {
                    let ts = if sub.is_empty() { "-".to_string() } else { sub.join(",") };
                    let tset: HashSet<Digest> = sub.iter().filter_map(|r| c.env(r)).map(|x| x.digest().into_owned()).collect();
                    for (mode, revealing) in [("rem", false), ("rev", true)] {
                        for act in ["elide", "compress", "encrypt"] {
                            let act_s = if act == "encrypt" { format!("encrypt:{}", KEY1) } else { act.to_string() };
                            let r = c.assign(&format!("elide_set {} {} {} {}", e, mode, act_s, ts));
                            c.count("enum:elisions");
                            c.no_panic(&r, "obscuring");
                            if let Some(res) = c.env(&r) {
                                c.obs(&format!("shape {}", r));
                                if prop == "C02" {
                                    let v = check_positions(&orig, &res);
                                    c.check("digests-preserved", v.is_ok(), "digests-preserved", || format!("{}: {} -> {}", v.unwrap_err(), shape(&orig), shape(&res)));
                                } else {
                                    let v = check_elision(&orig, &res, &tset, revealing, act);
                                    c.check("hides-exactly-targets", v.is_ok(), "hides-exactly-targets", || format!("{} (mode {}, action {}): {} -> {}", v.unwrap_err(), mode, act, shape(&orig), shape(&res)));
                                }
                            }
                        }
                    }
                }
            }
            "C12" => {
                c.obs(&format!("shape {}", e));
                let alld: HashSet<Digest> = elements(&orig).iter().map(|(_, x)| x.digest().into_owned()).collect();
                let regs = digest_registers(c, &e, if b.thorough { 5 } else { 4 });
                for sub in subsets(&regs) {
                    let ts = if sub.is_empty() { "-".to_string() } else { sub.iter().map(|(r, _)| r.clone()).collect::<Vec<_>>().join(",") };
                    let paths: Vec<String> = sub.iter().map(|(_, p)| p.clone()).collect();
                    c.count("enum:target-sets");
                    c12_one(c, &cfg, &e, &orig, &alld, &ts, &paths);
                }
            }
            "C14" => {
                // the tree, its position-wise obscured variants, pairwise
                let mut vs: Vec<T> = vec![];
                variants(t, &mut vs);
                let mut pool = vec![e.clone()];
                for v in &vs { let r = enumr::emit(c, v); if c.is_ok(&r) { pool.push(r); } }
                // two positions obscured: variants of variants (sampled)
                let mut vv: Vec<T> = vec![];
                for v in vs.iter().take(6) { variants(v, &mut vv); }
                c.rng.shuffle(&mut vv); vv.truncate(6);
                for v in &vv { let r = enumr::emit(c, v); if c.is_ok(&r) { pool.push(r); } }
                if pool.len() > 14 { let first = pool[0].clone(); let mut rest = pool[1..].to_vec(); c.rng.shuffle(&mut rest); rest.truncate(13); pool = vec![first]; pool.extend(rest); }
                crate::props2::c14_pool(c, &pool);
            }
            _ => {}
        }
        c.end();
    }
}
