//! C20: lock-protocol traces (through the `verif_hooks` feature of /repo) and the
//! concurrent stress oracle.  Every measurement runs in a fresh child process so that
//! first-use initialisation is really first use.
use bc_envelope::prelude::*;
use std::io::Read;
use std::process::{Command, Stdio};
use std::sync::{Arc, Barrier};
use std::time::{Duration, Instant};

pub const OPS: &[&str] = &["format", "format_flat", "tree_format", "diagnostic_annotated", "hex", "register_tags", "kv_name", "fn_name", "param_name", "kv_store", "fn_store", "param_store", "format_own", "format_local", "request_summary", "macro_scrutinee"];

fn sample_envelopes() -> Vec<Envelope> {
    // built WITHOUT touching any registry (no formatting, no name lookups)
    let e1 = Envelope::new("Alice").add_assertion("knows", "Bob").add_assertion(known_values::NOTE, "a note");
    let e2 = Envelope::new(known_values::IS_A).add_assertion(known_values::DATE, dcbor::Date::from_timestamp(1_700_000_000.0));
    let e3 = e1.wrap_envelope().add_assertion("k", 42).elide_removing_target(&Envelope::new("Bob"));
    let e4: Envelope = Expression::new(bc_envelope::functions::ADD).with_parameter(bc_envelope::parameters::LHS, 2).with_parameter("named", 3).into();
    // a known value that is in no registry (formats by number)
    let e5 = Envelope::new("x").add_assertion(KnownValue::new(4711), KnownValue::new(4712));
    // leaves tagged as request / response / event whose payload is itself a function, a parameter or a known value: their text
    // comes from the summarizers registered for the *nested* context
    use bc_components::tags::{TAG_EVENT, TAG_REQUEST, TAG_RESPONSE};
    let e6 = Envelope::new(CBOR::to_tagged_value(TAG_REQUEST, CBOR::from(bc_envelope::functions::ADD)));
    let e7 = Envelope::new("host").add_assertion(CBOR::to_tagged_value(TAG_RESPONSE, CBOR::from(known_values::NOTE)), CBOR::to_tagged_value(TAG_EVENT, CBOR::from(bc_envelope::parameters::LHS)));
    // ... nested in one another, two and three deep
    let req = |x: CBOR| CBOR::to_tagged_value(TAG_REQUEST, x);
    let resp = |x: CBOR| CBOR::to_tagged_value(TAG_RESPONSE, x);
    let ev = |x: CBOR| CBOR::to_tagged_value(TAG_EVENT, x);
    let e8 = Envelope::new(req(req(CBOR::from(1))));
    let e9 = Envelope::new("nested").add_assertion(resp(req(CBOR::from(bc_envelope::functions::ADD))), ev(resp(req(CBOR::from(known_values::NOTE)))));
    // a leaf that carries a whole (tagged) envelope as its value - formatting descends into it with the context it was given
    let e10 = Envelope::new("carrier").add_assertion("embedded", e1.tagged_cbor()).add_assertion(e2.tagged_cbor(), "as a predicate");
    // a deep one (200 wrappers): long-running formatting calls overlap, and whatever counts depth counts it here
    let mut e11 = Envelope::new("deep").add_assertion("k", "v");
    for _ in 0..200 { e11 = e11.wrap_envelope(); }
    vec![e1, e2, e3, e4, e5, e6, e7, e8, e9, e10, e11]
}

fn fnv(s: &str) -> u64 { let mut h = 0xcbf29ce484222325u64; for b in s.bytes() { h ^= b as u64; h = h.wrapping_mul(0x100000001b3); } h }

pub fn run_op(op: &str, e: &Envelope) -> String {
    match op {
        "format" => e.format(),
        "format_flat" => e.format_flat(),
        "tree_format" => e.tree_format(false),
        "diagnostic_annotated" => e.diagnostic_annotated(),
        "hex" => e.hex(),
        "register_tags" => { bc_envelope::register_tags(); String::new() }
        "kv_name" => { let b = known_values::KNOWN_VALUES.get(); b.as_ref().unwrap().name(known_values::NOTE) }
        "fn_name" => { let b = bc_envelope::extension::expressions::GLOBAL_FUNCTIONS.get(); b.as_ref().unwrap().name(&bc_envelope::functions::ADD) }
        "param_name" => { let b = bc_envelope::extension::expressions::GLOBAL_PARAMETERS.get(); b.as_ref().unwrap().name(&bc_envelope::parameters::LHS) }
        // formatting with a context of the caller's own (a copy of the global one, taken under its lock; the formatting itself
        // then runs without any lock, side by side with everything else)
        "format_own" => { let own = bc_envelope::with_format_context!(|ctx: &bc_envelope::FormatContext| ctx.clone()); format!("{}|{}", e.format_opt(Some(&own)), e.tree_format_opt(false, Some(&own))) }
        // formatting with a context that names the same raw known values differently (a localised application): its names show in
        // its text and nowhere else; no lock of the crate is taken
        "format_local" => {
            use bc_envelope::extension::known_values::KnownValuesStore;
            let store = KnownValuesStore::new([KnownValue::new_with_name(1u64, "istEin".to_string()), KnownValue::new_with_name(4u64, "notiz".to_string()), KnownValue::new_with_name(16u64, "datum".to_string()), KnownValue::new_with_name(4711u64, "lokal".to_string())]);
            let ctx = bc_envelope::FormatContext::new(false, None, Some(&store), None, None);
            format!("{}|{}", e.format_opt(Some(&ctx)), e.tree_format_opt(false, Some(&ctx)))
        }
        // the exported macro where a caller may well put it: as the iterator expression of a `for` and the scrutinee of a `match`, with
        // more formatting in the body - the context guard does not outlive the macro's own block
        "macro_scrutinee" => {
            // (the result reported is the number of formatting calls that returned: the texts themselves may straddle another thread's
            // registration, this operation being several calls)
            let mut done = 0usize;
            for line in bc_envelope::with_format_context!(|ctx: &bc_envelope::FormatContext| e.tree_format_opt(false, Some(ctx))).lines().cycle().take(2) { if !line.is_empty() && !e.format_flat().is_empty() { done += 1; } }
            match bc_envelope::with_format_context!(|ctx: &bc_envelope::FormatContext| e.format_opt(Some(ctx))).is_empty() { false => { if !e.tree_format(false).is_empty() { done += 1; } } true => {} }
            format!("completed {}", done)
        }
        // the one-line summary of a request (what a logging statement prints)
        "request_summary" => { let r = bc_envelope::Request::new_with_body(Expression::new(bc_envelope::functions::ADD).with_parameter(bc_envelope::parameters::LHS, 2), bc_components::ARID::from_data_ref([5u8; 32]).unwrap()); use bc_envelope::RequestBehavior; let _ = r.id(); r.summary() }
        // every lookup door of a registry store, under one guard (registered and unregistered values, both directions)
        "kv_store" => {
            use bc_envelope::extension::known_values::KnownValuesStore;
            let b = known_values::KNOWN_VALUES.get(); let st = b.as_ref();
            let s = st.unwrap();
            format!("{:?}|{:?}|{}|{}|{:?}|{:?}|{}|{}|{:?}", s.known_value_named("note").map(|k| k.value()), s.known_value_named("no such name").map(|k| k.value()),
                KnownValuesStore::known_value_for_raw_value(4, st).name(), KnownValuesStore::known_value_for_raw_value(4711, st).name(),
                KnownValuesStore::known_value_for_name("isA", st).map(|k| k.value()), KnownValuesStore::known_value_for_name("nope", st).map(|k| k.value()),
                KnownValuesStore::name_for_known_value(known_values::NOTE, st), KnownValuesStore::name_for_known_value(KnownValue::new(4711), st), s.assigned_name(&known_values::IS_A))
        }
        "fn_store" => {
            use bc_envelope::extension::expressions::FunctionsStore;
            let b = bc_envelope::extension::expressions::GLOBAL_FUNCTIONS.get(); let st = b.as_ref();
            format!("{}|{}|{:?}|{}", FunctionsStore::name_for_function(&bc_envelope::functions::ADD, st), FunctionsStore::name_for_function(&bc_envelope::Function::new_named("custom"), st),
                st.unwrap().assigned_name(&bc_envelope::functions::SUB), FunctionsStore::name_for_function(&bc_envelope::Function::new_known(4711, None), st))
        }
        "param_store" => {
            use bc_envelope::extension::expressions::ParametersStore;
            let b = bc_envelope::extension::expressions::GLOBAL_PARAMETERS.get(); let st = b.as_ref();
            format!("{}|{}|{:?}|{}", ParametersStore::name_for_parameter(&bc_envelope::parameters::LHS, st), ParametersStore::name_for_parameter(&bc_envelope::Parameter::new_named("custom"), st),
                st.unwrap().assigned_name(&bc_envelope::parameters::RHS), ParametersStore::name_for_parameter(&bc_envelope::Parameter::new_known(4711, None), st))
        }
        _ => String::new(),
    }
}

/// child: trace one operation on first use and again in steady state
pub fn trace_one(op: &str) {
    let es = sample_envelopes();
    bc_envelope::verif_trace::start();
    let _ = run_op(op, &es[0]);
    let first = bc_envelope::verif_trace::stop();
    bc_envelope::verif_trace::start();
    let _ = run_op(op, &es[1]);
    let steady = bc_envelope::verif_trace::stop();
    // a third call, on an envelope holding known values that are in no registry
    bc_envelope::verif_trace::start();
    let _ = run_op(op, &es[4]);
    let steady2 = bc_envelope::verif_trace::stop();
    println!("op {}", op);
    for l in first { println!("first {}", l); }
    for l in steady { println!("steady {}", l); }
    for l in steady2 { println!("steady2 {}", l); }
}

/// child: N threads start from a barrier and run a mix of operations; prints one line per call
pub fn stress_one(threads: usize, seed: u64, warm: bool, calls: usize) { stress_one_focus(threads, seed, warm, calls, None) }

pub fn stress_one_focus(threads: usize, seed: u64, warm: bool, calls: usize, forced_focus: Option<String>) {
    let es = Arc::new(sample_envelopes_sendable());
    if warm { for op in OPS { let _ = run_op_bytes(op, &es[0]); } }
    if seed % 4 == 1 {
        // a formatting call that panics inside the library (dependency defect, see known findings of C16) and is caught by its
        // caller must leave every later formatting call unaffected
        let bad = Envelope::new(CBOR::to_tagged_value(1u64, 1.0e20f64)).tagged_cbor().to_cbor_data();
        for op in ["format_flat", "format", "tree_format"] { let b = bad.clone(); let _ = std::panic::catch_unwind(move || run_op_bytes(op, &b)); }
        println!("note caught-panic-before-race");
    }
    if forced_focus.as_deref() == Some("poison") || (!warm && seed % 16 == 11) {
        // application threads died while holding a registry guard (a lookup that panicked under the guard), before the format context
        // was ever used: every later call still completes - the locks recover from poisoning
        for which in 0..3 {
            let _ = std::thread::spawn(move || {
                match which {
                    0 => { let g = known_values::KNOWN_VALUES.get(); let _n = g.as_ref().map(|s| s.name(known_values::NOTE)); panic!("worker died holding the known-values guard"); }
                    1 => { let g = bc_envelope::extension::expressions::GLOBAL_FUNCTIONS.get(); let _n = g.as_ref().map(|s| s.name(&bc_envelope::functions::ADD)); panic!("worker died holding the functions guard"); }
                    _ => { let g = bc_envelope::extension::expressions::GLOBAL_PARAMETERS.get(); let _n = g.as_ref().map(|s| s.name(&bc_envelope::parameters::LHS)); panic!("worker died holding the parameters guard"); }
                }
            }).join();
        }
        println!("note workers-died-holding-registry-guards");
    }
    let barrier = Arc::new(Barrier::new(threads));
    let mut hs = vec![];
    // in some runs thread 0 is an application that keeps adding its own tags to the shared context and formats values
    // carrying them, while the other threads (re-)register the standard tags and format: what it wrote must stay written
    let writer = seed % 4 == 2 || seed % 4 == 3;
    // first-use races (never in warmed-up runs): one thread sits on the known-values guard while the others make their first
    // formatting call; or every thread starts with the same operation, so that several threads race on one lazy's first use
    let forced_holder = forced_focus.as_deref() == Some("holder");
    let holder = forced_holder || (!warm && threads >= 2 && seed % 8 == 4);
    let focus: Option<&'static str> = match &forced_focus {
        Some(f) if f == "holder" => Some("format"),
        Some(f) => OPS.iter().find(|o| **o == f.as_str()).copied(),
        None => if !warm && (seed % 8 == 5 || seed % 8 == 0) { Some(OPS[((seed / 8) % OPS.len() as u64) as usize]) } else { None },
    };
    // in warmed-up runs: an application thread that formats while it still holds the guard it took for known-value lookups (the
    // reference it got from the store borrows from that guard); steady-state formatting needs no registry, so this completes
    let guard_formatter = forced_focus.as_deref() == Some("guardfmt") || (warm && threads >= 2 && seed % 8 == 6);
    if guard_formatter { println!("note guard-formatter-role"); }
    let own_formatters = forced_focus.as_deref() == Some("ownfmt");
    for t in 0..threads {
        let (es, barrier) = (es.clone(), barrier.clone());
        hs.push(std::thread::spawn(move || {
            let mut rng = crate::rng::Rng::new(seed ^ (t as u64).wrapping_mul(0x9E3779B97F4A7C15));
            let mut out = vec![];
            barrier.wait();
            if writer && t == 0 {
                for k in 0..calls * 8 {
                    let r = std::panic::catch_unwind(|| custom_round(k));
                    match r { Ok(true) => out.push(format!("custom {} {} kept", t, k)), Ok(false) => out.push(format!("custom {} {} lost", t, k)), Err(_) => out.push(format!("panic {} custom {}", t, k)) }
                }
                return out;
            }
            if holder && t == threads - 1 {
                // an application thread that does a batch of known-value lookups under one guard, right at first use
                let r = std::panic::catch_unwind(|| {
                    let g = known_values::KNOWN_VALUES.get();
                    let store = g.as_ref().unwrap();
                    let mut n = 0usize;
                    for _ in 0..200 { n += store.name(known_values::NOTE).len() + store.name(known_values::IS_A).len(); }
                    std::thread::sleep(std::time::Duration::from_millis(40));
                    n
                });
                out.push(match r { Ok(_) => format!("note {} held-known-values-guard", t), Err(_) => format!("panic {} kv-holder 0", t) });
            }
            if own_formatters {
                // every thread formats the deep sample with a context of its own, over and over: no lock is held while they run
                let deep = es.len() - 1;
                for call in 0..calls * 3 {
                    let i = if call % 4 == 3 { rng.below(es.len()) } else { deep };
                    let op = if call % 5 == 4 { "format" } else { "format_own" };
                    let r = std::panic::catch_unwind(|| run_op_bytes(op, &es[i]));
                    match r { Ok(text) => out.push(format!("call {} {} {} {:016x}", t, op, i, fnv(&text))), Err(_) => out.push(format!("panic {} {} {}", t, op, i)) }
                }
                return out;
            }
            if guard_formatter && t == threads - 1 {
                for call in 0..calls {
                    let op = ["tree_format", "format", "format_flat", "diagnostic_annotated"][call % 4];
                    let i = if call % 2 == 0 { 4 } else { rng.below(es.len()) };   // the envelope with unregistered known values, often
                    let r = std::panic::catch_unwind(|| {
                        let g = known_values::KNOWN_VALUES.get();
                        let name = g.as_ref().unwrap().name(known_values::NOTE);
                        let text = run_op_bytes(op, &es[i]);
                        drop(g);
                        (name, text)
                    });
                    match r { Ok((_, text)) => out.push(format!("call {} {} {} {:016x}", t, op, i, fnv(&text))), Err(_) => out.push(format!("panic {} {} {}", t, op, i)) }
                }
                return out;
            }
            for call in 0..calls {
                // next to a writer, registration is what races with it; in "focus" runs every thread's first call is the same operation
                let op = if call == 0 && focus.is_some() { focus.unwrap() } else if writer && rng.chance(1, 2) { "register_tags" } else { OPS[rng.below(OPS.len())] };
                let i = rng.below(es.len());
                let r = std::panic::catch_unwind(|| run_op_bytes(op, &es[i]));
                match r { Ok(text) => out.push(format!("call {} {} {} {:016x}", t, op, i, fnv(&text))), Err(_) => out.push(format!("panic {} {} {}", t, op, i)) }
            }
            out
        }));
    }
    for h in hs { match h.join() { Ok(lines) => for l in lines { println!("{}", l); }, Err(_) => println!("thread-died") } }
    println!("done");
}

/// one round of an application that extends the shared format context: add a tag of its own, then format a value carrying
/// it; run alone this always shows the tag's name
fn custom_round(k: usize) -> bool {
    let tagv = 800_000 + k as u64;
    let name = format!("app-{}", k);
    bc_envelope::with_format_context_mut!(|ctx: &mut bc_envelope::FormatContext| { ctx.tags_mut().insert(Tag::new(tagv, name.clone())); });
    let e = Envelope::new(CBOR::to_tagged_value(tagv, "payload"));
    let annotated = e.diagnostic_annotated();
    annotated.contains(&name)
}

/// envelopes cross threads as bytes (the default build's `Envelope` is not `Send`)
fn sample_envelopes_sendable() -> Vec<Vec<u8>> { sample_envelopes().iter().map(|e| e.tagged_cbor().to_cbor_data()).collect() }

fn run_op_bytes(op: &str, b: &[u8]) -> String {
    // the registry lookups do not look at the envelope: no decoding in front of them, so that threads released together really
    // arrive at the lazy together
    if matches!(op, "kv_name" | "fn_name" | "param_name" | "register_tags" | "kv_store" | "fn_store" | "param_store" | "request_summary") { return run_op(op, &Envelope::new(0)); }
    // NOTE: decoding takes dcbor's GLOBAL_TAGS lock briefly (Envelope::cbor_tags) - part of the mix
    let e = Envelope::from_tagged_cbor_data(b).unwrap();
    run_op(op, &e)
}

/// child: sequential reference - the text each (op, envelope) returns when run alone, in a
/// process where `register_tags` has (1) or has not (0) been called before
pub fn expected_one(registrations: usize) {
    for _ in 0..registrations { bc_envelope::register_tags(); }
    let es = sample_envelopes_sendable();
    for op in OPS { if *op == "register_tags" { continue; } for (i, b) in es.iter().enumerate() { println!("{} {} {:016x}", op, i, fnv(&run_op_bytes(op, b))); } }
}

/// child: run alone, after one registration - every door of the formatting API gives the text of its canonical form
/// (`format` = `format_opt` with the global context, `format_flat` = the flat flag, `tree_format*` = `tree_format_with_target_opt`
/// with no target, `hex` = `hex_opt` annotated).  Prints one line per disagreement.
pub fn variants_one() {
    use bc_envelope::{with_format_context, FormatContext};
    bc_envelope::register_tags();
    for (i, b) in sample_envelopes_sendable().iter().enumerate() {
        let e = Envelope::from_tagged_cbor_data(b.clone()).unwrap();
        let mut check = |name: &str, a: String, bb: String| { if a != bb { println!("variant-differs {} sample {}: {:?} vs {:?}", name, i, &a[..a.len().min(80)], &bb[..bb.len().min(80)]); } };
        check("format_opt", e.format(), with_format_context!(|ctx: &FormatContext| e.format_opt(Some(ctx))));
        check("format_flat", e.format_flat(), with_format_context!(|ctx: &FormatContext| { let f = ctx.clone().set_flat(true); assert!(f.is_flat() && !ctx.is_flat()); e.format_opt(Some(&f)) }));
        for hide in [false, true] {
            check("tree_format_opt", e.tree_format(hide), with_format_context!(|ctx: &FormatContext| e.tree_format_opt(hide, Some(ctx))));
            check("tree_format_with_target", e.tree_format(hide), e.tree_format_with_target(hide, &std::collections::HashSet::new()));
            check("tree_format_with_target_opt", e.tree_format(hide), with_format_context!(|ctx: &FormatContext| e.tree_format_with_target_opt(hide, &std::collections::HashSet::new(), Some(ctx))));
        }
        check("hex_opt", e.hex(), with_format_context!(|ctx: &FormatContext| e.hex_opt(true, Some(ctx))));
        // a context of the caller's own, registered the same way, is usable and flat by request only
        let mut own = FormatContext::default(); bc_envelope::register_tags_in(&mut own);
        let _ = e.format_opt(Some(&own)); let _ = e.tree_format_opt(false, Some(&own)); let _ = e.hex_opt(true, Some(&own)); let _ = e.format_opt(None); let _ = e.hex_opt(false, None);
    }
    println!("variants-done");
}

fn spawn_self(args: &[String], timeout: Duration) -> Result<String, String> {
    let exe = std::env::current_exe().map_err(|e| e.to_string())?;
    let mut child = Command::new(exe).args(args).stdout(Stdio::piped()).stderr(Stdio::null()).spawn().map_err(|e| e.to_string())?;
    let t0 = Instant::now();
    loop {
        match child.try_wait() {
            Ok(Some(_)) => break,
            Ok(None) => { if t0.elapsed() > timeout { let _ = child.kill(); let _ = child.wait(); return Err("timeout".into()); } std::thread::sleep(Duration::from_millis(5)); }
            Err(e) => return Err(e.to_string()),
        }
    }
    let mut s = String::new();
    child.stdout.take().unwrap().read_to_string(&mut s).map_err(|e| e.to_string())?;
    Ok(s)
}

/// parent: traces of every operation (fresh process each) and the stress campaign; writes
/// `traces.txt`, `stress.json` into `outdir`
pub fn campaign(outdir: &str, seed: u64, thorough: bool) {
    std::fs::create_dir_all(outdir).unwrap();
    let mut traces = String::new();
    let mut alone_timeouts: Vec<String> = vec![];
    for op in OPS {
        match spawn_self(&["c20-trace-one".into(), op.to_string()], Duration::from_secs(30)) { Ok(s) => traces.push_str(&s), Err(e) => { if e == "timeout" { alone_timeouts.push(format!("operation {} run alone on one thread (first use, then again) never returns", op)); } traces.push_str(&format!("op {}\nerror {}\n", op, e)) } }
    }
    std::fs::write(format!("{}/traces.txt", outdir), &traces).unwrap();
    let table = |reg: &str| -> std::collections::HashSet<String> { spawn_self(&["c20-expected-one".into(), reg.into()], Duration::from_secs(60)).unwrap_or_default().lines().map(|l| l.to_string()).collect() };
    let (before, after) = (table("0"), table("1"));
    // registering the tags is idempotent: run alone, a second and a third registration change no text (otherwise what a
    // formatting call returns next to a registering thread depends on how many registrations have happened so far)
    let again: Vec<(usize, std::collections::HashSet<String>)> = vec![(2, table("2")), (4, table("4"))];
    let mut rng = crate::rng::Rng::new(seed);
    // (an operation that deadlocks on its own is the finding; the concurrent runs would only time out one after the other)
    let rounds = if !alone_timeouts.is_empty() { 0 } else if thorough { 400 } else { 48 };
    let (mut runs, mut calls_checked, mut mismatches, mut timeouts, mut panics) = (0u64, 0u64, vec![], vec![], vec![]);
    timeouts.extend(alone_timeouts.iter().cloned());
    let mut samples = vec![];
    if before.is_empty() || after.is_empty() { panics.push("could not compute the sequential reference tables".to_string()); }
    match spawn_self(&["c20-variants-one".into()], Duration::from_secs(60)) {
        Ok(out) => { if !out.lines().any(|l| l == "variants-done") { panics.push("the formatting-variants run did not finish".to_string()); }
                     for l in out.lines().filter(|l| l.starts_with("variant-differs")) { mismatches.push(format!("run alone: {}", l)); } }
        Err(e) => timeouts.push(format!("formatting variants: {}", e)),
    }
    for (n, t) in &again {
        let mut diff: Vec<&String> = t.symmetric_difference(&after).collect(); diff.sort();
        if let Some(d) = diff.first() { mismatches.push(format!("run alone: after {} calls of register_tags the text differs from the text after one call: {} ({} table lines differ)", n, d, diff.len())); }
    }
    // first the systematic part: for every operation, fresh processes in which all threads make that operation their very first
    // call (several threads race on the first use of one lazy); then the random mixes
    let mut plan: Vec<(usize, bool, u64, Option<String>)> = vec![];
    let reps = if thorough { 12 } else { 3 };
    for op in OPS { for rep in 0..reps { for threads in [2usize, 8] { let _ = rep; plan.push((threads, false, rng.next() | 7, Some(op.to_string()))); } } }
    for rep in 0..(reps * 2) { plan.push(([2usize, 3, 8][rep % 3], false, rng.next(), Some("holder".to_string()))); }
    for rep in 0..(reps * 2) { plan.push(([2usize, 4, 8][rep % 3], true, rng.next(), Some("guardfmt".to_string()))); }
    for rep in 0..(reps * 2) { plan.push(([4usize, 8, 16][rep % 3], rep % 2 == 0, rng.next(), Some("ownfmt".to_string()))); }
    for rep in 0..reps { plan.push(([2usize, 8][rep % 2], false, rng.next(), Some("poison".to_string()))); }
    for r in 0..rounds { plan.push(([2usize, 3, 4, 8, 16][r % 5], r % 3 == 2, rng.next(), None)); }
    for (threads, warm, s, focus) in plan {
        // three runs that never finished are enough to report; every further one costs a full watchdog period
        if timeouts.len() >= 3 { break; }
        let mut args: Vec<String> = vec!["c20-stress-one".into(), threads.to_string(), s.to_string(), (warm as u8).to_string(), "12".into()];
        if let Some(f) = &focus { args.push(f.clone()); }
        runs += 1;
        let mut res = spawn_self(&args, Duration::from_secs(60));
        if matches!(res, Err(ref e) if e == "timeout") {
            // report a suspected deadlock only when it reproduces
            res = spawn_self(&args, Duration::from_secs(60));
            if res.is_err() { timeouts.push(format!("threads={} seed={} warm={}", threads, s, warm)); continue; }
        }
        match res {
            Ok(out) => {
                if !out.lines().any(|l| l == "done") { panics.push(format!("threads={} seed={} warm={}: child did not finish", threads, s, warm)); }
                // per thread: after its own register_tags call only the after-registration text is acceptable;
                // before that a registration by another thread may or may not have happened
                let mut registered: std::collections::HashSet<String> = Default::default();
                for l in out.lines() {
                    let t: Vec<&str> = l.split(' ').collect();
                    if t[0] == "call" && t.len() == 5 {
                        calls_checked += 1;
                        if t[2] == "register_tags" { registered.insert(t[1].to_string()); continue; }
                        let key = format!("{} {} {}", t[2], t[3], t[4]);
                        let ok = if registered.contains(t[1]) || warm { after.contains(&key) || (warm && before.contains(&key) && !registered.contains(t[1])) } else { before.contains(&key) || after.contains(&key) };
                        if !ok { mismatches.push(format!("threads={} seed={} warm={}: {}", threads, s, warm, l)); }
                    }
                    if t[0] == "custom" && t.len() == 4 { calls_checked += 1; if t[3] != "kept" { mismatches.push(format!("threads={} seed={} warm={}: a tag the thread itself added to the format context is gone when it formats: {}", threads, s, warm, l)); } }
                    if l.starts_with("panic ") || l == "thread-died" { panics.push(format!("threads={} seed={} warm={}: {}", threads, s, warm, l)); }
                }
                if samples.len() < 3 { samples.push(format!("threads={} warm={} -> {}", threads, warm, out.lines().take(4).collect::<Vec<_>>().join(" | "))); }
            }
            Err(e) => panics.push(format!("threads={} seed={}: {}", threads, s, e)),
        }
    }
    let js = |v: &Vec<String>| v.iter().map(|s| format!("{:?}", s)).collect::<Vec<_>>().join(",");
    let j = format!("{{\"runs\":{},\"calls_checked\":{},\"mismatches\":[{}],\"timeouts\":[{}],\"panics\":[{}],\"samples\":[{}]}}\n", runs, calls_checked, js(&mismatches), js(&timeouts), js(&panics), js(&samples));
    std::fs::write(format!("{}/stress.json", outdir), j).unwrap();
}
