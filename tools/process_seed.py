#!/usr/bin/env python3
"""process_seed.py Cxx k [extra props...] : confirm a seeded change in its scratch worktree, run the
checks against it in /repo (apply, run, undo) and store it under /verif/seeded/Cxx-k/"""
import json, os, re, shutil, subprocess, sys
P, K = sys.argv[1], sys.argv[2]
props = [P] + sys.argv[3:]
out = "/tmp/seed/out_%s/%s" % (P, K)
dst = "/verif/seeded/%s-%s" % (P, K)
os.makedirs(dst, exist_ok=True)
r = subprocess.run(["/verif/tools/confirm_seed.sh", P, K], capture_output=True, text=True).stdout
lines = [l for l in r.splitlines() if l.startswith(("==", "test result", "PATCH", "error"))]
clean_ok = suite_ok = demo_fails = False
sec = ""
for l in r.splitlines():
    if l.startswith("=="): sec = l
    if "clean tree" in sec and l.startswith("test result: ok"): clean_ok = True
    if "existing suite" in sec and re.match(r"\d+ passed 0 failed", l): suite_ok = True
    if "demonstration must fail" in sec and l.startswith("test result: FAILED"): demo_fails = True
confirmed = clean_ok and suite_ok and demo_fails
res = {}
if confirmed and not os.environ.get('SKIP_RUN'):
    rr = subprocess.run(["/verif/tools/run_seed.sh", out + "/patch.diff"] + props, capture_output=True, text=True, env=dict(os.environ, TIER=os.environ.get("TIER", "quick"))).stdout
    for p in props:
        v = [l for l in rr.splitlines() if ("property=%s " % p) in l and l.startswith(("VIOLATION", "OK"))]
        res[p] = v[-1][:200] if v else "no verdict: " + rr[-300:]
for f in ("patch.diff", "notes.md"):
    if os.path.exists(os.path.join(out, f)): shutil.copy(os.path.join(out, f), dst)
demos = [f for f in os.listdir(out) if f.endswith(".rs")]
for f in demos: shutil.copy(os.path.join(out, f), dst)
notes = open(os.path.join(out, "notes.md")).read() if os.path.exists(os.path.join(out, "notes.md")) else ""
meta = {"property": P, "seed": K, "confirmed_by_me": confirmed, "confirmation": {"demo_passes_on_clean_tree": clean_ok, "existing_suite_passes_with_change": suite_ok, "demo_fails_with_change": demo_fails, "log": lines},
        "needs_to_manifest": (notes[:1200]), "ran": "tools/confirm_seed.sh %s %s ; TIER=%s tools/run_seed.sh patch.diff %s" % (P, K, os.environ.get("TIER", "quick"), " ".join(props)),
        "check_verdicts": res, "caught": any(v.startswith("VIOLATION") for v in res.values())}
json.dump(meta, open(os.path.join(dst, "meta.json"), "w"), indent=1)
print(P, K, "confirmed" if confirmed else "NOT-CONFIRMED", json.dumps(res))
