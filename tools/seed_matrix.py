#!/usr/bin/env python3
"""seed_matrix.py [--tier quick|thorough] [ids...] : apply every seeded change under /verif/seeded to /repo (one at a time), run the
check of the property it breaks (plus the extra checks named in its meta.json under "also_run"), undo it, and record the verdicts in
meta.json ("check_verdicts_now", "caught") and in seeded/MATRIX.md.  /repo is restored after every change."""
import json, os, subprocess, sys, time
V = os.environ.get("VERIF_ROOT", "/verif")
tier = "quick"
vseeds = ["1"]
ids = []
a = sys.argv[1:]
while a:
    x = a.pop(0)
    if x == "--tier": tier = a.pop(0)
    elif x == "--seeds": vseeds = a.pop(0).split(",")
    else: ids.append(x)
seeds = sorted(d for d in os.listdir(V + "/seeded") if os.path.isdir(V + "/seeded/" + d) and (not ids or d in ids))
rows = []
for s in seeds:
    d = "%s/seeded/%s" % (V, s)
    meta = json.load(open(d + "/meta.json"))
    props = [meta["property"]] + meta.get("also_run", [])
    assert subprocess.run(["git", "-C", "/repo", "status", "--porcelain", "--untracked-files=no"], capture_output=True, text=True).stdout.strip() == "", "/repo not clean"
    r = subprocess.run(["git", "-C", "/repo", "apply", d + "/patch.diff"], capture_output=True, text=True)
    if r.returncode != 0:
        print(s, "PATCH DOES NOT APPLY", r.stderr[:200]); rows.append((s, meta["property"], "patch does not apply", "")); continue
    verdicts = {}
    try:
        for p in props:
            for vs in vseeds:
                t0 = time.time()
                out = subprocess.run([V + "/check", p, "--tier", tier], capture_output=True, text=True, cwd=V, env=dict(os.environ, VERIF_SEED=vs)).stdout
                v = [l for l in out.splitlines() if l.startswith(("VIOLATION", "OK ", "HARNESS"))]
                verdicts[p if vs == vseeds[0] else "%s@seed%s" % (p, vs)] = (v[-1][:160] if v else "no verdict") + " (%.0fs)" % (time.time() - t0)
    finally:
        subprocess.run(["git", "-C", "/repo", "checkout", "--", "."])
    caught = all(v.startswith("VIOLATION") for v in verdicts.values()) if len(vseeds) > 1 else any(v.startswith("VIOLATION") for v in verdicts.values())
    witness = any(v.startswith("VIOLATION") and "no-failing-input-found" not in v for v in verdicts.values())
    meta["check_verdicts_now"] = verdicts; meta["caught"] = caught; meta["caught_with_failing_input"] = witness; meta["tier_run"] = tier
    json.dump(meta, open(d + "/meta.json", "w"), indent=1)
    nv = sum(1 for v in verdicts.values() if v.startswith("VIOLATION"))
    label = ("caught (failing input)" if witness else "caught (correspondence/proof only)") if caught else ("caught on %d of %d runs" % (nv, len(verdicts)) if nv else "MISSED")
    rows.append((s, meta["property"], label, "; ".join("%s: %s" % kv for kv in verdicts.items())))
    print(rows[-1][0], rows[-1][2], flush=True)
# rebuild the harness against the restored tree
subprocess.run(["cargo", "build", "--release", "--offline"], cwd=V + "/harness", capture_output=True)
if not ids:
    with open(V + "/seeded/MATRIX.md", "w") as f:
        f.write("# Seeded changes vs checks (tier %s)\n\n| seed | property | verdict | detail |\n|---|---|---|---|\n" % tier)
        for r in rows: f.write("| %s | %s | %s | %s |\n" % (r[0], r[1], r[2], r[3].replace("|", "/")))
print("caught %d / %d" % (sum(1 for r in rows if r[2].startswith("caught (")), len(rows)))
