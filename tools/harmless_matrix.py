#!/usr/bin/env python3
"""harmless_matrix.py [ids...] : apply every behaviour-preserving change under /verif/harmless/<id>/patch.diff to /repo (one at a
time), run EVERY property's quick check, undo it, and record the verdicts (meta.json, harmless/MATRIX.md).  A VIOLATION here is an
alarm raised on code where the properties hold."""
import json, os, subprocess, sys, time
V = os.environ.get("VERIF_ROOT", "/verif")
ids = sys.argv[1:]
root = V + "/harmless"
items = sorted(d for d in os.listdir(root) if os.path.isdir(os.path.join(root, d)) and (not ids or d in ids))
props = ["C%02d" % i for i in range(1, 21)]
rows = []
for s in items:
    d = os.path.join(root, s)
    assert subprocess.run(["git", "-C", "/repo", "status", "--porcelain", "--untracked-files=no"], capture_output=True, text=True).stdout.strip() == "", "/repo not clean"
    r = subprocess.run(["git", "-C", "/repo", "apply", d + "/patch.diff"], capture_output=True, text=True)
    if r.returncode != 0:
        print(s, "PATCH DOES NOT APPLY", r.stderr[:200]); rows.append((s, "patch does not apply", "")); continue
    verdicts = {}
    try:
        for p in props:
            out = subprocess.run([V + "/check", p, "--tier", "quick"], capture_output=True, text=True, cwd=V).stdout
            v = [l for l in out.splitlines() if l.startswith(("VIOLATION", "OK ", "HARNESS"))]
            verdicts[p] = v[-1][:200] if v else "no verdict"
    finally:
        subprocess.run(["git", "-C", "/repo", "checkout", "--", "."])
    alarms = {p: v for p, v in verdicts.items() if not v.startswith("OK ")}
    meta = {}
    if os.path.exists(d + "/meta.json"): meta = json.load(open(d + "/meta.json"))
    meta.update({"id": s, "alarms": alarms, "checks_run": len(verdicts), "quiet": not alarms})
    json.dump(meta, open(d + "/meta.json", "w"), indent=1)
    rows.append((s, "quiet (20/20 OK)" if not alarms else "ALARM: " + ", ".join(sorted(alarms)), "; ".join("%s: %s" % kv for kv in alarms.items())))
    print(rows[-1][0], rows[-1][1], flush=True)
subprocess.run(["cargo", "build", "--release", "--offline"], cwd=V + "/harness", capture_output=True)
if not ids:
    with open(root + "/MATRIX.md", "w") as f:
        f.write("# Behaviour-preserving changes vs all quick checks\n\n| change | verdict | detail |\n|---|---|---|\n")
        for r in rows: f.write("| %s | %s | %s |\n" % (r[0], r[1], r[2].replace("|", "/")))
print("quiet on %d / %d" % (sum(1 for r in rows if r[1].startswith("quiet")), len(rows)))
