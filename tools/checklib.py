#!/usr/bin/env python3
"""Orchestration of one property check: proofs + audit, harness build, implementation run,
model run, comparison, violation search, evidence."""
import fcntl, hashlib, json, os, re, subprocess, sys, time

VERIF = os.path.dirname(os.path.dirname(os.path.abspath(__file__)))
LEAN = os.path.join(VERIF, "lean")
HARNESS = os.path.join(VERIF, "harness")
BUILD = os.path.join(VERIF, ".build")
EVH = os.path.join(BUILD, "target", "release", "evh")
ENVDRV = os.path.join(LEAN, ".lake", "build", "bin", "envdrv")
ALLOWED_AXIOMS = {"propext", "Classical.choice", "Quot.sound"}
ENV = dict(os.environ, CARGO_NET_OFFLINE="true")

TRUSTED_BASE = [
    "Lean 4.33 kernel; axioms allowed in property theorems: propext, Classical.choice, Quot.sound (audited by #print axioms on every run); no sorry/admit/native_decide/bv_decide/user axioms",
    "hand-written Lean model of bc-envelope (lean/EnvVerif/Model); its fidelity to /repo is checked by differential execution of generated scenarios (correspondence), which sees what the generators reach",
    "EVL interpreter and canonicaliser in the Rust harness (harness/src/interp.rs) and in Lean (Model/Interp.lean)",
    "dependencies modelled by stated laws, not verified: SHA-256 (bc-crypto; the model computes it with its own implementation and digests are compared), ChaCha20-Poly1305, signatures, KEMs, SSKR, DEFLATE/CRC-32 of compressed elements, RNG, dcbor byte codec (NFC, Date, float reduction)",
    "the `saltrange` observation: the two products of the proportional salt range are rounded with the compiled driver's IEEE doubles (Float; part of the driver, of no theorem - the theorems quantify over the rounded values), and the range is read off add_salt_using under constant generators, relying on bc-rand's multiply-and-take-the-high-word range selection as read from its source",
    "the harness is built with overflow-checks = true: arithmetic overflow in /repo panics in the checks as it would in a debug build",
    "dependencies modelled concretely and compared byte for byte by the correspondence check: the dCBOR tree codec, dcbor's map ordered by encoded key (sets and maps as content), bytewords (minimal) + CRC-32 + UR framing of bc-ur / ur (ASCII input only)",
]


def sh(cmd, cwd=None, timeout=None, inp=None):
    p = subprocess.run(cmd, cwd=cwd, env=ENV, stdout=subprocess.PIPE, stderr=subprocess.STDOUT, text=True, timeout=timeout, input=inp)
    return p.returncode, p.stdout


class Lock:
    def __init__(self, name):
        os.makedirs(BUILD, exist_ok=True)
        self.path = os.path.join(BUILD, name + ".lock")
    def __enter__(self):
        self.f = open(self.path, "w")
        fcntl.flock(self.f, fcntl.LOCK_EX)
    def __exit__(self, *a):
        fcntl.flock(self.f, fcntl.LOCK_UN)
        self.f.close()


# ---------------------------------------------------------------- proofs

def theorem_list(prop):
    """names listed in Props/<prop>.lean under `-- THEOREMS:` markers: every `theorem X` in the file"""
    path = os.path.join(LEAN, "EnvVerif", "Props", prop + ".lean")
    if not os.path.exists(path):
        return [], path
    names = []
    src = strip_comments(open(path).read())
    ns = []
    for line in src.splitlines():
        m = re.match(r"\s*namespace\s+(\S+)", line)
        if m: ns.append(m.group(1))
        m = re.match(r"\s*end\s+(\S+)", line)
        if m and ns and ns[-1] == m.group(1): ns.pop()
        m = re.match(r"\s*(?:@\[[^\]]*\]\s*)*(?:protected\s+|private\s+)?theorem\s+([^\s:({\[]+)", line)
        if m: names.append(".".join(ns + [m.group(1)]))
    return names, path


def strip_comments(src):
    out, i, depth = [], 0, 0
    while i < len(src):
        if src.startswith("/-", i):
            depth += 1; i += 2; continue
        if depth and src.startswith("-/", i):
            depth -= 1; i += 2; continue
        if depth:
            if src[i] == "\n": out.append("\n")
            i += 1; continue
        if src.startswith("--", i):
            j = src.find("\n", i)
            i = len(src) if j < 0 else j
            continue
        out.append(src[i]); i += 1
    return "".join(out)


FORBIDDEN = re.compile(r"\bsorry\b|\badmit\b|^\s*axiom\s|native_decide|bv_decide|implemented_by|\bunsafe\s|maxHeartbeats\s+0\b", re.M)


def source_audit():
    bad = []
    for root, _, files in os.walk(os.path.join(LEAN, "EnvVerif")):
        for f in files:
            if f.endswith(".lean"):
                p = os.path.join(root, f)
                src = strip_comments(open(p).read())
                for m in FORBIDDEN.finditer(src):
                    bad.append("%s: %s" % (os.path.relpath(p, LEAN), m.group(0).strip()))
    return bad


def prove(prop, thorough):
    """build the property's theorem module and the driver; audit axioms. returns dict"""
    names, path = theorem_list(prop)
    res = {"theorems": names, "obligations": len(names), "discharged": 0, "axioms": {}, "failed": [], "log": ""}
    with Lock("lake"):
        rc, out = sh(["lake", "build", "EnvVerif.Props." + prop, "envdrv"], cwd=LEAN, timeout=3000)
        res["log"] = out[-4000:]
        if rc != 0:
            res["failed"] = names or ["EnvVerif.Props." + prop]
            res["build_failed"] = True
            # the driver may still be buildable on its own
            sh(["lake", "build", "envdrv"], cwd=LEAN, timeout=3000)
            return res
        bad = source_audit()
        if bad:
            res["failed"] = names
            res["audit"] = bad
            return res
        # #print axioms for every theorem
        audit = "import EnvVerif.Props.%s\n" % prop + "".join("#print axioms %s\n" % n for n in names)
        ap = os.path.join(BUILD, "audit_%s.lean" % prop)
        open(ap, "w").write(audit)
        rc, out = sh(["lake", "env", "lean", ap], cwd=LEAN, timeout=3000)
        cur = None
        axioms = {}
        for chunk in re.split(r"(?=^'[^']+' (?:depends on axioms|does not depend on any axioms))", out, flags=re.M):
            m = re.match(r"'([^']+)' depends on axioms: \[([^\]]*)\]", chunk.replace("\n", " "))
            if m:
                axioms[m.group(1)] = [a.strip() for a in m.group(2).split(",") if a.strip()]
                continue
            m = re.match(r"'([^']+)' does not depend on any axioms", chunk)
            if m: axioms[m.group(1)] = []
        for n in names:
            full = n
            if full not in axioms:
                res["failed"].append(n); continue
            res["axioms"][n] = axioms[full]
            if set(axioms[full]) <= ALLOWED_AXIOMS: res["discharged"] += 1
            else: res["failed"].append(n)
        if thorough:
            rc, out = sh(["lake", "env", "leanchecker", "EnvVerif.Props." + prop], cwd=LEAN, timeout=3000)
            res["leanchecker_rc"] = rc
            if rc != 0:
                res["failed"] = names; res["discharged"] = 0; res["log"] += out[-2000:]
    return res


# ---------------------------------------------------------------- harness

def build_harness():
    with Lock("cargo"):
        lock_src = "/repo/Cargo.lock"
        lock_dst = os.path.join(HARNESS, "Cargo.lock")
        if os.path.exists(lock_src) and not os.path.exists(lock_dst):
            open(lock_dst, "w").write(open(lock_src).read())
        rc, out = sh(["cargo", "build", "--release", "--offline"], cwd=HARNESS, timeout=3000)
        return rc, out


def normalise(line):
    """canonical form of an observation line for comparison: error kinds and panic sites are not compared"""
    toks = line.split(" ")
    for i, t in enumerate(toks[:2]):
        if t in ("err", "panic"):
            return " ".join(toks[: i + 1])
    return line


KIND_SENSITIVE = re.compile(r"^obs (ofp|oofp|awp1) ")


def norm_pair(src_line, impl, model):
    if KIND_SENSITIVE.match(src_line):
        # compare EnvelopeError kinds when both sides name one
        def k(l):
            t = l.split(" ")
            if t and t[0] == "err" and len(t) > 1 and not t[1].startswith("dep:"):
                return "err " + t[1]
            return normalise(l)
        return k(impl), k(model)
    return normalise(impl), normalise(model)


def split_scenarios(lines):
    scen, cur, name = [], [], None
    for l in lines:
        if l.startswith("scenario "):
            if cur: scen.append((name, cur))
            name, cur = l.split(" ", 1)[1].strip(), [l]
        else:
            cur.append(l)
    if cur: scen.append((name, cur))
    return scen


def produces_output(line):
    t = line.strip()
    return bool(t) and not t.startswith("#")


def run_model(scen_path, out_path):
    if os.path.exists(ENVDRV):
        with open(scen_path) as i, open(out_path, "w") as o:
            p = subprocess.run([ENVDRV], stdin=i, stdout=o, stderr=subprocess.PIPE, text=True, timeout=3000)
            return p.returncode, p.stderr
    with open(scen_path) as i, open(out_path, "w") as o:
        p = subprocess.run(["lake", "env", "lean", "--run", "Driver.lean"], cwd=LEAN, stdin=i, stdout=o, stderr=subprocess.PIPE, text=True, timeout=3000)
        return p.returncode, p.stderr


def compare(rundir):
    """line-by-line comparison of impl.obs and model.obs; returns (disagreements, unmodelled_scenarios, compared)"""
    lines = [l.rstrip("\n") for l in open(os.path.join(rundir, "scen.evl")) if produces_output(l)]
    impl = [l.rstrip("\n") for l in open(os.path.join(rundir, "impl.obs"))]
    model = [l.rstrip("\n") for l in open(os.path.join(rundir, "model.obs"))]
    dis = []
    if not (len(lines) == len(impl) == len(model)):
        dis.append({"scenario": "*", "line": "stream lengths differ", "impl": str(len(impl)), "model": str(len(model)), "lineno": 0, "evl_lines": len(lines)})
        n = min(len(lines), len(impl), len(model))
        lines, impl, model = lines[:n], impl[:n], model[:n]
    unmodelled = set()
    scen = None
    per = {}
    for i, (s, a, b) in enumerate(zip(lines, impl, model)):
        if s.startswith("scenario "):
            scen = s.split(" ", 1)[1]
        if "unmodelled" in b:
            unmodelled.add(scen)
        na, nb = norm_pair(s, a, b)
        if na != nb:
            per.setdefault(scen, []).append({"scenario": scen, "lineno": i + 1, "line": s, "impl": a, "model": b})
    for scen, ds in per.items():
        if scen in unmodelled: continue
        dis.extend(ds[:3])
    return dis, sorted(x for x in unmodelled if x), len(lines)


def scenario_text(rundir, name):
    lines = [l.rstrip("\n") for l in open(os.path.join(rundir, "scen.evl"))]
    for n, ls in split_scenarios(lines):
        if n == name: return ls
    return []


def load_known():
    p = os.path.join(VERIF, "known_findings.json")
    if not os.path.exists(p): return []
    return json.load(open(p))


def write_replay(prop, kind, body):
    os.makedirs(os.path.join(VERIF, "replays"), exist_ok=True)
    h = hashlib.sha1(body.encode()).hexdigest()[:10]
    path = os.path.join(VERIF, "replays", "%s-%s-%s.evl" % (prop, kind, h))
    open(path, "w").write(body)
    return path


# ---------------------------------------------------------------- corpus and shrinking

def run_both(path):
    """execute one EVL file on the implementation and on the model; returns [(line, impl, model, equal)] for the lines that produce output"""
    rc, impl = sh([EVH, "replay", path], timeout=600)
    tmp = os.path.join(BUILD, "both_%d.obs" % os.getpid())
    run_model(path, tmp)
    model = open(tmp).read().splitlines()
    os.remove(tmp)
    impl = impl.splitlines()
    lines = [l.rstrip("\n") for l in open(path) if produces_output(l)]
    out = []
    for i, s_ in enumerate(lines):
        a = impl[i] if i < len(impl) else "<missing>"
        b = model[i] if i < len(model) else "<missing>"
        na, nb = norm_pair(s_, a, b)
        out.append((s_, a, b, na == nb))
    return out


def corpus_disagreements(prop):
    """the corpus of past failing scenarios of this property (minimised replays of seeded and found defects), run first on every
    run: every line must agree between implementation and model"""
    d = os.path.join(VERIF, "corpus", prop)
    dis, n = [], 0
    if not os.path.isdir(d): return dis, n
    for f in sorted(os.listdir(d)):
        if not f.endswith(".evl"): continue
        n += 1
        for (s_, a, b, eq) in run_both(os.path.join(d, f)):
            if not eq and "unmodelled" not in b:
                dis.append({"scenario": "corpus/%s/%s" % (prop, f), "lineno": 0, "line": s_, "impl": a, "model": b}); break
    return dis, n


def shrink_disagreement(lines, bad_line):
    """delta-debugging on scenario lines: drop lines while implementation and model still disagree on `bad_line`"""
    def still(ls):
        tmp = os.path.join(BUILD, "shrink_%d.evl" % os.getpid())
        open(tmp, "w").write("\n".join(ls) + "\n")
        try:
            r = run_both(tmp)
        finally:
            os.remove(tmp)
        return any(s_ == bad_line and not eq for (s_, a, b, eq) in r)
    if bad_line not in lines or not still(lines): return lines
    cur = list(lines)
    chunk = max(1, len(cur) // 2)
    budget = 200
    while chunk >= 1 and budget > 0:
        i, progressed = 0, False
        while i < len(cur) and budget > 0:
            cand = cur[:i] + cur[i + chunk:]
            budget -= 1
            if bad_line in cand and still(cand):
                cur = cand; progressed = True
            else:
                i += chunk
        if chunk == 1 and not progressed: break
        chunk = max(1, chunk // 2) if chunk > 1 else (1 if progressed else 0)
    return cur
