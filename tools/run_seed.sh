#!/bin/bash
# run_seed.sh <patch.diff> <Cxx> [more props...] : apply a seeded change to /repo, run the checks, undo it.
PATCH=$1; shift
cd /verif
git -C /repo apply $PATCH || { echo "patch does not apply to /repo"; exit 2; }
for p in "$@"; do
  ./check $p --tier ${TIER:-quick} | grep -E "^(VIOLATION|OK|KNOWN|HARNESS)" | cut -c1-300
done
git -C /repo checkout -- .
# rebuild the harness against the restored tree so later runs are not confused
(cd harness && cargo build --release --offline >/dev/null 2>&1)
