#!/usr/bin/env python3
"""writes MANIFEST.json from the table below (kept in one place so that it stays valid)"""
import json, os
V = os.path.dirname(os.path.dirname(os.path.abspath(__file__)))
NOTE = ("Trusted: Lean 4.33 kernel (axioms propext/Classical.choice/Quot.sound only, audited per run); the hand-written model, tied to /repo by "
        "differential execution of generated scenarios on the real library and on the compiled model (sees what the generators reach); "
        "dependencies (SHA-256, AEAD, signatures, KEM, SSKR, DEFLATE, UR, dcbor byte codec) enter as parameters with stated laws.")
CHECKS = {
 "C01": ("Theorems over the Lean model: every constructor and operation yields an envelope whose cached digests equal the digests recomputed from its children, and those equal the specification's digest function; structural induction, any depth/width/history. Tied to /repo by scenario correspondence (bit-identical digests, Lean SHA-256 vs library) and an independent spec-digest oracle on the implementation.", "5/C01"),
 "C02": ("Theorem: elide_set_with_action (any target set, mode, action) and the whole-envelope obscuring operations preserve the root digest and the digest at every remaining position; correspondence on shapes; position-by-position oracle on the implementation.", "5/C02"),
 "C03": ("Theorems: after elide_set_with_action a position is present and shallowly equal iff no digest on its ancestor-or-self chain is hit (dually for revealing); the topmost hit is the action's placeholder with nothing below; an elided element encodes as the 32-byte digest only; non-interference (the result depends only on the visible part and the hidden digests); unelide accepts exactly equal digests. Correspondence on shapes; marker-residue, position-wise and unelide oracles on the implementation.", "5/C03"),
 "C04": ("Theorem: the invariant (WF + canonical shape) is preserved by every modelled operation and implies the CBOR grammar; correspondence on shapes and bytes after every step of random histories; independent grammar recogniser on the implementation's bytes.", "5/C04"),
 "C05": ("Theorem: decoding the CBOR tree of an invariant-satisfying envelope returns that envelope (hence identical bytes); correspondence on bytes/shapes of recode; byte-identity, is_identical_to and UR oracles on the implementation.", "5/C05"),
 "C06": ("Theorem: whatever the model decoder accepts re-encodes to the input CBOR tree (up to the leaf-tag alias 24->201); rejection lemmas per malformed class; the model decoder is total and has no panic outcome. Correspondence of verdict and result on valid encodings, single/double structural mutations, byte mutations, hand-made non-canonical forms and random bytes; re-encode, independent-grammar and catch_unwind oracles on the implementation.", "5/C06"),
 "C07": ("Theorem: adding the same set of assertions in any order with any repetition gives equal envelopes; add idempotent; remove-after-add restores; unwrap(wrap)=id. Correspondence over permutations; receiver-unchanged and unordered-collection oracles on the implementation.", "5/C07"),
 "C08": ("Theorems relative to AEAD and codec laws: decrypt(encrypt) returns the original for every subject case; digest preserved; wrong key, any tampering and a mis-declared digest give an error; double encryption refused. Correspondence on outcomes/shapes (toy AEAD in the model); real ChaCha20-Poly1305 single-bit tampering, wrong-key and mis-declaration oracles on the implementation.", "5/C08"),
 "C09": ("Theorems over the model of the verification glue relative to idealised signature laws: an added signature verifies under its key and no other, survives obscuring and added assertions (subject digest unchanged, from C02), threshold iff count, returned metadata is covered by a signature of the same key; order independence of the search. Implementation-side oracles with real keys of every scheme (Schnorr, ECDSA, Ed25519, SSH, ML-DSA), obscuration after signing, thresholds 1..n+1 and adversarial 'signed' assertions; produced envelopes are imported into the model through their encoding.", "5/C09"),
 "C10": ("Theorems relative to idealised KEM/AEAD laws: each recipient opens, a non-recipient gets UnknownRecipient, digest preserved, adding recipients is monotone, wrap-and-encrypt and seal/unseal round trips. Oracles with real X25519 / ML-KEM keys (mixed levels, duplicates), outsiders, seal/unseal with wrong keys; envelopes imported into the model.", "5/C10"),
 "C11": ("Theorems relative to idealised SSKR laws: join succeeds with the original subject iff the subset satisfies the policy, never another envelope, never a panic; every share has the digest-preserving encrypted subject. Oracles with the real sskr crate: every subset (exhaustive) of every share set for a table of policies, mixtures of two splits.", "5/C11"),
 "C12": ("Theorems: a proof exists iff every target occurs; it has the root digest; it is accepted by a holder of the root digest; confirm is exactly root-digest equality plus occurrence of every target in the proof. Correspondence on proof shapes and confirm verdicts; completeness/soundness/minimal-disclosure oracles on the implementation.", "5/C12"),
 "C13": ("Theorems relative to DEFLATE and codec laws: uncompress(compress e) = e, digests preserved, compress idempotent, subject forms, mis-declared digest and corrupt data rejected. Correspondence on shapes/digests; real-DEFLATE round-trip, mis-declaration and corruption oracles on the implementation.", "5/C13"),
 "C14": ("Theorems: equivalent iff digests equal; identical iff equivalent and equal structural images; reflexive/symmetric/transitive; unique decodability of the structural image; obscuring changes identity but not equivalence. Correspondence on eq and structural digests; independent pattern oracle on the implementation.", "5/C14"),
 "C15": ("Theorems: the structure walk lists every element once, parents first, with level and edge as specified; count, digest sets per level, predicate lookups by digest (also through elided predicates), single-result errors. Correspondence on walks (both modes), counts, digest sets, lookups and typed extraction; independent traversal and by-hand leaf decoding oracles.", "5/C15"),
 "C16": ("Theorems: every modelled operation has no panic outcome on invariant-satisfying inputs (every unwrap/expect/assert/index of the modelled Rust functions is an explicit panic branch in the model). Correspondence of panic outcomes on random histories; catch_unwind battery of ~150 public API calls on generated, decorated, obscured and adversarially decoded envelopes.", "5/C16"),
 "C17": ("Theorems: add_salt leaves subject and assertions unchanged and adds exactly one 'salt' assertion; short lengths/ranges refused; a salted add carries exactly one salt assertion and is found by its predicate; different salts give different digests (under collision freedom); unsalted add deterministic. Oracles over sizes 1 B..100 KB for length ranges, refusals, independence of repeated saltings; envelopes imported into the model.", "5/C17"),
 "C18": ("Theorems over the structural model of expression/request/response/event envelopes: round trips (integral dates), documented shape, rejection of both/neither result and error, wrong subject tag, other function; known vs named functions distinct. Oracles: equality of parsed values directly and through bytes, malformed variants; envelopes imported into the model.", "5/C18"),
 "C19": ("Theorems over the structural model: attachments returns exactly the added attachment assertions with their payload/vendor/conformsTo; filters exact; none/several errors; malformed attachments invalid; has_type iff added. Oracles with payloads of any shape, repeated vendors, all filter combinations, malformed variants, salted type assertions; envelopes imported into the model.", "5/C19"),
 "C20": ("Theorems over a small-step model of threads, mutexes and Once cells: programs whose lock requests respect a rank order never deadlock and always complete, for any number of threads and any schedule; the API's lock programs are ranked (complete finite table, by decide); the store inside a lazy's own initialiser can never block; the format context is accessed under mutual exclusion, so a formatting call that overlaps no registration returns its sequential text. Tied to /repo by lock programs extracted on every run from the running code through the verif_hooks trace (first use and steady state, fresh process each) and compared with the model's programs; concurrent stress oracle (2..16 threads racing from a barrier in fresh processes, every output compared with the sequential text). Partial: interleavings inside dcbor's store, memory-model effects and the real scheduler are exercised, not proved.", "5/C20"),
}
def main():
    checks = []
    for pid, (text, ref) in sorted(CHECKS.items()):
        checks.append({
            "property_id": pid,
            "quick_cmd": "./check %s --tier quick" % pid,
            "thorough_cmd": "./check %s --tier thorough" % pid,
            "evidence_file": "/verif/evidence/%s.json" % pid,
            "replay_cmd_template": "./check %s --replay {path}" % pid,
            "engine": "lean-model+correspondence",
            "level_claimed": {"category": "proof", "text": text, "design_ref": "DESIGN.md section " + ref},
            "level_note": NOTE,
            "technique": "Lean 4 theorems over a hand-written executable model + differential correspondence check against /repo + implementation-side oracles",
        })
    allp = [json.loads(l)["id"] for l in open(os.path.join(V, "properties.jsonl"))]
    na = [{"property_id": p, "reason": "not yet claimed: machinery for this property is still being built (see DESIGN.md section 14, order of implementation)"} for p in allp if p not in CHECKS]
    m = {
        "version": 1,
        "setup_cmd": "./setup.sh",
        "hooks": {"guard": "verif_hooks", "enable": "cargo feature `verif_hooks` of bc-envelope (enabled by the harness crate's dependency declaration)", "baseline_off_cmd": "cd /repo && cargo test --workspace --no-fail-fast --offline", "source_commits": ["c2e4c43"], "add_only": True},
        "engines": [{"name": "lean-model+correspondence", "path": "/verif/check", "serves_properties": sorted(CHECKS), "kind_free_text": "Lean 4 model + theorems (lean/), Rust differential harness (harness/), python orchestration (check, tools/)"}],
        "checks": checks,
        "not_applicable": na,
        "notes": "See DESIGN.md. Every check: proofs+axiom audit, harness rebuilt from /repo working tree, scenarios on implementation and model, comparison, violation search, evidence.",
    }
    json.dump(m, open(os.path.join(V, "MANIFEST.json"), "w"), indent=1)
main()
