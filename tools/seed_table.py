#!/usr/bin/env python3
"""seed_table.py : regenerates the table of seeded changes in DESIGN.md (between the SEEDTABLE markers) and the table of
behaviour-preserving changes (between the HARMLESSTABLE markers) from seeded/*/meta.json, seeded/*/notes.md, harmless/*/meta.json."""
import json, os, re
V = os.path.dirname(os.path.dirname(os.path.abspath(__file__)))
ADDED = json.load(open(os.path.join(V, "seeded", "strengthening.json")))
oracle_re = re.compile(r"# ORACLE FAILED[^:]*: (\S+) \[")
rows = []
for s in sorted(os.listdir(os.path.join(V, "seeded"))):
    d = os.path.join(V, "seeded", s)
    if not os.path.isdir(d): continue
    m = json.load(open(d + "/meta.json"))
    title = ""
    notes = open(d + "/notes.md").read().splitlines() if os.path.exists(d + "/notes.md") else (m.get("needs_to_manifest") or "").splitlines()
    for l in notes:
        if l.startswith("# "):
            title = re.sub(r"^\s*C\d\d\s*(seeded )?(/ )?[Cc]hange \d+\s*[-—–:]*\s*", "", l[2:].strip()); break
    first = list(m.get("check_verdicts", {}).values())[0] if m.get("check_verdicts") else ""
    now = list(m.get("check_verdicts_now", {}).values())[0] if m.get("check_verdicts_now") else first
    def cls(v):
        if v.startswith("VIOLATION"): return "correspondence only" if "no-failing-input-found" in v else "failing input"
        if v.startswith("OK"): return "missed"
        return "n/a"
    orc = ""
    mm = re.search(r"replay=(\S+)", now)
    if mm and os.path.exists(mm.group(1)):
        t = open(mm.group(1)).read()
        o = oracle_re.search(t)
        if o: orc = o.group(1)
        elif "C20 stress oracle" in t:
            k = re.search(r"implementation: (\S+)", t); orc = "stress: " + (k.group(1) if k else "?")
    if m.get("obsolete"): nowc = "obsolete (" + m["obsolete"] + ")"
    else: nowc = cls(now)
    rows.append("| %s | %s | %s | %s | %s | %s |" % (s, title.replace("|", "/")[:150], cls(first), nowc, orc, ADDED.get(s, "")))
seed_md = "| seed | change (one line) | first run | now | oracle that reports it | what was added after a miss |\n|---|---|---|---|---|---|\n" + "\n".join(rows) + "\n"
n = len(rows); missed_first = sum(1 for r in rows if "| missed |" in r or "| correspondence only |" in r.split("|")[3] if True)
hrows = []
hd = os.path.join(V, "harmless")
if os.path.isdir(hd):
    for s in sorted(os.listdir(hd)):
        d = os.path.join(hd, s)
        if not os.path.isdir(d) or not os.path.exists(d + "/meta.json"): continue
        m = json.load(open(d + "/meta.json"))
        title = ""
        if os.path.exists(d + "/notes.md"):
            for l in open(d + "/notes.md"):
                if l.strip() and not l.startswith("#"): title = l.strip()[:160]; break
                if l.startswith("# "): title = l[2:].strip()[:160]; break
        hrows.append("| %s | %s | %s |" % (s, title.replace("|", "/"), "quiet: 20/20 checks OK" if m.get("quiet") else "ALARM: " + ", ".join(sorted(m.get("alarms", {})))))
harm_md = "| change | what it is | all 20 quick checks |\n|---|---|---|\n" + "\n".join(hrows) + "\n"
p = os.path.join(V, "DESIGN.md")
s = open(p).read()
def put(s, tag, body):
    a, b = "<!-- %s-BEGIN -->" % tag, "<!-- %s-END -->" % tag
    i, j = s.index(a), s.index(b)
    return s[: i + len(a)] + "\n" + body + s[j:]
s = put(s, "SEEDTABLE", seed_md)
s = put(s, "HARMLESSTABLE", harm_md)
open(p, "w").write(s)
print(len(rows), "seeds,", len(hrows), "harmless changes")
