#!/usr/bin/env python3
"""Panic-site inventory of /repo/src: every unwrap()/expect(/assert!/assert_eq!/panic!/unreachable!/todo!/
unimplemented!/slice-or-vec index in non-test, non-doc code, normalised by file, enclosing function and
expression text (line numbers are not part of the key, so moving code does not raise an alarm)."""
import json, os, re, sys

PAT = re.compile(r"\.unwrap\(\)|\.expect\(|\bassert!\(|\bassert_eq!\(|\bassert_ne!\(|\bpanic!\(|\bunreachable!\(|\btodo!\(|\bunimplemented!\(|\w\[[^\]\n]+\]")
FN = re.compile(r"^\s*(?:pub(?:\([^)]*\))?\s+)?(?:const\s+)?(?:unsafe\s+)?fn\s+([A-Za-z0-9_]+)")


def sites(root="/repo/src"):
    out = []
    for d, _, files in os.walk(root):
        for f in sorted(files):
            if not f.endswith(".rs"): continue
            p = os.path.join(d, f)
            rel = os.path.relpath(p, "/repo")
            lines = open(p, encoding="utf-8").read().split("\n")
            in_test = False
            depth_at_test = None
            depth = 0
            fn = "-"
            for i, l in enumerate(lines):
                s = l.strip()
                if s.startswith("//"):
                    continue
                if re.match(r"#\[cfg\((all\()?test", s):
                    in_test = True; depth_at_test = depth
                m = FN.match(l)
                if m and not in_test: fn = m.group(1)
                code = l.split("//")[0]
                for m in PAT.finditer(code):
                    t = m.group(0)
                    if in_test: continue
                    if re.match(r"\w\[", t):
                        # indexing: skip attribute-like, type-like and macro-pattern brackets
                        inner = t[2:-1]
                        if t[0] in "#" or re.search(r"^\s*(u8|u16|u32|u64|usize|i\d+|f\d+|str|String|&|$)", inner) or ";" in inner: continue
                        if re.search(r"(vec!|\bSome|\bOk|#\s*)$", code[:m.start() + 1]): continue
                        kind = "index"
                    else:
                        kind = t.strip(".(")
                    expr = re.sub(r"\s+", " ", code.strip())[:120]
                    out.append({"file": rel, "fn": fn, "kind": kind, "expr": expr})
                depth += code.count("{") - code.count("}")
                if in_test and depth_at_test is not None and depth <= depth_at_test and "}" in code:
                    in_test = False; depth_at_test = None
    return out


def key(s): return "%s::%s::%s::%s" % (s["file"], s["fn"], s["kind"], s["expr"])


if __name__ == "__main__":
    ss = sites()
    if len(sys.argv) > 1 and sys.argv[1] == "--write":
        table = {}
        tp = "/verif/panic_sites.json"
        old = json.load(open(tp)) if os.path.exists(tp) else {}
        for s in ss:
            k = key(s)
            table[k] = old.get(k, {"status": "unclassified"})
        json.dump(table, open(tp, "w"), indent=1, sort_keys=True)
        print(len(table), "sites written")
    else:
        for s in ss: print(key(s))
