#!/bin/bash
# confirm_seed.sh <Cxx> <k> : in the scratch worktree /tmp/seed/<Cxx>, confirm that the seeded change
# compiles, passes the existing suite, and that its demonstration fails with it and passes without it.
P=$1; K=$2; WT=/tmp/seed/$P; OUT=/tmp/seed/out_$P/$K
export CARGO_NET_OFFLINE=true
cd $WT || exit 2
git checkout -q -- . ; git clean -fdq tests examples
DEMO=$(ls $OUT/demo*.rs | head -1)
NAME=seed_demo_${P}_${K}
cp $DEMO tests/$NAME.rs
echo "== clean tree: demonstration must pass"
cargo test --offline --test $NAME 2>&1 | grep -E "^test result|^error(\[|:)" | tail -5
rm tests/$NAME.rs
git apply $OUT/patch.diff || { echo "PATCH DOES NOT APPLY"; exit 1; }
echo "== with the change: existing suite (unedited) must pass"
cargo test --offline --no-fail-fast 2>&1 | grep -E "^test result" | awk '{p+=$4; f+=$6} END {print p" passed "f" failed"}'
cp $DEMO tests/$NAME.rs
echo "== with the change: demonstration must fail"
cargo test --offline --test $NAME 2>&1 | grep -E "^test result|^error(\[|:)" | tail -5
git checkout -q -- . ; git clean -fdq tests examples
