#!/bin/sh
# builds the framework from files on disk only (offline)
cd "$(dirname "$0")"
export CARGO_NET_OFFLINE=true
mkdir -p .build evidence replays run
# the model driver must build
(cd lean && lake build envdrv) || exit 1
# the theorem modules: built one by one so that one broken module is reported by the
# check of its own property instead of stopping the set-up
for f in lean/EnvVerif/Props/C*.lean; do
  m=$(basename "$f" .lean)
  (cd lean && lake build EnvVerif.Props.$m) >/dev/null 2>&1 || echo "setup: EnvVerif.Props.$m does not build (its check will report it)"
done
[ -f harness/Cargo.lock ] || cp /repo/Cargo.lock harness/Cargo.lock
(cd harness && cargo build --release --offline) || exit 1
exit 0
