#!/bin/sh
# builds the framework from files on disk only (offline)
set -e
cd "$(dirname "$0")"
export CARGO_NET_OFFLINE=true
mkdir -p .build evidence replays run
(cd lean && lake build EnvVerif envdrv)
[ -f harness/Cargo.lock ] || cp /repo/Cargo.lock harness/Cargo.lock
(cd harness && cargo build --release --offline)
