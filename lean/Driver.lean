import EnvVerif.Model.Interp
open EnvVerif

partial def loop (h : IO.FS.Stream) (out : IO.FS.Stream) (r : St) : IO Unit := do
  let line ← h.getLine
  if line.isEmpty then return ()
  let (r', o) := step r line
  match o with
  | some s => out.putStrLn s
  | none => pure ()
  loop h out r'

def main : IO Unit := do
  let stdin ← IO.getStdin
  let stdout ← IO.getStdout
  loop stdin stdout {}
