/-
  Props/C06.lean — the decoder accepts only canonical envelopes and never crashes.

  "For every byte string, decoding either fails with an error or yields an envelope whose
  re-encoding is exactly that byte string (the only tolerated alias being the deprecated
  leaf tag #6.24, read as #6.201).  In particular a node with no assertion, with a
  non-assertion in an assertion slot, or whose assertion elements are out of ascending
  digest order or repeat a digest, an unknown tag, a digest of the wrong length, an
  assertion map with other than one entry and non-deterministic CBOR are all rejected;
  decoding never panics."

  `legacyNorm` / `legacyNormBytes` / `hasLegacyLeaf` / `NoLegacyLeaf` are defined in
  Lemmas/CodecLemmas.lean (rewrite of #6.24 to #6.201 at envelope leaf positions only).
  The tree-level theorems need no codec law.  At the byte level the second dCBOR law
  ("what decodes re-encodes to the bytes it was read from") is needed.  It is FALSE as a
  universal statement about the model codec, which mirrors `dcbor` 0.17.1 (`not_codecLaws`
  below: `fa 4f 00 00 01`, the f32 2147483904.0, is accepted and read as the integer
  2147483904; the Rust crate does the same).  Hence
  * the byte-level theorems take the law *at the input concerned* (`EncDecAt b`, an explicit
    hypothesis, satisfiable: see the example after `decode_unique_bytes`);
  * the law is *proved* for the model codec at every input whose dCBOR tree is `Cbor.Plain`
    (no float node, no `uint` above 2^31, no `nint` from 2^63: `Cbor.encDec_of_plain` in
    Lemmas/CodecLaws.lean), which gives the hypothesis-free `decode_exact_plain`,
    `reject_noncanonical_cbor_plain`: the float alias is the *only* non-canonical input the
    model decoder accepts;
  * the unrestricted byte-level statement `decode_exact_full_statement` is refuted on a
    concrete witness (`decode_exact_full_statement_false`): the envelope decoder accepts
    `d8c8 d8c9 fa4f000001` and re-encodes it as `d8c8 d8c9 1a80000100`.  This is a genuine
    finding about the implementation (cause: `validate_canonical_f32/f64` in `dcbor`).
-/
import EnvVerif.Lemmas.CodecLemmas
namespace EnvVerif
open Env

section
variable (h : Hash)

/-! ### accepted implies canonical (tree level, no codec law) -/

/-- C06 core: whatever the case-directed decoder accepts re-encodes to the tree it was
read from, up to the `#6.24 → #6.201` leaf alias and nothing else. -/
theorem envOfCbor_canonical (c : Cbor) (e : Env) (hd : envOfCbor h c = .ok e) :
    cborOf e = legacyNorm c :=
  (envOfCbor_sound h c e hd).1

/-- the list form (the assertion elements of a node) -/
theorem envOfCborList_canonical (cs : List Cbor) (es : List Env) (hd : envOfCborList h cs = .ok es) :
    cborOfList es = legacyNormList cs ∧ es.length = cs.length :=
  ⟨(envOfCborList_sound h cs es hd).1, (envOfCborList_sound h cs es hd).2.2.2.2⟩

/-- without the legacy tag the re-encoded tree is the input tree -/
theorem envOfCbor_exact (c : Cbor) (e : Env) (hd : envOfCbor h c = .ok e)
    (hl : hasLegacyLeaf c = false) : cborOf e = c := by
  rw [envOfCbor_canonical h c e hd, legacyNorm_of_no_legacy c hl]

/-- whatever the decoder accepts satisfies the invariant (cached digests are the recomputed
ones; every node has at least one assertion element, strictly ascending digests - hence no
repeat -, only assertion-or-obscured elements in assertion slots; declared digests are 32
bytes) and the element shape `EncShape` -/
theorem envOfCbor_inv (c : Cbor) (e : Env) (hd : envOfCbor h c = .ok e) : Inv h e ∧ EncShape e :=
  ⟨⟨(envOfCbor_sound h c e hd).2.1, (envOfCbor_sound h c e hd).2.2.1⟩, (envOfCbor_sound h c e hd).2.2.2⟩

/-- the alias is read as `#6.201`: the normalised tree decodes to the same envelope -/
theorem envOfCbor_legacyNorm (c : Cbor) (e : Env) (hd : envOfCbor h c = .ok e) :
    envOfCbor h (legacyNorm c) = .ok e := by
  rw [← envOfCbor_canonical h c e hd]
  exact envOfCbor_cborOf_aux h e (envOfCbor_inv h c e hd).1.1 (envOfCbor_inv h c e hd).1.2
    (envOfCbor_inv h c e hd).2

/-- `from_tagged_cbor` -/
theorem envOfTaggedCbor_canonical (c : Cbor) (e : Env) (hd : envOfTaggedCbor h c = .ok e) :
    taggedCborOf e = legacyNorm c ∧ Inv h e ∧ EncShape e := by
  unfold envOfTaggedCbor at hd
  split at hd
  · rename_i t item
    split at hd
    · rename_i ht
      simp only [beq_iff_eq] at ht
      subst ht
      refine ⟨?_, envOfCbor_inv h item e hd⟩
      simp only [taggedCborOf, legacyNorm, envOfCbor_canonical h item e hd]
      rfl
    · cases hd
  · cases hd

/-! ### accepted implies canonical (byte level) -/

/-- C06: if the bytes decode, the result re-encodes to those bytes up to the leaf alias,
and satisfies the invariant.  (`legacyNormBytes b` is the encoding of `legacyNorm` of the
dCBOR tree of `b`; no codec law is needed for this form.) -/
theorem decode_canonical (b : Bytes) (e : Env) (hd : decode h b = .ok e) :
    encode e = legacyNormBytes b ∧ Inv h e ∧ EncShape e := by
  unfold decode at hd
  unfold legacyNormBytes
  cases hc : Cbor.dec b with
  | ok c =>
    rw [hc] at hd
    obtain ⟨h1, h2⟩ := envOfTaggedCbor_canonical h c e hd
    exact ⟨by simp only [encode, h1], h2⟩
  | error x => rw [hc] at hd; cases hd

/-- the same with the tree made explicit -/
theorem decode_canonical_tree (b : Bytes) (e : Env) (hd : decode h b = .ok e) :
    ∃ c, Cbor.dec b = .ok c ∧ envOfTaggedCbor h c = .ok e ∧ encode e = (legacyNorm c).enc := by
  unfold decode at hd
  cases hc : Cbor.dec b with
  | ok c =>
    rw [hc] at hd
    exact ⟨c, rfl, hd, by simp only [encode, (envOfTaggedCbor_canonical h c e hd).1]⟩
  | error x => rw [hc] at hd; cases hd

/-- C06: without the legacy tag, the re-encoding is exactly the input byte string -/
theorem decode_exact (b : Bytes) (L : EncDecAt b) (e : Env) (hd : decode h b = .ok e)
    (hl : NoLegacyLeaf b) : encode e = b := by
  rw [(decode_canonical h b e hd).1, legacyNormBytes_of_no_legacy L hl]

/-- ... and then decoding the re-encoding gives the same envelope again -/
theorem decode_reencode (b : Bytes) (L : EncDecAt b) (e : Env) (hd : decode h b = .ok e)
    (hl : NoLegacyLeaf b) : decode h (encode e) = .ok e := by
  rw [decode_exact h b L e hd hl, hd]

/-- two accepted byte strings without the legacy tag that give the same envelope are the
same byte string: the decoder accepts exactly one serialisation per envelope -/
theorem decode_unique_bytes (b₁ b₂ : Bytes) (L₁ : EncDecAt b₁) (L₂ : EncDecAt b₂) (e : Env)
    (h₁ : decode h b₁ = .ok e) (h₂ : decode h b₂ = .ok e) (l₁ : NoLegacyLeaf b₁)
    (l₂ : NoLegacyLeaf b₂) : b₁ = b₂ := by
  rw [← decode_exact h b₁ L₁ e h₁ l₁, ← decode_exact h b₂ L₂ e h₂ l₂]

/-- C06 without any codec hypothesis, for the model codec: if the decoded envelope's tree
has no float and no integer in the ranges affected by the `dcbor` float defect, the
re-encoding is exactly the input byte string -/
theorem decode_exact_plain (b : Bytes) (e : Env) (hd : decode h b = .ok e) (hl : NoLegacyLeaf b)
    (hp : (taggedCborOf e).Plain) : encode e = b := by
  obtain ⟨c, hc, ht, _⟩ := decode_canonical_tree h b e hd
  have hn : legacyNorm c = c := legacyNorm_of_no_legacy c (hl c hc)
  have htc : taggedCborOf e = c := by rw [(envOfTaggedCbor_canonical h c e ht).1, hn]
  rw [htc] at hp
  simp only [encode, htc]
  exact (Cbor.encDec_of_plain hc hp).1

/- satisfiable: the sample -/
example : (taggedCborOf CodecEx.sample).Plain := by
  simp [taggedCborOf, cborOf, cborOfList, CodecEx.sample, CodecEx.sWrapped, CodecEx.sLeaf,
    CodecEx.sAssert, CodecEx.sKV, CodecEx.sElided, CodecEx.sEnc, CodecEx.sComp, CodecEx.sEncMsg,
    encMsgCbor, compMsgCbor, digestCbor, Cbor.Plain, Cbor.PlainList, Cbor.PlainPairs]
  split <;> simp [Cbor.Plain, Cbor.PlainList]

/-- the unrestricted form of `decode_exact` (no codec-law hypothesis) -/
def decode_exact_full_statement : Prop :=
  ∀ (h : Hash) (b : Bytes) (e : Env), decode h b = .ok e → NoLegacyLeaf b → encode e = b

set_option maxRecDepth 100000 in
/-- FINDING: the unrestricted form is false.  `#6.200(#6.201(<f32 2147483904.0>))` is
accepted (the dCBOR layer reads the float as the integer 2147483904 instead of rejecting
it as non-canonical) and re-encodes as `#6.200(#6.201(2147483904))`, other bytes. -/
theorem decode_exact_full_statement_false : ¬ decode_exact_full_statement := by
  intro hf
  have h1 := hf ⟨fun _ => ⟨0⟩⟩ [0xd8, 0xc8, 0xd8, 0xc9, 0xfa, 0x4f, 0x00, 0x00, 0x01]
    (.leaf (.uint 2147483904) ⟨0⟩) (by rfl)
    (by
      intro c hc
      have : Cbor.dec [0xd8, 0xc8, 0xd8, 0xc9, 0xfa, 0x4f, 0x00, 0x00, 0x01] =
          .ok (.tagged 200 (.tagged 201 (.uint 2147483904))) := by rfl
      rw [this] at hc
      injection hc with hc
      subst hc
      rfl)
  exact absurd h1 (by decide)

set_option maxRecDepth 100000 in
/-- FINDING: the second codec law fails for the model codec (and for `dcbor` 0.17.1), so
`CodecLaws` as a whole is not satisfiable by it -/
theorem not_codecLaws : ¬ CodecLaws := by
  intro L
  have h1 := (L.enc_dec [0xfa, 0x4f, 0x00, 0x00, 0x01] (.uint 2147483904) (by rfl)).1
  exact absurd h1 (by decide)

/- the hypotheses of `decode_exact` are satisfiable: the 172-byte encoding of the sample
envelope (node, wrapped, assertion, known value, leaf, elided, encrypted, compressed) -/
set_option maxRecDepth 100000 in
example : decode CodecEx.toyH (encode CodecEx.sample) = .ok CodecEx.sample ∧
    NoLegacyLeaf (encode CodecEx.sample) ∧ EncDecAt (encode CodecEx.sample) := by
  have hdec : Cbor.dec (encode CodecEx.sample) = .ok (taggedCborOf CodecEx.sample) := by rfl
  refine ⟨?_, ?_, ?_⟩
  · simp only [decode, hdec]
    simp only [taggedCborOf, envOfTaggedCbor, beq_self_eq_true, if_true]
    exact envOfCbor_cborOf_aux _ _ CodecEx.sample_wf CodecEx.sample_canon CodecEx.sample_encShape
  · intro c hc
    rw [hdec] at hc
    injection hc with hc
    subst hc
    rfl
  · intro c hc
    rw [hdec] at hc
    injection hc with hc
    subst hc
    exact ⟨rfl, taggedCborOf_valid CodecEx.sample_encodable CodecEx.sample_encShape⟩

/- the alias: `#6.200(#6.24("a"))` is accepted and re-encodes as `#6.200(#6.201("a"))` -/
example : decode CodecEx.toyH [0xd8, 0xc8, 0xd8, 0x18, 0x61, 0x61] = .ok CodecEx.sLeaf ∧
    encode CodecEx.sLeaf = [0xd8, 0xc8, 0xd8, 0xc9, 0x61, 0x61] := ⟨by rfl, by rfl⟩

/-! ### rejection, one lemma per class named in the property -/

/-- a node with no assertion: an array of fewer than two elements -/
theorem reject_node_arity (xs : List Cbor) (hx : xs.length < 2) :
    envOfCbor h (.array xs) = .err "node-arity" := by
  match xs, hx with
  | [], _ => exact envOfCbor_array_nil h
  | [x], _ => exact envOfCbor_array_one h x
  | _ :: _ :: _, hx => simp only [List.length_cons] at hx; omega

/-- a non-assertion in an assertion slot: some element after the subject decodes to an
envelope that is neither an assertion nor obscured (nor a node over one of those) -/
theorem reject_non_assertion_slot (x : Cbor) (rest : List Cbor) (c : Cbor) (a : Env)
    (hc : c ∈ rest) (ha : envOfCbor h c = .ok a) (hslot : a.slotOk = false) :
    ∃ msg, envOfCbor h (.array (x :: rest)) = .err msg := by
  apply err_of_not_ok
  intro e he
  obtain ⟨s, as, _, hr, _, _, hall, _⟩ := envOfCbor_array_ok h he
  obtain ⟨i, hi⟩ := List.getElem?_of_mem hc
  obtain ⟨a', ha1, ha2⟩ := envOfCborList_getElem? h hr i c hi
  rw [ha] at ha2
  injection ha2 with ha2
  subst ha2
  have := hall a (List.mem_of_getElem? ha1)
  rw [hslot] at this
  cases this

example : ∃ msg, envOfCbor CodecEx.toyH (.array [.uint 1, .uint 2]) = .err msg :=
  reject_non_assertion_slot CodecEx.toyH (.uint 1) [.uint 2] (.uint 2) (.knownValue 2 ⟨4⟩)
    (by simp) (by rfl) (by rfl)

/-- in particular a known value, a leaf (either tag) or a wrapped envelope in an assertion
slot is rejected -/
theorem reject_non_assertion_shape (x : Cbor) (rest : List Cbor) (c : Cbor) (hc : c ∈ rest)
    (hs : (∃ v, c = .uint v) ∨ (∃ i, c = .tagged TAG_LEAF i) ∨ (∃ i, c = .tagged TAG_ENCODED_CBOR i) ∨
      (∃ i, c = .tagged TAG_ENVELOPE i)) :
    ∃ msg, envOfCbor h (.array (x :: rest)) = .err msg := by
  apply err_of_not_ok
  intro e he
  obtain ⟨s, as, _, hr, _, _, hall, _⟩ := envOfCbor_array_ok h he
  obtain ⟨i, hi⟩ := List.getElem?_of_mem hc
  obtain ⟨a, ha1, ha2⟩ := envOfCborList_getElem? h hr i c hi
  have := hall a (List.mem_of_getElem? ha1)
  rw [slotOk_false_of_shape h ha2 hs] at this
  cases this

/-- the general ordering lemma: two assertion elements, the earlier one not strictly below
the later one in digest order (positions need not be adjacent) -/
theorem reject_not_ascending (x : Cbor) (rest : List Cbor) (i j : Nat) (ci cj : Cbor) (a b : Env)
    (hij : i < j) (hi : rest[i]? = some ci) (hj : rest[j]? = some cj)
    (ha : envOfCbor h ci = .ok a) (hb : envOfCbor h cj = .ok b)
    (hnot : ¬ a.digest.val < b.digest.val) :
    ∃ msg, envOfCbor h (.array (x :: rest)) = .err msg := by
  apply err_of_not_ok
  intro e he
  obtain ⟨s, as, _, hr, _, hasc, _, _⟩ := envOfCbor_array_ok h he
  obtain ⟨a', ha1, ha2⟩ := envOfCborList_getElem? h hr i ci hi
  obtain ⟨b', hb1, hb2⟩ := envOfCborList_getElem? h hr j cj hj
  rw [ha] at ha2
  rw [hb] at hb2
  injection ha2 with ha2
  injection hb2 with hb2
  subst ha2
  subst hb2
  obtain ⟨hil, hai⟩ := List.getElem?_eq_some_iff.mp ha1
  obtain ⟨hjl, hbj⟩ := List.getElem?_eq_some_iff.mp hb1
  have := (List.pairwise_iff_getElem.mp hasc) i j hil hjl hij
  rw [hai, hbj] at this
  exact hnot this

/-- assertion elements out of ascending digest order -/
theorem reject_misordered (x : Cbor) (rest : List Cbor) (i j : Nat) (ci cj : Cbor) (a b : Env)
    (hij : i < j) (hi : rest[i]? = some ci) (hj : rest[j]? = some cj)
    (ha : envOfCbor h ci = .ok a) (hb : envOfCbor h cj = .ok b)
    (hlt : b.digest.val < a.digest.val) :
    ∃ msg, envOfCbor h (.array (x :: rest)) = .err msg :=
  reject_not_ascending h x rest i j ci cj a b hij hi hj ha hb (by omega)

/-- two assertion elements with the same digest -/
theorem reject_repeated_digest (x : Cbor) (rest : List Cbor) (i j : Nat) (ci cj : Cbor) (a b : Env)
    (hij : i < j) (hi : rest[i]? = some ci) (hj : rest[j]? = some cj)
    (ha : envOfCbor h ci = .ok a) (hb : envOfCbor h cj = .ok b)
    (heq : a.digest = b.digest) :
    ∃ msg, envOfCbor h (.array (x :: rest)) = .err msg :=
  reject_not_ascending h x rest i j ci cj a b hij hi hj ha hb (by rw [heq]; omega)

/- misordered: `[1, elided 5, elided 3]`; repeated digest: two different assertions with the
same (toy) digest -/
example : ∃ msg, envOfCbor CodecEx.toyH
    (.array [.uint 1, .bytes (Digest.bytes ⟨5⟩), .bytes (Digest.bytes ⟨3⟩)]) = .err msg :=
  reject_misordered CodecEx.toyH (.uint 1) [.bytes (Digest.bytes ⟨5⟩), .bytes (Digest.bytes ⟨3⟩)] 0 1 _ _
    (.elided ⟨5⟩) (.elided ⟨3⟩) (by omega) (by rfl) (by rfl)
    (envOfCbor_cborOf_aux _ (.elided ⟨5⟩) (by simp [WF]) (by simp [Canon, Digest.Valid]) (by simp [EncShape]))
    (envOfCbor_cborOf_aux _ (.elided ⟨3⟩) (by simp [WF]) (by simp [Canon, Digest.Valid]) (by simp [EncShape]))
    (by decide)

example : ∃ msg, envOfCbor CodecEx.toyH
    (.array [.uint 1, .map [(.uint 1, .uint 2)], .map [(.uint 1, .uint 3)]]) = .err msg :=
  reject_repeated_digest CodecEx.toyH (.uint 1) [.map [(.uint 1, .uint 2)], .map [(.uint 1, .uint 3)]] 0 1 _ _
    (.assertion (.knownValue 1 ⟨4⟩) (.knownValue 2 ⟨4⟩) ⟨64⟩)
    (.assertion (.knownValue 1 ⟨4⟩) (.knownValue 3 ⟨4⟩) ⟨64⟩)
    (by omega) (by rfl) (by rfl) (by rfl) (by rfl) (by rfl)

/-- the same element twice (whether or not it decodes) -/
theorem reject_repeated_element (x : Cbor) (rest : List Cbor) (i j : Nat) (c : Cbor)
    (hij : i < j) (hi : rest[i]? = some c) (hj : rest[j]? = some c) :
    ∃ msg, envOfCbor h (.array (x :: rest)) = .err msg := by
  apply err_of_not_ok
  intro e he
  obtain ⟨s, as, _, hr, _, _, _, _⟩ := envOfCbor_array_ok h he
  obtain ⟨a, _, ha2⟩ := envOfCborList_getElem? h hr i c hi
  obtain ⟨msg, hm⟩ := reject_repeated_digest h x rest i j c c a a hij hi hj ha2 ha2 rfl
  rw [he] at hm
  cases hm

/-- adjacent form, on the decoded elements: exactly the check the decoder performs -/
theorem reject_adjacent_not_ascending (x y : Cbor) (r : List Cbor) (s : Env) (as : List Env)
    (hx : envOfCbor h x = .ok s) (hr : envOfCborList h (y :: r) = .ok as) (hasc : ascAdj as = false) :
    envOfCbor h (.array (x :: y :: r)) = .err "assertions-not-ascending" := by
  rw [envOfCbor_array_cons, hx]
  simp only [hr, hasc, Bool.false_eq_true, if_false]

/-- an unknown tag -/
theorem reject_unknown_tag (t : Nat) (item : Cbor) (h1 : t ≠ TAG_LEAF) (h2 : t ≠ TAG_ENCODED_CBOR)
    (h3 : t ≠ TAG_ENVELOPE) (h4 : t ≠ TAG_ENCRYPTED) (h5 : t ≠ TAG_COMPRESSED) :
    envOfCbor h (.tagged t item) = .err "unknown-tag" := by
  rw [envOfCbor_tagged]
  simp [h1, h2, h3, h4, h5]

/-- a digest of the wrong length (elided element) -/
theorem reject_bad_digest_len (b : Bytes) (hb : b.length ≠ 32) :
    envOfCbor h (.bytes b) = .err "dep:digest-size" := by
  rw [envOfCbor_bytes, Digest.ofBytes_none hb]

/-- a digest of the wrong length (the digest carried by a compressed element) -/
theorem reject_bad_digest_len_compressed (c s data : Cbor) (t : Nat) (b : Bytes) (hb : b.length ≠ 32) :
    ∃ msg, envOfCbor h (.tagged TAG_COMPRESSED (.array [c, s, data, .tagged t (.bytes b)])) = .err msg := by
  apply err_of_not_ok
  intro e he
  rw [envOfCbor_tagged] at he
  have h1 : (TAG_COMPRESSED == TAG_LEAF || TAG_COMPRESSED == TAG_ENCODED_CBOR) = false := by decide
  have h2 : (TAG_COMPRESSED == TAG_ENVELOPE) = false := by decide
  have h3 : (TAG_COMPRESSED == TAG_ENCRYPTED) = false := by decide
  have h4 : (TAG_COMPRESSED == TAG_COMPRESSED) = true := by decide
  simp only [h1, h2, h3, h4, Bool.false_eq_true, if_false, if_true] at he
  obtain ⟨cm, d, _, hitem, _⟩ := decodeCompressed_ok he
  simp only [compMsgCbor, digestCbor, Cbor.array.injEq, List.cons.injEq, Cbor.tagged.injEq,
    Cbor.bytes.injEq, and_true] at hitem
  have := Digest.bytes_len32 d
  rw [← hitem.2.2.2.2] at this
  exact hb this

/-- a digest of the wrong length or no digest at all in the `aad` of an encrypted element -/
theorem reject_encrypted_without_digest (ct nonce auth aad : Bytes)
    (hm : (EncMsg.mk ct nonce auth aad).optDigest = none) :
    ∃ msg, envOfCbor h (.tagged TAG_ENCRYPTED (.array [.bytes ct, .bytes nonce, .bytes auth, .bytes aad]))
      = .err msg := by
  apply err_of_not_ok
  intro e he
  rw [envOfCbor_tagged] at he
  have h1 : (TAG_ENCRYPTED == TAG_LEAF || TAG_ENCRYPTED == TAG_ENCODED_CBOR) = false := by decide
  have h2 : (TAG_ENCRYPTED == TAG_ENVELOPE) = false := by decide
  have h3 : (TAG_ENCRYPTED == TAG_ENCRYPTED) = true := by decide
  simp only [h1, h2, h3, Bool.false_eq_true, if_false, if_true] at he
  obtain ⟨m, d, _, hitem, hd, _, _, hne⟩ := decodeEncrypted_ok he
  have hemp : m.aad.isEmpty = false := by
    cases hma : m.aad with
    | nil => exact absurd hma hne
    | cons _ _ => rfl
  simp only [encMsgCbor, hemp, Bool.false_eq_true, if_false, List.cons_append, List.nil_append,
    Cbor.array.injEq, List.cons.injEq, Cbor.bytes.injEq, and_true] at hitem
  have : m = EncMsg.mk ct nonce auth aad := by
    cases m
    simp only [EncMsg.mk.injEq]
    exact ⟨hitem.1.symm, hitem.2.1.symm, hitem.2.2.1.symm, hitem.2.2.2.symm⟩
  rw [this, hm] at hd
  cases hd

/-- an assertion map with other than one entry -/
theorem reject_map_arity (kvs : List (Cbor × Cbor)) (hk : kvs.length ≠ 1) :
    envOfCbor h (.map kvs) = .err "assertion-map-arity" := by
  match kvs, hk with
  | [], _ => simp only [envOfCbor]
  | [(k, v)], hk => simp at hk
  | _ :: _ :: _, _ => simp only [envOfCbor]

/-- an encrypted element whose array does not have exactly four items (three items is the
form without `aad`, which declares no digest; five or more is finding F2) -/
theorem reject_encrypted_extra (xs : List Cbor) (hx : xs.length ≠ 4) :
    ∃ msg, envOfCbor h (.tagged TAG_ENCRYPTED (.array xs)) = .err msg := by
  apply err_of_not_ok
  intro e he
  rw [envOfCbor_tagged] at he
  have h1 : (TAG_ENCRYPTED == TAG_LEAF || TAG_ENCRYPTED == TAG_ENCODED_CBOR) = false := by decide
  have h2 : (TAG_ENCRYPTED == TAG_ENVELOPE) = false := by decide
  have h3 : (TAG_ENCRYPTED == TAG_ENCRYPTED) = true := by decide
  simp only [h1, h2, h3, Bool.false_eq_true, if_false, if_true] at he
  obtain ⟨m, d, _, hitem, _, _, _, hne⟩ := decodeEncrypted_ok he
  have hemp : m.aad.isEmpty = false := by
    cases hma : m.aad with
    | nil => exact absurd hma hne
    | cons _ _ => rfl
  simp only [encMsgCbor, hemp, Bool.false_eq_true, if_false, List.cons_append, List.nil_append,
    Cbor.array.injEq] at hitem
  rw [hitem] at hx
  simp at hx

/-- an encrypted element with an empty `aad` item (it would re-encode without it) -/
theorem reject_encrypted_empty_aad (ct nonce auth : Cbor) :
    ∃ msg, envOfCbor h (.tagged TAG_ENCRYPTED (.array [ct, nonce, auth, .bytes []])) = .err msg := by
  apply err_of_not_ok
  intro e he
  rw [envOfCbor_tagged] at he
  have h1 : (TAG_ENCRYPTED == TAG_LEAF || TAG_ENCRYPTED == TAG_ENCODED_CBOR) = false := by decide
  have h2 : (TAG_ENCRYPTED == TAG_ENVELOPE) = false := by decide
  have h3 : (TAG_ENCRYPTED == TAG_ENCRYPTED) = true := by decide
  simp only [h1, h2, h3, Bool.false_eq_true, if_false, if_true] at he
  obtain ⟨m, d, _, hitem, _, _, _, hne⟩ := decodeEncrypted_ok he
  have hemp : m.aad.isEmpty = false := by
    cases hma : m.aad with
    | nil => exact absurd hma hne
    | cons _ _ => rfl
  simp only [encMsgCbor, hemp, Bool.false_eq_true, if_false, List.cons_append, List.nil_append,
    Cbor.array.injEq, List.cons.injEq, Cbor.bytes.injEq, and_true] at hitem
  exact hne hitem.2.2.2.symm

/-- a compressed element with a negative checksum or size (`dcbor` would wrap it around to
an unsigned value; the element would then re-encode differently) -/
theorem reject_compressed_negative (c s data dg : Cbor)
    (hneg : (∃ n, c = .nint n) ∨ (∃ n, s = .nint n)) :
    ∃ msg, envOfCbor h (.tagged TAG_COMPRESSED (.array [c, s, data, dg])) = .err msg := by
  apply err_of_not_ok
  intro e he
  rw [envOfCbor_tagged] at he
  have h1 : (TAG_COMPRESSED == TAG_LEAF || TAG_COMPRESSED == TAG_ENCODED_CBOR) = false := by decide
  have h2 : (TAG_COMPRESSED == TAG_ENVELOPE) = false := by decide
  have h3 : (TAG_COMPRESSED == TAG_ENCRYPTED) = false := by decide
  have h4 : (TAG_COMPRESSED == TAG_COMPRESSED) = true := by decide
  simp only [h1, h2, h3, h4, Bool.false_eq_true, if_false, if_true] at he
  obtain ⟨cm, d, _, hitem, _⟩ := decodeCompressed_ok he
  simp only [compMsgCbor, Cbor.array.injEq, List.cons.injEq, and_true] at hitem
  rcases hneg with ⟨n, rfl⟩ | ⟨n, rfl⟩
  · cases hitem.1
  · cases hitem.2.1

/-- a compressed element whose array does not have exactly four items (three items is the
form without a digest) -/
theorem reject_compressed_arity (xs : List Cbor) (hx : xs.length ≠ 4) :
    ∃ msg, envOfCbor h (.tagged TAG_COMPRESSED (.array xs)) = .err msg := by
  apply err_of_not_ok
  intro e he
  rw [envOfCbor_tagged] at he
  have h1 : (TAG_COMPRESSED == TAG_LEAF || TAG_COMPRESSED == TAG_ENCODED_CBOR) = false := by decide
  have h2 : (TAG_COMPRESSED == TAG_ENVELOPE) = false := by decide
  have h3 : (TAG_COMPRESSED == TAG_ENCRYPTED) = false := by decide
  have h4 : (TAG_COMPRESSED == TAG_COMPRESSED) = true := by decide
  simp only [h1, h2, h3, h4, Bool.false_eq_true, if_false, if_true] at he
  obtain ⟨cm, d, _, hitem, _⟩ := decodeCompressed_ok he
  simp only [compMsgCbor, Cbor.array.injEq] at hitem
  rw [hitem] at hx
  simp at hx

/-- a bare CBOR value that is none of the envelope cases -/
theorem reject_bare_cbor (c : Cbor)
    (hc : (∃ n, c = .nint n) ∨ (∃ b, c = .text b) ∨ (∃ v, c = .simple v) ∨ (∃ f, c = .float f)) :
    envOfCbor h c = .err "invalid-envelope" := by
  rcases hc with ⟨_, rfl⟩ | ⟨_, rfl⟩ | ⟨_, rfl⟩ | ⟨_, rfl⟩ <;> simp only [envOfCbor]

/-- the outermost item must be `#6.200(...)` -/
theorem reject_untagged_top (c : Cbor) (hc : ∀ item, c ≠ .tagged TAG_ENVELOPE item) :
    ∃ msg, envOfTaggedCbor h c = .err msg := by
  unfold envOfTaggedCbor
  split
  · rename_i t item
    split
    · rename_i ht
      simp only [beq_iff_eq] at ht
      subst ht
      exact absurd rfl (hc item)
    · exact ⟨_, rfl⟩
  · exact ⟨_, rfl⟩

/-- non-deterministic CBOR, part 1: whatever the dCBOR decoder refuses, the envelope
decoder refuses -/
theorem reject_cbor_error (b : Bytes) (x : Cbor.DecErr) (hb : Cbor.dec b = .error x) :
    decode h b = .err ("cbor:" ++ x.name) := by
  simp only [decode, hb]

/-- non-deterministic CBOR, part 2 (from the codec law): a byte string that is not *the*
encoding of a valid dCBOR tree is refused -/
theorem reject_noncanonical_cbor (b : Bytes) (L : EncDecAt b)
    (hb : ∀ c : Cbor, c.Valid → c.enc ≠ b) : ∃ msg, decode h b = .err msg := by
  cases hd : Cbor.dec b with
  | ok c => exact absurd (L c hd).1 (hb c (L c hd).2)
  | error x => exact ⟨_, reject_cbor_error h b x hd⟩

/-- non-deterministic CBOR, part 3 (model codec, no hypothesis): a byte string that is not
the encoding of a valid dCBOR tree is refused, unless the dCBOR layer reads a float or an
integer of the affected ranges out of it (the `dcbor` float defect) -/
theorem reject_noncanonical_cbor_plain (b : Bytes) (hb : ∀ c : Cbor, c.Valid → c.enc ≠ b) :
    (∃ msg, decode h b = .err msg) ∨ (∃ c, Cbor.dec b = .ok c ∧ ¬ c.Plain) := by
  cases hd : Cbor.dec b with
  | error x => exact Or.inl ⟨_, reject_cbor_error h b x hd⟩
  | ok c =>
    refine Or.inr ⟨c, rfl, fun hp => ?_⟩
    obtain ⟨h1, h2⟩ := Cbor.encDec_of_plain hd hp
    exact hb c h2 h1

/- instances on the model codec: a non-shortest head, an indefinite-length array, a map
with keys out of order, a duplicate key, a float that should have been an integer -/
example : decode h [0xd8, 0xc8, 0x18, 0x01] = .err "cbor:non-canonical" := by rfl
example : decode h [0xd8, 0xc8, 0x9f, 0x01, 0xff] = .err "cbor:bad-header" := by rfl
example : decode h [0xd8, 0xc8, 0xa2, 0x02, 0x01, 0x01, 0x01] = .err "cbor:map-order" := by rfl
example : decode h [0xd8, 0xc8, 0xa2, 0x01, 0x01, 0x01, 0x01] = .err "cbor:map-order" := by rfl
example : decode h [0xd8, 0xc8, 0xd8, 0xc9, 0xf9, 0x3c, 0x00] = .err "cbor:non-canonical" := by rfl

/-! ### no panic -/

/-- the `assert!(!unchecked_assertions.is_empty())` of `new_with_unchecked_assertions` is
unreachable from the decoder (the array has at least two elements), and there is no other
panic site -/
theorem envOfCbor_no_panic (c : Cbor) (s : String) : envOfCbor h c ≠ .panic s :=
  envOfCbor_no_panic_aux h c s

theorem envOfTaggedCbor_no_panic (c : Cbor) (s : String) : envOfTaggedCbor h c ≠ .panic s := by
  unfold envOfTaggedCbor
  split
  · split
    · exact envOfCbor_no_panic h _ s
    · intro hh; cases hh
  · intro hh; cases hh

/-- C06: decoding never panics -/
theorem decode_no_panic (b : Bytes) (s : String) : decode h b ≠ .panic s := by
  unfold decode
  split
  · exact envOfTaggedCbor_no_panic h _ s
  · intro hh; cases hh

/-- C06: for every byte string, decoding either fails with an error or yields an envelope
that satisfies the invariant and whose re-encoding is that byte string up to the alias -/
theorem decode_total (b : Bytes) :
    (∃ msg, decode h b = .err msg) ∨
    (∃ e, decode h b = .ok e ∧ encode e = legacyNormBytes b ∧ Inv h e ∧ EncShape e) := by
  cases hd : decode h b with
  | ok e => exact Or.inr ⟨e, rfl, decode_canonical h b e hd⟩
  | err m => exact Or.inl ⟨m, rfl⟩
  | panic s => exact absurd hd (decode_no_panic h b s)

/-- ... and exactly that byte string when the legacy tag does not occur -/
theorem decode_total_exact (b : Bytes) (L : EncDecAt b) (hl : NoLegacyLeaf b) :
    (∃ msg, decode h b = .err msg) ∨ (∃ e, decode h b = .ok e ∧ encode e = b ∧ Inv h e) := by
  rcases decode_total h b with hm | ⟨e, hd, _, hi, _⟩
  · exact Or.inl hm
  · exact Or.inr ⟨e, hd, decode_exact h b L e hd hl, hi⟩

end
end EnvVerif
