/-
  Props/C15.lean — traversal and queries.

  "Walking visits each element exactly once, parents before children, with the correct
  depth and edge kind; the element count, the per-level and deep digest sets, the
  subject/assertion accessors and the predicate lookups (which match by digest, hence also
  through elided predicates) all agree with that structure. Lookups return exactly the
  matching assertions or objects, report none or several as the corresponding errors ..."

  `elements e` (Model/Inv.lean) is the list of all elements in pre-order; `Child x k c`
  (Lemmas/WalkLemmas.lean) is the child relation with the role `k` of the child.
-/
import EnvVerif.Lemmas.WalkLemmas
namespace EnvVerif
open Env AW

/-! ### structure walk -/

/-- every element is visited exactly once, in pre-order -/
theorem walkStructure_elements (e : Env) (lvl : Nat) (edge : Edge) :
    (walkStructure e lvl edge).map (·.1) = elements e :=
  walkStructure_map_fst e lvl edge

theorem elementsCount_elements (e : Env) : elementsCount e = (elements e).length :=
  (elements_length e).symm

theorem walk_length (e : Env) (lvl : Nat) (edge : Edge) :
    (walkStructure e lvl edge).length = elementsCount e := by
  rw [← elements_length, ← walkStructure_map_fst e lvl edge, List.length_map]

/-- the first visit is the element itself, with the level and edge given -/
theorem walk_head (e : Env) (lvl : Nat) (edge : Edge) :
    (walkStructure e lvl edge).head? = some (e, lvl, edge) := by
  obtain ⟨rest, hr⟩ := walkStructure_head e lvl edge
  rw [hr]; rfl

/-- unfolding: a node is followed by its subject (level + 1, edge `subject`) and then by its
assertions in stored order (level + 1, edge `assertion`) -/
theorem walk_levels_node (s : Env) (as : List Env) (d : Digest) (lvl : Nat) (edge : Edge) :
    walkStructure (.node s as d) lvl edge =
      (.node s as d, lvl, edge) ::
        (walkStructure s (lvl + 1) .subject ++
          as.flatMap fun a => walkStructure a (lvl + 1) .assertion) := by
  simp [walkStructure, walkStructureList_eq]

theorem walk_levels_wrapped (e : Env) (d : Digest) (lvl : Nat) (edge : Edge) :
    walkStructure (.wrapped e d) lvl edge =
      (.wrapped e d, lvl, edge) :: walkStructure e (lvl + 1) .wrapped := by
  simp [walkStructure]

theorem walk_levels_assertion (p o : Env) (d : Digest) (lvl : Nat) (edge : Edge) :
    walkStructure (.assertion p o d) lvl edge =
      (.assertion p o d, lvl, edge) ::
        (walkStructure p (lvl + 1) .predicate ++ walkStructure o (lvl + 1) .object) := by
  simp [walkStructure]

theorem walk_levels_leafish (e : Env) (he : e.isInternal = false) (lvl : Nat) (edge : Edge) :
    walkStructure e lvl edge = [(e, lvl, edge)] := by
  cases e <;> simp [isInternal, isNode, isWrapped, isAssertion] at he <;> simp [walkStructure]

/-- every visit but the first has a parent visit in the list: exactly one level up, and the
recorded edge is the role of the element in that parent -/
theorem walk_parent (e : Env) (lvl : Nat) (edge : Edge) :
    ∀ v ∈ (walkStructure e lvl edge).tail, ∃ pv ∈ walkStructure e lvl edge,
      Child pv.1 v.2.2 v.1 ∧ v.2.1 = pv.2.1 + 1 :=
  walkStructure_parent e lvl edge

/-- descendants are strictly deeper than the root of the walk and never have edge `none` -/
theorem walk_descendants_deeper (e : Env) (lvl : Nat) (edge : Edge) :
    ∀ v ∈ (walkStructure e lvl edge).tail, lvl < v.2.1 ∧ v.2.2 ≠ Edge.none :=
  walkStructure_tail_level e lvl edge

/-- **parents first, descendants immediately after**: wherever a visit `v` occurs in the
walk, the walk continues from there with the complete walk of `v`'s element (at `v`'s level
and edge), i.e. `v` itself (`walk_head`) followed by all its descendants -/
theorem walk_parent_first (e : Env) (lvl : Nat) (edge : Edge) (pre post : List Visit) (v : Visit)
    (hsplit : walkStructure e lvl edge = pre ++ v :: post) :
    ∃ suf, v :: post = walkStructure v.1 v.2.1 v.2.2 ++ suf :=
  walkStructure_contig e lvl edge pre v post hsplit

/-- every child of a visited element is visited after it, one level deeper, with the edge
kind of its role -/
theorem walk_children_after (e : Env) (lvl : Nat) (edge : Edge) (pre post : List Visit) (v : Visit)
    (hsplit : walkStructure e lvl edge = pre ++ v :: post) (k : Edge) (c : Env)
    (hc : Child v.1 k c) : (c, v.2.1 + 1, k) ∈ post := by
  obtain ⟨suf, hs⟩ := walkStructure_contig e lvl edge pre v post hsplit
  obtain ⟨rest, hr⟩ := walkStructure_head v.1 v.2.1 v.2.2
  have hm := child_mem_tail hc v.2.1 v.2.2
  rw [hr] at hs hm
  simp only [List.cons_append, List.cons.injEq] at hs
  rw [hs.2]
  exact List.mem_append.2 (Or.inl hm)

/-- the accessors agree with the child relation used by the walk: `subject` is the child
with edge `subject` (an envelope that is not a node is its own subject and has no such
child), `assertions` are the children with edge `assertion` -/
theorem accessors_children (e c : Env) :
    (Child e .subject c ↔ e.isNode = true ∧ c = e.subject) ∧
    (Child e .assertion c ↔ c ∈ e.assertions) ∧
    (e.isNode = false → e.subject = e ∧ e.assertions = []) := by
  refine ⟨⟨?_, ?_⟩, ⟨?_, ?_⟩, ?_⟩
  · intro hc; cases hc; exact ⟨rfl, rfl⟩
  · rintro ⟨hn, rfl⟩
    cases e <;> simp [isNode] at hn
    exact Child.subject _ _ _
  · intro hc; cases hc; assumption
  · intro hm
    cases e <;> simp [Env.assertions] at hm
    exact Child.assertion _ _ _ _ hm
  · intro hn
    cases e <;> simp [isNode] at hn <;> exact ⟨rfl, rfl⟩

/-! ### tree walk (`hide_nodes`) -/

theorem walk_modes (e : Env) : walk true e = walkTree e 0 ∧ walk false e = walkStructure e 0 .none :=
  ⟨rfl, rfl⟩

/-- exactly the non-node elements are visited, once each, in pre-order -/
theorem walkTree_elements (e : Env) (lvl : Nat) :
    (walkTree e lvl).map (·.1) = (elements e).filter (fun x => !x.isNode) :=
  walkTree_map_fst e lvl

theorem walkTree_no_nodes (e : Env) (lvl : Nat) : ∀ v ∈ walkTree e lvl, v.1.isNode = false := by
  intro v hv
  have : v.1 ∈ (walkTree e lvl).map (·.1) := List.mem_map.2 ⟨v, hv, rfl⟩
  rw [walkTree_map_fst, List.mem_filter] at this
  simpa using this.2

/-- every edge is `none` in tree mode, and no level is below the starting level -/
theorem walkTree_edges_none (e : Env) (lvl : Nat) :
    ∀ v ∈ walkTree e lvl, v.2.2 = Edge.none ∧ lvl ≤ v.2.1 :=
  walkTree_edges e lvl

theorem walkTree_length (e : Env) (lvl : Nat) :
    (walkTree e lvl).length = ((elements e).filter (fun x => !x.isNode)).length := by
  rw [← walkTree_map_fst e lvl, List.length_map]

/-- tree-mode levels: a node is transparent (its subject keeps the level, its assertions are
one deeper); wrapped and assertion elements put their children one deeper -/
theorem walkTree_levels_node (s : Env) (as : List Env) (d : Digest) (lvl : Nat) :
    walkTree (.node s as d) lvl = walkTree s lvl ++ as.flatMap fun a => walkTree a (lvl + 1) := by
  simp [walkTree, walkTreeList_eq]

theorem walkTree_levels_wrapped (e : Env) (d : Digest) (lvl : Nat) :
    walkTree (.wrapped e d) lvl = (.wrapped e d, lvl, .none) :: walkTree e (lvl + 1) := by
  simp [walkTree]

theorem walkTree_levels_assertion (p o : Env) (d : Digest) (lvl : Nat) :
    walkTree (.assertion p o d) lvl =
      (.assertion p o d, lvl, .none) :: (walkTree p (lvl + 1) ++ walkTree o (lvl + 1)) := by
  simp [walkTree]

theorem walkTree_levels_leafish (e : Env) (he : e.isInternal = false) (lvl : Nat) :
    walkTree e lvl = [(e, lvl, .none)] := by
  cases e <;> simp [isInternal, isNode, isWrapped, isAssertion] at he <;> simp [walkTree]

/-! ### digest sets -/

theorem digestsUpTo_spec (e : Env) (n : Nat) (d : Digest) :
    d ∈ digestsUpTo e n ↔
      ∃ v ∈ walkStructure e 0 .none, v.2.1 < n ∧ (d = v.1.digest ∨ d = v.1.subject.digest) := by
  unfold digestsUpTo
  rw [List.mem_flatMap]
  constructor
  · rintro ⟨⟨x, lvl, ed⟩, hv, hd⟩
    refine ⟨(x, lvl, ed), hv, ?_⟩
    simp only at hd
    split at hd
    · rename_i hlt
      simp only [List.mem_cons, List.not_mem_nil, or_false] at hd
      exact ⟨hlt, hd⟩
    · simp at hd
  · rintro ⟨⟨x, lvl, ed⟩, hv, hlt, hd⟩
    refine ⟨(x, lvl, ed), hv, ?_⟩
    simp only at hlt hd ⊢
    rw [if_pos hlt]
    simpa using hd

theorem digestsUpTo_zero (e : Env) : digestsUpTo e 0 = [] := by
  simp [digestsUpTo]

theorem digestsUpTo_mono (e : Env) (n m : Nat) (hnm : n ≤ m) (d : Digest)
    (hd : d ∈ digestsUpTo e n) : d ∈ digestsUpTo e m := by
  rw [digestsUpTo_spec] at hd ⊢
  obtain ⟨v, hv, hlt, hd⟩ := hd
  exact ⟨v, hv, by omega, hd⟩

/-- the root digest is in the set as soon as the limit is positive -/
theorem digestsUpTo_root (e : Env) (n : Nat) (hn : 0 < n) : e.digest ∈ digestsUpTo e n := by
  rw [digestsUpTo_spec]
  obtain ⟨rest, hr⟩ := walkStructure_head e 0 .none
  exact ⟨(e, 0, .none), by rw [hr]; simp, hn, Or.inl rfl⟩

/-- the deep set: every walked digest is in `digestsUpTo e n` for `n` beyond its level -/
theorem digestsUpTo_deep (e : Env) (d : Digest) (hd : d ∈ walkDigests e) :
    ∃ n, d ∈ digestsUpTo e n := by
  simp only [walkDigests, List.mem_map] at hd
  obtain ⟨v, hv, rfl⟩ := hd
  exact ⟨v.2.1 + 1, (digestsUpTo_spec e _ _).2 ⟨v, hv, by omega, Or.inl rfl⟩⟩

/-! ### predicate lookups -/

/-- Appendix D: the lookup matches on the digest of the predicate of the element's subject
(so it sees through decorated assertions, and through elided predicates) -/
theorem awp_spec (e p : Env) :
    assertionsWithPredicate e p =
      e.assertions.filter (fun a =>
        match a.subject with
        | .assertion q _ _ => q.digest == p.digest
        | _ => false) := by
  unfold assertionsWithPredicate
  congr 1
  funext a
  cases a.subject <;> rfl

/-- exactly the matching assertions -/
theorem awp_mem (e p a : Env) :
    a ∈ assertionsWithPredicate e p ↔
      a ∈ e.assertions ∧ ∃ q o d, a.subject = .assertion q o d ∧ q.digest = p.digest :=
  mem_awp

/-- **matching through elided predicates**: replacing the predicate of any chosen
assertions (bare or decorated) by its elided form leaves the set of matching positions
unchanged; the replacement keeps digests and well-formedness -/
theorem awp_through_elided (s : Env) (as : List Env) (d : Digest) (p : Env) (S : Env → Bool) :
    assertionsWithPredicate (.node s (as.map fun a => if S a then elidePred a else a) d) p =
      (assertionsWithPredicate (.node s as d) p).map fun a => if S a then elidePred a else a := by
  simp only [awp_eq_filter, Env.assertions, List.filter_map]
  congr 1
  apply List.filter_congr
  intro a _
  simp only [Function.comp]
  split
  · exact matchesPred_elidePred a p
  · rfl

theorem awp_elidePred_keeps (h : Hash) (a : Env) :
    (elidePred a).digest = a.digest ∧ (WF h a → WF h (elidePred a)) :=
  ⟨elidePred_digest a, elidePred_wf h a⟩

theorem assertionWithPredicate_ok_iff (e p a : Env) :
    assertionWithPredicate e p = .ok a ↔ assertionsWithPredicate e p = [a] := by
  unfold assertionWithPredicate
  split <;> simp_all

theorem assertionWithPredicate_nonexistent_iff (e p : Env) :
    assertionWithPredicate e p = .err "NonexistentPredicate" ↔ assertionsWithPredicate e p = [] := by
  unfold assertionWithPredicate
  split <;> simp_all

theorem assertionWithPredicate_ambiguous_iff (e p : Env) :
    assertionWithPredicate e p = .err "AmbiguousPredicate" ↔
      2 ≤ (assertionsWithPredicate e p).length := by
  unfold assertionWithPredicate
  split
  · rename_i h0; simp [h0]
  · rename_i a h1; simp [h1]
  · rename_i h0 h1
    simp only [true_iff]
    cases hl : assertionsWithPredicate e p with
    | nil => exact absurd hl h0
    | cons a l =>
      cases l with
      | nil => exact absurd hl (h1 a)
      | cons b l => simp

theorem assertionWithPredicate_no_panic (e p : Env) (s : String) :
    assertionWithPredicate e p ≠ .panic s := by
  unfold assertionWithPredicate
  split <;> simp

/-- `objectForPredicate`: the object of the subject of the unique matching element (also
for decorated assertions); none / several reported as the corresponding errors -/
theorem objectForPredicate_spec (e p : Env) :
    (assertionsWithPredicate e p = [] → objectForPredicate e p = .err "NonexistentPredicate") ∧
    (∀ a, assertionsWithPredicate e p = [a] →
      ∃ q o d, a.subject = .assertion q o d ∧ q.digest = p.digest ∧
        objectForPredicate e p = .ok o) ∧
    (2 ≤ (assertionsWithPredicate e p).length →
      objectForPredicate e p = .err "AmbiguousPredicate") := by
  refine ⟨?_, ?_, ?_⟩
  · intro h0
    simp [objectForPredicate, (assertionWithPredicate_nonexistent_iff e p).2 h0]
  · intro a h1
    have hm : a ∈ assertionsWithPredicate e p := by rw [h1]; simp
    obtain ⟨_, q, o, d, hs, hq⟩ := mem_awp.1 hm
    refine ⟨q, o, d, hs, hq, ?_⟩
    simp [objectForPredicate, (assertionWithPredicate_ok_iff e p a).2 h1, hs, asObject]
  · intro h2
    simp [objectForPredicate, (assertionWithPredicate_ambiguous_iff e p).2 h2]

/-- on an undecorated matching assertion: its object -/
theorem objectForPredicate_undecorated (e p q o : Env) (d : Digest)
    (h1 : assertionsWithPredicate e p = [.assertion q o d]) : objectForPredicate e p = .ok o := by
  obtain ⟨q', o', d', hs, _, hr⟩ := (objectForPredicate_spec e p).2.1 _ h1
  simp only [Env.subject, Env.assertion.injEq] at hs
  rw [hr, hs.2.1]

theorem objectForPredicate_no_panic (e p : Env) (s : String) :
    objectForPredicate e p ≠ .panic s := by
  obtain ⟨h0, h1, h2⟩ := objectForPredicate_spec e p
  cases hl : assertionsWithPredicate e p with
  | nil => rw [h0 hl]; simp
  | cons a l =>
    cases l with
    | nil =>
      obtain ⟨q, o, d, _, _, hr⟩ := h1 a hl
      rw [hr]; simp
    | cons b l => rw [h2 (by simp [hl])]; simp

/-- `objectsForPredicate`: the objects of the subjects of all matching elements, in order -/
theorem objectsForPredicate_spec (e p : Env) :
    objectsForPredicate e p =
      .ok ((assertionsWithPredicate e p).filterMap fun a => asObject a.subject) ∧
    ((assertionsWithPredicate e p).filterMap fun a => asObject a.subject).length =
      (assertionsWithPredicate e p).length := by
  have hall : ∀ a ∈ assertionsWithPredicate e p, ∃ o, asObject a.subject = some o := by
    intro a ha
    obtain ⟨_, q, o, d, hs, _⟩ := mem_awp.1 ha
    exact ⟨o, by rw [hs]; rfl⟩
  refine ⟨objectsFold_spec _ hall, ?_⟩
  generalize assertionsWithPredicate e p = l at hall
  induction l with
  | nil => rfl
  | cons a l ih =>
    obtain ⟨o, ho⟩ := hall a (by simp)
    simp [ho, ih (fun b hb => hall b (by simp [hb]))]

theorem objectsForPredicate_no_panic (e p : Env) (s : String) :
    objectsForPredicate e p ≠ .panic s := by
  rw [(objectsForPredicate_spec e p).1]; simp

theorem optionalObjectForPredicate_spec (e p : Env) :
    (assertionsWithPredicate e p = [] → optionalObjectForPredicate e p = .ok none) ∧
    (∀ a, assertionsWithPredicate e p = [a] →
      ∃ q o d, a.subject = .assertion q o d ∧ q.digest = p.digest ∧
        optionalObjectForPredicate e p = .ok (some o)) ∧
    (2 ≤ (assertionsWithPredicate e p).length →
      optionalObjectForPredicate e p = .err "AmbiguousPredicate") := by
  refine ⟨?_, ?_, ?_⟩
  · intro h0
    simp [optionalObjectForPredicate, h0]
  · intro a h1
    have hm : a ∈ assertionsWithPredicate e p := by rw [h1]; simp
    obtain ⟨_, q, o, d, hs, hq⟩ := mem_awp.1 hm
    refine ⟨q, o, d, hs, hq, ?_⟩
    simp [optionalObjectForPredicate, h1, hs, asObject]
  · intro h2
    cases hl : assertionsWithPredicate e p with
    | nil => simp [hl] at h2
    | cons a l =>
      cases l with
      | nil => simp [hl] at h2
      | cons b l => simp [optionalObjectForPredicate, hl]

theorem optionalObjectForPredicate_no_panic (e p : Env) (s : String) :
    optionalObjectForPredicate e p ≠ .panic s := by
  obtain ⟨h0, h1, h2⟩ := optionalObjectForPredicate_spec e p
  cases hl : assertionsWithPredicate e p with
  | nil => rw [h0 hl]; simp
  | cons a l =>
    cases l with
    | nil =>
      obtain ⟨q, o, d, _, _, hr⟩ := h1 a hl
      rw [hr]; simp
    | cons b l => rw [h2 (by simp [hl])]; simp

/-! ### the hypotheses are satisfiable -/

section Examples
open AW.Toy

/-- `walk_parent_first`, `walk_children_after`: a split of the walk of `exNode` at the visit
of its second assertion, which has two children -/
example : ∃ pre post, walkStructure exNode 0 .none = pre ++ (exA1, 1, Edge.assertion) :: post ∧
    Child exA1 .predicate (newLeaf hLen (.uint 2)) :=
  ⟨[(exNode, 0, .none), (exSubj, 1, .subject), (exA2, 1, .assertion)],
   [(newLeaf hLen (.uint 2), 2, .predicate), (newLeaf hLen (.uint 3), 2, .object)],
   by simp [exNode, nodeOf, walkStructure, walkStructureList, exSubj, exA1, exA2, newLeaf, newAssertion],
   Child.predicate _ _ _⟩

/-- `objectForPredicate_spec`: a unique match through an elided predicate, on a decorated
assertion -/
example :
    let q := newLeaf hLen (.uint 2)
    let a := Env.node (.assertion (.elided q.digest) (newLeaf hLen (.uint 3)) ⟨9⟩) [exA2] ⟨11⟩
    assertionsWithPredicate (.node exSubj [exA2, a] ⟨12⟩) q = [a] := by
  simp [assertionsWithPredicate, Env.assertions, Env.subject, asPredicate, exA2, Env.digest]

/-- `walk_levels_leafish`, `walkTree_levels_leafish` -/
example : exA2.isInternal = false := rfl
end Examples

end EnvVerif
