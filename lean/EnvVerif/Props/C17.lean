/-
  Props/C17.lean — salting (`src/extension/salt.rs`, `add_assertion_salted` of
  `src/base/assertions.rs`).

  The salt bytes are an explicit argument of the model (`draw n` is what the RNG returns for
  `n` bytes), so "random" is "arbitrary".  `add_salt()` itself (length proportional to the
  serialized size) calls `Salt::new_for_size_using` of `bc-components`; that length contract
  is a dependency contract checked by the oracle (DESIGN C17), not modelled here; everything
  after the draw is `addSaltInstance`.

  Collision freedom is never assumed globally: where a statement needs it, it takes
  `CollFree h a b` (`h.H a = h.H b → a = b`) for the two images `a`, `b` named in the
  statement, and `∀ b, (h.H b).Valid` (the hash returns 32 bytes).

  Freshness hypotheses (`no assertion of e has the digest of the new element`) are needed:
  the library ignores an add whose digest is already present (`c17_addSaltInstance_present`).
-/
import EnvVerif.Lemmas.ExtLemmas
namespace EnvVerif
open Env AW ExtL

/-! ### `add_salt_instance` -/

/-- `add_salt_instance` never returns an error and never panics (any receiver) -/
theorem c17_addSaltInstance_total (h : Hash) (e : Env) (salt : Bytes) :
    ∃ r, addSaltInstance h e salt = .ok r :=
  addAssertionUnwrap_isOk h e _ _

/-- subject and existing assertions unchanged, exactly one new assertion: `'salt': Salt(bytes)` -/
theorem c17_addSaltInstance_shape {h : Hash} {e r : Env} {salt : Bytes} (hi : Inv h e)
    (hfresh : ∀ x ∈ e.assertions, x.digest ≠ (saltAssertion h salt).digest)
    (hr : addSaltInstance h e salt = .ok r) :
    r.subject = e.subject ∧
    (∀ a, a ∈ r.assertions ↔ a ∈ e.assertions ∨ a = saltAssertion h salt) ∧
    r.assertions.length = e.assertions.length + 1 ∧
    r.assertions.Perm (e.assertions ++ [saltAssertion h salt]) ∧
    saltAssertion h salt =
      newAssertion h (newKnownValue h KV_SALT) (newLeaf h (.tagged TAG_SALT (.bytes salt))) := by
  rw [addSaltInstance_eq] at hr
  obtain ⟨hs, ha, _⟩ := add_ok hi (saltAssertion_slotOk h salt) hr
  rw [normAdd_fresh hfresh] at ha
  refine ⟨hs, ?_, ?_, ?_, rfl⟩
  · intro a; rw [ha, mem_sortByDigest]; simp
  · rw [ha, sortByDigest_length]; simp
  · rw [ha]; exact sortByDigest_perm _

example : ∃ r, Inv InvL.toyHash InvL.sNode ∧
    (∀ x ∈ InvL.sNode.assertions, x.digest ≠ (saltAssertion InvL.toyHash [1,2,3,4,5,6,7,8]).digest) ∧
    addSaltInstance InvL.toyHash InvL.sNode [1,2,3,4,5,6,7,8] = .ok r := by
  obtain ⟨r, hr⟩ := c17_addSaltInstance_total InvL.toyHash InvL.sNode [1,2,3,4,5,6,7,8]
  refine ⟨r, InvL.sNode_inv, ?_, hr⟩
  have h1 : InvL.sA2.digest ≠ (saltAssertion InvL.toyHash [1,2,3,4,5,6,7,8]).digest := by decide +kernel
  have h2 : InvL.sA1.digest ≠ (saltAssertion InvL.toyHash [1,2,3,4,5,6,7,8]).digest := by decide +kernel
  simp [InvL.sNode, Env.assertions, h1, h2]

/-- the salted envelope has exactly one more 'salt' assertion, and if it had none before, the
salt is what the predicate lookup returns -/
theorem c17_addSaltInstance_one_salt {h : Hash} {e r : Env} {salt : Bytes} (hi : Inv h e)
    (hfresh : ∀ x ∈ e.assertions, x.digest ≠ (saltAssertion h salt).digest)
    (hr : addSaltInstance h e salt = .ok r) :
    (assertionsWithPredicate r (newKnownValue h KV_SALT)).Perm
      (assertionsWithPredicate e (newKnownValue h KV_SALT) ++ [saltAssertion h salt]) ∧
    (assertionsWithPredicate e (newKnownValue h KV_SALT) = [] →
      assertionsWithPredicate r (newKnownValue h KV_SALT) = [saltAssertion h salt] ∧
      objectForPredicate r (newKnownValue h KV_SALT) = .ok (newLeaf h (saltCbor salt))) := by
  rw [addSaltInstance_eq] at hr
  have hp := awp_add_perm (p := newKnownValue h KV_SALT) hi (saltAssertion_slotOk h salt) hfresh hr
  have hm : matchesPred (saltAssertion h salt) (newKnownValue h KV_SALT) = true := by
    simp [saltAssertion, matchesPred_newAssertion]
  rw [hm] at hp
  refine ⟨hp, ?_⟩
  intro hnone
  rw [hnone] at hp
  have h1 := List.perm_singleton.1 hp
  refine ⟨h1, ?_⟩
  simp [objectForPredicate, assertionWithPredicate, h1, saltAssertion, newAssertion, Env.subject,
    asObject]

example : Inv InvL.toyHash InvL.sSubj ∧
    (∀ x ∈ InvL.sSubj.assertions, x.digest ≠ (saltAssertion InvL.toyHash [9]).digest) ∧
    assertionsWithPredicate InvL.sSubj (newKnownValue InvL.toyHash KV_SALT) = [] :=
  ⟨InvL.sSubj_inv, by simp [InvL.sSubj, newLeaf, Env.assertions],
    by simp [InvL.sSubj, newLeaf, assertionsWithPredicate, Env.assertions]⟩

/-- an add whose digest is already among the assertions is ignored (why the shape theorems
carry a freshness hypothesis) -/
theorem c17_addSaltInstance_present {h : Hash} {e r : Env} {salt : Bytes} (hi : Inv h e)
    (hp : ∃ x ∈ e.assertions, x.digest = (saltAssertion h salt).digest)
    (hr : addSaltInstance h e salt = .ok r) : r = e := by
  rw [addSaltInstance_eq] at hr
  exact add_present_eq hi (saltAssertion_slotOk h salt) hp hr

example : Inv InvL.toyHash (nodeOf InvL.toyHash InvL.sSubj [saltAssertion InvL.toyHash [1]]) ∧
    ∃ x ∈ (nodeOf InvL.toyHash InvL.sSubj [saltAssertion InvL.toyHash [1]]).assertions,
      x.digest = (saltAssertion InvL.toyHash [1]).digest := by
  refine ⟨⟨?_, ?_⟩, _, List.mem_singleton.2 rfl, rfl⟩
  · simp [nodeOf, InvL.sSubj_inv.1, saltAssertion, newAssertion, newKnownValue, newLeaf]
  · simp [nodeOf, InvL.sSubj_inv.2, saltAssertion, newAssertion, newKnownValue, newLeaf, AscDigests]

/-! ### requested length / range -/

theorem c17_addSaltWithLen_refuses_short (h : Hash) (e : Env) {count : Nat} (draw : Nat → Bytes)
    (hc : count < 8) : addSaltWithLen h e count draw = .err "dep:Salt_length_is_too_short" := by
  simp [addSaltWithLen, hc]

theorem c17_addSaltWithLen_ok (h : Hash) (e : Env) {count : Nat} (draw : Nat → Bytes)
    (hc : 8 ≤ count) : addSaltWithLen h e count draw = addSaltInstance h e (draw count) := by
  simp [addSaltWithLen, Nat.not_lt.2 hc]

theorem c17_addSaltInRange_refuses_short (h : Hash) (e : Env) {lo : Nat} (hi pick : Nat)
    (draw : Nat → Bytes) (hc : lo < 8) :
    addSaltInRange h e lo hi pick draw = .err "dep:Salt_length_is_too_short" := by
  simp [addSaltInRange, hc]

/-- the length `pick` chosen by the RNG lies in the requested closed range -/
theorem c17_addSaltInRange_ok (h : Hash) (e : Env) {lo pick : Nat} (hi : Nat) (draw : Nat → Bytes)
    (hc : 8 ≤ lo) (hp : lo ≤ pick) :
    addSaltInRange h e lo hi pick draw = addSaltInstance h e (draw pick) := by
  have : ¬ pick < 8 := by omega
  simp [addSaltInRange, addSaltWithLen, Nat.not_lt.2 hc, this]

/-- with an RNG that returns as many bytes as asked, a successful salting with a requested
length or range added a salt of that length (at least 8), as `addSaltInstance` does -/
theorem c17_salt_length {h : Hash} {e r : Env} {lo hi pick : Nat} {draw : Nat → Bytes}
    (hdraw : ∀ n, (draw n).length = n) :
    (addSaltWithLen h e pick draw = .ok r →
      ∃ s, s.length = pick ∧ 8 ≤ s.length ∧ addSaltInstance h e s = .ok r) ∧
    (lo ≤ pick → pick ≤ hi → addSaltInRange h e lo hi pick draw = .ok r →
      ∃ s, lo ≤ s.length ∧ s.length ≤ hi ∧ 8 ≤ s.length ∧ addSaltInstance h e s = .ok r) := by
  constructor
  · intro hr
    by_cases hc : pick < 8
    · rw [c17_addSaltWithLen_refuses_short h e draw hc] at hr; cases hr
    · rw [c17_addSaltWithLen_ok h e draw (Nat.not_lt.1 hc)] at hr
      exact ⟨draw pick, hdraw pick, by rw [hdraw]; omega, hr⟩
  · intro h1 h2 hr
    by_cases hc : lo < 8
    · rw [c17_addSaltInRange_refuses_short h e hi pick draw hc] at hr; cases hr
    · rw [c17_addSaltInRange_ok h e hi draw (Nat.not_lt.1 hc) h1] at hr
      exact ⟨draw pick, by rw [hdraw]; exact h1, by rw [hdraw]; exact h2, by rw [hdraw]; omega, hr⟩

example : ∀ n, ((fun n => List.replicate n (7 : UInt8)) n).length = n := by simp

/-! ### the proportional range of `add_salt` -/

/-- whatever the two rounded products are, the range `add_salt` asks for starts at 8 or above and
is at least 8 wide: `Salt::new_in_range_using` has no reason to refuse it -/
theorem c17_saltRange_valid (c5 c25 : Nat) :
    8 ≤ (saltRange c5 c25).1 ∧ (saltRange c5 c25).1 + 8 ≤ (saltRange c5 c25).2 := by
  simp only [saltRange]; omega

/-- the range grows with the size (with the two rounded products) -/
theorem c17_saltRange_mono {a a' b b' : Nat} (ha : a ≤ a') (hb : b ≤ b') :
    (saltRange a b).1 ≤ (saltRange a' b').1 ∧ (saltRange a b).2 ≤ (saltRange a' b').2 := by
  simp only [saltRange]; omega

/-- **`add_salt` is total**: for an envelope of any size the library's `unwrap()` of
`new_in_range_using` meets no error - the result is `add_salt_instance` of the drawn bytes -/
theorem c17_addSalt_never_refused (h : Hash) (e : Env) (c5 c25 : Nat) {pick : Nat} (draw : Nat → Bytes)
    (hp : (saltRange c5 c25).1 ≤ pick) :
    addSaltProportional h e c5 c25 pick draw = addSaltInstance h e (draw pick) :=
  c17_addSaltInRange_ok h e _ draw (c17_saltRange_valid c5 c25).1 hp

/-- and the salt it adds has a length inside the range: between 8 bytes (5 % of the size when that
is more) and 16 bytes (a quarter of the size when that is more) -/
theorem c17_addSalt_length {h : Hash} {e r : Env} {c5 c25 pick : Nat} {draw : Nat → Bytes}
    (hdraw : ∀ n, (draw n).length = n)
    (hlo : (saltRange c5 c25).1 ≤ pick) (hhi : pick ≤ (saltRange c5 c25).2)
    (hr : addSaltProportional h e c5 c25 pick draw = .ok r) :
    ∃ s, max 8 c5 ≤ s.length ∧ s.length ≤ max (max 8 c5 + 8) c25 ∧ addSaltInstance h e s = .ok r := by
  obtain ⟨s, h1, h2, _, h4⟩ := (c17_salt_length (h := h) (e := e) (r := r) hdraw).2 hlo hhi hr
  exact ⟨s, h1, h2, h4⟩

/-- with exact rounding (`⌈n/20⌉`, `⌈n/4⌉`) the salt of an `n`-byte envelope is never longer than
16 bytes or a quarter of the envelope rounded up, whichever is larger; the library's floating-point
rounding may exceed the exact one by one at sizes where the product is not representable, which
is why the range itself takes the rounded values as parameters -/
theorem c17_saltRange_exact (n : Nat) :
    (saltRange ((n + 19) / 20) ((n + 3) / 4)).2 ≤ max 16 ((n + 3) / 4) ∧
    (saltRange ((n + 19) / 20) ((n + 3) / 4)).1 ≤ max 8 ((n + 19) / 20) ∧
    (160 < n → (saltRange ((n + 19) / 20) ((n + 3) / 4)).1 = (n + 19) / 20) := by
  simp only [saltRange]; omega
example : saltRange 9 41 = (9, 41) ∧ saltRange 1 3 = (8, 16) := by decide

/-! ### `add_assertion_salted` -/

/-- `add_assertion_salted(p, o, salted)` is `add_assertion_envelope` of one element: the bare
assertion when not salted, and when salted the assertion decorated with exactly one salt
assertion of its own (a node whose subject is the assertion); it never fails -/
theorem c17_addAssertionSalted_element (h : Hash) (e p o : Env) (salt : Option Bytes) :
    addAssertionSalted h e p o salt = addAssertionEnvelope h e (saltedElement h p o salt) ∧
    (∃ r, addAssertionSalted h e p o salt = .ok r) ∧
    saltedElement h p o none = newAssertion h p o ∧
    (∀ s, saltedElement h p o (some s) =
      .node (newAssertion h p o) [saltAssertion h s]
        (h.ofDigests [(newAssertion h p o).digest, (saltAssertion h s).digest])) ∧
    (∀ s, addSaltInstance h (newAssertion h p o) s = .ok (saltedElement h p o (some s))) := by
  refine ⟨addAssertionSalted_eq h e p o salt, ?_, rfl, fun _ => rfl,
    fun s => addSaltInstance_assertion h p o s⟩
  rw [addAssertionSalted_eq]
  exact InvL.addAssertionEnvelope_isOk h (saltedElement_slotOk h p o salt)

/-- **the two copies of the add logic agree**: `add_assertion_envelope_salted(a, false)` - the worker
behind the whole `*_salted` family, which carries its own copy of the duplicate check and of the node
rebuilding - is `add_assertion_envelope(a)` for *every* element `a` (bare, decorated or obscured
assertions, and non-assertions, which both refuse) and every receiver: same refusal, same
"already present" answer, same node -/
theorem c17_unsalted_door_is_plain_add (h : Hash) (e a : Env) :
    addAssertionEnvelopeSalted h e a none = addAssertionEnvelope h e a := by
  unfold addAssertionEnvelopeSalted addAssertionEnvelope
  by_cases hs : a.slotOk = true
  · simp only [hs, Bool.not_true, Bool.false_eq_true, if_false, Res.bind]
    cases e <;> rfl
  · simp [hs]

/-- the receiver's subject and other assertions are unchanged; the one element added is
`saltedElement h p o salt` -/
theorem c17_addAssertionSalted_shape {h : Hash} {e p o r : Env} {salt : Option Bytes} (hi : Inv h e)
    (hfresh : ∀ x ∈ e.assertions, x.digest ≠ (saltedElement h p o salt).digest)
    (hr : addAssertionSalted h e p o salt = .ok r) :
    r.subject = e.subject ∧
    (∀ a, a ∈ r.assertions ↔ a ∈ e.assertions ∨ a = saltedElement h p o salt) ∧
    r.assertions.length = e.assertions.length + 1 ∧
    r.assertions.Perm (e.assertions ++ [saltedElement h p o salt]) := by
  rw [addAssertionSalted_eq] at hr
  obtain ⟨hs, ha, _⟩ := add_ok hi (saltedElement_slotOk h p o salt) hr
  rw [normAdd_fresh hfresh] at ha
  refine ⟨hs, ?_, ?_, ?_⟩
  · intro a; rw [ha, mem_sortByDigest]; simp
  · rw [ha, sortByDigest_length]; simp
  · rw [ha]; exact sortByDigest_perm _

/-- the unsalted form draws nothing: its result is a function of `(e, p, o)` only, the one
`add_assertion(p, o)` computes -/
theorem c17_unsalted_deterministic (h : Hash) (e p o : Env) :
    addAssertionSalted h e p o none = addAssertionEnvelope h e (newAssertion h p o) ∧
    addAssertionSalted h e p o none = addAssertionUnwrap h e p o := by
  rw [addAssertionUnwrap_eq]
  exact ⟨addAssertionSalted_eq h e p o none, addAssertionSalted_eq h e p o none⟩

/-- the added (possibly salted) assertion is still found by its predicate -/
theorem c17_addAssertionSalted_found {h : Hash} {e p o r : Env} {salt : Option Bytes} (hi : Inv h e)
    (hfresh : ∀ x ∈ e.assertions, x.digest ≠ (saltedElement h p o salt).digest)
    (hr : addAssertionSalted h e p o salt = .ok r) :
    saltedElement h p o salt ∈ assertionsWithPredicate r p := by
  rw [mem_awp]
  refine ⟨((c17_addAssertionSalted_shape hi hfresh hr).2.1 _).2 (Or.inr rfl), ?_⟩
  cases salt with
  | none => exact ⟨p, o, _, rfl, rfl⟩
  | some s => exact ⟨p, o, _, rfl, rfl⟩

/-- and when no other assertion of the receiver has that predicate, the object lookup returns
the object -/
theorem c17_addAssertionSalted_object {h : Hash} {e p o r : Env} {salt : Option Bytes} (hi : Inv h e)
    (hfresh : ∀ x ∈ e.assertions, x.digest ≠ (saltedElement h p o salt).digest)
    (hnone : assertionsWithPredicate e p = [])
    (hr : addAssertionSalted h e p o salt = .ok r) :
    assertionsWithPredicate r p = [saltedElement h p o salt] ∧ objectForPredicate r p = .ok o := by
  rw [addAssertionSalted_eq] at hr
  have hp := awp_add_perm (p := p) hi (saltedElement_slotOk h p o salt) hfresh hr
  have hm : matchesPred (saltedElement h p o salt) p = true := by
    cases salt <;> simp [saltedElement, saltedAssertion, matchesPred_assertion,
      matchesPred_node_assertion, newAssertion]
  rw [hm, hnone] at hp
  have h1 := List.perm_singleton.1 hp
  refine ⟨h1, ?_⟩
  cases salt <;>
    simp [objectForPredicate, assertionWithPredicate, h1, saltedElement, saltedAssertion,
      newAssertion, Env.subject, asObject]

example : Inv InvL.toyHash InvL.sNode ∧
    (∀ x ∈ InvL.sNode.assertions, x.digest ≠
      (saltedElement InvL.toyHash (newKnownValue InvL.toyHash 7) (newLeaf InvL.toyHash (.uint 5))
        (some [1,2,3,4,5,6,7,8])).digest) ∧
    assertionsWithPredicate InvL.sNode (newKnownValue InvL.toyHash 7) = [] := by
  refine ⟨InvL.sNode_inv, ?_, ?_⟩
  · have h1 : InvL.sA2.digest ≠ (saltedElement InvL.toyHash (newKnownValue InvL.toyHash 7)
        (newLeaf InvL.toyHash (.uint 5)) (some [1,2,3,4,5,6,7,8])).digest := by decide +kernel
    have h2 : InvL.sA1.digest ≠ (saltedElement InvL.toyHash (newKnownValue InvL.toyHash 7)
        (newLeaf InvL.toyHash (.uint 5)) (some [1,2,3,4,5,6,7,8])).digest := by decide +kernel
    simp [InvL.sNode, Env.assertions, h1, h2]
  · decide +kernel

/-! ### decorrelation -/

/-- Two saltings of the same envelope with different salts have different digests, hence so do
their elided forms: the hash is assumed not to collide on (1) the two salt leaves' encodings,
(2) the two salt assertions' images, (3) the two resulting nodes' images.  That independently
drawn salts differ is a property of the RNG (observed by the oracle, not proved). -/
theorem c17_salt_decorrelates {h : Hash} (hV : ∀ b, (h.H b).Valid) {e r1 r2 : Env} {s1 s2 : Bytes}
    (hi : Inv h e) (hne : s1 ≠ s2)
    (hfresh : ∀ x ∈ e.assertions, x.digest ≠ (saltAssertion h s1).digest)
    (hr1 : addSaltInstance h e s1 = .ok r1) (hr2 : addSaltInstance h e s2 = .ok r2)
    (c1 : CollFree h (saltCbor s1).enc (saltCbor s2).enc)
    (c2 : CollFree h
      (catDigests [(newKnownValue h KV_SALT).digest, (newLeaf h (saltCbor s1)).digest])
      (catDigests [(newKnownValue h KV_SALT).digest, (newLeaf h (saltCbor s2)).digest]))
    (c3 : CollFree h (catDigests (r1.subject.digest :: r1.assertions.map Env.digest))
      (catDigests (r2.subject.digest :: r2.assertions.map Env.digest))) :
    r1.digest ≠ r2.digest ∧ (elide r1).digest ≠ (elide r2).digest := by
  rw [addSaltInstance_eq] at hr1 hr2
  have hsa := saltAssertion_digest_ne hV hne c1 c2
  have := add_digest_ne hV hi (saltAssertion_slotOk h s1) (saltAssertion_slotOk h s2)
    (saltAssertion_digest_valid hV s1) (saltAssertion_digest_valid hV s2) hfresh hsa hr1 hr2 c3
  exact ⟨this, by rwa [elide_digest, elide_digest]⟩

example : ∃ r1 r2, (∀ b, (InvL.toyHash.H b).Valid) ∧ Inv InvL.toyHash InvL.sSubj ∧
    ([1,2,3,4,5,6,7,8] : Bytes) ≠ [1,2,3,4,5,6,7,9] ∧
    (∀ x ∈ InvL.sSubj.assertions, x.digest ≠ (saltAssertion InvL.toyHash [1,2,3,4,5,6,7,8]).digest) ∧
    addSaltInstance InvL.toyHash InvL.sSubj [1,2,3,4,5,6,7,8] = .ok r1 ∧
    addSaltInstance InvL.toyHash InvL.sSubj [1,2,3,4,5,6,7,9] = .ok r2 ∧
    CollFree InvL.toyHash (saltCbor [1,2,3,4,5,6,7,8]).enc (saltCbor [1,2,3,4,5,6,7,9]).enc ∧
    CollFree InvL.toyHash
      (catDigests [(newKnownValue InvL.toyHash KV_SALT).digest,
        (newLeaf InvL.toyHash (saltCbor [1,2,3,4,5,6,7,8])).digest])
      (catDigests [(newKnownValue InvL.toyHash KV_SALT).digest,
        (newLeaf InvL.toyHash (saltCbor [1,2,3,4,5,6,7,9])).digest]) ∧
    CollFree InvL.toyHash (catDigests (r1.subject.digest :: r1.assertions.map Env.digest))
      (catDigests (r2.subject.digest :: r2.assertions.map Env.digest)) := by
  have hf : ∀ (s : Bytes), ∀ x ∈ InvL.sSubj.assertions, x.digest ≠ (saltAssertion InvL.toyHash s).digest := by
    intro s x hx; simp [InvL.sSubj, newLeaf, Env.assertions] at hx
  obtain ⟨r1, hr1⟩ := c17_addSaltInstance_total InvL.toyHash InvL.sSubj [1,2,3,4,5,6,7,8]
  obtain ⟨r2, hr2⟩ := c17_addSaltInstance_total InvL.toyHash InvL.sSubj [1,2,3,4,5,6,7,9]
  obtain ⟨hs1, _, _, hp1, _⟩ := c17_addSaltInstance_shape InvL.sSubj_inv (hf _) hr1
  obtain ⟨hs2, _, _, hp2, _⟩ := c17_addSaltInstance_shape InvL.sSubj_inv (hf _) hr2
  have ha1 := List.perm_singleton.1 hp1
  have ha2 := List.perm_singleton.1 hp2
  refine ⟨r1, r2, InvL.toyHash_valid, InvL.sSubj_inv, by decide, hf _, hr1, hr2, by decide +kernel,
    by decide +kernel, ?_⟩
  rw [hs1, hs2, ha1, ha2]
  decide +kernel

/-- the same for an assertion added as salted: the two decorated assertions (and their elided
forms, which is what a holder of a redacted copy sees) have different digests, while the
unsalted assertion has one digest only -/
theorem c17_salted_assertion_decorrelates {h : Hash} (hV : ∀ b, (h.H b).Valid) (p o : Env)
    {s1 s2 : Bytes} (hne : s1 ≠ s2)
    (c1 : CollFree h (saltCbor s1).enc (saltCbor s2).enc)
    (c2 : CollFree h
      (catDigests [(newKnownValue h KV_SALT).digest, (newLeaf h (saltCbor s1)).digest])
      (catDigests [(newKnownValue h KV_SALT).digest, (newLeaf h (saltCbor s2)).digest]))
    (c3 : CollFree h
      (catDigests [(newAssertion h p o).digest, (saltAssertion h s1).digest])
      (catDigests [(newAssertion h p o).digest, (saltAssertion h s2).digest])) :
    (saltedElement h p o (some s1)).digest ≠ (saltedElement h p o (some s2)).digest ∧
    (elide (saltedElement h p o (some s1))).digest ≠ (elide (saltedElement h p o (some s2))).digest ∧
    (elide (saltedElement h p o none)).digest = (newAssertion h p o).digest := by
  have := saltedAssertion_digest_ne hV p o (saltAssertion_digest_ne hV hne c1 c2) c3
  exact ⟨this, by rw [elide_digest, elide_digest]; exact this, elide_digest _⟩

example : (∀ b, (InvL.toyHash.H b).Valid) ∧ ([1,2,3,4,5,6,7,8] : Bytes) ≠ [1,2,3,4,5,6,7,9] ∧
    CollFree InvL.toyHash (saltCbor [1,2,3,4,5,6,7,8]).enc (saltCbor [1,2,3,4,5,6,7,9]).enc ∧
    CollFree InvL.toyHash
      (catDigests [(newKnownValue InvL.toyHash KV_SALT).digest,
        (newLeaf InvL.toyHash (saltCbor [1,2,3,4,5,6,7,8])).digest])
      (catDigests [(newKnownValue InvL.toyHash KV_SALT).digest,
        (newLeaf InvL.toyHash (saltCbor [1,2,3,4,5,6,7,9])).digest]) ∧
    CollFree InvL.toyHash
      (catDigests [(newAssertion InvL.toyHash (newKnownValue InvL.toyHash 7)
          (newLeaf InvL.toyHash (.uint 5))).digest,
        (saltAssertion InvL.toyHash [1,2,3,4,5,6,7,8]).digest])
      (catDigests [(newAssertion InvL.toyHash (newKnownValue InvL.toyHash 7)
          (newLeaf InvL.toyHash (.uint 5))).digest,
        (saltAssertion InvL.toyHash [1,2,3,4,5,6,7,9]).digest]) :=
  ⟨InvL.toyHash_valid, by decide, by decide +kernel, by decide +kernel, by decide +kernel⟩

/-- and the envelopes that received the two salted assertions differ in digest as well -/
theorem c17_salted_add_decorrelates {h : Hash} (hV : ∀ b, (h.H b).Valid) {e r1 r2 p o : Env}
    {s1 s2 : Bytes} (hi : Inv h e) (hne : s1 ≠ s2)
    (hfresh : ∀ x ∈ e.assertions, x.digest ≠ (saltedElement h p o (some s1)).digest)
    (hr1 : addAssertionSalted h e p o (some s1) = .ok r1)
    (hr2 : addAssertionSalted h e p o (some s2) = .ok r2)
    (c1 : CollFree h (saltCbor s1).enc (saltCbor s2).enc)
    (c2 : CollFree h
      (catDigests [(newKnownValue h KV_SALT).digest, (newLeaf h (saltCbor s1)).digest])
      (catDigests [(newKnownValue h KV_SALT).digest, (newLeaf h (saltCbor s2)).digest]))
    (c3 : CollFree h
      (catDigests [(newAssertion h p o).digest, (saltAssertion h s1).digest])
      (catDigests [(newAssertion h p o).digest, (saltAssertion h s2).digest]))
    (c4 : CollFree h (catDigests (r1.subject.digest :: r1.assertions.map Env.digest))
      (catDigests (r2.subject.digest :: r2.assertions.map Env.digest))) :
    r1.digest ≠ r2.digest ∧ (elide r1).digest ≠ (elide r2).digest := by
  rw [addAssertionSalted_eq] at hr1 hr2
  have hsa := (c17_salted_assertion_decorrelates hV p o hne c1 c2 c3).1
  have := add_digest_ne hV hi (saltedElement_slotOk h p o _) (saltedElement_slotOk h p o _)
    (saltedElement_digest_valid hV p o _) (saltedElement_digest_valid hV p o _) hfresh hsa hr1 hr2 c4
  exact ⟨this, by rwa [elide_digest, elide_digest]⟩

example : ∃ r1 r2, Inv InvL.toyHash InvL.sSubj ∧
    (∀ x ∈ InvL.sSubj.assertions, x.digest ≠
      (saltedElement InvL.toyHash (newKnownValue InvL.toyHash 7) (newLeaf InvL.toyHash (.uint 5))
        (some [1,2,3,4,5,6,7,8])).digest) ∧
    addAssertionSalted InvL.toyHash InvL.sSubj (newKnownValue InvL.toyHash 7)
      (newLeaf InvL.toyHash (.uint 5)) (some [1,2,3,4,5,6,7,8]) = .ok r1 ∧
    addAssertionSalted InvL.toyHash InvL.sSubj (newKnownValue InvL.toyHash 7)
      (newLeaf InvL.toyHash (.uint 5)) (some [1,2,3,4,5,6,7,9]) = .ok r2 ∧
    CollFree InvL.toyHash (catDigests (r1.subject.digest :: r1.assertions.map Env.digest))
      (catDigests (r2.subject.digest :: r2.assertions.map Env.digest)) := by
  have hf : ∀ (s : Option Bytes), ∀ x ∈ InvL.sSubj.assertions, x.digest ≠
      (saltedElement InvL.toyHash (newKnownValue InvL.toyHash 7) (newLeaf InvL.toyHash (.uint 5)) s).digest := by
    intro s x hx; simp [InvL.sSubj, newLeaf, Env.assertions] at hx
  obtain ⟨r1, hr1⟩ := (c17_addAssertionSalted_element InvL.toyHash InvL.sSubj (newKnownValue InvL.toyHash 7)
    (newLeaf InvL.toyHash (.uint 5)) (some [1,2,3,4,5,6,7,8])).2.1
  obtain ⟨r2, hr2⟩ := (c17_addAssertionSalted_element InvL.toyHash InvL.sSubj (newKnownValue InvL.toyHash 7)
    (newLeaf InvL.toyHash (.uint 5)) (some [1,2,3,4,5,6,7,9])).2.1
  obtain ⟨hs1, _, _, hp1⟩ := c17_addAssertionSalted_shape InvL.sSubj_inv (hf _) hr1
  obtain ⟨hs2, _, _, hp2⟩ := c17_addAssertionSalted_shape InvL.sSubj_inv (hf _) hr2
  have ha1 := List.perm_singleton.1 hp1
  have ha2 := List.perm_singleton.1 hp2
  refine ⟨r1, r2, InvL.sSubj_inv, hf _, hr1, hr2, ?_⟩
  rw [hs1, hs2, ha1, ha2]
  decide +kernel

end EnvVerif
