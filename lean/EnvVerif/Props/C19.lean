/-
  Props/C19.lean — attachments (`src/extension/attachment/attachment_impl.rs`) and types
  (`src/extension/types.rs`).

  Vocabulary (definitions in Lemmas/ExtLemmas.lean):
  * `attachmentOf h payload v c` — the assertion `Assertion::new_attachment` builds
    (`newAttachment h payload v c = .ok (attachmentOf h payload v c)`, it is total);
  * `AttGood h v c` — the collision-freedom facts it relies on: the 'vendor' and 'conformsTo'
    known values have different digests and (when `c = some c'`) so have the two assertions
    `'vendor': v` and `'conformsTo': c'`.  Without the second one `add_assertion` would drop
    the conformsTo assertion as a duplicate;
  * `addAttachments h e L` — a fold of `add_attachment` over (payload, vendor, conformsTo)
    triples; `attOfT h t` the attachment assertion of a triple.

  An add whose digest is already among the receiver's assertions is ignored by the library;
  so the "exactly the added ones" statements assume that an assertion of the receiver with the
  digest of an added element *is* that element (`hcross`; in particular true when no assertion
  of the receiver has such a digest), and that the added elements have pairwise different
  digests unless equal (`DigInj`).  `c19_addType_elided_witness` shows the hypothesis is
  needed: an elided `'isA': t` assertion makes `add_type(t)` a no-op and `has_type(t)` false.
-/
import EnvVerif.Lemmas.ExtLemmas
import EnvVerif.Props.C07
namespace EnvVerif
open Env AW ExtL

/-! ### one attachment -/

/-- `new_attachment` is total and its result is an assertion `'attachment': obj` whose object
has the wrapped payload as subject -/
theorem c19_newAttachment_total (h : Hash) (payload : Env) (v : Bytes) (c : Option Bytes) :
    newAttachment h payload v c = .ok (attachmentOf h payload v c) ∧
    attachmentOf h payload v c =
      newAssertion h (newKnownValue h KV_ATTACHMENT) (attachmentObject h payload v c) ∧
    (attachmentObject h payload v c).subject = wrap h payload ∧
    (attachmentOf h payload v none).digest =
      (newAssertion h (newKnownValue h KV_ATTACHMENT)
        (.node (wrap h payload) [vendorAssertion h v]
          (h.ofDigests [(wrap h payload).digest, (vendorAssertion h v).digest]))).digest :=
  ⟨newAttachment_eq h payload v c, rfl, rfl, rfl⟩

/-- payload, vendor and conformsTo read back from a new attachment are the ones given, and the
attachment validates -/
theorem c19_newAttachment_fields {h : Hash} {payload a : Env} {v : Bytes} {c : Option Bytes}
    (hk : (newKnownValue h KV_VENDOR).digest ≠ (newKnownValue h KV_CONFORMS_TO).digest)
    (hd : ∀ c', c = some c' → (vendorAssertion h v).digest ≠ (conformsToAssertion h c').digest)
    (ha : newAttachment h payload v c = .ok a) :
    attachmentPayload a = .ok payload ∧ attachmentVendor h a = .ok v ∧
    attachmentConformsTo h a = .ok c ∧ validateAttachment h a = .ok () := by
  rw [newAttachment_eq] at ha
  cases ha
  have hg : AttGood h v c := ⟨hk, hd⟩
  exact ⟨attachmentPayload_of h payload v c, attachmentVendor_of hg payload,
    attachmentConformsTo_of hg payload, validateAttachment_of hg payload⟩

example : (newKnownValue InvL.toyHash KV_VENDOR).digest ≠ (newKnownValue InvL.toyHash KV_CONFORMS_TO).digest ∧
    (∀ c', some [0x63] = some c' →
      (vendorAssertion InvL.toyHash [0x62]).digest ≠ (conformsToAssertion InvL.toyHash c').digest) ∧
    ∃ a, newAttachment InvL.toyHash InvL.sNode [0x62] (some [0x63]) = .ok a := by
  refine ⟨by decide +kernel, ?_, _, newAttachment_eq _ _ _ _⟩
  intro c' hc; cases hc; decide +kernel

/-! ### the attachment query after adding attachments -/

/-- `add_attachment` never fails, and a fold of it neither -/
theorem c19_addAttachment_total (h : Hash) (e payload : Env) (v : Bytes) (c : Option Bytes) :
    addAttachment h e payload v c = addAssertionEnvelope h e (attachmentOf h payload v c) ∧
    ∃ r, addAttachment h e payload v c = .ok r := by
  refine ⟨addAttachment_eq h e payload v c, ?_⟩
  rw [addAttachment_eq]
  exact InvL.addAssertionEnvelope_isOk h (attachmentOf_slotOk h payload v c)

/-- After attachments are added, `attachments()` returns exactly the attachments already there
(assumed valid) and the added ones. -/
theorem c19_attachments_exact {h : Hash} {e r : Env} {L : List (Env × Bytes × Option Bytes)}
    (hi : Inv h e)
    (hgood : ∀ t ∈ L, AttGood h t.2.1 t.2.2)
    (hold : ∀ a ∈ assertionsWithPredicate e (newKnownValue h KV_ATTACHMENT), validateAttachment h a = .ok ())
    (hcross : ∀ x ∈ e.assertions, ∀ t ∈ L, x.digest = (attOfT h t).digest → x = attOfT h t)
    (hinj : DigInj (L.map (attOfT h)))
    (hr : addAttachments h e L = .ok r) :
    r.subject = e.subject ∧
    ∃ l, attachmentsWith h r none none = .ok l ∧
      ∀ a, a ∈ l ↔ a ∈ assertionsWithPredicate e (newKnownValue h KV_ATTACHMENT) ∨ ∃ t ∈ L, a = attOfT h t := by
  obtain ⟨hs, has⟩ := addAttachments_ok hi hr
  have hcross' : ∀ y ∈ e.assertions, ∀ x ∈ L.map (attOfT h), y.digest = x.digest → y = x := by
    intro y hy x hx hd
    obtain ⟨t, ht, rfl⟩ := List.mem_map.1 hx
    exact hcross y hy t ht hd
  have hmem : ∀ a, a ∈ assertionsWithPredicate r (newKnownValue h KV_ATTACHMENT) ↔
      a ∈ assertionsWithPredicate e (newKnownValue h KV_ATTACHMENT) ∨ ∃ t ∈ L, a = attOfT h t := by
    intro a
    rw [awp_eq_filter, awp_eq_filter, List.mem_filter, List.mem_filter, has,
      mem_foldl_normAdd' hinj hcross' a, List.mem_map]
    constructor
    · rintro ⟨h1 | ⟨t, ht, rfl⟩, h2⟩
      · exact Or.inl ⟨h1, h2⟩
      · exact Or.inr ⟨t, ht, rfl⟩
    · rintro (⟨h1, h2⟩ | ⟨t, ht, rfl⟩)
      · exact ⟨Or.inl h1, h2⟩
      · exact ⟨Or.inr ⟨t, ht, rfl⟩, attachmentOf_matches h _ _ _⟩
  refine ⟨hs, _, (attachmentsWith_ok_iff h r none none _).2 ⟨?_, rfl⟩, ?_⟩
  · intro a ha
    rcases (hmem a).1 ha with ha | ⟨t, ht, rfl⟩
    · exact hold a ha
    · exact validateAttachment_of (hgood t ht) t.1
  · intro a
    rw [List.mem_filter, hmem a]
    simp [attachmentMatches]

/-- the statement of the property: the receiver has no attachments, then exactly the added
ones come back, each with the payload, vendor and conformsTo it was added with -/
theorem c19_attachments_exact_fresh {h : Hash} {e r : Env} {L : List (Env × Bytes × Option Bytes)}
    (hi : Inv h e)
    (hgood : ∀ t ∈ L, AttGood h t.2.1 t.2.2)
    (hnone : assertionsWithPredicate e (newKnownValue h KV_ATTACHMENT) = [])
    (hfresh : ∀ x ∈ e.assertions, ∀ t ∈ L, x.digest ≠ (attOfT h t).digest)
    (hinj : DigInj (L.map (attOfT h)))
    (hr : addAttachments h e L = .ok r) :
    ∃ l, attachmentsWith h r none none = .ok l ∧
      (∀ a, a ∈ l ↔ ∃ t ∈ L, a = attOfT h t) ∧
      (∀ t ∈ L, attachmentPayload (attOfT h t) = .ok t.1 ∧ attachmentVendor h (attOfT h t) = .ok t.2.1 ∧
        attachmentConformsTo h (attOfT h t) = .ok t.2.2) := by
  obtain ⟨_, l, hl, hm⟩ := c19_attachments_exact hi hgood (by rw [hnone]; intro a ha; cases ha)
    (fun x hx t ht hd => absurd hd (hfresh x hx t ht)) hinj hr
  refine ⟨l, hl, ?_, ?_⟩
  · intro a; rw [hm a, hnone]; simp
  · intro t ht
    exact ⟨attachmentPayload_of h _ _ _, attachmentVendor_of (hgood t ht) _,
      attachmentConformsTo_of (hgood t ht) _⟩

/-- sample: two attachments (one with conformsTo) added to the two-assertion sample node -/
example : ∃ r, Inv InvL.toyHash InvL.sNode ∧
    (∀ t ∈ [(InvL.sSubj, ([0x61] : Bytes), (none : Option Bytes)), (InvL.sA1, [0x62], some [0x63])],
      AttGood InvL.toyHash t.2.1 t.2.2) ∧
    assertionsWithPredicate InvL.sNode (newKnownValue InvL.toyHash KV_ATTACHMENT) = [] ∧
    (∀ x ∈ InvL.sNode.assertions,
      ∀ t ∈ [(InvL.sSubj, ([0x61] : Bytes), (none : Option Bytes)), (InvL.sA1, [0x62], some [0x63])],
      x.digest ≠ (attOfT InvL.toyHash t).digest) ∧
    DigInj ([(InvL.sSubj, ([0x61] : Bytes), (none : Option Bytes)), (InvL.sA1, [0x62], some [0x63])].map
      (attOfT InvL.toyHash)) ∧
    addAttachments InvL.toyHash InvL.sNode
      [(InvL.sSubj, [0x61], none), (InvL.sA1, [0x62], some [0x63])] = .ok r := by
  obtain ⟨r, hr⟩ := addAttachments_total InvL.toyHash InvL.sNode_inv
    [(InvL.sSubj, [0x61], none), (InvL.sA1, [0x62], some [0x63])]
  have hk : (newKnownValue InvL.toyHash KV_VENDOR).digest ≠
      (newKnownValue InvL.toyHash KV_CONFORMS_TO).digest := by decide +kernel
  have hd : (vendorAssertion InvL.toyHash [0x62]).digest ≠ (conformsToAssertion InvL.toyHash [0x63]).digest := by
    decide +kernel
  -- the second attachment in explicit form (the kernel does not evaluate `mergeSort`)
  have hA : attachmentObjAssertions InvL.toyHash [0x62] (some [0x63]) =
      [vendorAssertion InvL.toyHash [0x62], conformsToAssertion InvL.toyHash [0x63]] := by
    rw [attachmentObjAssertions_some _ _ _ hd, if_pos (by decide +kernel)]
  have hA2 : attOfT InvL.toyHash (InvL.sA1, [0x62], some [0x63]) =
      newAssertion InvL.toyHash (newKnownValue InvL.toyHash KV_ATTACHMENT)
        (nodeOf InvL.toyHash (wrap InvL.toyHash InvL.sA1)
          [vendorAssertion InvL.toyHash [0x62], conformsToAssertion InvL.toyHash [0x63]]) := by
    simp only [attOfT, attachmentOf, attachmentObject, hA]
  have hA1 : attOfT InvL.toyHash (InvL.sSubj, [0x61], none) =
      newAssertion InvL.toyHash (newKnownValue InvL.toyHash KV_ATTACHMENT)
        (nodeOf InvL.toyHash (wrap InvL.toyHash InvL.sSubj) [vendorAssertion InvL.toyHash [0x61]]) := rfl
  refine ⟨r, InvL.sNode_inv, ?_, by decide +kernel, ?_, ?_, hr⟩
  · intro t ht
    simp only [List.mem_cons, List.not_mem_nil, or_false] at ht
    rcases ht with rfl | rfl
    · exact ⟨hk, fun c' hc => by cases hc⟩
    · exact ⟨hk, fun c' hc => by cases hc; exact hd⟩
  · intro x hx t ht
    simp only [List.mem_cons, List.not_mem_nil, or_false] at ht
    simp only [InvL.sNode, Env.assertions, List.mem_cons, List.not_mem_nil, or_false] at hx
    rcases ht with rfl | rfl
    · rw [hA1]; rcases hx with rfl | rfl <;> decide +kernel
    · rw [hA2]; rcases hx with rfl | rfl <;> decide +kernel
  · apply digInj_of_pairwise
    simp only [List.map_cons, List.map_nil]
    rw [hA1, hA2]
    refine List.Pairwise.cons ?_ (List.Pairwise.cons (fun _ hb => by cases hb) List.Pairwise.nil)
    intro b hb
    rw [List.mem_singleton.1 hb]
    decide +kernel

/-! ### filtering -/

/-- the filter of `attachments_with_vendor_and_conforms_to` on an attachment whose vendor and
conformsTo are readable: it passes iff the requested vendor (if any) is its vendor and the
requested conformsTo (if any) is its conformsTo -/
theorem c19_attachmentMatches_iff {h : Hash} {a : Env} {v : Bytes} {c : Option Bytes}
    (hv : attachmentVendor h a = .ok v) (hc : attachmentConformsTo h a = .ok c)
    (vendor conf : Option Bytes) :
    attachmentMatches h vendor conf a = true ↔
      (∀ x, vendor = some x → x = v) ∧ (∀ x, conf = some x → c = some x) := by
  unfold attachmentMatches
  rw [hv, hc]
  cases vendor <;> cases conf <;> cases c <;> simp <;>
    first | exact eq_comm | (intro _; exact eq_comm)

/-- the query returns exactly the valid attachments passing the filter; for the added ones
that is: requested vendor = its vendor, requested conformsTo = its conformsTo -/
theorem c19_filter_exact {h : Hash} {e r : Env} {L : List (Env × Bytes × Option Bytes)}
    (hi : Inv h e)
    (hgood : ∀ t ∈ L, AttGood h t.2.1 t.2.2)
    (hold : ∀ a ∈ assertionsWithPredicate e (newKnownValue h KV_ATTACHMENT), validateAttachment h a = .ok ())
    (hcross : ∀ x ∈ e.assertions, ∀ t ∈ L, x.digest = (attOfT h t).digest → x = attOfT h t)
    (hinj : DigInj (L.map (attOfT h)))
    (hr : addAttachments h e L = .ok r) (vendor conf : Option Bytes) :
    ∃ l, attachmentsWith h r vendor conf = .ok l ∧
      ∀ a, a ∈ l ↔
        (a ∈ assertionsWithPredicate e (newKnownValue h KV_ATTACHMENT) ∧
          attachmentMatches h vendor conf a = true) ∨
        ∃ t ∈ L, a = attOfT h t ∧ (∀ x, vendor = some x → x = t.2.1) ∧
          (∀ x, conf = some x → t.2.2 = some x) := by
  obtain ⟨_, l0, hl0, hm0⟩ := c19_attachments_exact hi hgood hold hcross hinj hr
  obtain ⟨hval, hl0'⟩ := (attachmentsWith_ok_iff h r none none l0).1 hl0
  have hall : ∀ a, a ∈ l0 ↔ a ∈ assertionsWithPredicate r (newKnownValue h KV_ATTACHMENT) := by
    intro a; rw [hl0', List.mem_filter]; simp [attachmentMatches]
  refine ⟨_, (attachmentsWith_ok_iff h r vendor conf _).2 ⟨hval, rfl⟩, ?_⟩
  intro a
  rw [List.mem_filter, ← hall a, hm0 a]
  constructor
  · rintro ⟨h1 | ⟨t, ht, rfl⟩, h2⟩
    · exact Or.inl ⟨h1, h2⟩
    · refine Or.inr ⟨t, ht, rfl, ?_⟩
      exact (c19_attachmentMatches_iff (attachmentVendor_of (hgood t ht) t.1)
        (attachmentConformsTo_of (hgood t ht) t.1) vendor conf).1 h2
  · rintro (⟨h1, h2⟩ | ⟨t, ht, rfl, h2⟩)
    · exact ⟨Or.inl h1, h2⟩
    · exact ⟨Or.inr ⟨t, ht, rfl⟩,
        (c19_attachmentMatches_iff (attachmentVendor_of (hgood t ht) t.1)
          (attachmentConformsTo_of (hgood t ht) t.1) vendor conf).2 h2⟩

/-- the hypotheses of `c19_attachments_exact` / `c19_filter_exact` follow from those of
`c19_attachments_exact_fresh`, which the sample above satisfies -/
example {h : Hash} {e : Env} {L : List (Env × Bytes × Option Bytes)}
    (hnone : assertionsWithPredicate e (newKnownValue h KV_ATTACHMENT) = [])
    (hfresh : ∀ x ∈ e.assertions, ∀ t ∈ L, x.digest ≠ (attOfT h t).digest) :
    (∀ a ∈ assertionsWithPredicate e (newKnownValue h KV_ATTACHMENT), validateAttachment h a = .ok ()) ∧
    (∀ x ∈ e.assertions, ∀ t ∈ L, x.digest = (attOfT h t).digest → x = attOfT h t) :=
  ⟨by rw [hnone]; intro a ha; exact absurd ha List.not_mem_nil,
    fun x hx t ht hd => absurd hd (hfresh x hx t ht)⟩

/-! ### the single-result form -/

theorem c19_single_none_err {h : Hash} {e : Env} {vendor conf : Option Bytes}
    (hl : attachmentsWith h e vendor conf = .ok []) :
    attachmentWith h e vendor conf = .err "NonexistentAttachment" := by
  simp [attachmentWith, hl, Res.bind]

theorem c19_single_one_ok {h : Hash} {e a : Env} {vendor conf : Option Bytes}
    (hl : attachmentsWith h e vendor conf = .ok [a]) :
    attachmentWith h e vendor conf = .ok a := by
  simp [attachmentWith, hl, Res.bind]

theorem c19_single_many_err {h : Hash} {e : Env} {l : List Env} {vendor conf : Option Bytes}
    (hl : attachmentsWith h e vendor conf = .ok l) (h2 : 2 ≤ l.length) :
    attachmentWith h e vendor conf = .err "AmbiguousAttachment" := by
  match l, h2 with
  | a :: b :: l, _ => simp [attachmentWith, hl, Res.bind]

/-- an error of the list form is the error of the single-result form; neither ever panics -/
theorem c19_single_err_propagates {h : Hash} {e : Env} {x : String} {vendor conf : Option Bytes}
    (hl : attachmentsWith h e vendor conf = .err x) :
    attachmentWith h e vendor conf = .err x := by
  simp [attachmentWith, hl, Res.bind]

example : ∃ (l : List Env), 2 ≤ l.length := ⟨[default, default], by decide⟩

/-! ### malformed attachments -/

/-- (a) an element that is not an assertion — in particular an attachment assertion that
carries assertions of its own (e.g. a salted one), which the query still selects -/
theorem c19_malformed_not_assertion (h : Hash) {a : Env} (ha : a.isAssertion = false) :
    validateAttachment h a = .err "InvalidAttachment" :=
  validateAttachment_not_assertion h ha

theorem c19_malformed_decorated (h : Hash) (e payload : Env) (v : Bytes) (c : Option Bytes)
    (as : List Env) (d : Digest) (hm : Env.node (attachmentOf h payload v c) as d ∈ e.assertions)
    (vendor conf : Option Bytes) :
    Env.node (attachmentOf h payload v c) as d ∈
      assertionsWithPredicate e (newKnownValue h KV_ATTACHMENT) ∧
    validateAttachment h (.node (attachmentOf h payload v c) as d) = .err "InvalidAttachment" ∧
    ∀ l, attachmentsWith h e vendor conf ≠ .ok l := by
  have hmem : Env.node (attachmentOf h payload v c) as d ∈
      assertionsWithPredicate e (newKnownValue h KV_ATTACHMENT) :=
    mem_awp.2 ⟨hm, _, _, _, rfl, rfl⟩
  have hbad := validateAttachment_not_assertion h
    (a := .node (attachmentOf h payload v c) as d) rfl
  refine ⟨hmem, hbad, ?_⟩
  intro l hl
  have := ((attachmentsWith_ok_iff h e vendor conf l).1 hl).1 _ hmem
  rw [hbad] at this; cases this

example (h : Hash) (s payload x : Env) (v : Bytes) (d d' : Digest) :
    Env.node (attachmentOf h payload v none) [x] d ∈
      (Env.node s [Env.node (attachmentOf h payload v none) [x] d] d').assertions := by
  simp [Env.assertions]

/-- (b) the object is not a wrapped envelope -/
theorem c19_malformed_not_wrapped (h : Hash) (p o : Env) (d : Digest) (ho : o.subject.isWrapped = false) :
    validateAttachment h (.assertion p o d) = .err "NotWrapped" := by
  rw [validateAttachment_assertion]
  have : unwrap o = .err "NotWrapped" := by
    unfold unwrap
    cases hs : o.subject <;> simp_all [isWrapped]
  rw [this]; rfl

example : (newLeaf InvL.toyHash (.uint 1)).subject.isWrapped = false := rfl

/-- (c) no vendor assertion, or more than one -/
theorem c19_malformed_vendor_count (h : Hash) (p o : Env) (d : Digest) {payload : Env}
    (hp : unwrap o = .ok payload) :
    (assertionsWithPredicate o (newKnownValue h KV_VENDOR) = [] →
      validateAttachment h (.assertion p o d) = .err "NonexistentPredicate") ∧
    (2 ≤ (assertionsWithPredicate o (newKnownValue h KV_VENDOR)).length →
      validateAttachment h (.assertion p o d) = .err "AmbiguousPredicate") := by
  rw [validateAttachment_assertion, hp]
  constructor
  · intro h0
    simp [Res.bind, extractTextObjectForPredicate, assertionWithPredicate, h0]
  · intro h2
    match hl : assertionsWithPredicate o (newKnownValue h KV_VENDOR), h2 with
    | a :: b :: l, _ => simp [Res.bind, extractTextObjectForPredicate, assertionWithPredicate, hl]

example : unwrap (wrap InvL.toyHash InvL.sSubj) = .ok InvL.sSubj ∧
    assertionsWithPredicate (wrap InvL.toyHash InvL.sSubj) (newKnownValue InvL.toyHash KV_VENDOR) = [] ∧
    unwrap (nodeOf InvL.toyHash (wrap InvL.toyHash InvL.sSubj)
      [vendorAssertion InvL.toyHash [0x61], vendorAssertion InvL.toyHash [0x62]]) = .ok InvL.sSubj ∧
    2 ≤ (assertionsWithPredicate (nodeOf InvL.toyHash (wrap InvL.toyHash InvL.sSubj)
      [vendorAssertion InvL.toyHash [0x61], vendorAssertion InvL.toyHash [0x62]])
        (newKnownValue InvL.toyHash KV_VENDOR)).length :=
  ⟨rfl, rfl, rfl, by decide +kernel⟩

/-- (d) the vendor is not a text string (the error of the extraction is returned), or the
vendor assertion is itself decorated -/
theorem c19_malformed_vendor_not_text (h : Hash) (p o : Env) (d : Digest) {payload x : Env}
    (hp : unwrap o = .ok payload)
    (hl : assertionsWithPredicate o (newKnownValue h KV_VENDOR) = [x]) :
    (∀ q ob d' m, x = .assertion q ob d' → extractText ob = .err m →
      validateAttachment h (.assertion p o d) = .err m) ∧
    (x.isAssertion = false → validateAttachment h (.assertion p o d) = .err "NotAssertion") := by
  rw [validateAttachment_assertion, hp]
  constructor
  · intro q ob d' m hx hm
    subst hx
    simp [Res.bind, extractTextObjectForPredicate, assertionWithPredicate, hl, asObject, hm]
  · intro hx
    have : asObject x = none := by cases x <;> simp_all [asObject, isAssertion]
    simp [Res.bind, extractTextObjectForPredicate, assertionWithPredicate, hl, this]

example : unwrap (nodeOf InvL.toyHash (wrap InvL.toyHash InvL.sSubj)
      [newAssertion InvL.toyHash (newKnownValue InvL.toyHash KV_VENDOR) (newLeaf InvL.toyHash (.uint 5))])
      = .ok InvL.sSubj ∧
    assertionsWithPredicate (nodeOf InvL.toyHash (wrap InvL.toyHash InvL.sSubj)
      [newAssertion InvL.toyHash (newKnownValue InvL.toyHash KV_VENDOR) (newLeaf InvL.toyHash (.uint 5))])
      (newKnownValue InvL.toyHash KV_VENDOR) =
      [newAssertion InvL.toyHash (newKnownValue InvL.toyHash KV_VENDOR) (newLeaf InvL.toyHash (.uint 5))] ∧
    extractText (newLeaf InvL.toyHash (.uint 5)) = .err "dep:WrongType" := by
  refine ⟨rfl, ?_, rfl⟩
  simp [assertionsWithPredicate, nodeOf, Env.assertions, newAssertion, Env.subject, asPredicate]

/-- (e) all three fields read back but the attachment rebuilt from them has another digest -/
theorem c19_malformed_digest (h : Hash) {a payload : Env} {v : Bytes} {c : Option Bytes}
    (hp : attachmentPayload a = .ok payload) (hv : attachmentVendor h a = .ok v)
    (hc : attachmentConformsTo h a = .ok c)
    (hne : (attachmentOf h payload v c).digest ≠ a.digest) :
    validateAttachment h a = .err "InvalidAttachment" := by
  cases a with
  | assertion p o d =>
    simp only [attachmentPayload, attachmentVendor, attachmentConformsTo] at hp hv hc
    rw [validateAttachment_assertion, hp, hv, hc]
    simp only [Res.bind]
    rw [if_neg]
    simpa [Env.digest] using hne
  | _ => simp [attachmentPayload] at hp

/-- (e), concretely: one more assertion on the object of a good attachment (not a vendor or
conformsTo assertion), the digest of the result differing from the original's (a
collision-freedom fact) -/
theorem c19_malformed_extra_assertion {h : Hash} {payload x o' : Env} {v : Bytes} {c : Option Bytes}
    (hg : AttGood h v c) (hs : x.slotOk = true)
    (hx : ∀ q ob d, x.subject = .assertion q ob d →
      q.digest ≠ (newKnownValue h KV_VENDOR).digest ∧ q.digest ≠ (newKnownValue h KV_CONFORMS_TO).digest)
    (hfresh : ∀ y ∈ (attachmentObject h payload v c).assertions, y.digest ≠ x.digest)
    (ho : addAssertionEnvelope h (attachmentObject h payload v c) x = .ok o')
    (hne : (attachmentOf h payload v c).digest ≠
      (newAssertion h (newKnownValue h KV_ATTACHMENT) o').digest) :
    validateAttachment h (newAssertion h (newKnownValue h KV_ATTACHMENT) o') = .err "InvalidAttachment" := by
  have ho' := attachmentObject_add payload v c hs hfresh ho
  have hxv := matchesPred_false_of (p := newKnownValue h KV_VENDOR) (fun q ob d hq => (hx q ob d hq).1)
  have hxc := matchesPred_false_of (p := newKnownValue h KV_CONFORMS_TO) (fun q ob d hq => (hx q ob d hq).2)
  have hperm : ∀ p, matchesPred x p = false →
      (assertionsWithPredicate o' p).Perm (assertionsWithPredicate (attachmentObject h payload v c) p) := by
    intro p hxp
    rw [ho', awp_attachmentObject]
    show ((sortByDigest (attachmentObjAssertions h v c ++ [x])).filter (fun a => matchesPred a p)).Perm _
    refine (filter_sort_perm _ _).trans ?_
    rw [List.filter_append]
    simp [hxp]
  have hlv : assertionsWithPredicate o' (newKnownValue h KV_VENDOR) = [vendorAssertion h v] := by
    have := hperm _ hxv
    rw [vendor_lookup hg payload] at this
    exact List.perm_singleton.1 this
  have hlc : assertionsWithPredicate o' (newKnownValue h KV_CONFORMS_TO) = confList h c := by
    have := hperm _ hxc
    rw [conformsTo_lookup hg payload] at this
    revert this
    generalize assertionsWithPredicate o' (newKnownValue h KV_CONFORMS_TO) = l
    cases c with
    | none => exact fun this => List.perm_nil.1 this
    | some c' => exact fun this => List.perm_singleton.1 this
  apply c19_malformed_digest h (payload := payload) (v := v) (c := c)
  · rw [ho']; rfl
  · exact extractVendor_of_lookup hlv
  · exact extractConf_of_lookup hlc
  · exact hne

example : ∃ o', AttGood InvL.toyHash [0x61] none ∧
    (newAssertion InvL.toyHash (newKnownValue InvL.toyHash KV_NOTE) (newLeaf InvL.toyHash (.uint 1))).slotOk = true ∧
    (∀ q ob d, (newAssertion InvL.toyHash (newKnownValue InvL.toyHash KV_NOTE)
        (newLeaf InvL.toyHash (.uint 1))).subject = .assertion q ob d →
      q.digest ≠ (newKnownValue InvL.toyHash KV_VENDOR).digest ∧
      q.digest ≠ (newKnownValue InvL.toyHash KV_CONFORMS_TO).digest) ∧
    (∀ y ∈ (attachmentObject InvL.toyHash InvL.sSubj [0x61] none).assertions, y.digest ≠
      (newAssertion InvL.toyHash (newKnownValue InvL.toyHash KV_NOTE) (newLeaf InvL.toyHash (.uint 1))).digest) ∧
    addAssertionEnvelope InvL.toyHash (attachmentObject InvL.toyHash InvL.sSubj [0x61] none)
      (newAssertion InvL.toyHash (newKnownValue InvL.toyHash KV_NOTE) (newLeaf InvL.toyHash (.uint 1))) = .ok o' ∧
    (attachmentOf InvL.toyHash InvL.sSubj [0x61] none).digest ≠
      (newAssertion InvL.toyHash (newKnownValue InvL.toyHash KV_ATTACHMENT) o').digest := by
  have hs := newAssertion_slotOk InvL.toyHash (newKnownValue InvL.toyHash KV_NOTE) (newLeaf InvL.toyHash (.uint 1))
  obtain ⟨o', ho⟩ := InvL.addAssertionEnvelope_isOk InvL.toyHash
    (e := attachmentObject InvL.toyHash InvL.sSubj [0x61] none) hs
  have hfresh : ∀ y ∈ (attachmentObject InvL.toyHash InvL.sSubj [0x61] none).assertions, y.digest ≠
      (newAssertion InvL.toyHash (newKnownValue InvL.toyHash KV_NOTE) (newLeaf InvL.toyHash (.uint 1))).digest := by
    intro y hy
    have : y = vendorAssertion InvL.toyHash [0x61] := by
      simpa [attachmentObject, nodeOf, Env.assertions, attachmentObjAssertions] using hy
    rw [this]; decide +kernel
  have ho' := attachmentObject_add InvL.sSubj [0x61] none hs hfresh ho
  refine ⟨o', ⟨by decide +kernel, fun c' hc => by cases hc⟩, hs, ?_, hfresh, ho, ?_⟩
  · intro q ob d hq
    simp only [newAssertion, Env.subject, Env.assertion.injEq] at hq
    obtain ⟨rfl, _, _⟩ := hq
    exact ⟨by decide +kernel, by decide +kernel⟩
  · rw [ho']
    simp only [attachmentObjAssertions, List.cons_append, List.nil_append]
    rw [sortByDigest_pair]
    split <;> decide +kernel

/-- `validate_attachment` and the attachment queries never panic; an invalid attachment
assertion anywhere makes the list query (with any filter) fail, with the error of the first
invalid one in stored order -/
theorem c19_invalid_propagates (h : Hash) (e : Env) (vendor conf : Option Bytes) :
    (∀ a x, validateAttachment h a ≠ .panic x) ∧
    (∀ x, attachmentsWith h e vendor conf ≠ .panic x) ∧
    ((∃ a ∈ assertionsWithPredicate e (newKnownValue h KV_ATTACHMENT), validateAttachment h a ≠ .ok ()) →
      ∃ x, attachmentsWith h e vendor conf = .err x) ∧
    (∀ l1 a l2 x, assertionsWithPredicate e (newKnownValue h KV_ATTACHMENT) = l1 ++ a :: l2 →
      (∀ b ∈ l1, validateAttachment h b = .ok ()) → validateAttachment h a = .err x →
      attachmentsWith h e vendor conf = .err x) := by
  have hfirst : ∀ l1 a l2 x, assertionsWithPredicate e (newKnownValue h KV_ATTACHMENT) = l1 ++ a :: l2 →
      (∀ b ∈ l1, validateAttachment h b = .ok ()) → validateAttachment h a = .err x →
      attachmentsWith h e vendor conf = .err x := by
    intro l1 a l2 x hl h1 ha
    rw [attachmentsWith_eq, hl, validateAll_first_err h h1 ha]; rfl
  -- a list with an invalid element splits at the first invalid one
  have hsplit : ∀ (l : List Env), (∃ a ∈ l, validateAttachment h a ≠ .ok ()) →
      ∃ l1 a l2, l = l1 ++ a :: l2 ∧ (∀ b ∈ l1, validateAttachment h b = .ok ()) ∧
        validateAttachment h a ≠ .ok () := by
    intro l
    induction l with
    | nil => rintro ⟨a, ha, _⟩; cases ha
    | cons b l ih =>
      intro hex
      by_cases hb : validateAttachment h b = .ok ()
      · obtain ⟨a, ha, hbad⟩ := hex
        rcases List.mem_cons.1 ha with rfl | ha
        · exact absurd hb hbad
        · obtain ⟨l1, a', l2, rfl, h1, h2⟩ := ih ⟨a, ha, hbad⟩
          refine ⟨b :: l1, a', l2, rfl, ?_, h2⟩
          intro c hc
          rcases List.mem_cons.1 hc with rfl | hc
          · exact hb
          · exact h1 c hc
      · exact ⟨[], b, l, rfl, by simp, hb⟩
  have hbadErr : (∃ a ∈ assertionsWithPredicate e (newKnownValue h KV_ATTACHMENT),
      validateAttachment h a ≠ .ok ()) → ∃ x, attachmentsWith h e vendor conf = .err x := by
    intro hex
    obtain ⟨l1, a, l2, hl, h1, hbad⟩ := hsplit _ hex
    cases hv : validateAttachment h a with
    | ok u => cases u; exact absurd hv hbad
    | err x => exact ⟨x, hfirst l1 a l2 x hl h1 hv⟩
    | panic x => exact absurd hv (validateAttachment_no_panic h a x)
  refine ⟨validateAttachment_no_panic h, ?_, hbadErr, hfirst⟩
  intro x hp
  by_cases hall : ∀ a ∈ assertionsWithPredicate e (newKnownValue h KV_ATTACHMENT), validateAttachment h a = .ok ()
  · rw [((attachmentsWith_ok_iff h e vendor conf _).2 ⟨hall, rfl⟩)] at hp; cases hp
  · obtain ⟨a, ha⟩ := Classical.not_forall.1 hall
    obtain ⟨ha1, ha2⟩ := Classical.not_imp.1 ha
    obtain ⟨y, hy⟩ := hbadErr ⟨a, ha1, ha2⟩
    rw [hy] at hp; cases hp

/-! ### types -/

/-- the type queries never fail: `types` returns the objects of the 'isA' assertions -/
theorem c19_types_total (h : Hash) (e t : Env) :
    types h e = .ok ((assertionsWithPredicate e (newKnownValue h KV_IS_A)).filterMap
      fun a => asObject a.subject) ∧
    (∃ b, hasTypeEnvelope h e t = .ok b) ∧ (∀ x, getType h e ≠ .panic x) ∧
    (∃ r, addType h e t = .ok r) := by
  refine ⟨types_eq h e, ?_, ?_, addAssertionUnwrap_isOk h e _ _⟩
  · simp [hasTypeEnvelope, types_eq]
  · intro x
    unfold getType
    rw [types_eq]
    split <;> simp_all

/-- a type is reported iff it is (by digest) the object of one of the 'isA' assertions -/
theorem c19_hasType_iff {h : Hash} {e t : Env} {b : Bool} (hb : hasTypeEnvelope h e t = .ok b) :
    b = true ↔ ∃ a ∈ e.assertions, ∃ q o d, a.subject = .assertion q o d ∧
      q.digest = (newKnownValue h KV_IS_A).digest ∧ o.digest = t.digest := by
  simp only [hasTypeEnvelope, types_eq] at hb
  cases hb
  rw [List.any_eq_true]
  constructor
  · rintro ⟨x, hx, hd⟩
    obtain ⟨a, ha, q, d, hs, hq⟩ := mem_typesList.1 hx
    exact ⟨a, ha, q, x, d, hs, hq, by simpa using hd⟩
  · rintro ⟨a, ha, q, o, d, hs, hq, hd⟩
    exact ⟨o, mem_typesList.2 ⟨a, ha, q, d, hs, hq⟩, by simpa using hd⟩

/-- a type added is reported (an assertion of the receiver with the digest of `'isA': t`, if
there is one, being that assertion) -/
theorem c19_addType_hasType {h : Hash} {e t r : Env} (hi : Inv h e)
    (hcross : ∀ x ∈ e.assertions, x.digest = (isAAssertion h t).digest → x = isAAssertion h t)
    (hr : addType h e t = .ok r) : hasTypeEnvelope h r t = .ok true := by
  rw [addType_eq] at hr
  obtain ⟨_, has, _⟩ := add_ok hi (isAAssertion_slotOk h t) hr
  obtain ⟨b, hb⟩ := (c19_types_total h r t).2.1
  rw [hb]
  congr 1
  rw [c19_hasType_iff hb]
  refine ⟨isAAssertion h t, ?_, _, t, _, rfl, rfl, rfl⟩
  rw [has]
  exact self_mem_normAdd hcross

example : Inv InvL.toyHash InvL.sNode ∧
    (∀ x ∈ InvL.sNode.assertions, x.digest = (isAAssertion InvL.toyHash InvL.sSubj).digest →
      x = isAAssertion InvL.toyHash InvL.sSubj) := by
  refine ⟨InvL.sNode_inv, ?_⟩
  intro x hx hd
  simp only [InvL.sNode, Env.assertions, List.mem_cons, List.not_mem_nil, or_false] at hx
  exfalso
  rcases hx with rfl | rfl
  · revert hd; decide +kernel
  · revert hd; decide +kernel

/-- the hypothesis `hcross` cannot be dropped: with the `'isA': t` assertion present in elided
form, `add_type(t)` leaves the envelope as it is and `has_type(t)` answers false -/
theorem c19_addType_elided_witness :
    ∃ (h : Hash) (e t r : Env), Inv h e ∧ addType h e t = .ok r ∧ r = e ∧
      hasTypeEnvelope h r t = .ok false := by
  obtain ⟨r, hr⟩ := (c19_types_total InvL.toyHash elidedIsAEnv InvL.sSubj).2.2.2
  have hre : r = elidedIsAEnv := by
    rw [addType_eq] at hr
    exact add_present_eq elidedIsAEnv_inv (isAAssertion_slotOk _ _)
      ⟨_, List.mem_singleton.2 rfl, rfl⟩ hr
  refine ⟨InvL.toyHash, elidedIsAEnv, InvL.sSubj, r, elidedIsAEnv_inv, hr, hre, ?_⟩
  rw [hre]
  simp [hasTypeEnvelope, types_eq, elidedIsAEnv, assertionsWithPredicate, Env.assertions, Env.subject,
    asPredicate]

/-- adding a type does not change the answer for any other type -/
theorem c19_addType_other {h : Hash} {e t t' r : Env} (hi : Inv h e) (hne : t'.digest ≠ t.digest)
    (hr : addType h e t = .ok r) : hasTypeEnvelope h r t' = hasTypeEnvelope h e t' := by
  rw [addType_eq] at hr
  obtain ⟨_, has, _⟩ := add_ok hi (isAAssertion_slotOk h t) hr
  obtain ⟨b1, hb1⟩ := (c19_types_total h r t').2.1
  obtain ⟨b2, hb2⟩ := (c19_types_total h e t').2.1
  rw [hb1, hb2]
  congr 1
  rw [Bool.eq_iff_iff, c19_hasType_iff hb1, c19_hasType_iff hb2, has]
  constructor
  · rintro ⟨a, ha, q, o, d, hs, hq, hd⟩
    rcases mem_normAdd_sub ha with ha | rfl
    · exact ⟨a, ha, q, o, d, hs, hq, hd⟩
    · simp only [isAAssertion, newAssertion, Env.subject, Env.assertion.injEq] at hs
      obtain ⟨_, rfl, _⟩ := hs
      exact absurd hd.symm (Ne.symm hne).symm
  · rintro ⟨a, ha, rest⟩
    exact ⟨a, mem_normAdd_of_mem ha, rest⟩

/-- `get_type`: the type when there is exactly one, `AmbiguousType` otherwise (none included) -/
theorem c19_getType_spec (h : Hash) (e : Env) :
    (∀ t, types h e = .ok [t] → getType h e = .ok t) ∧
    (∀ ts, types h e = .ok ts → ts.length ≠ 1 → getType h e = .err "AmbiguousType") := by
  constructor
  · intro t ht; simp [getType, ht]
  · intro ts hts hl
    unfold getType
    rw [hts]
    match ts, hl with
    | [], _ => rfl
    | a :: b :: l, _ => rfl

/-- after `add_type(t)` on an envelope without types, `get_type` returns `t` -/
theorem c19_getType_single {h : Hash} {e t r : Env} (hi : Inv h e)
    (hnone : assertionsWithPredicate e (newKnownValue h KV_IS_A) = [])
    (hfresh : ∀ x ∈ e.assertions, x.digest ≠ (isAAssertion h t).digest)
    (hr : addType h e t = .ok r) : getType h r = .ok t := by
  rw [addType_eq] at hr
  have hp := awp_add_perm (p := newKnownValue h KV_IS_A) hi (isAAssertion_slotOk h t) hfresh hr
  have hm : matchesPred (isAAssertion h t) (newKnownValue h KV_IS_A) = true := by
    simp [isAAssertion, matchesPred_newAssertion]
  rw [hm, hnone] at hp
  have h1 := List.perm_singleton.1 hp
  apply (c19_getType_spec h r).1
  rw [types_eq, h1]
  rfl

/-- after two `add_type`s with different types on an envelope without types, `get_type`
reports `AmbiguousType` (and both types are reported by `has_type`, by the theorems above) -/
theorem c19_getType_ambiguous {h : Hash} {e t1 t2 r1 r2 : Env} (hi : Inv h e)
    (hnone : assertionsWithPredicate e (newKnownValue h KV_IS_A) = [])
    (hf1 : ∀ x ∈ e.assertions, x.digest ≠ (isAAssertion h t1).digest)
    (hf2 : ∀ x ∈ e.assertions, x.digest ≠ (isAAssertion h t2).digest)
    (hne : (isAAssertion h t1).digest ≠ (isAAssertion h t2).digest)
    (hr1 : addType h e t1 = .ok r1) (hr2 : addType h r1 t2 = .ok r2) :
    getType h r2 = .err "AmbiguousType" := by
  rw [addType_eq] at hr1 hr2
  obtain ⟨he, hc, _⟩ := rebuild_of_inv hi
  have h1 := add_rebuild h hc (isAAssertion_slotOk h t1)
  rw [he, hr1] at h1
  cases h1
  have h2 := add_rebuild h (s := e.subject) (as := normAdd e.assertions (isAAssertion h t1))
    (Or.inr (normAdd_ne_nil _ _)) (isAAssertion_slotOk h t2)
  rw [hr2] at h2
  cases h2
  have hf2' : ∀ x ∈ normAdd e.assertions (isAAssertion h t1), x.digest ≠ (isAAssertion h t2).digest := by
    intro x hx
    rcases mem_normAdd_sub hx with hx | rfl
    · exact hf2 x hx
    · exact hne
  have hm1 : matchesPred (isAAssertion h t1) (newKnownValue h KV_IS_A) = true := by
    simp [isAAssertion, matchesPred_newAssertion]
  have hm2 : matchesPred (isAAssertion h t2) (newKnownValue h KV_IS_A) = true := by
    simp [isAAssertion, matchesPred_newAssertion]
  have hp : (assertionsWithPredicate
      (rebuild h e.subject (normAdd (normAdd e.assertions (isAAssertion h t1)) (isAAssertion h t2)))
      (newKnownValue h KV_IS_A)).Perm [isAAssertion h t1, isAAssertion h t2] := by
    rw [awp_eq_filter, rebuild_assertions (normAdd_ne_nil _ _), normAdd_fresh hf2', normAdd_fresh hf1]
    refine (filter_sort_perm _ _).trans ?_
    rw [List.filter_append]
    refine ((filter_sort_perm _ _).append_right _).trans ?_
    rw [List.filter_append]
    rw [awp_eq_filter] at hnone
    rw [hnone]
    simp [hm1, hm2]
  apply (c19_getType_spec h _).2 _ (types_eq h _)
  have hlen := (hp.filterMap (fun a => asObject a.subject)).length_eq
  rw [hlen]
  simp [isAAssertion, newAssertion, Env.subject, asObject]

example : Inv InvL.toyHash InvL.sSubj ∧
    assertionsWithPredicate InvL.sSubj (newKnownValue InvL.toyHash KV_IS_A) = [] ∧
    (∀ x ∈ InvL.sSubj.assertions, x.digest ≠ (isAAssertion InvL.toyHash InvL.sSubj).digest) ∧
    (∀ x ∈ InvL.sSubj.assertions, x.digest ≠ (isAAssertion InvL.toyHash InvL.sA3).digest) ∧
    (isAAssertion InvL.toyHash InvL.sSubj).digest ≠ (isAAssertion InvL.toyHash InvL.sA3).digest := by
  refine ⟨InvL.sSubj_inv, by decide +kernel, ?_, ?_, by decide +kernel⟩
  · intro x hx; simp [InvL.sSubj, newLeaf, Env.assertions] at hx
  · intro x hx; simp [InvL.sSubj, newLeaf, Env.assertions] at hx


/-! ### the `Attachments` container: read from an envelope, written to an envelope -/

section Container
variable (h : Hash)

/-- what `try_from_envelope` reads are assertion elements of the envelope -/
theorem attachmentsOfEnvelope_mem {e : Env} {as : List Env} (hr : attachmentsOfEnvelope h e = .ok as) :
    ∀ a ∈ as, a ∈ e.assertions := by
  intro a ha
  unfold attachmentsOfEnvelope attachmentsWith at hr
  simp only at hr
  generalize hv : (List.foldl (fun acc a => acc.bind fun _ => validateAttachment h a) (Res.ok ())
    (assertionsWithPredicate e (newKnownValue h KV_ATTACHMENT))) = v at hr
  cases v with
  | ok u =>
    simp only [Res.bind] at hr
    injection hr with hr
    subst hr
    have := (List.mem_filter.mp ha).1
    exact (AW.mem_awp.mp this).1
  | err x => simp [Res.bind] at hr
  | panic x => simp [Res.bind] at hr

/-- adding elements that are all present already (by membership) leaves the envelope as it is -/
theorem addAll_present (e : Env) (hc : Canon e) : ∀ (as : List Env), (∀ a ∈ as, a ∈ e.assertions) →
    addAll h e as = .ok e
  | [], _ => rfl
  | a :: as, hm => by
    have ha := hm a (List.mem_cons_self)
    have h1 : addAssertionEnvelope h e a = .ok e :=
      add_present h e a (InvL.canon_assertions_slotOk hc a ha) ⟨a, ha, rfl⟩
    have ih := addAll_present e hc as (fun x hx => hm x (List.mem_cons_of_mem _ hx))
    simp only [addAll, List.foldl_cons, Res.bind, h1] at ih ⊢
    exact ih

/-- **writing an envelope's own attachments back changes nothing** (the container's iteration order is irrelevant:
every element is present already) -/
theorem c19_container_writes_back {e : Env} {as : List Env} (hi : Inv h e)
    (hr : attachmentsOfEnvelope h e = .ok as) : addToEnvelope h as e = .ok e := by
  simp only [addToEnvelope, addAll_present h e hi.2 as (attachmentsOfEnvelope_mem h hr)]

/-- ... also in any other order and with repetitions -/
theorem c19_container_writes_back_any_order {e : Env} {as as' : List Env} (hi : Inv h e)
    (hr : attachmentsOfEnvelope h e = .ok as) (hsub : ∀ a ∈ as', a ∈ as) : addToEnvelope h as' e = .ok e := by
  simp only [addToEnvelope, addAll_present h e hi.2 as'
    (fun a ha => attachmentsOfEnvelope_mem h hr a (hsub a ha))]

/-- **the order in which the container yields its attachments does not matter** for any target envelope (the
container is keyed by digest, so its values have pairwise distinct digests) -/
theorem c19_container_order_independent (e : Env) (l1 l2 : List Env) (hi : Inv h e)
    (hmem : ∀ a, a ∈ l1 ↔ a ∈ l2) (hinj : ∀ a ∈ l1, ∀ b ∈ l1, a.digest = b.digest → a = b) :
    addToEnvelope h l1 e = addToEnvelope h l2 e := by
  simp only [addToEnvelope, addAll_perm_strong h e l1 l2 hi hmem hinj]

end Container

end EnvVerif
