/-
  Props/C04.lean — C04: every envelope emitted is canonical and well-formed.
  Every constructor establishes `Canon`, every operation preserves it (arguments assumed to
  satisfy the invariant), so every finite history yields `Inv` envelopes.  Where an
  operation creates an elided / compressed placeholder carrying the digest of an element,
  32-byte validity of that digest is needed; it follows from `WF` and the explicit
  hypothesis `hH : ∀ b, (h.H b).Valid` (the hash returns 32-byte values).  Nothing is
  assumed about `Aead` / `Deflate`.
-/
import EnvVerif.Props.C01
import EnvVerif.Lemmas.Grammar
namespace EnvVerif
open Env InvL

section
variable (h : Hash) (A : Aead) (Z : Deflate)

/-! ### 1. constructors establish `Canon` (and, with C01, `Inv`) -/

theorem newLeaf_canon (c : Cbor) : Canon (newLeaf h c) := by simp [newLeaf]

theorem newKnownValue_canon (v : Nat) : Canon (newKnownValue h v) := by simp [newKnownValue]

theorem newAssertion_canon {p o : Env} (hp : Canon p) (ho : Canon o) : Canon (newAssertion h p o) := by
  simp [newAssertion, hp, ho]
example : Canon (newAssertion toyHash sA1 sNode) := newAssertion_canon _ sA1_inv.2 sNode_inv.2

theorem newWrapped_canon {e : Env} (he : Canon e) : Canon (newWrapped h e) := by simp [newWrapped, he]
example : Canon (newWrapped toyHash sNode) := newWrapped_canon _ sNode_inv.2

theorem newElided_canon {d : Digest} (hd : d.Valid) : Canon (newElided d) := by simp [newElided, hd]
example : Canon (newElided sNode.digest) := newElided_canon (toyHash_valid _)

theorem mkNode_canon_of {s : Env} {as : List Env} (hs : Canon s) (has : ∀ a ∈ as, Canon a)
    (hne : as ≠ []) (hd : as.Pairwise (fun a b => a.digest ≠ b.digest))
    (hslot : ∀ a ∈ as, a.slotOk = true) : Canon (mkNode h s as) :=
  mkNode_canon h hs ((CanonList_iff as).2 has) hne hd hslot
example : Canon (mkNode toyHash sSubj [sA2, sA1]) :=
  mkNode_canon_of _ sSubj_inv.2 (by simp [sA1_inv.2, sA2_inv.2]) (by simp) (asc_distinct sNode_asc)
    (by simp [sA_slotOk])

theorem newNodeUnchecked_canon {s r : Env} {as : List Env} (hs : Canon s) (has : ∀ a ∈ as, Canon a)
    (hd : as.Pairwise (fun a b => a.digest ≠ b.digest)) (hslot : ∀ a ∈ as, a.slotOk = true)
    (hr : newNodeUnchecked h s as = .ok r) : Canon r := by
  obtain ⟨hne, rfl⟩ := (newNodeUnchecked_ok h).1 hr
  exact mkNode_canon_of h hs has hne hd hslot
example : ∃ r, newNodeUnchecked toyHash sSubj [sA2, sA1] = .ok r ∧ Canon r :=
  ⟨_, rfl, newNodeUnchecked_canon _ (as := [sA2, sA1]) sSubj_inv.2 (by simp [sA1_inv.2, sA2_inv.2])
    (asc_distinct sNode_asc) (by simp [sA_slotOk]) rfl⟩

/-- `newNode` checks the slots itself -/
theorem newNode_canon {s r : Env} {as : List Env} (hs : Canon s) (has : ∀ a ∈ as, Canon a)
    (hd : as.Pairwise (fun a b => a.digest ≠ b.digest)) (hr : newNode h s as = .ok r) : Canon r := by
  obtain ⟨hslot, hne, rfl⟩ := (newNode_ok h).1 hr
  exact mkNode_canon_of h hs has hne hd hslot
example : ∃ r, newNode toyHash sSubj [sA2, sA1] = .ok r ∧ Canon r := by
  have hr := (newNode_ok toyHash (s := sSubj) (as := [sA2, sA1])).2
    ⟨by simp [sA_slotOk], by simp, rfl⟩
  exact ⟨_, hr, newNode_canon _ sSubj_inv.2 (by simp [sA1_inv.2, sA2_inv.2]) (asc_distinct sNode_asc) hr⟩

theorem newLeaf_inv (c : Cbor) : Inv h (newLeaf h c) := ⟨newLeaf_wf h c, newLeaf_canon h c⟩

theorem newKnownValue_inv (v : Nat) : Inv h (newKnownValue h v) :=
  ⟨newKnownValue_wf h v, newKnownValue_canon h v⟩

theorem newAssertion_inv {p o : Env} (hp : Inv h p) (ho : Inv h o) : Inv h (newAssertion h p o) :=
  ⟨newAssertion_wf h hp.1 ho.1, newAssertion_canon h hp.2 ho.2⟩
example : Inv toyHash (newAssertion toyHash sA1 sNode) := newAssertion_inv _ sA1_inv sNode_inv

theorem newWrapped_inv {e : Env} (he : Inv h e) : Inv h (newWrapped h e) :=
  ⟨newWrapped_wf h he.1, newWrapped_canon h he.2⟩
example : Inv toyHash (newWrapped toyHash sNode) := newWrapped_inv _ sNode_inv

theorem newElided_inv {d : Digest} (hd : d.Valid) : Inv h (newElided d) :=
  ⟨newElided_wf h d, newElided_canon hd⟩
example : Inv toyHash (newElided sNode.digest) := newElided_inv _ (toyHash_valid _)

theorem mkNode_inv {s : Env} {as : List Env} (hs : Inv h s) (has : ∀ a ∈ as, Inv h a)
    (hne : as ≠ []) (hd : as.Pairwise (fun a b => a.digest ≠ b.digest))
    (hslot : ∀ a ∈ as, a.slotOk = true) : Inv h (mkNode h s as) :=
  ⟨mkNode_wf_of h hs.1 (fun a ha => (has a ha).1),
   mkNode_canon_of h hs.2 (fun a ha => (has a ha).2) hne hd hslot⟩
example : Inv toyHash (mkNode toyHash sSubj [sA2, sA1]) :=
  mkNode_inv _ sSubj_inv (by simp [sA1_inv, sA2_inv]) (by simp) (asc_distinct sNode_asc) (by simp [sA_slotOk])

theorem newNodeUnchecked_inv {s r : Env} {as : List Env} (hs : Inv h s) (has : ∀ a ∈ as, Inv h a)
    (hd : as.Pairwise (fun a b => a.digest ≠ b.digest)) (hslot : ∀ a ∈ as, a.slotOk = true)
    (hr : newNodeUnchecked h s as = .ok r) : Inv h r :=
  ⟨newNodeUnchecked_wf h hs.1 (fun a ha => (has a ha).1) hr,
   newNodeUnchecked_canon h hs.2 (fun a ha => (has a ha).2) hd hslot hr⟩
example : ∃ r, newNodeUnchecked toyHash sSubj [sA2, sA1] = .ok r ∧ Inv toyHash r :=
  ⟨_, rfl, newNodeUnchecked_inv _ (as := [sA2, sA1]) sSubj_inv (by simp [sA1_inv, sA2_inv])
    (asc_distinct sNode_asc) (by simp [sA_slotOk]) rfl⟩

theorem newNode_inv {s r : Env} {as : List Env} (hs : Inv h s) (has : ∀ a ∈ as, Inv h a)
    (hd : as.Pairwise (fun a b => a.digest ≠ b.digest)) (hr : newNode h s as = .ok r) : Inv h r :=
  ⟨newNode_wf h hs.1 (fun a ha => (has a ha).1) hr,
   newNode_canon h hs.2 (fun a ha => (has a ha).2) hd hr⟩
example : ∃ r, newNode toyHash sSubj [sA2, sA1] = .ok r ∧ Inv toyHash r := by
  have hr := (newNode_ok toyHash (s := sSubj) (as := [sA2, sA1])).2
    ⟨by simp [sA_slotOk], by simp, rfl⟩
  exact ⟨_, hr, newNode_inv _ sSubj_inv (by simp [sA1_inv, sA2_inv]) (asc_distinct sNode_asc) hr⟩

/-! ### 2. operations preserve `Canon` -/

theorem addAssertionEnvelope_canon {e a r : Env} (he : Canon e) (ha : Canon a)
    (hr : addAssertionEnvelope h e a = .ok r) : Canon r := by
  unfold addAssertionEnvelope at hr
  split at hr
  · cases hr
  · rename_i hslot
    simp only [Bool.not_eq_false, Bool.not_eq_eq_eq_not, Bool.not_true] at hslot
    split at hr
    · rename_i s as d
      split at hr
      · injection hr with hr; subst hr; exact he
      · rename_i hany
        obtain ⟨hne, rfl⟩ := (newNodeUnchecked_ok h).1 hr
        simp only [Canon_node] at he
        simp only [Bool.not_eq_true] at hany
        refine mkNode_canon h he.1 ?_ hne (distinct_append_singleton he.2.2.2.1 hany) ?_
        · rw [CanonList_iff] at *
          intro x hx
          rcases List.mem_append.1 hx with hx | hx
          · exact he.2.1 x hx
          · simp only [List.mem_singleton] at hx; subst hx; exact ha
        · intro x hx
          rcases List.mem_append.1 hx with hx | hx
          · exact he.2.2.2.2 x hx
          · simp only [List.mem_singleton] at hx; subst hx; exact hslot
    · obtain ⟨hne, rfl⟩ := (newNodeUnchecked_ok h).1 hr
      exact mkNode_canon h (canon_subject he) (by simpa using ha) hne (by simp [DistinctDigests])
        (by simpa using hslot)
example : ∃ r, addAssertionEnvelope toyHash sNode sA3 = .ok r ∧ Canon r := by
  obtain ⟨r, hr⟩ := addAssertionEnvelope_isOk toyHash (e := sNode) sA_slotOk.2.2
  exact ⟨r, hr, addAssertionEnvelope_canon _ sNode_inv.2 sA3_inv.2 hr⟩
/-- non-node receiver -/
example : ∃ r, addAssertionEnvelope toyHash sSubj sA3 = .ok r ∧ Canon r := by
  obtain ⟨r, hr⟩ := addAssertionEnvelope_isOk toyHash (e := sSubj) sA_slotOk.2.2
  exact ⟨r, hr, addAssertionEnvelope_canon _ sSubj_inv.2 sA3_inv.2 hr⟩

theorem removeAssertion_canon {e t r : Env} (he : Canon e) (hr : removeAssertion h e t = .ok r) :
    Canon r := by
  simp only [removeAssertion] at hr
  split at hr
  · rename_i i hi
    split at hr
    · injection hr with hr; subst hr; exact canon_subject he
    · obtain ⟨hne, rfl⟩ := (newNodeUnchecked_ok h).1 hr
      have h1 := canon_assertions he
      rw [CanonList_iff] at h1
      refine mkNode_canon h (canon_subject he) ?_ hne
        (asc_distinct (asc_sublist (canon_assertions_asc he) (List.eraseIdx_sublist _ _)))
        (fun x hx => canon_assertions_slotOk he x (List.mem_of_mem_eraseIdx hx))
      rw [CanonList_iff]
      exact fun x hx => h1 x (List.mem_of_mem_eraseIdx hx)
  · injection hr with hr; subst hr; exact he
example : ∃ r, removeAssertion toyHash sNode sA1 = .ok r ∧ Canon r := by
  obtain ⟨r, hr⟩ := removeAssertion_isOk toyHash sNode sA1
  exact ⟨r, hr, removeAssertion_canon _ sNode_inv.2 hr⟩

theorem replaceAssertion_canon {e a b r : Env} (he : Canon e) (hb : Canon b)
    (hr : replaceAssertion h e a b = .ok r) : Canon r := by
  obtain ⟨e', h1, h2⟩ := res_bind_eq_ok.1 hr
  exact addAssertionEnvelope_canon h (removeAssertion_canon h he h1) hb h2
example : ∃ r, replaceAssertion toyHash sNode sA1 sA3 = .ok r ∧ Canon r := by
  obtain ⟨r, hr⟩ := replaceAssertion_isOk toyHash sNode sA1 sA_slotOk.2.2
  exact ⟨r, hr, replaceAssertion_canon _ sNode_inv.2 sA3_inv.2 hr⟩

theorem addAll_canon {e r : Env} {as : List Env} (he : Canon e) (has : ∀ a ∈ as, Canon a)
    (hr : addAll h e as = .ok r) : Canon r :=
  foldl_bind_inv (P := Canon) (Q := Canon) (fun x a => addAssertionEnvelope h x a)
    (fun _ _ _ hx ha hs => addAssertionEnvelope_canon h hx ha hs) as (.ok e) r
    (fun x hx => by injection hx with hx; subst hx; exact he) has hr
example : ∃ r, addAll toyHash sNode [sA3, sA1] = .ok r ∧ Canon r := by
  obtain ⟨r, hr⟩ := addAll_isOk toyHash [sA3, sA1] sNode (by simp [sA_slotOk])
  exact ⟨r, hr, addAll_canon _ sNode_inv.2 (by simp [sA3_inv.2, sA1_inv.2]) hr⟩

theorem replaceSubject_canon {e s r : Env} (he : Canon e) (hs : Canon s)
    (hr : replaceSubject h e s = .ok r) : Canon r := by
  refine foldl_bind_inv (P := Canon) (Q := Canon)
    (fun x a => match addAssertionEnvelope h x a with
      | .ok y => .ok y
      | .err _ => .panic "assertions.rs:replace_subject:unwrap"
      | .panic p => .panic p)
    ?_ e.assertions (.ok s) r (fun x hx => by injection hx with hx; subst hx; exact hs)
    ((CanonList_iff _).1 (canon_assertions he)) hr
  intro x a r hx ha hstep
  split at hstep
  · rename_i y hy; injection hstep with hstep; subst hstep
    exact addAssertionEnvelope_canon h hx ha hy
  · cases hstep
  · cases hstep
example : ∃ r, replaceSubject toyHash sNode sA3 = .ok r ∧ Canon r := by
  obtain ⟨r, hr⟩ := replaceSubject_isOk toyHash (e := sNode) sA3
    (by simp [sNode, Env.assertions, sA_slotOk])
  exact ⟨r, hr, replaceSubject_canon _ sNode_inv.2 sA3_inv.2 hr⟩

theorem wrap_canon {e : Env} (he : Canon e) : Canon (wrap h e) := newWrapped_canon h he
example : Canon (wrap toyHash sNode) := wrap_canon _ sNode_inv.2

theorem unwrap_canon {e r : Env} (he : Canon e) (hr : unwrap e = .ok r) : Canon r := by
  unfold unwrap at hr
  have hs := canon_subject he
  split at hr
  · rename_i inner d heq
    injection hr with hr; subst hr
    rw [heq] at hs; exact (Canon_wrapped _ _).1 hs
  · cases hr
example : ∃ r, unwrap (wrap toyHash sNode) = .ok r ∧ Canon r :=
  ⟨sNode, rfl, unwrap_canon (wrap_canon toyHash sNode_inv.2) rfl⟩

theorem subject_canon {e : Env} (he : Canon e) : Canon e.subject := canon_subject he
example : Canon sNode.subject := subject_canon sNode_inv.2

theorem elide_canon (hH : ∀ b, (h.H b).Valid) {e : Env} (hw : WF h e) (hc : Canon e) :
    Canon (elide e) := by
  have hv := digest_valid hH hw hc
  unfold elide; split
  · exact hc
  · simpa [newElided] using hv
example : Canon (elide sNode) := elide_canon _ toyHash_valid sNode_inv.1 sNode_inv.2

/-! what a hit element is replaced with, per action (nothing is assumed about `Aead` /
`Deflate`) -/

/-- `elide` gives an elided element with the digest of the original -/
theorem obscure_elide_shape {e r : Env} (hr : obscure A Z .elide e = .ok r) :
    r = .elided e.digest := by
  simp only [obscure] at hr; injection hr with hr; subst hr
  unfold elide; split <;> rfl
example : ∃ r, obscure idAead idDeflate .elide sA1 = .ok r := ⟨_, rfl⟩

/-- `encrypt` gives an encrypted element whose declared digest is the one its `aad` decodes to -/
theorem obscure_encrypt_shape {key : Bytes} {nonce : Digest → Bytes} {e r : Env}
    (hr : obscure A Z (.encrypt key nonce) e = .ok r) :
    ∃ m d, r = .encrypted m d ∧ m.optDigest = some d := by
  simp only [obscure] at hr
  obtain ⟨d, h1, h2⟩ := newEncryptedUnwrap_ok hr
  exact ⟨_, d, h1, h2⟩
example : ∃ r, obscure idAead idDeflate (.encrypt [1] (fun _ => [2])) sA1 = .ok r :=
  res_isOk_iff.1 (by decide +kernel)

/-- `compress` gives a compressed element with the digest of the original, except that an
element that cannot be compressed (elided, encrypted) is left as it is -/
theorem obscure_compress_shape {e r : Env} (hr : obscure A Z .compress e = .ok r) :
    (∃ c, r = .compressed c e.digest) ∨ (r = e ∧ e.isObscured = true) := by
  simp only [obscure] at hr
  split at hr
  · rename_i c hc; injection hr with hr; subst hr; exact .inl (compress_ok Z hc)
  · rename_i x hx
    first
      | (injection hr with hr; subst hr; exact .inr ⟨rfl, compress_err Z hx⟩)
      | cases hr
  · cases hr
example : ∃ r, obscure idAead idDeflate .compress sA1 = .ok r := ⟨_, rfl⟩

mutual
theorem elideSet_canon (hH : ∀ b, (h.H b).Valid) (T : Digest → Bool) (rev : Bool) (act : Action) :
    (e r : Env) → WF h e → Canon e → elideSet h A Z T rev act e = .ok r → Canon r
  | .assertion p o d, r, hw, hc, hr => by
    have hv := digest_valid hH hw hc
    simp only [elideSet] at hr
    split at hr
    · exact obscure_canon A Z hv hc hr
    · split at hr
      · rename_i p' hp'
        split at hr
        · rename_i o' ho'
          split at hr
          · injection hr with hr; subst hr
            simp only [WF_assertion] at hw
            simp only [Canon_assertion] at hc
            simp [newAssertion, elideSet_canon hH T rev act p p' hw.1 hc.1 hp',
              elideSet_canon hH T rev act o o' hw.2.1 hc.2 ho']
          · cases hr
        · cases hr
        · cases hr
      · cases hr
      · cases hr
  | .node s as d, r, hw, hc, hr => by
    have hv := digest_valid hH hw hc
    simp only [elideSet] at hr
    split at hr
    · exact obscure_canon A Z hv hc hr
    · split at hr
      · rename_i s' hs'
        split at hr
        · cases hr
        · split at hr
          · rename_i as' has'
            simp only [WF_node] at hw
            simp only [Canon_node] at hc
            obtain ⟨hne, rfl⟩ := (newNodeUnchecked_ok h).1 hr
            have hdig := elideSetList_digests h A Z T rev act as as' has'
            exact mkNode_canon h (elideSet_canon hH T rev act s s' hw.1 hc.1 hs')
              (elideSetList_canon hH T rev act as as' hw.2.1 hc.2.1 has') hne
              (asc_distinct (asc_of_map_eq hc.2.2.2.1 hdig))
              (elideSetList_slotOk h A Z T rev act as as' hc.2.2.2.2 has')
          · cases hr
          · cases hr
      · cases hr
      · cases hr
  | .wrapped e d, r, hw, hc, hr => by
    have hv := digest_valid hH hw hc
    simp only [elideSet] at hr
    split at hr
    · exact obscure_canon A Z hv hc hr
    · split at hr
      · rename_i e' he'
        split at hr
        · cases hr
        · injection hr with hr; subst hr
          simp only [WF_wrapped] at hw
          simp only [Canon_wrapped] at hc
          simp [newWrapped, elideSet_canon hH T rev act e e' hw.1 hc he']
      · cases hr
      · cases hr
  | .leaf c d, r, hw, hc, hr => by
    simp only [elideSet] at hr; exact elideSet_canon_atom A Z (digest_valid hH hw hc) hc hr
  | .elided d, r, hw, hc, hr => by
    simp only [elideSet] at hr; exact elideSet_canon_atom A Z (digest_valid hH hw hc) hc hr
  | .knownValue v d, r, hw, hc, hr => by
    simp only [elideSet] at hr; exact elideSet_canon_atom A Z (digest_valid hH hw hc) hc hr
  | .encrypted m d, r, hw, hc, hr => by
    simp only [elideSet] at hr; exact elideSet_canon_atom A Z (digest_valid hH hw hc) hc hr
  | .compressed c d, r, hw, hc, hr => by
    simp only [elideSet] at hr; exact elideSet_canon_atom A Z (digest_valid hH hw hc) hc hr
theorem elideSetList_canon (hH : ∀ b, (h.H b).Valid) (T : Digest → Bool) (rev : Bool) (act : Action) :
    (as rs : List Env) → WFList h as → CanonList as → elideSetList h A Z T rev act as = .ok rs →
      CanonList rs
  | [], rs, _, _, hr => by simp only [elideSetList] at hr; injection hr with hr; subst hr; simp
  | a :: as, rs, hw, hc, hr => by
    simp only [elideSetList] at hr
    split at hr
    · rename_i a' ha'
      split at hr
      · cases hr
      · split at hr
        · rename_i as' has'
          injection hr with hr; subst hr
          simp only [WFList_cons] at hw
          simp only [CanonList_cons] at hc ⊢
          exact ⟨elideSet_canon hH T rev act a a' hw.1 hc.1 ha',
            elideSetList_canon hH T rev act as as' hw.2 hc.2 has'⟩
        · cases hr
        · cases hr
    · cases hr
    · cases hr
end
example : ∃ r, elideSet toyHash idAead idDeflate sTarget false .elide sNode = .ok r ∧ Canon r := by
  obtain ⟨r, hr⟩ := sElideSet_ok.1
  exact ⟨r, hr, elideSet_canon _ _ _ toyHash_valid _ _ _ _ _ sNode_inv.1 sNode_inv.2 hr⟩
example : ∃ r, elideSet toyHash idAead idDeflate sTarget false .compress sNode = .ok r ∧ Canon r := by
  obtain ⟨r, hr⟩ := sElideSet_ok.2.1
  exact ⟨r, hr, elideSet_canon _ _ _ toyHash_valid _ _ _ _ _ sNode_inv.1 sNode_inv.2 hr⟩
example : ∃ r, elideSet toyHash idAead idDeflate sTarget false sEncAct sNode = .ok r ∧ Canon r := by
  obtain ⟨r, hr⟩ := sElideSet_ok.2.2.1
  exact ⟨r, hr, elideSet_canon _ _ _ toyHash_valid _ _ _ _ _ sNode_inv.1 sNode_inv.2 hr⟩
example : ∃ r, elideSet toyHash idAead idDeflate sTarget true .elide sNode = .ok r ∧ Canon r := by
  obtain ⟨r, hr⟩ := sElideSet_ok.2.2.2
  exact ⟨r, hr, elideSet_canon _ _ _ toyHash_valid _ _ _ _ _ sNode_inv.1 sNode_inv.2 hr⟩

theorem compress_canon (hH : ∀ b, (h.H b).Valid) {e r : Env} (hw : WF h e) (hc : Canon e)
    (hr : compress Z e = .ok r) : Canon r := by
  obtain ⟨c, rfl⟩ := compress_ok Z hr
  simpa using digest_valid hH hw hc
example : ∃ r, compress idDeflate sNode = .ok r ∧ Canon r :=
  ⟨_, rfl, compress_canon toyHash _ toyHash_valid (e := sNode) sNode_inv.1 sNode_inv.2 rfl⟩

theorem compressSubject_canon (hH : ∀ b, (h.H b).Valid) {e r : Env} (hw : WF h e) (hc : Canon e)
    (hr : compressSubject h Z e = .ok r) : Canon r := by
  unfold compressSubject at hr
  split at hr
  · injection hr with hr; subst hr; exact hc
  · obtain ⟨s, h1, h2⟩ := res_bind_eq_ok.1 hr
    exact replaceSubject_canon h hc (compress_canon h Z hH (wf_subject hw) (canon_subject hc) h1) h2
example : ∃ r, compressSubject toyHash idDeflate sNode = .ok r ∧ Canon r := by
  obtain ⟨r, hr⟩ := replaceSubject_isOk toyHash (e := sNode)
    (.compressed (compressedOf idDeflate (encode sSubj)) sSubj.digest)
    (by simp [sNode, Env.assertions, sA_slotOk])
  have hr' : compressSubject toyHash idDeflate sNode = .ok r := hr
  exact ⟨r, hr', compressSubject_canon _ _ toyHash_valid sNode_inv.1 sNode_inv.2 hr'⟩

theorem encryptSubject_canon {key nonce : Bytes} {e r : Env} (he : Canon e)
    (hr : encryptSubject h A key nonce e = .ok r) : Canon r := by
  unfold encryptSubject at hr
  split at hr
  · rename_i s as d
    simp only [Canon_node] at he
    split at hr
    · cases hr
    · split at hr
      · rename_i es hes
        obtain ⟨d', rfl, hd'⟩ := newEncryptedUnwrap_ok hes
        split at hr
        · rename_i r' hr'
          dsimp only at hr
          split at hr
          · injection hr with hr; subst hr
            exact newNodeUnchecked_canon h (by simpa using optDigest_valid hd')
              ((CanonList_iff as).1 he.2.1) (asc_distinct he.2.2.2.1) he.2.2.2.2 hr'
          · cases hr
        · cases hr
        · cases hr
      · cases hr
      · cases hr
  · cases hr
  · cases hr
  · split at hr
    · rename_i r' hr'
      obtain ⟨d', rfl, hd'⟩ := newEncryptedUnwrap_ok hr'
      dsimp only at hr
      split at hr
      · injection hr with hr; subst hr; simpa using optDigest_valid hd'
      · cases hr
    · cases hr
    · cases hr
example : ∃ r, encryptSubject toyHash idAead [1] [2] sNode = .ok r ∧ Canon r := by
  obtain ⟨r, hr⟩ := sEncryptSubject_ok
  exact ⟨r, hr, encryptSubject_canon _ _ sNode_inv.2 hr⟩

theorem encryptWhole_canon {key nonce : Bytes} {e r : Env} (he : Canon e)
    (hr : encryptWhole h A key nonce e = .ok r) : Canon r := by
  unfold encryptWhole at hr
  split at hr
  · rename_i r' hr'; injection hr with hr; subst hr
    exact encryptSubject_canon h A (wrap_canon h he) hr'
  · cases hr
  · cases hr
example : ∃ r, encryptWhole toyHash idAead [1] [2] sNode = .ok r ∧ Canon r := by
  obtain ⟨r, hr⟩ := sEncryptWhole_ok
  exact ⟨r, hr, encryptWhole_canon _ _ sNode_inv.2 hr⟩

theorem unelide_canon {p e r : Env} (he : Canon e) (hr : unelide p e = .ok r) : Canon r := by
  unfold unelide at hr
  split at hr
  · injection hr with hr; subst hr; exact he
  · cases hr
example : ∃ r, unelide (elide sNode) sNode = .ok r ∧ Canon r := by
  have hd : (elide sNode).digest = sNode.digest := rfl
  have hr : unelide (elide sNode) sNode = .ok sNode := by simp [unelide, hd]
  exact ⟨sNode, hr, unelide_canon sNode_inv.2 hr⟩

/-! ### 3. histories -/

/-- one step of a non-decoding operation preserves the invariant -/
theorem applyOp_inv (hH : ∀ b, (h.H b).Valid) {o : Op} {e r : Env} (he : Inv h e)
    (ha : ∀ a ∈ o.args, Inv h a) (hd : o.decoding = false) (hr : applyOp h A Z o e = .ok r) :
    Inv h r := by
  refine ⟨applyOp_wf h A Z he.1 (fun a hm => (ha a hm).1) hr, ?_⟩
  have hc := he.2
  have hw := he.1
  cases o <;> simp only [applyOp] at hr <;> simp only [Op.args] at ha <;>
    simp only [Op.decoding, reduceCtorEq] at hd
  case addAssertion a => exact addAssertionEnvelope_canon h hc (ha a (by simp)).2 hr
  case removeAssertion t => exact removeAssertion_canon h hc hr
  case replaceAssertion a b => exact replaceAssertion_canon h hc (ha b (by simp)).2 hr
  case replaceSubject s => exact replaceSubject_canon h hc (ha s (by simp)).2 hr
  case addAll as => exact addAll_canon h hc (fun a hm => (ha a hm).2) hr
  case assertionWithObject o =>
    injection hr with hr; subst hr; exact newAssertion_canon h hc (ha o (by simp)).2
  case assertionWithPredicate p =>
    injection hr with hr; subst hr; exact newAssertion_canon h (ha p (by simp)).2 hc
  case wrap => injection hr with hr; subst hr; exact wrap_canon h hc
  case unwrap => exact unwrap_canon hc hr
  case subject => injection hr with hr; subst hr; exact subject_canon hc
  case elide => injection hr with hr; subst hr; exact elide_canon h hH hw hc
  case elideSet T rev act => exact elideSet_canon h A Z hH T rev act e r hw hc hr
  case compress => exact compress_canon h Z hH hw hc hr
  case compressSubject => exact compressSubject_canon h Z hH hw hc hr
  case encryptSubject key nonce => exact encryptSubject_canon h A hc hr
  case encryptWhole key nonce => exact encryptWhole_canon h A hc hr
  case unelide o => exact unelide_canon (ha o (by simp)).2 hr
example : ∃ r, applyOp toyHash idAead idDeflate (.elideSet sTarget false .elide) sNode = .ok r ∧
    Inv toyHash r := by
  obtain ⟨r, hr⟩ := sElideSet_ok.1
  exact ⟨r, hr, applyOp_inv toyHash idAead idDeflate toyHash_valid (o := .elideSet sTarget false .elide)
    sNode_inv (by simp [Op.args]) rfl hr⟩

/-- every envelope returned at any step of any finite history of non-decoding operations
satisfies the invariant (for histories with decoding steps `history_wf` gives `WF`) -/
theorem history_inv (hH : ∀ b, (h.H b).Valid) (ops : List Op) : ∀ (e0 : Env), Inv h e0 →
    (∀ o ∈ ops, ∀ a ∈ o.args, Inv h a) → (∀ o ∈ ops, o.decoding = false) →
    ∀ r, Res.ok r ∈ runHistory h A Z e0 ops → Inv h r := by
  induction ops with
  | nil => intro e0 _ _ _ r hr; simp [runHistory] at hr
  | cons o os ih =>
    intro e0 he ha hd r hr
    simp only [runHistory] at hr
    split at hr
    · rename_i r1 hr1
      have h1 := applyOp_inv h A Z hH he (ha o (by simp)) (hd o (by simp)) hr1
      rcases List.mem_cons.1 hr with heq | hmem
      · injection heq with heq; subst heq; exact h1
      · exact ih r1 h1 (fun o' ho' => ha o' (by simp [ho'])) (fun o' ho' => hd o' (by simp [ho'])) r hmem
    · rename_i x hx
      simp only [List.mem_singleton] at hr
      exact absurd hr.symm (hx r)
/-- a history whose hypotheses hold and which does produce results -/
example :
    (∀ r, Res.ok r ∈ runHistory toyHash idAead idDeflate sNode
        [.wrap, .compress, .elide, .unelide sNode, .addAssertion sA3, .removeAssertion sA1,
         .replaceSubject sA2, .elideSet sTarget false sEncAct] →
      Inv toyHash r) ∧
    Res.ok (wrap toyHash sNode) ∈ runHistory toyHash idAead idDeflate sNode
        [.wrap, .compress, .elide, .unelide sNode, .addAssertion sA3, .removeAssertion sA1,
         .replaceSubject sA2, .elideSet sTarget false sEncAct] :=
  ⟨history_inv _ _ _ toyHash_valid _ sNode sNode_inv
      (by simp [Op.args, sA3_inv, sA1_inv, sA2_inv, sNode_inv]) (by simp [Op.decoding]),
   by simp [runHistory, applyOp]⟩

/-- closure form: everything built from the constructors and the non-decoding operations,
arguments built the same way, satisfies the invariant -/
theorem produced_inv (hH : ∀ b, (h.H b).Valid) {e : Env} (hp : Produced h A Z false e) : Inv h e := by
  induction hp with
  | leaf c => exact newLeaf_inv h c
  | knownValue v => exact newKnownValue_inv h v
  | elided d hd => exact newElided_inv h hd
  | op o e r _ _ hdec hr ihe iha => exact applyOp_inv h A Z hH ihe iha (hdec rfl) hr
example : Produced toyHash idAead idDeflate false sA1 :=
  .op (.assertionWithObject (newLeaf toyHash (.uint 10))) (newKnownValue toyHash 1) sA1 (.knownValue 1)
    (by intro a ha; simp only [Op.args, List.mem_singleton] at ha; subst ha; exact .leaf _)
    (fun _ => rfl) rfl

/-! ### 4. the serialisation of an invariant-satisfying envelope obeys the envelope grammar -/

/-- an assertion slot serialises to a slot shape -/
theorem slotOk_shape : (e : Env) → e.slotOk = true → SlotShape (cborOf e)
  | .node s as d, hs => by
    simp only [slotOk_node] at hs
    simp only [cborOf]
    exact .node _ _ (slotOk_shape s hs)
  | .assertion p o d, _ => by simp only [cborOf]; exact .assertion _
  | .elided d, _ => by simp only [cborOf]; exact .elided _
  | .encrypted m d, _ => by simp only [cborOf, TAG_ENCRYPTED]; exact .encrypted _
  | .compressed c d, _ => by simp only [cborOf, TAG_COMPRESSED]; exact .compressed _
  | .leaf c d, hs => by simp at hs
  | .wrapped e d, hs => by simp at hs
  | .knownValue v d, hs => by simp at hs
example : SlotShape (cborOf sA3) := slotOk_shape sA3 sA_slotOk.2.2

mutual
theorem canon_grammar : (e : Env) → Canon e → Grammar (cborOf e)
  | .node s as d, hc => by
    simp only [Canon_node] at hc
    simp only [cborOf, cborOfList_eq_map]
    refine .node _ _ (canon_grammar s hc.1) (by simpa using hc.2.2.1) ?_ ?_
    · intro c hcm
      rw [← cborOfList_eq_map] at hcm
      exact canon_grammarList as hc.2.1 c hcm
    · intro c hcm
      obtain ⟨a, ha, rfl⟩ := List.mem_map.1 hcm
      exact slotOk_shape a (hc.2.2.2.2 a ha)
  | .leaf c d, _ => by simp only [cborOf, TAG_LEAF]; exact .leaf _
  | .wrapped e d, hc => by
    simp only [cborOf, TAG_ENVELOPE]; exact .wrapped _ (canon_grammar e ((Canon_wrapped _ _).1 hc))
  | .assertion p o d, hc => by
    simp only [cborOf]
    exact .assertion _ _ (canon_grammar p ((Canon_assertion _ _ _).1 hc).1)
      (canon_grammar o ((Canon_assertion _ _ _).1 hc).2)
  | .elided d, _ => by simp only [cborOf]; exact .elided _ (digest_bytes_length d)
  | .knownValue v d, _ => by simp only [cborOf]; exact .knownValue _
  | .encrypted m d, _ => by
    simp only [cborOf, TAG_ENCRYPTED, encMsgCbor]
    split
    · exact .encrypted3 _ _ _
    · exact .encrypted4 _ _ _ _
  | .compressed c d, _ => by
    simp only [cborOf, TAG_COMPRESSED, compMsgCbor, digestCbor, TAG_DIGEST]
    exact .compressed _ _ _ _ (digest_bytes_length d)
theorem canon_grammarList : (as : List Env) → CanonList as → ∀ c ∈ cborOfList as, Grammar c
  | [], _ => by simp [cborOfList]
  | a :: as, hc => by
    simp only [CanonList_cons] at hc
    simp only [cborOfList, List.mem_cons]
    rintro c (rfl | hm)
    · exact canon_grammar a hc.1
    · exact canon_grammarList as hc.2 c hm
end

theorem inv_grammar {e : Env} (hi : Inv h e) : Grammar (cborOf e) := canon_grammar e hi.2
example : Grammar (cborOf sNode) := inv_grammar toyHash sNode_inv

theorem inv_taggedGrammar {e : Env} (hi : Inv h e) : TaggedGrammar (taggedCborOf e) := by
  simp only [taggedCborOf, TAG_ENVELOPE, TaggedGrammar]; exact inv_grammar h hi
example : TaggedGrammar (taggedCborOf sNodeC) := inv_taggedGrammar toyHash sNodeC_inv

/-- "encrypted elements carry a digest": a `WF` encrypted element has a non-empty `aad`
(it decodes to the declared digest), so it serialises to the 4-element form -/
theorem encrypted_carries_digest {m : EncMsg} {d : Digest} (hw : WF h (.encrypted m d)) :
    cborOf (.encrypted m d) =
      .tagged 40002 (.array [.bytes m.ciphertext, .bytes m.nonce, .bytes m.auth, .bytes m.aad]) ∧
    m.optDigest = some d ∧ d.Valid := by
  simp only [WF_encrypted] at hw
  refine ⟨?_, hw, optDigest_valid hw⟩
  have hne : m.aad ≠ [] := by
    intro hnil
    simp [EncMsg.optDigest, hnil, Cbor.dec?, Cbor.dec, Cbor.decItem, Cbor.decHead] at hw
  simp [cborOf, TAG_ENCRYPTED, encMsgCbor, hne]
example : WF toyHash (.encrypted (encryptWithDigest idAead [1] [2] (encode sA3) sA3.digest) sA3.digest) :=
  sEnc_inv.1

/-! ### 6. named corollaries -/

/-- removing the last assertion collapses the node to its subject -/
theorem removeLast_collapses (s a t : Env) (d : Digest) (ht : t.digest = a.digest) :
    removeAssertion h (.node s [a] d) t = .ok s := by
  simp [removeAssertion, Env.assertions, findDigestIdx, ht, Env.subject]
example : removeAssertion toyHash (mkNode toyHash sSubj [sA1]) sA1 = .ok sSubj := by
  rw [mkNode_of_asc toyHash (by simp [AscDigests])]
  exact removeLast_collapses _ sSubj sA1 sA1 _ rfl

/-- adding an assertion whose digest is already present returns the receiver unchanged -/
theorem addDuplicate_ignored (s a : Env) (as : List Env) (d : Digest) (hs : a.slotOk = true)
    (hdup : ∃ x ∈ as, x.digest = a.digest) :
    addAssertionEnvelope h (.node s as d) a = .ok (.node s as d) := by
  obtain ⟨x, hx, hxd⟩ := hdup
  have : as.any (fun x => x.digest == a.digest) = true := List.any_eq_true.2 ⟨x, hx, by simp [hxd]⟩
  simp [addAssertionEnvelope, hs, this]
example : addAssertionEnvelope toyHash sNode sA1 = .ok sNode :=
  addDuplicate_ignored _ sSubj sA1 [sA2, sA1] _ sA_slotOk.1 ⟨sA1, by simp, rfl⟩

/-- after `replace_subject` the assertions are again in strictly ascending digest order -/
theorem replaceSubject_resorts {e s r : Env} (he : Canon e) (hs : Canon s)
    (hr : replaceSubject h e s = .ok r) : AscDigests r.assertions :=
  canon_assertions_asc (replaceSubject_canon h he hs hr)
example : ∃ r, replaceSubject toyHash sNode sA3 = .ok r ∧ AscDigests r.assertions := by
  obtain ⟨r, hr⟩ := replaceSubject_isOk toyHash (e := sNode) sA3
    (by simp [sNode, Env.assertions, sA_slotOk])
  exact ⟨r, hr, replaceSubject_resorts _ sNode_inv.2 sA3_inv.2 hr⟩


/-- the digests held in the structure agree with those recomputed from the children, at
every element -/
theorem inv_recompute {e : Env} (hi : Inv h e) : ∀ x ∈ elements e, x.digest = recompute h x :=
  fun x hx => wf_recompute (mem_elements_wf h e x hi.1 hx)
example : sA1.digest = recompute toyHash sA1 :=
  inv_recompute _ sNode_inv sA1 (by simp [sNode, elements, elementsList, sA1, sA2, newAssertion])

/-- the shape facts of C04 read off `Canon` at every node element: at least one assertion
element, strictly ascending digests (so no two equal), every element an assertion slot -/
theorem inv_node_shape {e : Env} (hi : Inv h e) : ∀ s as d, Env.node s as d ∈ elements e →
    as ≠ [] ∧ AscDigests as ∧ (∀ a ∈ as, a.slotOk = true) ∧
      as.Pairwise (fun a b => a.digest ≠ b.digest) := by
  intro s as d hx
  have hc := mem_elements_canon e _ hi.2 hx
  simp only [Canon_node] at hc
  exact ⟨hc.2.2.1, hc.2.2.2.1, hc.2.2.2.2, (asc_distinct hc.2.2.2.1)⟩
example : AscDigests [sA2, sA1] :=
  (inv_node_shape toyHash sNode_inv sSubj [sA2, sA1] sNode.digest
    (by simp [sNode, elements, Env.digest])).2.1

/-! ### 7. operations that decode bytes return canonical envelopes

This part depends on the strict-ordering check (`ascAdj`) the decoder performs in the
`.array` branch of `envOfCbor`; everything above is independent of the decoder.  No
hypothesis on the hash is needed here: a decoded elided / encrypted / compressed digest is
32 bytes by construction. -/

theorem ascAdj_asc : (as : List Env) → ascAdj as = true → AscDigests as
  | [], _ => by simp [AscDigests]
  | [_], _ => by simp [AscDigests]
  | a :: b :: rest, hs => by
    simp only [ascAdj, Bool.and_eq_true, decide_eq_true_eq] at hs
    have ih := ascAdj_asc (b :: rest) hs.2
    unfold AscDigests at ih ⊢
    refine List.pairwise_cons.2 ⟨?_, ih⟩
    intro x hx
    rcases List.mem_cons.1 hx with rfl | hx
    · exact hs.1
    · exact Nat.lt_trans hs.1 ((List.pairwise_cons.1 ih).1 x hx)

theorem decodeEncrypted_canon {item : Cbor} {e : Env} (he : decodeEncrypted item = .ok e) : Canon e := by
  unfold decodeEncrypted at he
  repeat' first | split at he | dsimp only at he
  all_goals first
    | (injection he with he; subst he; simpa using optDigest_valid ‹_ = some _›)
    | cases he
example : ∃ e, decodeEncrypted (encMsgCbor sMsg) = .ok e ∧ Canon e := by
  obtain ⟨e, he⟩ := sDecodeParts_ok.1
  exact ⟨e, he, decodeEncrypted_canon he⟩

theorem decodeCompressed_canon {item : Cbor} {e : Env} (he : decodeCompressed item = .ok e) : Canon e := by
  unfold decodeCompressed at he
  repeat' split at he
  all_goals first
    | (injection he with he; subst he; simpa using digestOfCbor_valid ‹_ = some _›)
    | cases he
example : ∃ e, decodeCompressed (compMsgCbor (compressedOf idDeflate (encode sA3)) sA3.digest) = .ok e ∧
    Canon e := by
  obtain ⟨e, he⟩ := sDecodeParts_ok.2.1
  exact ⟨e, he, decodeCompressed_canon he⟩

mutual
theorem envOfCbor_canon : (c : Cbor) → (e : Env) → envOfCbor h c = .ok e → Canon e
  | .tagged t item, e, he => by
    simp only [envOfCbor] at he
    split at he
    · injection he with he; subst he; simp [newLeaf]
    · split at he
      · split at he
        · rename_i x hx
          injection he with he; subst he
          simp [newWrapped, envOfCbor_canon item x hx]
        · cases he
        · cases he
      · split at he
        · exact decodeEncrypted_canon he
        · split at he
          · exact decodeCompressed_canon he
          · cases he
  | .bytes b, e, he => by
    simp only [envOfCbor] at he
    split at he
    · rename_i d hd
      injection he with he; subst he; simpa [newElided] using ofBytes_valid hd
    · cases he
  | .array [], e, he => by simp [envOfCbor] at he
  | .array [_], e, he => by simp [envOfCbor] at he
  | .array (x :: y :: rest), e, he => by
    simp only [envOfCbor] at he
    split at he
    · rename_i s hs
      split at he
      · rename_i as has
        have hs' := envOfCbor_canon x s hs
        have has' := envOfCborList_canon (y :: rest) as has
        split at he
        · rename_i hasc
          obtain ⟨hslot, hne, rfl⟩ := (newNode_ok h).1 he
          exact mkNode_canon h hs' has' hne (asc_distinct (ascAdj_asc as hasc)) hslot
        · cases he
      · cases he
      · cases he
    · cases he
    · cases he
  | .map [(k, v)], e, he => by
    simp only [envOfCbor] at he
    split at he
    · rename_i p hp
      split at he
      · rename_i o ho
        injection he with he; subst he
        simp [newAssertion, envOfCbor_canon k p hp, envOfCbor_canon v o ho]
      · cases he
      · cases he
    · cases he
    · cases he
  | .map [], e, he => by simp [envOfCbor] at he
  | .map (_ :: _ :: _), e, he => by simp [envOfCbor] at he
  | .uint v, e, he => by
    simp only [envOfCbor] at he
    injection he with he; subst he; simp [newKnownValue]
  | .nint _, e, he => by simp [envOfCbor] at he
  | .text _, e, he => by simp [envOfCbor] at he
  | .simple _, e, he => by simp [envOfCbor] at he
  | .float _, e, he => by simp [envOfCbor] at he
theorem envOfCborList_canon : (cs : List Cbor) → (es : List Env) → envOfCborList h cs = .ok es →
    CanonList es
  | [], es, he => by simp only [envOfCborList] at he; injection he with he; subst he; simp
  | c :: cs, es, he => by
    simp only [envOfCborList] at he
    split at he
    · rename_i x hx
      split at he
      · rename_i xs hxs
        injection he with he; subst he
        simp [envOfCbor_canon c x hx, envOfCborList_canon cs xs hxs]
      · cases he
      · cases he
    · cases he
    · cases he
end
example : ∃ e, envOfCbor toyHash (cborOf sA3) = .ok e ∧ Canon e := by
  obtain ⟨e, he⟩ := sDecodeParts_ok.2.2.1
  exact ⟨e, he, envOfCbor_canon _ _ _ he⟩

theorem decode_canon {b : Bytes} {e : Env} (he : decode h b = .ok e) : Canon e := by
  unfold decode at he
  split at he
  · unfold envOfTaggedCbor at he
    repeat' split at he
    all_goals first
      | exact envOfCbor_canon h _ _ he
      | cases he
  · cases he
example : ∃ r, decode toyHash (encode sA3) = .ok r ∧ Canon r := by
  obtain ⟨r, hr⟩ := sDecode_ok
  exact ⟨r, hr, decode_canon _ hr⟩

theorem uncompress_canon {e r : Env} (hr : uncompress h Z e = .ok r) : Canon r := by
  unfold uncompress at hr
  split at hr
  · split at hr
    · cases hr
    · split at hr
      · rename_i x hx
        split at hr
        · cases hr
        · injection hr with hr; subst hr; exact decode_canon h hx
      · cases hr
      · cases hr
  · cases hr
example : ∃ r, uncompress toyHash idDeflate sComp = .ok r ∧ Canon r := by
  obtain ⟨r, hr⟩ := sUncompress_ok
  exact ⟨r, hr, uncompress_canon _ _ hr⟩

theorem uncompressSubject_canon {e r : Env} (he : Canon e) (hr : uncompressSubject h Z e = .ok r) :
    Canon r := by
  unfold uncompressSubject at hr
  split at hr
  · obtain ⟨s, h1, h2⟩ := res_bind_eq_ok.1 hr
    have hs := uncompress_canon h Z h1
    split at h2
    · simp only [Canon_node] at he
      exact newNodeUnchecked_canon h hs ((CanonList_iff _).1 he.2.1) (asc_distinct he.2.2.2.1)
        he.2.2.2.2 h2
    · injection h2 with h2; subst h2; exact hs
  · injection hr with hr; subst hr; exact he
example : ∃ r, uncompressSubject toyHash idDeflate sNodeC = .ok r ∧ Canon r := by
  obtain ⟨r, hr⟩ := sUncompressSubject_ok
  exact ⟨r, hr, uncompressSubject_canon _ _ sNodeC_inv.2 hr⟩

theorem decryptSubject_canon {key : Bytes} {e r : Env} (he : Canon e)
    (hr : decryptSubject h A key e = .ok r) : Canon r := by
  unfold decryptSubject at hr
  split at hr
  · split at hr
    · cases hr
    · split at hr
      · cases hr
      · split at hr
        · rename_i rs hrs
          have hrs' := decode_canon h hrs
          split at hr
          · cases hr
          · split at hr
            · simp only [Canon_node] at he
              split at hr
              · rename_i r' hr'
                split at hr
                · cases hr
                · injection hr with hr; subst hr
                  exact newNodeUnchecked_canon h hrs' ((CanonList_iff _).1 he.2.1)
                    (asc_distinct he.2.2.2.1) he.2.2.2.2 hr'
              · cases hr
              · cases hr
            · injection hr with hr; subst hr; exact hrs'
        · cases hr
        · cases hr
  · cases hr
example : ∃ r, decryptSubject toyHash idAead [1] sEnc = .ok r ∧ Canon r := by
  obtain ⟨r, hr⟩ := sDecryptSubject_ok
  exact ⟨r, hr, decryptSubject_canon _ _ sEnc_inv.2 hr⟩

theorem decryptWhole_canon {key : Bytes} {e r : Env} (he : Canon e)
    (hr : decryptWhole h A key e = .ok r) : Canon r := by
  obtain ⟨x, h1, h2⟩ := res_bind_eq_ok.1 hr
  exact unwrap_canon (decryptSubject_canon h A he h1) h2
example : ∃ r, decryptWhole toyHash idAead [1] sEncW = .ok r ∧ Canon r := by
  obtain ⟨r, hr⟩ := sDecryptWhole_ok
  exact ⟨r, hr, decryptWhole_canon _ _ sEncW_inv.2 hr⟩


/-- one step of any operation, decoding ones included, preserves the invariant -/
theorem applyOp_inv_all (hH : ∀ b, (h.H b).Valid) {o : Op} {e r : Env} (he : Inv h e)
    (ha : ∀ a ∈ o.args, Inv h a) (hr : applyOp h A Z o e = .ok r) : Inv h r := by
  cases hd : o.decoding
  · exact applyOp_inv h A Z hH he ha hd hr
  · refine ⟨applyOp_wf h A Z he.1 (fun a hm => (ha a hm).1) hr, ?_⟩
    have hc := he.2
    cases o <;> simp only [Op.decoding, reduceCtorEq] at hd <;> simp only [applyOp] at hr
    case decodeBytes b => exact decode_canon h hr
    case reencode => exact decode_canon h hr
    case uncompress => exact uncompress_canon h Z hr
    case uncompressSubject => exact uncompressSubject_canon h Z hc hr
    case decryptSubject key => exact decryptSubject_canon h A hc hr
    case decryptWhole key => exact decryptWhole_canon h A hc hr
example : ∃ r, applyOp toyHash idAead idDeflate .uncompressSubject sNodeC = .ok r ∧ Inv toyHash r := by
  obtain ⟨r, hr⟩ := sUncompressSubject_ok
  exact ⟨r, hr, applyOp_inv_all toyHash idAead idDeflate toyHash_valid (o := .uncompressSubject)
    sNodeC_inv (by simp [Op.args]) hr⟩

/-- every envelope returned at any step of any finite history satisfies the invariant -/
theorem history_inv_all (hH : ∀ b, (h.H b).Valid) (ops : List Op) : ∀ (e0 : Env), Inv h e0 →
    (∀ o ∈ ops, ∀ a ∈ o.args, Inv h a) →
    ∀ r, Res.ok r ∈ runHistory h A Z e0 ops → Inv h r := by
  induction ops with
  | nil => intro e0 _ _ r hr; simp [runHistory] at hr
  | cons o os ih =>
    intro e0 he ha r hr
    simp only [runHistory] at hr
    split at hr
    · rename_i r1 hr1
      have h1 := applyOp_inv_all h A Z hH he (ha o (by simp)) hr1
      rcases List.mem_cons.1 hr with heq | hmem
      · injection heq with heq; subst heq; exact h1
      · exact ih r1 h1 (fun o' ho' => ha o' (by simp [ho'])) r hmem
    · rename_i x hx
      simp only [List.mem_singleton] at hr
      exact absurd hr.symm (hx r)
/-- a history with decoding steps whose hypotheses hold and which does produce results -/
example :
    (∀ r, Res.ok r ∈ runHistory toyHash idAead idDeflate sNode
        [.wrap, .compress, .uncompress, .unwrap, .reencode, .encryptWhole [1] [2], .decryptWhole [1],
         .addAssertion sA3, .elideSet sTarget true .compress] →
      Inv toyHash r) ∧
    Res.ok (wrap toyHash sNode) ∈ runHistory toyHash idAead idDeflate sNode
        [.wrap, .compress, .uncompress, .unwrap, .reencode, .encryptWhole [1] [2], .decryptWhole [1],
         .addAssertion sA3, .elideSet sTarget true .compress] :=
  ⟨history_inv_all _ _ _ toyHash_valid _ sNode sNode_inv (by simp [Op.args, sA3_inv]),
   by simp [runHistory, applyOp]⟩

/-- closure form over all operations -/
theorem produced_inv_all (hH : ∀ b, (h.H b).Valid) {dec : Bool} {e : Env}
    (hp : Produced h A Z dec e) : Inv h e := by
  induction hp with
  | leaf c => exact newLeaf_inv h c
  | knownValue v => exact newKnownValue_inv h v
  | elided d hd => exact newElided_inv h hd
  | op o e r _ _ _ hr ihe iha => exact applyOp_inv_all h A Z hH ihe iha hr
example : Produced toyHash idAead idDeflate true sA1 :=
  .op (.assertionWithObject (newLeaf toyHash (.uint 10))) (newKnownValue toyHash 1) sA1 (.knownValue 1)
    (by intro a ha; simp only [Op.args, List.mem_singleton] at ha; subst ha; exact .leaf _)
    (fun hf => by cases hf) rfl

end
end EnvVerif
