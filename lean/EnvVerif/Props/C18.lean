/-
  Props/C18.lean — C18: expression, request, response and event envelopes round-trip.

  "For any function (numeric or named), parameter list, identifier, note and date,
  converting an Expression, Request, Response (success, failure, early failure) or Event to
  an envelope and parsing it back - directly or through serialization - yields an equal
  value, and the envelope has the documented shape.  Parsing rejects an envelope that has
  both or neither of result and error, a wrongly tagged subject, or a function other than
  the expected one."

  The hash `h` is arbitrary.  What is assumed of it is stated as hypotheses, never as axioms:
    * `KVDistinct h` — `h` has no collision among the six known values used as predicates
      ('body' 100, 'note' 4, 'date' 16, 'result' 101, 'error' 102, 'content' 108);
    * `DistinctDigests (reqAsserts h r)` (resp. `evAsserts`) — `h` has no collision among the
      at most three assertions of the one request / event at hand.  The library drops an
      assertion whose digest is already present, so without this a note or a date can vanish;
      the hypothesis is per instance because a quantification over all objects would be false
      for every real hash (2^256 objects per predicate against 2^256 digests).
  Responses need `KVDistinct` only; expressions need nothing.

  Dates: the model carries integral timestamps (`Option Int`).  Dates with a fractional
  second go through `f64` in the `dcbor` dependency and do not survive; they are outside the
  model and recorded as a known finding (F9).  The request / event round trips below are
  full-strength for the model's value type.

  Definitions used in the statements (Lemmas/ExprLemmas.lean, namespace `ExprL`):
  `kvA h k o` = the assertion `newAssertion h (newKnownValue h k) o`;
  `paramA h (p, v)` = `newAssertion h (newLeaf h (identCbor TAG_PARAMETER p)) v`;
  `withParams h x ps` = `with_parameter` applied for each `(p, v)` of `ps` in order;
  `reqAsserts h r` = ['body': `r.body.envelope`] ++ ['note': text, if non-empty] ++
  ['date': date, if present]; `evAsserts` likewise with 'content';
  `idSubject h tag id` = `newLeaf h (#6.tag(#6.40012(id)))`;
  `respSubject`, `respAssert` = subject and single assertion of a response envelope;
  `AW.rebuild h s as` = `s` when `as = []`, else the node `s [as]` with the recomputed digest.
-/
import EnvVerif.Lemmas.ExprLemmas
import EnvVerif.Props.C05
namespace EnvVerif
open Env AW ExprL

/-! ### 1. leaf codecs -/

/-- functions and parameters (numeric or named) decode from their CBOR -/
theorem identOfCbor_identCbor (tag : Nat) (i : Ident) :
    identOfCbor? tag (identCbor tag i) = some i := by
  cases i <;> simp [identCbor, identOfCbor?]

/-- the encoding determines the tag and the identifier -/
theorem identCbor_injective {t1 t2 : Nat} {i j : Ident} (heq : identCbor t1 i = identCbor t2 j) :
    t1 = t2 ∧ i = j := by
  cases i <;> cases j <;> simp [identCbor] at heq ⊢ <;> exact heq
example : (2 : Nat) = 2 ∧ Ident.known 7 = Ident.known 7 := identCbor_injective rfl

/-- a numeric function and a named function never coincide, whatever the name -/
theorem known_vs_named_distinct (tag v : Nat) (n : Bytes) :
    identCbor tag (.known v) ≠ identCbor tag (.named n) := by
  simp [identCbor]

/-- an identifier under one tag is not read under another -/
theorem ident_other_tag_rejected {t t' : Nat} (i : Ident) (ht : t ≠ t') :
    identOfCbor? t' (identCbor t i) = none := by
  cases i <;> simp [identCbor, identOfCbor?, ht]
example : identOfCbor? 5 (identCbor 6 (.named [97])) = none := ident_other_tag_rejected _ (by decide)

/-- functions and parameters use distinct tags -/
theorem function_parameter_tags_distinct (i : Ident) :
    identOfCbor? TAG_PARAMETER (identCbor TAG_FUNCTION i) = none ∧
    identOfCbor? TAG_FUNCTION (identCbor TAG_PARAMETER i) = none :=
  ⟨ident_other_tag_rejected i (by decide), ident_other_tag_rejected i (by decide)⟩

theorem aridOfCbor_aridCbor {id : Bytes} (hid : id.length = 32) :
    aridOfCbor? (aridCbor id) = some id := by
  simp [aridCbor, aridOfCbor?, hid]
example : aridOfCbor? (aridCbor Toy.id0) = some Toy.id0 := aridOfCbor_aridCbor (by decide)

/-- an identifier that is not 32 bytes long is not an ARID -/
theorem aridOfCbor_rejects_length {id : Bytes} (hid : id.length ≠ 32) :
    aridOfCbor? (aridCbor id) = none := by
  simp [aridCbor, aridOfCbor?, hid]
example : aridOfCbor? (aridCbor [1, 2, 3]) = none := aridOfCbor_rejects_length (by decide)

/-- integral dates, negative ones included -/
theorem dateOfCbor_dateCbor (d : Int) : dateOfCbor? (dateCbor d) = some d := by
  unfold dateCbor
  split <;> simp [dateOfCbor?, TAG_DATE] <;> omega

/-! ### 2. expressions -/

/-- building an expression never fails -/
theorem expression_build_ok (h : Hash) (f : Ident) (ps : List (Ident × Env)) :
    ∃ x, withParams h (Expression.new h f) ps = .ok x :=
  ⟨_, withParams_new h f ps⟩

/-- **round trip**: parsing the envelope of an expression built from `f` and any parameter
list gives back the expression (its function, and the envelope itself) -/
theorem expression_roundtrip (h : Hash) (f : Ident) (ps : List (Ident × Env)) (x : Expression)
    (hx : withParams h (Expression.new h f) ps = .ok x) :
    Expression.parse x.envelope = .ok ⟨f, x.envelope⟩ ∧ x.function = f ∧
      Expression.parse x.envelope = .ok x := by
  rw [withParams_new] at hx
  injection hx with hx
  subst hx
  simp [Expression.parse, fnSubject, newLeaf, subjectLeaf_rebuild, identOfCbor_identCbor]
example : Expression.parse Toy.x0.envelope = .ok Toy.x0 :=
  (expression_roundtrip Toy.h0 (.known 1) Toy.params0 Toy.x0 (withParams_new _ _ _)).2.2

/-- **shape**: the subject is the leaf `❰f❱`; the stored assertions are strictly ascending by
digest and are, for each digest occurring among the parameter assertions
`❰p❱: v`, the first one carrying it (repetitions are dropped); the node digest is the
recomputed one (and there is no node when there are no parameters). -/
theorem expression_shape (h : Hash) (f : Ident) (ps : List (Ident × Env)) (x : Expression)
    (hx : withParams h (Expression.new h f) ps = .ok x) :
    x.envelope.subject = newLeaf h (identCbor TAG_FUNCTION f) ∧
    AscDigests x.envelope.assertions ∧
    (∀ a, a ∈ x.envelope.assertions ↔
      (ps.map (paramA h)).find? (fun b => b.digest == a.digest) = some a) ∧
    x.envelope = rebuild h (newLeaf h (identCbor TAG_FUNCTION f)) x.envelope.assertions ∧
    (x.envelope.assertions = [] ↔ ps = []) := by
  rw [withParams_new] at hx
  injection hx with hx
  subst hx
  have hs : (fnSubject h f).isNode = false := rfl
  simp only [rebuild_subject h _ hs, rebuild_assertions h _ hs]
  refine ⟨rfl, foldl_normAdd_asc _ List.Pairwise.nil, ?_, rfl, ?_⟩
  · intro a
    rw [mem_foldl_normAdd_first]
    simp
  · constructor
    · intro hnil
      cases ps with
      | nil => rfl
      | cons pv ps =>
        exact absurd hnil (foldl_normAdd_ne_nil _ (Or.inr (by simp)))
    · intro hnil; subst hnil; rfl

/-- ... and when the parameter assertions have pairwise different digests, all of them are
stored -/
theorem expression_shape_distinct (h : Hash) (f : Ident) (ps : List (Ident × Env)) (x : Expression)
    (hx : withParams h (Expression.new h f) ps = .ok x)
    (hd : DistinctDigests (ps.map (paramA h))) :
    x.envelope.assertions.Perm (ps.map (paramA h)) := by
  rw [withParams_new] at hx
  injection hx with hx
  subst hx
  have hs : (fnSubject h f).isNode = false := rfl
  simp only [rebuild_assertions h _ hs]
  simpa using foldl_normAdd_perm_of_distinct (ps.map (paramA h)) (as := []) List.Pairwise.nil
    (by simpa using hd)
set_option maxRecDepth 10000 in
example : DistinctDigests ((Toy.params0.take 2).map (paramA Toy.h0)) := by decide

/-! ### 2b. parameter lookups (`objects_for_parameter`, `object_for_parameter`) -/

/-- the objects of a list of bare parameter assertions: the fold of `objects_for_predicate`
never reaches its `unwrap` and returns them in order -/
theorem objectsFold_paramA (h : Hash) (L : List Env) (hL : ∀ a ∈ L, ∃ pv, a = paramA h pv) :
    L.foldr (fun a acc =>
      match acc with
      | .ok os =>
        match asObject a.subject with
        | some o => .ok (o :: os)
        | none => .panic "queries.rs:objects_for_predicate:as_object.unwrap"
      | r => r) (.ok []) = (.ok (L.filterMap (fun a => asObject a.subject)) : Res (List Env)) := by
  induction L with
  | nil => rfl
  | cons a L ih =>
    obtain ⟨pv, rfl⟩ := hL _ (List.mem_cons_self ..)
    rw [List.foldr_cons, ih (fun b hb => hL b (List.mem_cons_of_mem _ hb))]
    rfl

/-- which of the parameter assertions a lookup for `p` selects, and what it reads from them -/
theorem lookup_paramA (h : Hash) (p : Ident) (ps : List (Ident × Env))
    (hp : ∀ pv ∈ ps, (paramLeaf h pv.1).digest = (paramLeaf h p).digest → pv.1 = p) :
    ((ps.map (paramA h)).filter (fun a =>
        match asPredicate a.subject with
        | some q => q.digest == (paramLeaf h p).digest
        | none => false)).filterMap (fun a => asObject a.subject) =
      (ps.filter (fun pv => pv.1 = p)).map (·.2) := by
  induction ps with
  | nil => rfl
  | cons pv ps ih =>
    have ih' := ih (fun q hq => hp q (List.mem_cons_of_mem _ hq))
    obtain ⟨q, v⟩ := pv
    have hsub : asPredicate (paramA h (q, v)).subject = some (paramLeaf h q) := rfl
    have hobj : asObject (paramA h (q, v)).subject = some v := rfl
    by_cases hpv : q = p
    · subst hpv
      rw [List.map_cons, List.filter_cons]
      simp only [hsub, BEq.rfl, if_true]
      rw [List.filterMap_cons, hobj, ih', List.filter_cons]
      simp
    · have hne : ((paramLeaf h q).digest == (paramLeaf h p).digest) = false := by
        apply Bool.eq_false_iff.2
        intro hc
        exact hpv (hp (q, v) (List.mem_cons_self ..) (by simpa using hc))
      rw [List.map_cons, List.filter_cons]
      simp only [hsub, hne]
      rw [List.filter_cons]
      simpa [hpv] using ih'

/-- **every argument of a parameter is returned**, however often the parameter was given and in
whichever order: for an expression built from the list `ps` (no two of its parameter assertions
colliding under `h`, and no other parameter of the list colliding with `p`),
`objects_for_parameter(p)` succeeds and returns - up to order - exactly the values given for `p`. -/
theorem objects_for_parameter_all (h : Hash) (f : Ident) (ps : List (Ident × Env)) (x : Expression)
    (p : Ident) (hx : withParams h (Expression.new h f) ps = .ok x)
    (hd : DistinctDigests (ps.map (paramA h)))
    (hp : ∀ pv ∈ ps, (paramLeaf h pv.1).digest = (paramLeaf h p).digest → pv.1 = p) :
    ∃ os, x.objectsForParameter h p = .ok os ∧
      os.Perm ((ps.filter (fun pv => pv.1 = p)).map (·.2)) := by
  have hperm := expression_shape_distinct h f ps x hx hd
  refine ⟨(assertionsWithPredicate x.envelope (paramLeaf h p)).filterMap (fun a => asObject a.subject),
    ?_, ?_⟩
  · unfold Expression.objectsForParameter objectsForPredicate
    exact objectsFold_paramA h _ (fun a ha => by
      have := (hperm.mem_iff).1 (List.mem_filter.1 ha).1
      obtain ⟨pv, _, rfl⟩ := List.mem_map.1 this
      exact ⟨pv, rfl⟩)
  · unfold assertionsWithPredicate
    rw [← lookup_paramA h p ps hp]
    exact (hperm.filter _).filterMap _

/-- the premises are satisfiable with a parameter given twice, in "wrong" (descending) order of
its values, and another one in between: both values come back -/
def Toy.paramsTwice : List (Ident × Env) :=
  [(.known 2, newLeaf Toy.h0 (.uint 9)), (.named [114, 104, 115], newLeaf Toy.h0 (.uint 3)),
   (.known 2, newLeaf Toy.h0 (.uint 4))]
set_option maxRecDepth 10000 in
example : DistinctDigests (Toy.paramsTwice.map (paramA Toy.h0)) ∧
    (∀ pv ∈ Toy.paramsTwice, (paramLeaf Toy.h0 pv.1).digest = (paramLeaf Toy.h0 (.known 2)).digest →
      pv.1 = .known 2) ∧
    (Toy.paramsTwice.filter (fun pv => pv.1 = Ident.known 2)).map (·.2) =
      [newLeaf Toy.h0 (.uint 9), newLeaf Toy.h0 (.uint 4)] := by
  refine ⟨by decide, ?_, rfl⟩
  intro pv hpv
  simp only [Toy.paramsTwice, List.mem_cons, List.not_mem_nil, or_false] at hpv
  rcases hpv with rfl | rfl | rfl
  · intro _; rfl
  · intro hc; exact absurd hc (by decide)
  · intro _; rfl

/-- a parameter given exactly once is found by `object_for_parameter`; one given twice (with
different values) is reported ambiguous, one not given is reported missing - never a panic -/
theorem object_for_parameter_cases (h : Hash) (f : Ident) (ps : List (Ident × Env)) (x : Expression)
    (p : Ident) (hx : withParams h (Expression.new h f) ps = .ok x)
    (hd : DistinctDigests (ps.map (paramA h)))
    (hp : ∀ pv ∈ ps, (paramLeaf h pv.1).digest = (paramLeaf h p).digest → pv.1 = p) :
    (∀ v, (ps.filter (fun pv => pv.1 = p)).map (·.2) = [v] → x.objectForParameter h p = .ok v) ∧
    ((ps.filter (fun pv => pv.1 = p)) = [] → x.objectForParameter h p = .err "NonexistentPredicate") ∧
    (2 ≤ (ps.filter (fun pv => pv.1 = p)).length → x.objectForParameter h p = .err "AmbiguousPredicate") := by
  have hperm := expression_shape_distinct h f ps x hx hd
  -- the selected assertions, as a permutation of the selected parameter assertions
  have hsel : (assertionsWithPredicate x.envelope (paramLeaf h p)).Perm
      (((ps.filter (fun pv => pv.1 = p))).map (paramA h)) := by
    unfold assertionsWithPredicate
    refine (hperm.filter _).trans ?_
    clear hperm hd hx
    induction ps with
    | nil => exact List.Perm.refl _
    | cons pv ps ih =>
      have ih' := ih (fun q hq => hp q (List.mem_cons_of_mem _ hq))
      obtain ⟨q, v⟩ := pv
      have hsub : asPredicate (paramA h (q, v)).subject = some (paramLeaf h q) := rfl
      by_cases hpv : q = p
      · subst hpv
        rw [List.map_cons, List.filter_cons]
        simp only [hsub, BEq.rfl, if_true]
        rw [List.filter_cons]
        simp only [decide_true, if_true, List.map_cons]
        exact List.Perm.cons _ ih'
      · have hne : ((paramLeaf h q).digest == (paramLeaf h p).digest) = false := by
          apply Bool.eq_false_iff.2
          intro hc
          exact hpv (hp (q, v) (List.mem_cons_self ..) (by simpa using hc))
        rw [List.map_cons, List.filter_cons]
        simp only [hsub, hne]
        rw [List.filter_cons]
        simpa [hpv] using ih'
  refine ⟨?_, ?_, ?_⟩
  · intro v hv
    generalize hf : ps.filter (fun pv => pv.1 = p) = sel at hv hsel
    match sel, hv with
    | [pv], hv' =>
      have h1 : assertionsWithPredicate x.envelope (paramLeaf h p) = [paramA h pv] := by
        simpa using hsel
      have hv2 : pv.2 = v := by simpa using hv'
      subst hv2
      simp [Expression.objectForParameter, objectForPredicate, assertionWithPredicate, h1]
      rfl
  · intro hnil
    rw [hnil] at hsel
    have h1 : assertionsWithPredicate x.envelope (paramLeaf h p) = [] := by simpa using hsel
    simp [Expression.objectForParameter, objectForPredicate, assertionWithPredicate, h1]
  · intro h2
    have hlen := hsel.length_eq
    rw [List.length_map] at hlen
    match hl : assertionsWithPredicate x.envelope (paramLeaf h p), hlen with
    | a :: b :: rest, _ =>
      simp [Expression.objectForParameter, objectForPredicate, assertionWithPredicate, hl]
    | [_], hlen' => simp at hlen'; omega
    | [], hlen' => simp at hlen'; omega

/-- **through serialization** (C05): the envelope of an expression whose parts are well formed
and encodable decodes from its bytes to itself, hence parses to the expression -/
theorem expression_roundtrip_bytes (h : Hash) (f : Ident) (ps : List (Ident × Env)) (x : Expression)
    (hx : withParams h (Expression.new h f) ps = .ok x) (hf : IdentValid f)
    (hv : ∀ pv ∈ ps, IdentValid pv.1 ∧ Inv h pv.2 ∧ EncShape pv.2 ∧ Encodable pv.2)
    (hlen : ps.length + 1 < 2 ^ 64) :
    decode h (encode x.envelope) = .ok x.envelope ∧ Expression.parse x.envelope = .ok x := by
  refine ⟨?_, (expression_roundtrip h f ps x hx).2.2⟩
  rw [withParams_new] at hx
  injection hx with hx
  subst hx
  obtain ⟨hi, hs⟩ := exprEnv_wellformed (h := h) (f := f) (ps := ps)
    (fun pv hpv => ⟨(hv pv hpv).2.1, (hv pv hpv).2.2.1⟩)
  have he := exprEnv_encodable (h := h) (f := f) (ps := ps) hf
    (fun pv hpv => ⟨(hv pv hpv).1, (hv pv hpv).2.2.2⟩) hlen
  exact decode_encode h _ hi hs he
example : decode Toy.h0 (encode Toy.x0.envelope) = .ok Toy.x0.envelope :=
  (expression_roundtrip_bytes Toy.h0 (.known 1) Toy.params0 Toy.x0 (withParams_new _ _ _)
    (by simp only [IdentValid]; omega)
    (by
      intro pv hpv
      simp only [Toy.params0, List.mem_cons, List.not_mem_nil, or_false] at hpv
      rcases hpv with rfl | rfl | rfl <;>
        simp [IdentValid, Cbor.Valid, Cbor.utf8Valid, Encodable, EncShape, newLeaf, Inv, WF, Canon])
    (by decide)).1

/-- parsing with an expected function only ever returns that function -/
theorem rejects_other_function (e : Env) (g : Ident) (x : Expression)
    (hp : Expression.parseExpecting e (some g) = .ok x) : x.function = g := by
  unfold Expression.parseExpecting at hp
  obtain ⟨y, _, hy⟩ := bind_eq_ok.1 hp
  simp only [] at hy
  split at hy
  · rename_i hfg
    injection hy with hy
    subst hy
    exact hfg
  · cases hy

/-- an expression with function `f` is rejected when `g ≠ f` is expected (numeric against
named included), accepted when `f` or nothing is expected -/
theorem expression_rejects_other_function (h : Hash) (f g : Ident) (ps : List (Ident × Env))
    (x : Expression) (hx : withParams h (Expression.new h f) ps = .ok x) :
    (f ≠ g → Expression.parseExpecting x.envelope (some g) = .err "dep:unexpected-function") ∧
    Expression.parseExpecting x.envelope (some f) = .ok x ∧
    Expression.parseExpecting x.envelope none = .ok x := by
  obtain ⟨_, hf, hp⟩ := expression_roundtrip h f ps x hx
  unfold Expression.parseExpecting
  simp only [hp, Res.bind, hf, if_true]
  exact ⟨fun hfg => by simp [hfg], trivial, trivial⟩
example : Expression.parseExpecting Toy.x0.envelope (some (.named [49])) = .err "dep:unexpected-function" :=
  (expression_rejects_other_function Toy.h0 (.known 1) (.named [49]) Toy.params0 Toy.x0
    (withParams_new _ _ _)).1 (by decide)
example : Toy.x0.function = .known 1 :=
  rejects_other_function Toy.x0.envelope (.known 1) Toy.x0
    (expression_rejects_other_function Toy.h0 (.known 1) (.known 1) Toy.params0 Toy.x0
      (withParams_new _ _ _)).2.1

/-! ### 3. requests -/

/-- `Envelope::from(Request)` never fails -/
theorem request_toEnvelope_ok (h : Hash) (r : Request) : ∃ e, Request.toEnvelope h r = .ok e :=
  ⟨_, request_toEnvelope_eq h r⟩

/-- **round trip** (note empty or not, date absent or present, negative included): the parsed
request equals the original — identifier, note, date, and the body with its function and
envelope.  `hb` says the body is a genuine expression (its function is the one in its
envelope), which `expression_roundtrip` establishes for every expression the library builds.
Fractional dates are outside the model (see the header). -/
theorem request_roundtrip (h : Hash) (kv : KVDistinct h) (r : Request) (e : Env)
    (hd : DistinctDigests (reqAsserts h r)) (hid : r.id.length = 32)
    (hb : Expression.parse r.body.envelope = .ok r.body)
    (he : Request.toEnvelope h r = .ok e) :
    Request.parse h e none = .ok r ∧ Request.parse h e (some r.body.function) = .ok r := by
  rw [request_toEnvelope_eq] at he
  injection he with he
  subst he
  have hs : (idSubject h TAG_REQUEST r.id).isNode = false := rfl
  have hperm : (rebuild h (idSubject h TAG_REQUEST r.id)
      ((reqAsserts h r).foldl normAdd [])).assertions.Perm (reqAsserts h r) := by
    rw [rebuild_assertions h _ hs]
    simpa using foldl_normAdd_perm_of_distinct (reqAsserts h r) (as := []) List.Pairwise.nil
      (by simpa using hd)
  exact ⟨request_parse_of_shape kv r _ none (rebuild_subject h _ hs) hperm hid hb (by simp),
    request_parse_of_shape kv r _ _ (rebuild_subject h _ hs) hperm hid hb
      (by intro g hg; injection hg with hg; exact hg.symm)⟩
/-- with the toy hash every request (32-byte id, genuine body) meets the hypotheses -/
example (r : Request) (hid : r.id.length = 32) (hb : Expression.parse r.body.envelope = .ok r.body) :
    ∃ e, Request.toEnvelope Toy.h0 r = .ok e ∧ Request.parse Toy.h0 e none = .ok r := by
  obtain ⟨e, he⟩ := request_toEnvelope_ok Toy.h0 r
  exact ⟨e, he, (request_roundtrip Toy.h0 Toy.kv0 r e (Toy.h0_req_distinct r) hid hb he).1⟩
/-- parameters, a note and a negative date -/
example : ∃ e, Request.toEnvelope Toy.h0 Toy.r0 = .ok e ∧ Request.parse Toy.h0 e none = .ok Toy.r0 := by
  obtain ⟨e, he⟩ := request_toEnvelope_ok Toy.h0 Toy.r0
  exact ⟨e, he, (request_roundtrip Toy.h0 Toy.kv0 Toy.r0 e (Toy.h0_req_distinct _) (by decide)
    (expression_roundtrip Toy.h0 (.known 1) Toy.params0 Toy.x0 (withParams_new _ _ _)).2.2 he).1⟩
/-- no parameters, no note, no date -/
example : ∃ e, Request.toEnvelope Toy.h0 Toy.r1 = .ok e ∧ Request.parse Toy.h0 e none = .ok Toy.r1 := by
  obtain ⟨e, he⟩ := request_toEnvelope_ok Toy.h0 Toy.r1
  exact ⟨e, he, (request_roundtrip Toy.h0 Toy.kv0 Toy.r1 e (Toy.h0_req_distinct _) (by decide)
    (expression_roundtrip Toy.h0 (.named [102]) [] _ rfl).2.2 he).1⟩

/-- **shape**: the subject is the leaf `#6.40004(#6.40012(id))`; the assertions are exactly
'body': the expression envelope, 'note': the text iff the note is non-empty, 'date': the date
iff present — strictly ascending by digest, under the recomputed node digest -/
theorem request_shape (h : Hash) (r : Request) (e : Env)
    (hd : DistinctDigests (reqAsserts h r)) (he : Request.toEnvelope h r = .ok e) :
    e.subject = newLeaf h (.tagged TAG_REQUEST (aridCbor r.id)) ∧
    (∀ a, a ∈ e.assertions ↔
      a = newAssertion h (newKnownValue h KV_BODY) r.body.envelope ∨
      (r.note ≠ [] ∧ a = newAssertion h (newKnownValue h KV_NOTE) (newLeaf h (.text r.note))) ∨
      (∃ d, r.date = some d ∧ a = newAssertion h (newKnownValue h KV_DATE) (newLeaf h (dateCbor d)))) ∧
    e.assertions.length = 1 + (if r.note = [] then 0 else 1) + (if r.date.isSome then 1 else 0) ∧
    AscDigests e.assertions ∧
    e.digest = h.ofDigests (e.subject.digest :: e.assertions.map Env.digest) := by
  rw [request_toEnvelope_eq] at he
  injection he with he
  subst he
  have hs : (idSubject h TAG_REQUEST r.id).isNode = false := rfl
  have hperm : ((reqAsserts h r).foldl normAdd []).Perm (reqAsserts h r) := by
    simpa using foldl_normAdd_perm_of_distinct (reqAsserts h r) (as := []) List.Pairwise.nil
      (by simpa using hd)
  rw [rebuild_subject h _ hs, rebuild_assertions h _ hs,
    rebuild_digest h (foldl_normAdd_ne_nil _ (Or.inr (by simp [reqAsserts])))]
  refine ⟨rfl, ?_, ?_, foldl_normAdd_asc _ List.Pairwise.nil, rfl⟩
  · intro a
    rw [hperm.mem_iff]
    simp only [reqAsserts, List.mem_cons, mem_metaAsserts_iff, kvA]
  · rw [hperm.length_eq]
    simp only [reqAsserts, List.length_cons, metaAsserts_length]
    omega
example (r : Request) : ∃ e, Request.toEnvelope Toy.h0 r = .ok e ∧
    e.subject = newLeaf Toy.h0 (.tagged TAG_REQUEST (aridCbor r.id)) ∧ AscDigests e.assertions := by
  obtain ⟨e, he⟩ := request_toEnvelope_ok Toy.h0 r
  obtain ⟨h1, _, _, h4, _⟩ := request_shape Toy.h0 r e (Toy.h0_req_distinct r) he
  exact ⟨e, he, h1, h4⟩

/-- **through serialization** (C05): with a well-formed, encodable body, a UTF-8 note and a
date that fits in 64 bits, the request envelope decodes from its bytes to itself, hence
parses to the request -/
theorem request_roundtrip_bytes (h : Hash) (kv : KVDistinct h) (r : Request) (e : Env)
    (hd : DistinctDigests (reqAsserts h r)) (hid : r.id.length = 32)
    (hb : Expression.parse r.body.envelope = .ok r.body)
    (hi : Inv h r.body.envelope) (hs : EncShape r.body.envelope) (hen : Encodable r.body.envelope)
    (hm : MetaEncodable r.note r.date)
    (he : Request.toEnvelope h r = .ok e) :
    decode h (encode e) = .ok e ∧ Request.parse h e none = .ok r := by
  refine ⟨?_, (request_roundtrip h kv r e hd hid hb he).1⟩
  rw [request_toEnvelope_eq] at he
  injection he with he
  subst he
  obtain ⟨h1, h2⟩ := chain_wellformed (h := h) (tag := TAG_REQUEST) (k := KV_BODY) (id := r.id)
    (note := r.note) (date := r.date) hi hs
  have h3 := chain_encodable (h := h) (tag := TAG_REQUEST) (k := KV_BODY) (note := r.note)
    (date := r.date) (by decide) (by decide) hid hen hm
  exact decode_encode h _ h1 h2 h3
example : ∃ e, Request.toEnvelope Toy.h0 Toy.r1 = .ok e ∧ decode Toy.h0 (encode e) = .ok e := by
  obtain ⟨e, he⟩ := request_toEnvelope_ok Toy.h0 Toy.r1
  refine ⟨e, he, (request_roundtrip_bytes Toy.h0 Toy.kv0 Toy.r1 e (Toy.h0_req_distinct _) (by decide)
    (expression_roundtrip Toy.h0 (.named [102]) [] _ rfl).2.2 (inv_leaf _ _)
    (by simp only [Toy.r1, Expression.new, newLeaf, EncShape]) ?_ ?_ he).1⟩
  · simp [Toy.r1, Expression.new, newLeaf, Encodable, identCbor, Cbor.Valid, Cbor.utf8Valid, TAG_FUNCTION]
  · simp [MetaEncodable, Toy.r1, Cbor.Valid, Cbor.utf8Valid]

/-- a request whose body has function `f` is rejected when another function is expected -/
theorem request_rejects_other_function (h : Hash) (kv : KVDistinct h) (r : Request) (e : Env)
    (g : Ident) (hd : DistinctDigests (reqAsserts h r))
    (hb : Expression.parse r.body.envelope = .ok r.body)
    (he : Request.toEnvelope h r = .ok e) (hg : r.body.function ≠ g) :
    Request.parse h e (some g) = .err "dep:unexpected-function" := by
  rw [request_toEnvelope_eq] at he
  injection he with he
  subst he
  have hs : (idSubject h TAG_REQUEST r.id).isNode = false := rfl
  have hperm : (rebuild h (idSubject h TAG_REQUEST r.id)
      ((reqAsserts h r).foldl normAdd [])).assertions.Perm (reqAsserts h r) := by
    rw [rebuild_assertions h _ hs]
    simpa using foldl_normAdd_perm_of_distinct (reqAsserts h r) (as := []) List.Pairwise.nil
      (by simpa using hd)
  unfold Request.parse
  rw [ofp_first kv hperm (by decide) (by decide) (by decide)]
  simp [Res.bind, Expression.parseExpecting, hb, hg]
example : ∃ e, Request.toEnvelope Toy.h0 Toy.r1 = .ok e ∧
    Request.parse Toy.h0 e (some (.known 9)) = .err "dep:unexpected-function" := by
  obtain ⟨e, he⟩ := request_toEnvelope_ok Toy.h0 Toy.r1
  exact ⟨e, he, request_rejects_other_function Toy.h0 Toy.kv0 Toy.r1 e (.known 9) (Toy.h0_req_distinct _)
    (expression_roundtrip Toy.h0 (.named [102]) [] _ rfl).2.2 he (by decide)⟩

/-- whatever parses as a request has the subject `#6.40004(#6.40012(id))` with a 32-byte id -/
theorem request_parse_subject (h : Hash) (e : Env) (exp : Option Ident) (r : Request)
    (hp : Request.parse h e exp = .ok r) :
    ∃ d, e.subject = .leaf (.tagged TAG_REQUEST (aridCbor r.id)) d ∧ r.id.length = 32 := by
  obtain ⟨_, _, _, hid, _, _⟩ := request_parse_inv hp
  exact subjectArid_ok_inv hid
example : ∃ (e : Env) (d : Digest), e.subject = .leaf (.tagged TAG_REQUEST (aridCbor Toy.r1.id)) d := by
  obtain ⟨e, he⟩ := request_toEnvelope_ok Toy.h0 Toy.r1
  obtain ⟨d, hd, _⟩ := request_parse_subject Toy.h0 e none Toy.r1
    (request_roundtrip Toy.h0 Toy.kv0 Toy.r1 e (Toy.h0_req_distinct _) (by decide)
      (expression_roundtrip Toy.h0 (.named [102]) [] _ rfl).2.2 he).1
  exact ⟨e, d, hd⟩

/-- a subject under any other tag is rejected -/
theorem request_rejects_wrong_tag (h : Hash) (e : Env) (exp : Option Ident) (t : Nat) (inner : Cbor)
    (d : Digest) (hsub : e.subject = .leaf (.tagged t inner) d) (ht : t ≠ TAG_REQUEST) :
    ∃ m, Request.parse h e exp = .err m := by
  refine res_err_of_not_ok (request_parse_noPanic h e exp) ?_
  intro r hp
  obtain ⟨_, _, _, hid, _, _⟩ := request_parse_inv hp
  rw [subjectArid_wrong_tag hsub ht] at hid
  cases hid
example : ∃ m, Request.parse Toy.h0 (idSubject Toy.h0 TAG_RESPONSE Toy.id0) none = .err m :=
  request_rejects_wrong_tag _ _ _ TAG_RESPONSE _ _ rfl (by decide)

/-- no 'body' assertion: rejected -/
theorem request_rejects_missing_body (h : Hash) (e : Env) (exp : Option Ident)
    (hnb : assertionsWithPredicate e (newKnownValue h KV_BODY) = []) :
    Request.parse h e exp = .err "NonexistentPredicate" := by
  simp [Request.parse, objectForPredicate, assertionWithPredicate, hnb, Res.bind]
example : Request.parse Toy.h0 (idSubject Toy.h0 TAG_REQUEST Toy.id0) none = .err "NonexistentPredicate" :=
  request_rejects_missing_body _ _ _ rfl

/-! ### 4. responses -/

/-- `Envelope::from(Response)` never fails -/
theorem response_toEnvelope_ok (h : Hash) (v : Response) : ∃ e, Response.toEnvelope h v = .ok e :=
  ⟨_, response_toEnvelope_eq h v⟩

/-- **round trip** for success (any result envelope), failure with an identifier and early
failure (no identifier): the parsed response is the original one -/
theorem response_roundtrip (h : Hash) (kv : KVDistinct h) (v : Response) (e : Env)
    (hid : Response.idOk v) (he : Response.toEnvelope h v = .ok e) :
    Response.parse h e = .ok v := by
  rw [response_toEnvelope_eq] at he
  injection he with he
  subst he
  have hs : (respSubject h v).isNode = false := by
    cases v with
    | success id r => rfl
    | failure id er => cases id <;> rfl
  exact response_parse_of_shape kv v _ (rebuild_subject h _ hs) (rebuild_assertions h _ hs) hid
example (res : Env) : ∃ e, Response.toEnvelope Toy.h0 (.success Toy.id0 res) = .ok e ∧
    Response.parse Toy.h0 e = .ok (.success Toy.id0 res) := by
  obtain ⟨e, he⟩ := response_toEnvelope_ok Toy.h0 (.success Toy.id0 res)
  exact ⟨e, he, response_roundtrip Toy.h0 Toy.kv0 _ e (by decide : Toy.id0.length = 32) he⟩
example (er : Env) : ∃ e, Response.toEnvelope Toy.h0 (.failure (some Toy.id0) er) = .ok e ∧
    Response.parse Toy.h0 e = .ok (.failure (some Toy.id0) er) := by
  obtain ⟨e, he⟩ := response_toEnvelope_ok Toy.h0 (.failure (some Toy.id0) er)
  exact ⟨e, he, response_roundtrip Toy.h0 Toy.kv0 _ e (by decide : Toy.id0.length = 32) he⟩
example (er : Env) : ∃ e, Response.toEnvelope Toy.h0 (.failure none er) = .ok e ∧
    Response.parse Toy.h0 e = .ok (.failure none er) := by
  obtain ⟨e, he⟩ := response_toEnvelope_ok Toy.h0 (.failure none er)
  exact ⟨e, he, response_roundtrip Toy.h0 Toy.kv0 _ e trivial he⟩

/-- **shape**: subject `#6.40005(#6.40012(id))`, or `#6.40005('Unknown')` for an early
failure; exactly one assertion, 'result': result or 'error': error -/
theorem response_shape (h : Hash) (v : Response) (e : Env) (he : Response.toEnvelope h v = .ok e) :
    e.subject = respSubject h v ∧ e.assertions = [respAssert h v] ∧
    e.digest = h.ofDigests [(respSubject h v).digest, (respAssert h v).digest] ∧
    (∀ id r, v = .success id r →
      e.subject = newLeaf h (.tagged TAG_RESPONSE (aridCbor id)) ∧
      e.assertions = [newAssertion h (newKnownValue h KV_RESULT) r]) ∧
    (∀ id er, v = .failure (some id) er →
      e.subject = newLeaf h (.tagged TAG_RESPONSE (aridCbor id)) ∧
      e.assertions = [newAssertion h (newKnownValue h KV_ERROR) er]) ∧
    (∀ er, v = .failure none er →
      e.subject = newLeaf h (.tagged TAG_RESPONSE (knownValueCbor KV_UNKNOWN)) ∧
      e.assertions = [newAssertion h (newKnownValue h KV_ERROR) er]) := by
  rw [response_toEnvelope_eq] at he
  injection he with he
  subst he
  have hs : (respSubject h v).isNode = false := by
    cases v with
    | success id r => rfl
    | failure id er => cases id <;> rfl
  rw [rebuild_subject h _ hs, rebuild_assertions h _ hs]
  refine ⟨rfl, rfl, rfl, ?_, ?_, ?_⟩
  · rintro id r rfl; exact ⟨rfl, rfl⟩
  · rintro id er rfl; exact ⟨rfl, rfl⟩
  · rintro er rfl; exact ⟨rfl, rfl⟩

/-- **through serialization** (C05) -/
theorem response_roundtrip_bytes (h : Hash) (kv : KVDistinct h) (v : Response) (e : Env)
    (hid : Response.idOk v) (hi : Inv h (Response.payload v)) (hs : EncShape (Response.payload v))
    (hen : Encodable (Response.payload v)) (he : Response.toEnvelope h v = .ok e) :
    decode h (encode e) = .ok e ∧ Response.parse h e = .ok v := by
  refine ⟨?_, response_roundtrip h kv v e hid he⟩
  rw [response_toEnvelope_eq] at he
  injection he with he
  subst he
  obtain ⟨h1, h2, h3⟩ := response_wellformed hid hi hs hen
  exact decode_encode h _ h1 h2 h3
example : ∃ e, Response.toEnvelope Toy.h0 (.success Toy.id0 (newLeaf Toy.h0 (.uint 1))) = .ok e ∧
    decode Toy.h0 (encode e) = .ok e := by
  obtain ⟨e, he⟩ := response_toEnvelope_ok Toy.h0 (.success Toy.id0 (newLeaf Toy.h0 (.uint 1)))
  exact ⟨e, he, (response_roundtrip_bytes Toy.h0 Toy.kv0 (.success Toy.id0 (newLeaf Toy.h0 (.uint 1))) e
    (by decide : Toy.id0.length = 32)
    (inv_leaf _ _) (by simp only [Response.payload, newLeaf, EncShape])
    (by simp [Response.payload, newLeaf, Encodable, Cbor.Valid]) he).1⟩

/-- **both** a result and an error — however many of each (a repeated result or error used to
hide the other kind: the defect that was repaired) — is rejected -/
theorem response_rejects_both (h : Hash) (e : Env)
    (hr : assertionsWithPredicate e (newKnownValue h KV_RESULT) ≠ [])
    (her : assertionsWithPredicate e (newKnownValue h KV_ERROR) ≠ []) :
    Response.parse h e = .err "dep:invalid-response-both-or-neither" := by
  have h1 : (assertionsWithPredicate e (newKnownValue h KV_RESULT)).isEmpty = false := by
    cases hl : assertionsWithPredicate e (newKnownValue h KV_RESULT) with
    | nil => exact absurd hl hr
    | cons a t => rfl
  have h2 : (assertionsWithPredicate e (newKnownValue h KV_ERROR)).isEmpty = false := by
    cases hl : assertionsWithPredicate e (newKnownValue h KV_ERROR) with
    | nil => exact absurd hl her
    | cons a t => rfl
  simp [Response.parse, h1, h2]
/-- two results and one error under a response subject -/
example : Response.parse Toy.h0
    (.node (idSubject Toy.h0 TAG_RESPONSE Toy.id0)
      [kvA Toy.h0 KV_RESULT (newLeaf Toy.h0 (.uint 1)), kvA Toy.h0 KV_RESULT (newLeaf Toy.h0 (.uint 2)),
       kvA Toy.h0 KV_ERROR (newLeaf Toy.h0 (.uint 3))] ⟨0⟩)
    = .err "dep:invalid-response-both-or-neither" :=
  response_rejects_both _ _ (by decide) (by decide)

/-- **neither** a result nor an error is rejected -/
theorem response_rejects_neither (h : Hash) (e : Env)
    (hr : assertionsWithPredicate e (newKnownValue h KV_RESULT) = [])
    (her : assertionsWithPredicate e (newKnownValue h KV_ERROR) = []) :
    Response.parse h e = .err "dep:invalid-response-both-or-neither" := by
  simp [Response.parse, hr, her]
example : Response.parse Toy.h0 (idSubject Toy.h0 TAG_RESPONSE Toy.id0)
    = .err "dep:invalid-response-both-or-neither" :=
  response_rejects_neither _ _ rfl rfl

/-- a subject under any tag other than 40005 is rejected -/
theorem response_rejects_wrong_tag (h : Hash) (e : Env) (t : Nat) (inner : Cbor) (d : Digest)
    (hsub : e.subject = .leaf (.tagged t inner) d) (ht : t ≠ TAG_RESPONSE) :
    ∃ m, Response.parse h e = .err m := by
  have hs := subjectArid_wrong_tag (tag := TAG_RESPONSE) hsub ht
  unfold Response.parse
  simp only [hs, hsub]
  split
  · exact ⟨_, rfl⟩
  · split
    · exact ⟨_, rfl⟩
    · split
      · simp [ht]
      · exact ⟨_, rfl⟩
example : ∃ m, Response.parse Toy.h0 (idSubject Toy.h0 TAG_REQUEST Toy.id0) = .err m :=
  response_rejects_wrong_tag _ _ TAG_REQUEST _ _ rfl (by decide)

/-- a known value other than 'Unknown' in the place of the identifier is rejected -/
theorem response_rejects_unknown_known_value_subject (h : Hash) (e : Env) (v : Nat) (d : Digest)
    (hsub : e.subject = .leaf (.tagged TAG_RESPONSE (knownValueCbor v)) d) (hv : v ≠ KV_UNKNOWN) :
    ∃ m, Response.parse h e = .err m := by
  have hs : subjectArid TAG_RESPONSE e = .err "dep:WrongType" := by
    unfold subjectArid
    rw [hsub]
    simp [knownValueCbor, aridOfCbor?]
  unfold Response.parse
  simp only [hs, hsub]
  split
  · exact ⟨_, rfl⟩
  · split
    · exact ⟨_, rfl⟩
    · split
      · simp [knownValueCbor, TAG_KNOWN_VALUE, hv]
      · exact ⟨_, rfl⟩
example (er : Env) : ∃ m, Response.parse Toy.h0
    (.node (newLeaf Toy.h0 (.tagged TAG_RESPONSE (knownValueCbor KV_OK))) [kvA Toy.h0 KV_ERROR er] ⟨0⟩)
      = .err m :=
  response_rejects_unknown_known_value_subject _ _ KV_OK _ rfl (by decide)

/-! ### 5. events -/

/-- `Envelope::from(Event)` never fails -/
theorem event_toEnvelope_ok (h : Hash) (ev : Event) : ∃ e, Event.toEnvelope h ev = .ok e :=
  ⟨_, event_toEnvelope_eq h ev⟩

/-- **round trip**: content, identifier, note and (integral) date all come back.  Fractional
dates are outside the model (see the header). -/
theorem event_roundtrip (h : Hash) (kv : KVDistinct h) (ev : Event) (e : Env)
    (hd : DistinctDigests (evAsserts h ev)) (hid : ev.id.length = 32)
    (he : Event.toEnvelope h ev = .ok e) : Event.parse h e = .ok ev := by
  rw [event_toEnvelope_eq] at he
  injection he with he
  subst he
  have hs : (idSubject h TAG_EVENT ev.id).isNode = false := rfl
  have hperm : (rebuild h (idSubject h TAG_EVENT ev.id)
      ((evAsserts h ev).foldl normAdd [])).assertions.Perm (evAsserts h ev) := by
    rw [rebuild_assertions h _ hs]
    simpa using foldl_normAdd_perm_of_distinct (evAsserts h ev) (as := []) List.Pairwise.nil
      (by simpa using hd)
  exact event_parse_of_shape kv ev _ (rebuild_subject h _ hs) hperm hid
/-- with the toy hash every event with a 32-byte id meets the hypotheses -/
example (ev : Event) (hid : ev.id.length = 32) :
    ∃ e, Event.toEnvelope Toy.h0 ev = .ok e ∧ Event.parse Toy.h0 e = .ok ev := by
  obtain ⟨e, he⟩ := event_toEnvelope_ok Toy.h0 ev
  exact ⟨e, he, event_roundtrip Toy.h0 Toy.kv0 ev e (Toy.h0_ev_distinct ev) hid he⟩
example : ∃ e, Event.toEnvelope Toy.h0 Toy.ev0 = .ok e ∧ Event.parse Toy.h0 e = .ok Toy.ev0 := by
  obtain ⟨e, he⟩ := event_toEnvelope_ok Toy.h0 Toy.ev0
  exact ⟨e, he, event_roundtrip Toy.h0 Toy.kv0 Toy.ev0 e (Toy.h0_ev_distinct _) (by decide) he⟩

/-- **shape**: subject `#6.40026(#6.40012(id))`; assertions exactly 'content': the text,
'note' iff non-empty, 'date' iff present -/
theorem event_shape (h : Hash) (ev : Event) (e : Env)
    (hd : DistinctDigests (evAsserts h ev)) (he : Event.toEnvelope h ev = .ok e) :
    e.subject = newLeaf h (.tagged TAG_EVENT (aridCbor ev.id)) ∧
    (∀ a, a ∈ e.assertions ↔
      a = newAssertion h (newKnownValue h KV_CONTENT) (newLeaf h (.text ev.content)) ∨
      (ev.note ≠ [] ∧ a = newAssertion h (newKnownValue h KV_NOTE) (newLeaf h (.text ev.note))) ∨
      (∃ d, ev.date = some d ∧ a = newAssertion h (newKnownValue h KV_DATE) (newLeaf h (dateCbor d)))) ∧
    e.assertions.length = 1 + (if ev.note = [] then 0 else 1) + (if ev.date.isSome then 1 else 0) ∧
    AscDigests e.assertions ∧
    e.digest = h.ofDigests (e.subject.digest :: e.assertions.map Env.digest) := by
  rw [event_toEnvelope_eq] at he
  injection he with he
  subst he
  have hs : (idSubject h TAG_EVENT ev.id).isNode = false := rfl
  have hperm : ((evAsserts h ev).foldl normAdd []).Perm (evAsserts h ev) := by
    simpa using foldl_normAdd_perm_of_distinct (evAsserts h ev) (as := []) List.Pairwise.nil
      (by simpa using hd)
  rw [rebuild_subject h _ hs, rebuild_assertions h _ hs,
    rebuild_digest h (foldl_normAdd_ne_nil _ (Or.inr (by simp [evAsserts])))]
  refine ⟨rfl, ?_, ?_, foldl_normAdd_asc _ List.Pairwise.nil, rfl⟩
  · intro a
    rw [hperm.mem_iff]
    simp only [evAsserts, List.mem_cons, mem_metaAsserts_iff, kvA]
  · rw [hperm.length_eq]
    simp only [evAsserts, List.length_cons, metaAsserts_length]
    omega
example (ev : Event) : ∃ e, Event.toEnvelope Toy.h0 ev = .ok e ∧
    e.subject = newLeaf Toy.h0 (.tagged TAG_EVENT (aridCbor ev.id)) ∧ AscDigests e.assertions := by
  obtain ⟨e, he⟩ := event_toEnvelope_ok Toy.h0 ev
  obtain ⟨h1, _, _, h4, _⟩ := event_shape Toy.h0 ev e (Toy.h0_ev_distinct ev) he
  exact ⟨e, he, h1, h4⟩

/-- **through serialization** (C05) -/
theorem event_roundtrip_bytes (h : Hash) (kv : KVDistinct h) (ev : Event) (e : Env)
    (hd : DistinctDigests (evAsserts h ev)) (hid : ev.id.length = 32)
    (hc : (Cbor.text ev.content).Valid) (hm : MetaEncodable ev.note ev.date)
    (he : Event.toEnvelope h ev = .ok e) :
    decode h (encode e) = .ok e ∧ Event.parse h e = .ok ev := by
  refine ⟨?_, event_roundtrip h kv ev e hd hid he⟩
  rw [event_toEnvelope_eq] at he
  injection he with he
  subst he
  obtain ⟨h1, h2⟩ := chain_wellformed (h := h) (tag := TAG_EVENT) (k := KV_CONTENT) (id := ev.id)
    (note := ev.note) (date := ev.date) (inv_leaf h (.text ev.content))
    (by simp only [newLeaf, EncShape])
  have h3 := chain_encodable (h := h) (tag := TAG_EVENT) (k := KV_CONTENT) (note := ev.note)
    (date := ev.date) (o := newLeaf h (.text ev.content)) (by decide) (by decide) hid
    (by simpa only [newLeaf, Encodable] using hc) hm
  exact decode_encode h _ h1 h2 h3
example : ∃ e, Event.toEnvelope Toy.h0 Toy.ev0 = .ok e ∧ decode Toy.h0 (encode e) = .ok e := by
  obtain ⟨e, he⟩ := event_toEnvelope_ok Toy.h0 Toy.ev0
  refine ⟨e, he, (event_roundtrip_bytes Toy.h0 Toy.kv0 Toy.ev0 e (Toy.h0_ev_distinct _) (by decide)
    ?_ ?_ he).1⟩
  · simp [Toy.ev0, Cbor.Valid, Cbor.utf8Valid]
  · simp [MetaEncodable, Toy.ev0, Cbor.Valid, Cbor.utf8Valid]

/-- whatever parses as an event has the subject `#6.40026(#6.40012(id))` with a 32-byte id -/
theorem event_parse_subject (h : Hash) (e : Env) (ev : Event) (hp : Event.parse h e = .ok ev) :
    ∃ d, e.subject = .leaf (.tagged TAG_EVENT (aridCbor ev.id)) d ∧ ev.id.length = 32 := by
  obtain ⟨_, _, _, hid, _, _⟩ := event_parse_inv hp
  exact subjectArid_ok_inv hid
example : ∃ (e : Env) (d : Digest), e.subject = .leaf (.tagged TAG_EVENT (aridCbor Toy.ev0.id)) d := by
  obtain ⟨e, he⟩ := event_toEnvelope_ok Toy.h0 Toy.ev0
  obtain ⟨d, hd, _⟩ := event_parse_subject Toy.h0 e Toy.ev0
    (event_roundtrip Toy.h0 Toy.kv0 Toy.ev0 e (Toy.h0_ev_distinct _) (by decide) he)
  exact ⟨e, d, hd⟩

/-- a subject under any other tag is rejected -/
theorem event_rejects_wrong_tag (h : Hash) (e : Env) (t : Nat) (inner : Cbor) (d : Digest)
    (hsub : e.subject = .leaf (.tagged t inner) d) (ht : t ≠ TAG_EVENT) :
    ∃ m, Event.parse h e = .err m := by
  refine res_err_of_not_ok (event_parse_noPanic h e) ?_
  intro ev hp
  obtain ⟨_, _, _, hid, _, _⟩ := event_parse_inv hp
  rw [subjectArid_wrong_tag hsub ht] at hid
  cases hid
example : ∃ m, Event.parse Toy.h0 (idSubject Toy.h0 TAG_REQUEST Toy.id0) = .err m :=
  event_rejects_wrong_tag _ _ TAG_REQUEST _ _ rfl (by decide)

/-- no 'content' assertion: rejected -/
theorem event_rejects_missing_content (h : Hash) (e : Env)
    (hnc : assertionsWithPredicate e (newKnownValue h KV_CONTENT) = []) :
    Event.parse h e = .err "NonexistentPredicate" := by
  simp [Event.parse, objectForPredicate, assertionWithPredicate, hnc, Res.bind]
example : Event.parse Toy.h0 (idSubject Toy.h0 TAG_EVENT Toy.id0) = .err "NonexistentPredicate" :=
  event_rejects_missing_content _ _ rfl

/-! ### 6. the parsers never panic

The lookups `object_for_predicate` / `optional_object_for_predicate` unwrap
`subject().as_object()` of an element that `assertions_with_predicate` selected because its
subject is an assertion, so the `unwrap` cannot fail. -/

theorem expression_parse_no_panic (e : Env) (exp : Option Ident) (s : String) :
    Expression.parse e ≠ .panic s ∧ Expression.parseExpecting e exp ≠ .panic s :=
  ⟨expression_parse_noPanic e s, expression_parseExpecting_noPanic e exp s⟩

theorem request_parse_no_panic (h : Hash) (e : Env) (exp : Option Ident) (s : String) :
    Request.parse h e exp ≠ .panic s :=
  request_parse_noPanic h e exp s

theorem response_parse_no_panic (h : Hash) (e : Env) (s : String) : Response.parse h e ≠ .panic s :=
  response_parse_noPanic h e s

theorem event_parse_no_panic (h : Hash) (e : Env) (s : String) : Event.parse h e ≠ .panic s :=
  event_parse_noPanic h e s

/-- the conversions to envelopes never panic either (they always succeed) -/
theorem toEnvelope_no_panic (h : Hash) (r : Request) (v : Response) (ev : Event) (s : String) :
    Request.toEnvelope h r ≠ .panic s ∧ Response.toEnvelope h v ≠ .panic s ∧
      Event.toEnvelope h ev ≠ .panic s := by
  rw [request_toEnvelope_eq, response_toEnvelope_eq, event_toEnvelope_eq]
  simp

/-! ### 7. the hypotheses are satisfiable, and the per-instance one is needed -/

/-- the toy hash `b ↦ beNat b` satisfies `KVDistinct` -/
example : KVDistinct ⟨fun b => ⟨beNat b⟩⟩ := ⟨by decide⟩

/-- ... and the quantified form of the assertion hypothesis as well -/
example (r : Request) (ev : Event) :
    DistinctDigests (reqAsserts Toy.h0 r) ∧ DistinctDigests (evAsserts Toy.h0 ev) :=
  ⟨Toy.h0_req_distinct r, Toy.h0_ev_distinct ev⟩

/-- Without `DistinctDigests (reqAsserts h r)` the round trip fails silently: under a hash that
is collision-free on the known values (`KVDistinct` holds) but gives the 'body' and the 'note'
assertion the same digest, `add_assertion` drops the note as "already present" and the envelope
parses — successfully — to a request without it.  (For SHA-256 this takes a collision; it is
the price of de-duplicating assertions by digest, not a defect of the expression code.) -/
theorem request_note_lost_on_collision :
    ∃ (h : Hash) (r : Request) (e : Env), KVDistinct h ∧ r.id.length = 32 ∧
      Expression.parse r.body.envelope = .ok r.body ∧ r.note ≠ [] ∧
      Request.toEnvelope h r = .ok e ∧
      Request.parse h e none = .ok { r with note := [] } := by
  refine ⟨Toy.hC, Toy.rC, _, Toy.kvC, by decide, rfl, by decide, Toy.rC_envelope, ?_⟩
  have hs : (idSubject Toy.hC TAG_REQUEST Toy.id0).isNode = false := rfl
  refine request_parse_of_shape Toy.kvC { Toy.rC with note := [] } _ none
    (rebuild_subject _ _ hs) ?_ (by decide) rfl (by simp)
  rw [rebuild_assertions _ _ hs]
  exact List.Perm.refl _

end EnvVerif
