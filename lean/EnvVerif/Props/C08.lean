/-
  Props/C08.lean — symmetric encryption (`src/extension/encrypt.rs`).

  "Encrypting the subject (or the wrapped whole) of an envelope under a symmetric key keeps
  every digest; decrypting with the same key returns the identical envelope; decrypting
  with another key, or anything whose ciphertext, tag, nonce or additional data was
  altered, fails; content that does not match the digest declared in the additional data
  is refused (`InvalidDigest`); an already encrypted or elided subject is refused."

  Hypotheses (never axioms).
  * `Inv h e` (Model/Inv.lean) and `hH : ∀ b, (h.H b).Valid` — the hash returns 32 bytes
    (SHA-256 does), so that the digest written into the additional data reads back.  That
    read-back (`AadReadsBack`) is *proved* for the model codec (`Obs.aadReadsBack`).
  * `L : AeadLaws A` (Lemmas/Laws.lean) — the idealised AEAD; satisfied by
    `ToyDeps.toyAead` (`ToyDeps.toyAead_laws`).
  * `RoundTrips h x` — `decode h (encode x) = .ok x` for the one envelope `x` that is
    encrypted (the subject, or the wrapped whole).  It is the conclusion of C05
    `decode_encode` (from `CodecLaws`, `Inv h x`, `EncShape x`, `Encodable x`).  It is not
    taken for every `Inv` envelope, because that is false (`Obs.not_forall_inv_roundTrips`).

  Observation recorded by `encryptSubject_ok_iff`: `encrypt_subject` refuses a bare elided
  envelope (`AlreadyElided`) but accepts a *node* whose subject is elided (it encrypts the
  32-byte placeholder); only an already encrypted subject is refused in the node case.
  The round trip holds there too.
-/
import EnvVerif.Lemmas.ObscureLemmas
namespace EnvVerif
open Env ToyDeps Obs.Ex

section
variable (h : Hash) (A : Aead)

/-! ### when `encrypt_subject` succeeds, and what it returns -/

/-- exact refusal conditions: an already encrypted subject, or a bare elided envelope -/
theorem encryptSubject_ok_iff (k n : Bytes) (e : Env) (hi : Inv h e) (hH : ∀ b, (h.H b).Valid) :
    (∃ r, encryptSubject h A k n e = .ok r) ↔
      (e.subject.isEncrypted = false ∧ e.isElided = false) := by
  rw [Obs.encryptSubject_eq' h A k n hi hH, ← Obs.encryptRefusal_eq_none]
  cases Obs.encryptRefusal e <;> simp

/- the hypotheses are satisfiable (toy hash, toy AEAD, the node `"a" [ 1: "a" ]`), and the
right-hand side holds: this envelope is encrypted -/
example : ∃ r, encryptSubject toyHash toyAead [1] [2] nd = .ok r :=
  (encryptSubject_ok_iff toyHash toyAead [1] [2] nd nd_inv toyHash_valid).mpr ⟨rfl, rfl⟩

/-- the two errors, exactly -/
theorem encryptSubject_err_iff (k n : Bytes) (e : Env) (x : String) (hi : Inv h e)
    (hH : ∀ b, (h.H b).Valid) :
    encryptSubject h A k n e = .err x ↔
      (x = "AlreadyEncrypted" ∧ e.subject.isEncrypted = true) ∨
      (x = "AlreadyElided" ∧ e.isElided = true) := by
  rw [Obs.encryptSubject_eq' h A k n hi hH, ← Obs.encryptRefusal_eq_some]
  cases Obs.encryptRefusal e <;> simp

example : encryptSubject toyHash toyAead [1] [2] (.elided ⟨5⟩) = .err "AlreadyElided" :=
  (encryptSubject_err_iff toyHash toyAead [1] [2] (.elided ⟨5⟩) _
    ⟨trivial, by simp [Canon, Digest.Valid]⟩ toyHash_valid).mpr (Or.inr ⟨rfl, rfl⟩)

/-- no panic: neither `new_with_encrypted(..).unwrap()` nor the closing `assert_eq!` fires -/
theorem encryptSubject_never_panics (k n : Bytes) (e : Env) (hi : Inv h e) (hH : ∀ b, (h.H b).Valid)
    (s : String) : encryptSubject h A k n e ≠ .panic s := by
  rw [Obs.encryptSubject_eq' h A k n hi hH]
  cases Obs.encryptRefusal e <;> (intro hh; cases hh)

example (s : String) : encryptSubject toyHash toyAead [1] [2] nd ≠ .panic s :=
  encryptSubject_never_panics toyHash toyAead [1] [2] nd nd_inv toyHash_valid s

/-- the result: the subject is replaced by the encrypted element carrying the subject's
encoding, sealed with the subject's digest as additional data; the assertions, the case
(node or not) and the digest are unchanged -/
theorem encryptSubject_shape (k n : Bytes) (e r : Env) (hi : Inv h e) (hH : ∀ b, (h.H b).Valid)
    (hr : encryptSubject h A k n e = .ok r) :
    r.subject = .encrypted (encryptWithDigest A k n (encode e.subject) e.subject.digest)
        e.subject.digest ∧
      r.assertions = e.assertions ∧ r.isNode = e.isNode ∧ r.digest = e.digest := by
  obtain ⟨rfl, _⟩ := Obs.encryptSubject_ok h A k n hi hH hr
  cases e <;> exact ⟨rfl, rfl, rfl, rfl⟩

/-- C08: encryption keeps the digest.  No hypothesis at all: `encrypt_subject_opt` ends with
`assert_eq!(result.digest(), original_digest)` (`encryptSubject_never_panics` is the proof
that this assertion cannot fire on an envelope satisfying the invariant) -/
theorem encryptSubject_keeps_digest (k n : Bytes) (e r : Env)
    (hr : encryptSubject h A k n e = .ok r) : r.digest = e.digest :=
  Obs.encryptSubject_digest_of_ok h A hr

theorem encryptSubject_subject_encrypted (k n : Bytes) (e r : Env) (hi : Inv h e)
    (hH : ∀ b, (h.H b).Valid) (hr : encryptSubject h A k n e = .ok r) :
    r.subject.isEncrypted = true := by
  rw [(encryptSubject_shape h A k n e r hi hH hr).1]
  rfl

/-- the result satisfies the invariant -/
theorem encryptSubject_inv (k n : Bytes) (e r : Env) (hi : Inv h e) (hH : ∀ b, (h.H b).Valid)
    (hr : encryptSubject h A k n e = .ok r) : Inv h r := by
  obtain ⟨rfl, _⟩ := Obs.encryptSubject_ok h A k n hi hH hr
  exact Obs.encryptSubjectSpec_inv h A k n hi hH

example : ∃ r, encryptSubject toyHash toyAead [1] [2] nd = .ok r ∧ r.assertions = nd.assertions ∧
    r.digest = nd.digest ∧ r.subject.isEncrypted = true ∧ Inv toyHash r := by
  obtain ⟨r, hr⟩ := (encryptSubject_ok_iff toyHash toyAead [1] [2] nd nd_inv toyHash_valid).mpr ⟨rfl, rfl⟩
  exact ⟨r, hr, (encryptSubject_shape _ _ _ _ _ _ nd_inv toyHash_valid hr).2.1,
    encryptSubject_keeps_digest _ _ _ _ _ _ hr,
    encryptSubject_subject_encrypted _ _ _ _ _ _ nd_inv toyHash_valid hr,
    encryptSubject_inv _ _ _ _ _ _ nd_inv toyHash_valid hr⟩

/-- encrypting an encrypted subject again is refused, whatever the key and nonce -/
theorem encrypt_twice_refused (k n k' n' : Bytes) (e r : Env) (hi : Inv h e)
    (hH : ∀ b, (h.H b).Valid) (hr : encryptSubject h A k n e = .ok r) :
    encryptSubject h A k' n' r = .err "AlreadyEncrypted" := by
  have hri := encryptSubject_inv h A k n e r hi hH hr
  rw [encryptSubject_err_iff h A k' n' r _ hri hH]
  exact Or.inl ⟨rfl, encryptSubject_subject_encrypted h A k n e r hi hH hr⟩

example : ∃ r, encryptSubject toyHash toyAead [1] [2] nd = .ok r ∧
    encryptSubject toyHash toyAead [3] [4] r = .err "AlreadyEncrypted" := by
  obtain ⟨r, hr⟩ := (encryptSubject_ok_iff toyHash toyAead [1] [2] nd nd_inv toyHash_valid).mpr ⟨rfl, rfl⟩
  exact ⟨r, hr, encrypt_twice_refused _ _ _ _ _ _ _ _ nd_inv toyHash_valid hr⟩

/-! ### the round trip -/

/-- C08: decrypting with the same key returns the identical envelope — for every subject
case (leaf, known value, wrapped, assertion, compressed, elided subject of a node, node
subject of a node), with or without assertions -/
theorem decryptSubject_encryptSubject (L : AeadLaws A) (k n : Bytes) (e r : Env) (hi : Inv h e)
    (hH : ∀ b, (h.H b).Valid) (hrt : RoundTrips h e.subject)
    (hr : encryptSubject h A k n e = .ok r) : decryptSubject h A k r = .ok e := by
  obtain ⟨rfl, hnone⟩ := Obs.encryptSubject_ok h A k n hi hH hr
  have hv := Obs.digest_valid hH (Obs.inv_subject hi)
  cases e with
  | node s as d =>
    simp only [Env.subject] at hv hrt
    simp only [Obs.encryptSubjectSpec, Obs.encSubj]
    rw [Obs.decryptSubject_node_form h A (Obs.decryptMsg_encryptWithDigest L k n _ _)
      (Obs.optDigest_encryptWithDigest A k n _ hv) hrt, Obs.rebuild_node h hi rfl]
    simp only [Env.digest, bne_self_eq_false, Bool.false_eq_true, if_false]
  | encrypted m d => cases hnone
  | elided d => cases hnone
  | leaf c d =>
    simp only [Env.subject] at hv hrt
    simp only [Obs.encryptSubjectSpec, Obs.encSubj]
    rw [Obs.decryptSubject_leaf_form h A (Obs.decryptMsg_encryptWithDigest L k n _ _)
      (Obs.optDigest_encryptWithDigest A k n _ hv) hrt]
    simp only [bne_self_eq_false, Bool.false_eq_true, if_false]
  | wrapped x d =>
    simp only [Env.subject] at hv hrt
    simp only [Obs.encryptSubjectSpec, Obs.encSubj]
    rw [Obs.decryptSubject_leaf_form h A (Obs.decryptMsg_encryptWithDigest L k n _ _)
      (Obs.optDigest_encryptWithDigest A k n _ hv) hrt]
    simp only [bne_self_eq_false, Bool.false_eq_true, if_false]
  | assertion p o d =>
    simp only [Env.subject] at hv hrt
    simp only [Obs.encryptSubjectSpec, Obs.encSubj]
    rw [Obs.decryptSubject_leaf_form h A (Obs.decryptMsg_encryptWithDigest L k n _ _)
      (Obs.optDigest_encryptWithDigest A k n _ hv) hrt]
    simp only [bne_self_eq_false, Bool.false_eq_true, if_false]
  | knownValue v d =>
    simp only [Env.subject] at hv hrt
    simp only [Obs.encryptSubjectSpec, Obs.encSubj]
    rw [Obs.decryptSubject_leaf_form h A (Obs.decryptMsg_encryptWithDigest L k n _ _)
      (Obs.optDigest_encryptWithDigest A k n _ hv) hrt]
    simp only [bne_self_eq_false, Bool.false_eq_true, if_false]
  | compressed c d =>
    simp only [Env.subject] at hv hrt
    simp only [Obs.encryptSubjectSpec, Obs.encSubj]
    rw [Obs.decryptSubject_leaf_form h A (Obs.decryptMsg_encryptWithDigest L k n _ _)
      (Obs.optDigest_encryptWithDigest A k n _ hv) hrt]
    simp only [bne_self_eq_false, Bool.false_eq_true, if_false]

/- all hypotheses hold together: a node with assertions (subject a leaf), ... -/
example : ∃ r, encryptSubject toyHash toyAead [1] [2] nd = .ok r ∧
    decryptSubject toyHash toyAead [1] r = .ok nd := by
  obtain ⟨r, hr⟩ := (encryptSubject_ok_iff toyHash toyAead [1] [2] nd nd_inv toyHash_valid).mpr ⟨rfl, rfl⟩
  exact ⟨r, hr, decryptSubject_encryptSubject _ _ toyAead_laws _ _ _ _ nd_inv toyHash_valid lf_rt hr⟩

/- ... a node whose subject is itself a node, ... -/
example : ∃ r, encryptSubject toyHash toyAead [1] [2] nd2 = .ok r ∧
    decryptSubject toyHash toyAead [1] r = .ok nd2 := by
  obtain ⟨r, hr⟩ := (encryptSubject_ok_iff toyHash toyAead [1] [2] nd2 nd2_inv toyHash_valid).mpr ⟨rfl, rfl⟩
  exact ⟨r, hr, decryptSubject_encryptSubject _ _ toyAead_laws _ _ _ _ nd2_inv toyHash_valid nd_rt hr⟩

/- ... a bare leaf -/
example : ∃ r, encryptSubject toyHash toyAead [1] [2] lf = .ok r ∧
    decryptSubject toyHash toyAead [1] r = .ok lf := by
  obtain ⟨r, hr⟩ := (encryptSubject_ok_iff toyHash toyAead [1] [2] lf lf_inv toyHash_valid).mpr ⟨rfl, rfl⟩
  exact ⟨r, hr, decryptSubject_encryptSubject _ _ toyAead_laws _ _ _ _ lf_inv toyHash_valid lf_rt hr⟩

/-! ### wrong key, tampering -/

/-- C08: another key does not decrypt -/
theorem decrypt_wrong_key (L : AeadLaws A) (k k' n : Bytes) (e r : Env) (hi : Inv h e)
    (hH : ∀ b, (h.H b).Valid) (hr : encryptSubject h A k n e = .ok r) (hk : k' ≠ k) :
    decryptSubject h A k' r = .err "dep:Decrypt_failed" := by
  have hs := (encryptSubject_shape h A k n e r hi hH hr).1
  exact Obs.decryptSubject_dec_none h A hs (Obs.decryptMsg_wrong_key L hk n _ _)

example : ∃ r, encryptSubject toyHash toyAead [1] [2] nd = .ok r ∧
    decryptSubject toyHash toyAead [9] r = .err "dep:Decrypt_failed" := by
  obtain ⟨r, hr⟩ := (encryptSubject_ok_iff toyHash toyAead [1] [2] nd nd_inv toyHash_valid).mpr ⟨rfl, rfl⟩
  exact ⟨r, hr, decrypt_wrong_key _ _ toyAead_laws _ _ _ _ _ nd_inv toyHash_valid hr (by decide)⟩

/-- C08: a message that was not sealed under this key with its own nonce and additional
data (that is what tampering by someone without the key produces) does not decrypt -/
theorem decrypt_tampered (L : AeadLaws A) (k : Bytes) (r : Env) (m : EncMsg) (d : Digest)
    (hs : r.subject = .encrypted m d)
    (hforged : ∀ p, (m.ciphertext, m.auth) ≠ A.enc k m.nonce p m.aad) :
    decryptSubject h A k r = .err "dep:Decrypt_failed" := by
  apply Obs.decryptSubject_dec_none h A hs
  cases hd : decryptMsg A k m with
  | none => rfl
  | some p => exact absurd (L.dec_only_enc _ _ _ _ _ _ hd) (hforged p)

/- a message with an empty tag was never sealed by the toy AEAD -/
example : decryptSubject toyHash toyAead [1] (.encrypted ⟨[], [], [], []⟩ ⟨0⟩) =
    .err "dep:Decrypt_failed" :=
  decrypt_tampered toyHash toyAead toyAead_laws [1] _ ⟨[], [], [], []⟩ ⟨0⟩ rfl (by
    intro p hp
    have := congrArg (fun x => x.2.length) hp
    simp [toyAead, toyEnc, zeros16] at this)

/-- ... in particular: changing the nonce of a sealed message -/
theorem decrypt_tampered_nonce (L : AeadLaws A) (k n p a n' : Bytes) (r : Env) (d : Digest)
    (hs : r.subject = .encrypted ⟨(A.enc k n p a).1, n', (A.enc k n p a).2, a⟩ d) (hn : n' ≠ n) :
    decryptSubject h A k r = .err "dep:Decrypt_failed" :=
  Obs.decryptSubject_dec_none h A hs (L.dec_other k n p a k n' a (Or.inr (Or.inl hn)))

example : decryptSubject toyHash toyAead [1]
    (.encrypted ⟨(toyAead.enc [1] [2] [3] [4]).1, [7], (toyAead.enc [1] [2] [3] [4]).2, [4]⟩ ⟨0⟩) =
    .err "dep:Decrypt_failed" :=
  decrypt_tampered_nonce toyHash toyAead toyAead_laws [1] [2] [3] [4] [7] _ ⟨0⟩ rfl (by decide)

/-- ... changing the additional data (the declared digest) of a sealed message -/
theorem decrypt_tampered_aad (L : AeadLaws A) (k n p a a' : Bytes) (r : Env) (d : Digest)
    (hs : r.subject = .encrypted ⟨(A.enc k n p a).1, n, (A.enc k n p a).2, a'⟩ d) (ha : a' ≠ a) :
    decryptSubject h A k r = .err "dep:Decrypt_failed" :=
  Obs.decryptSubject_dec_none h A hs (L.dec_other k n p a k n a' (Or.inr (Or.inr ha)))

example : decryptSubject toyHash toyAead [1]
    (.encrypted ⟨(toyAead.enc [1] [2] [3] [4]).1, [2], (toyAead.enc [1] [2] [3] [4]).2, [7]⟩ ⟨0⟩) =
    .err "dep:Decrypt_failed" :=
  decrypt_tampered_aad toyHash toyAead toyAead_laws [1] [2] [3] [4] [7] _ ⟨0⟩ rfl (by decide)

/-- ... changing the ciphertext or the tag of a sealed message: decryption fails, unless
the new pair is itself what the key seals for another plaintext under the same nonce and
additional data (which only a key holder can make; `decrypt_misdeclared` then applies) -/
theorem decrypt_tampered_ciphertext_or_tag (L : AeadLaws A) (k n p a c' t' : Bytes) (r : Env)
    (d : Digest) (hs : r.subject = .encrypted ⟨c', n, t', a⟩ d) (hne : (c', t') ≠ A.enc k n p a) :
    decryptSubject h A k r = .err "dep:Decrypt_failed" ∨
      ∃ p', p' ≠ p ∧ (c', t') = A.enc k n p' a := by
  rcases L.dec_tampered k n p a c' t' hne with hnone | ⟨p', hp, _, he⟩
  · exact Or.inl (Obs.decryptSubject_dec_none h A hs hnone)
  · exact Or.inr ⟨p', hp, he⟩

example : decryptSubject toyHash toyAead [1] (.encrypted ⟨[], [2], [], [4]⟩ ⟨0⟩) =
      .err "dep:Decrypt_failed" ∨
    ∃ p', p' ≠ [3] ∧ (([] : Bytes), ([] : Bytes)) = toyAead.enc [1] [2] p' [4] :=
  decrypt_tampered_ciphertext_or_tag toyHash toyAead toyAead_laws [1] [2] [3] [4] [] [] _ ⟨0⟩ rfl (by
    intro hp
    have := congrArg (fun x => x.2.length) hp
    simp [toyAead, toyEnc, zeros16] at this)

/-- every single-field tampering of what `encrypt_subject` produced: with the right key, a
changed nonce or changed additional data fails; a changed ciphertext or tag fails, unless
the new pair is the key holder's own sealing of another plaintext -/
theorem decrypt_encrypted_tampered (L : AeadLaws A) (k n : Bytes) (e r : Env) (hi : Inv h e)
    (hH : ∀ b, (h.H b).Valid) (hr : encryptSubject h A k n e = .ok r) (m : EncMsg)
    (hm : m = encryptWithDigest A k n (encode e.subject) e.subject.digest) :
    r.subject = .encrypted m e.subject.digest ∧
    (∀ (r' : Env) (c' t' : Bytes) (d' : Digest),
      r'.subject = .encrypted { m with ciphertext := c', auth := t' } d' →
      (c', t') ≠ (m.ciphertext, m.auth) →
      decryptSubject h A k r' = .err "dep:Decrypt_failed" ∨
        ∃ p', p' ≠ encode e.subject ∧ (c', t') = A.enc k n p' m.aad) ∧
    (∀ (r' : Env) (n' : Bytes) (d' : Digest), r'.subject = .encrypted { m with nonce := n' } d' →
      n' ≠ n → decryptSubject h A k r' = .err "dep:Decrypt_failed") ∧
    (∀ (r' : Env) (a' : Bytes) (d' : Digest), r'.subject = .encrypted { m with aad := a' } d' →
      a' ≠ m.aad → decryptSubject h A k r' = .err "dep:Decrypt_failed") := by
  subst hm
  refine ⟨(encryptSubject_shape h A k n e r hi hH hr).1, ?_, ?_, ?_⟩
  · intro r' c' t' d' hs hne
    exact decrypt_tampered_ciphertext_or_tag h A L k n (encode e.subject) _ c' t' r' d' hs hne
  · intro r' n' d' hs hn
    exact decrypt_tampered_nonce h A L k n (encode e.subject) _ n' r' d' hs hn
  · intro r' a' d' hs ha
    exact decrypt_tampered_aad h A L k n (encode e.subject) _ a' r' d' hs ha

example : ∃ r, encryptSubject toyHash toyAead [1] [2] nd = .ok r ∧
    ∀ (r' : Env) (n' : Bytes) (d' : Digest),
      r'.subject = .encrypted { encryptWithDigest toyAead [1] [2] (encode nd.subject) nd.subject.digest
        with nonce := n' } d' → n' ≠ [2] →
      decryptSubject toyHash toyAead [1] r' = .err "dep:Decrypt_failed" := by
  obtain ⟨r, hr⟩ := (encryptSubject_ok_iff toyHash toyAead [1] [2] nd nd_inv toyHash_valid).mpr ⟨rfl, rfl⟩
  exact ⟨r, hr, (decrypt_encrypted_tampered _ _ toyAead_laws _ _ _ _ nd_inv toyHash_valid hr _ rfl).2.2.1⟩

/-! ### misdeclared content -/

/-- C08: the first comparison of `decrypt_subject`: content whose digest is not the one
declared in the additional data is refused -/
theorem decrypt_misdeclared (k : Bytes) (r : Env) (m : EncMsg) (d declared : Digest) (pt : Bytes)
    (x : Env) (hs : r.subject = .encrypted m d) (hd : decryptMsg A k m = some pt)
    (ho : m.optDigest = some declared) (hx : decode h pt = .ok x) (hne : x.digest ≠ declared) :
    decryptSubject h A k r = .err "InvalidDigest" := by
  have hb : (x.digest != declared) = true := by simpa using hne
  rcases Obs.subject_encrypted_cases hs with rfl | ⟨as, d', rfl⟩
  · rw [Obs.decryptSubject_leaf_form h A hd ho hx, if_pos hb]
  · rw [Obs.decryptSubject_node_form h A hd ho hx, if_pos hb]

/- a key holder seals the leaf `"a"` under the declared digest 7 (`encrypt_with_digest` lets
one do that): refused -/
example : decryptSubject toyHash toyAead [1]
    (.encrypted (encryptWithDigest toyAead [1] [2] (encode lf) ⟨7⟩) ⟨7⟩) = .err "InvalidDigest" :=
  decrypt_misdeclared toyHash toyAead [1] _ _ ⟨7⟩ ⟨7⟩ (encode lf) lf rfl
    (Obs.decryptMsg_encryptWithDigest toyAead_laws _ _ _ _)
    (Obs.optDigest_encryptWithDigest _ _ _ _ (by simp [Digest.Valid])) lf_rt (by decide)

/-- C08: the second comparison of `decrypt_subject`: a node whose digest is not the one
recomputed over the decrypted subject and the assertions is refused -/
theorem decrypt_misdeclared_node (k : Bytes) (m : EncMsg) (ds d declared : Digest)
    (as : List Env) (pt : Bytes) (x : Env) (hd : decryptMsg A k m = some pt)
    (ho : m.optDigest = some declared) (hx : decode h pt = .ok x) (hxd : x.digest = declared)
    (hne : as ≠ []) (hnd : (mkNode h x as).digest ≠ d) :
    decryptSubject h A k (.node (.encrypted m ds) as d) = .err "InvalidDigest" := by
  have hb : (x.digest != declared) = false := by simp [hxd]
  have hb2 : ((mkNode h x as).digest != d) = true := by simpa using hnd
  rw [Obs.decryptSubject_node_form h A hd ho hx, hb, Obs.newNodeUnchecked_ne h hne]
  simp only [Bool.false_eq_true, if_false, hb2, if_true]

/- the subject is honest, the node digest (9) is not the recomputed one -/
example : decryptSubject toyHash toyAead [1]
    (.node (.encrypted (encryptWithDigest toyAead [1] [2] (encode lf) lf.digest) lf.digest) [asr] ⟨9⟩) =
    .err "InvalidDigest" :=
  decrypt_misdeclared_node toyHash toyAead [1] _ lf.digest ⟨9⟩ lf.digest [asr] (encode lf) lf
    (Obs.decryptMsg_encryptWithDigest toyAead_laws _ _ _ _)
    (Obs.optDigest_encryptWithDigest _ _ _ _ (toyHash_valid _)) lf_rt rfl (by simp)
    (by rw [Obs.mkNode_asc _ (by simp [AscDigests])]; decide)

/-- whatever decrypts has the digest of what was decrypted -/
theorem decryptSubject_digest (k : Bytes) (r x : Env) (hw : WF h r)
    (hr : decryptSubject h A k r = .ok x) : x.digest = r.digest := by
  obtain ⟨m, d0, pt, dd, rs, _, _, ho, _, hrs, hcase⟩ := Obs.decryptSubject_ok_inv h A hr
  rcases hcase with ⟨rfl, rfl⟩ | ⟨as, d, rfl, _, hxd⟩
  · simp only [WF] at hw
    rw [hw] at ho
    cases ho
    exact hrs
  · exact hxd

example : ∃ r x, WF toyHash r ∧ decryptSubject toyHash toyAead [1] r = .ok x ∧ x.digest = r.digest := by
  obtain ⟨r, hr⟩ := (encryptSubject_ok_iff toyHash toyAead [1] [2] nd nd_inv toyHash_valid).mpr ⟨rfl, rfl⟩
  have hd := decryptSubject_encryptSubject _ _ toyAead_laws _ _ _ _ nd_inv toyHash_valid lf_rt hr
  have hw := (encryptSubject_inv _ _ _ _ _ _ nd_inv toyHash_valid hr).1
  exact ⟨r, nd, hw, hd, decryptSubject_digest _ _ _ _ _ hw hd⟩

/-- **decrypting the subject opens the subject and nothing else**: for a node, the assertion
elements of the result are the receiver's own, element for element - one that is itself encrypted
(under this very key or another), compressed or elided comes back exactly as it stood -/
theorem decryptSubject_keeps_assertions (k : Bytes) (r x : Env) (hc : Canon r) (hn : r.isNode = true)
    (hr : decryptSubject h A k r = .ok x) : x.assertions = r.assertions := by
  obtain ⟨m, d0, pt, dd, rs, _, _, _, _, _, hcase⟩ := Obs.decryptSubject_ok_inv h A hr
  rcases hcase with ⟨rfl, rfl⟩ | ⟨as, d, rfl, hnn, _⟩
  · simp [Env.isNode] at hn
  · simp only [Canon] at hc
    rw [Obs.newNodeUnchecked_ne h hc.2.2.1] at hnn
    injection hnn with hnn
    subst hnn
    simp [mkNode, Env.assertions, sortByDigest_of_asc hc.2.2.2.1]

example : ∃ r x, Canon r ∧ r.isNode = true ∧ decryptSubject toyHash toyAead [1] r = .ok x ∧
    x.assertions = r.assertions := by
  obtain ⟨r, hr⟩ := (encryptSubject_ok_iff toyHash toyAead [1] [2] nd nd_inv toyHash_valid).mpr ⟨rfl, rfl⟩
  have hd := decryptSubject_encryptSubject _ _ toyAead_laws _ _ _ _ nd_inv toyHash_valid lf_rt hr
  have hinv := encryptSubject_inv _ _ _ _ _ _ nd_inv toyHash_valid hr
  have hnode : r.isNode = true := by
    rw [(encryptSubject_shape _ _ _ _ _ _ nd_inv toyHash_valid hr).2.2.1]; rfl
  exact ⟨r, nd, hinv.2, hnode, hd, decryptSubject_keeps_assertions _ _ _ _ _ hinv.2 hnode hd⟩

/-- `decrypt_subject` of a subject that is not encrypted -/
theorem decryptSubject_not_encrypted (k : Bytes) (r : Env) (hs : r.subject.isEncrypted = false) :
    decryptSubject h A k r = .err "NotEncrypted" :=
  Obs.decryptSubject_not_encrypted h A hs

example : decryptSubject toyHash toyAead [1] lf = .err "NotEncrypted" :=
  decryptSubject_not_encrypted _ _ _ _ rfl

/-- no panic: the decoder never panics and a canonical node has an assertion -/
theorem decryptSubject_no_panic (k : Bytes) (r : Env) (hc : Canon r) (s : String) :
    decryptSubject h A k r ≠ .panic s :=
  Obs.decryptSubject_np h A hc s

example (s : String) : decryptSubject toyHash toyAead [1] nd ≠ .panic s :=
  decryptSubject_no_panic toyHash toyAead [1] nd nd_inv.2 s

/-! ### the wrapped whole -/

/-- `encrypt` never fails (and never panics): the wrapped envelope is neither encrypted
nor elided -/
theorem encryptWhole_succeeds (k n : Bytes) (e : Env) (hi : Inv h e) (hH : ∀ b, (h.H b).Valid) :
    ∃ r, encryptWhole h A k n e = .ok r ∧ encryptSubject h A k n (wrap h e) = .ok r := by
  have hw := Obs.inv_wrap hi
  obtain ⟨r, hr⟩ := (encryptSubject_ok_iff h A k n (wrap h e) hw hH).mpr ⟨rfl, rfl⟩
  exact ⟨r, by unfold encryptWhole; rw [hr], hr⟩

/-- the digest of the encrypted whole is the digest of the wrapped envelope (no hypothesis) -/
theorem encryptWhole_keeps_wrapped_digest (k n : Bytes) (e r : Env)
    (hr : encryptWhole h A k n e = .ok r) : r.digest = (wrap h e).digest := by
  unfold encryptWhole at hr
  cases hs : encryptSubject h A k n (wrap h e) with
  | ok r' => rw [hs] at hr; cases hr; exact encryptSubject_keeps_digest h A k n _ _ hs
  | err x => rw [hs] at hr; cases hr
  | panic x => rw [hs] at hr; cases hr

/-- C08: `decrypt (encrypt e) = e` -/
theorem decryptWhole_encryptWhole (L : AeadLaws A) (k n : Bytes) (e r : Env) (hi : Inv h e)
    (hH : ∀ b, (h.H b).Valid) (hrt : RoundTrips h (wrap h e))
    (hr : encryptWhole h A k n e = .ok r) : decryptWhole h A k r = .ok e := by
  obtain ⟨r', hr', hs⟩ := encryptWhole_succeeds h A k n e hi hH
  rw [hr] at hr'
  cases hr'
  have hd := decryptSubject_encryptSubject h A L k n (wrap h e) r (Obs.inv_wrap hi) hH hrt hs
  simp only [decryptWhole, hd]
  rfl

/-- ... and with another key it fails -/
theorem decryptWhole_wrong_key (L : AeadLaws A) (k k' n : Bytes) (e r : Env) (hi : Inv h e)
    (hH : ∀ b, (h.H b).Valid) (hr : encryptWhole h A k n e = .ok r) (hk : k' ≠ k) :
    decryptWhole h A k' r = .err "dep:Decrypt_failed" := by
  obtain ⟨r', hr', hs⟩ := encryptWhole_succeeds h A k n e hi hH
  rw [hr] at hr'
  cases hr'
  simp only [decryptWhole, decrypt_wrong_key h A L k k' n (wrap h e) r (Obs.inv_wrap hi) hH hs hk]
  rfl

example : ∃ r, encryptWhole toyHash toyAead [1] [2] lf = .ok r ∧
    decryptWhole toyHash toyAead [1] r = .ok lf ∧ r.digest = (wrap toyHash lf).digest ∧
    decryptWhole toyHash toyAead [9] r = .err "dep:Decrypt_failed" := by
  obtain ⟨r, hr, _⟩ := encryptWhole_succeeds toyHash toyAead [1] [2] lf lf_inv toyHash_valid
  exact ⟨r, hr, decryptWhole_encryptWhole _ _ toyAead_laws _ _ _ _ lf_inv toyHash_valid wrap_lf_rt hr,
    encryptWhole_keeps_wrapped_digest _ _ _ _ _ _ hr,
    decryptWhole_wrong_key _ _ toyAead_laws _ _ _ _ _ lf_inv toyHash_valid hr (by decide)⟩

end
end EnvVerif
