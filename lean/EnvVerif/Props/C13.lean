/-
  Props/C13.lean — compression (`src/extension/compress.rs`).

  "Compressing an envelope, or its subject, keeps every digest; uncompressing returns the
  identical envelope — also when the subject is itself a node; compressing something
  already compressed changes nothing; content whose digest is not the declared one, or
  corrupted data, is refused."

  Hypotheses (never axioms).
  * `L : DeflateLaws Z` (Lemmas/Laws.lean): `inflate (deflate b) = some b`; satisfied by
    `ToyDeps.toyDeflate` and by `ToyDeps.toyDeflate2` (which does shorten every envelope
    encoding, so the deflated form of `Compressed` is exercised).
  * `RoundTrips h x` — `decode h (encode x) = .ok x` for the one envelope `x` that is
    compressed (the envelope, or its subject): the conclusion of C05 `decode_encode` (from
    `CodecLaws`, `Inv h x`, `EncShape x`, `Encodable x`).  It is not taken for every `Inv`
    envelope, because that is false (`Obs.not_forall_inv_roundTrips`).
  * `Inv h e` where the node structure matters (`compress_subject`, `uncompress_subject`).

  `compress` of an already compressed envelope returns it unchanged, so for such an
  original the round trip returns its uncompressed content: same digest
  (`uncompress_digest`), which is all the code can mean; the identity statements therefore
  ask that the thing compressed is not compressed already.

  `uncompressSubject_node` is the behaviour after the repair of F6 in /repo
  (`uncompress_subject` keeps the uncompressed envelope as the subject even when it is a
  node, and does not merge the outer assertions into it).
-/
import EnvVerif.Lemmas.ObscureLemmas
namespace EnvVerif
open Env ToyDeps Obs.Ex

section
variable (h : Hash) (Z : Deflate)

/-! ### `compress` -/

/-- exact refusal conditions -/
theorem compress_succeeds_iff (e : Env) :
    (∃ z, compress Z e = .ok z) ↔ (e.isEncrypted = false ∧ e.isElided = false) := by
  cases e <;> simp [compress, Env.isEncrypted, Env.isElided]

/-- the two errors, exactly -/
theorem compress_err_iff (e : Env) (x : String) :
    compress Z e = .err x ↔
      (x = "AlreadyEncrypted" ∧ e.isEncrypted = true) ∨ (x = "AlreadyElided" ∧ e.isElided = true) := by
  cases e <;> simp [compress, Env.isEncrypted, Env.isElided, eq_comm]

theorem compress_never_panics (e : Env) (s : String) : compress Z e ≠ .panic s := by
  cases e <;> simp [compress]

/-- `compress` of a compressed envelope is that envelope -/
theorem compress_of_compressed (c : CompMsg) (d : Digest) :
    compress Z (.compressed c d) = .ok (.compressed c d) := rfl

/-- what `compress` returns otherwise: the compressed encoding, declared with the digest -/
theorem compress_shape (e z : Env) (hc : e.isCompressed = false) (hz : compress Z e = .ok z) :
    z = .compressed (compressedOf Z (encode e)) e.digest :=
  (Obs.compress_ok_of Z hc hz).1

example : compress toyDeflate2 nd = .ok (.compressed (compressedOf toyDeflate2 (encode nd)) nd.digest) ∧
    (compressedOf toyDeflate2 (encode nd)).data.length < (encode nd).length :=
  ⟨congrArg Res.ok (compress_shape toyDeflate2 nd _ rfl rfl), by decide⟩

/-- C13: compression keeps the digest -/
theorem compress_keeps_digest (e z : Env) (hz : compress Z e = .ok z) : z.digest = e.digest := by
  cases hc : e.isCompressed with
  | false => rw [compress_shape Z e z hc hz]; rfl
  | true =>
    cases e with
    | compressed c d => cases hz; rfl
    | _ => cases hc

theorem compress_isCompressed (e z : Env) (hz : compress Z e = .ok z) : z.isCompressed = true := by
  cases hc : e.isCompressed with
  | false => rw [compress_shape Z e z hc hz]; rfl
  | true =>
    cases e with
    | compressed c d => cases hz; rfl
    | _ => cases hc

/-- C13: `compress (compress e) = compress e` -/
theorem compress_idempotent (e z : Env) (hz : compress Z e = .ok z) : compress Z z = .ok z := by
  have hc := compress_isCompressed Z e z hz
  cases z with
  | compressed c d => rfl
  | _ => cases hc

/-- the result satisfies the invariant -/
theorem compress_inv (e z : Env) (hi : Inv h e) (hH : ∀ b, (h.H b).Valid)
    (hz : compress Z e = .ok z) : Inv h z := by
  cases hc : e.isCompressed with
  | false =>
    rw [compress_shape Z e z hc hz]
    exact ⟨by simp only [WF], by simp only [Canon]; exact Obs.digest_valid hH hi⟩
  | true =>
    cases e with
    | compressed c d => cases hz; exact hi
    | _ => cases hc

example : ∃ z, compress toyDeflate nd = .ok z ∧ Inv toyHash z ∧ z.digest = nd.digest ∧
    z.isCompressed = true ∧ compress toyDeflate z = .ok z :=
  ⟨_, rfl, compress_inv toyHash toyDeflate nd _ nd_inv toyHash_valid rfl,
    compress_keeps_digest toyDeflate nd _ rfl, compress_isCompressed toyDeflate nd _ rfl,
    compress_idempotent toyDeflate nd _ rfl⟩

/-! ### `uncompress` -/

/-- C13: uncompressing what `compress` made of an envelope that was not yet compressed
returns the identical envelope -/
theorem uncompress_compress (L : DeflateLaws Z) (e z : Env) (hrt : RoundTrips h e)
    (hc : e.isCompressed = false) (hz : compress Z e = .ok z) : uncompress h Z z = .ok e := by
  rw [compress_shape Z e z hc hz]
  exact Obs.uncompress_compressedOf h L hrt

/- all hypotheses hold together — with the toy that stores, and with the toy that deflates -/
example : ∃ z, compress toyDeflate nd = .ok z ∧ uncompress toyHash toyDeflate z = .ok nd :=
  ⟨_, rfl, uncompress_compress toyHash toyDeflate toyDeflate_laws nd _ nd_rt rfl rfl⟩

example : ∃ z, compress toyDeflate2 nd = .ok z ∧ uncompress toyHash toyDeflate2 z = .ok nd :=
  ⟨_, rfl, uncompress_compress toyHash toyDeflate2 toyDeflate2_laws nd _ nd_rt rfl rfl⟩

/-- whatever `uncompress` returns has the declared digest -/
theorem uncompress_digest (e z : Env) (hz : uncompress h Z e = .ok z) : z.digest = e.digest :=
  Obs.uncompress_digest_eq h Z hz

example : ∃ z x, uncompress toyHash toyDeflate z = .ok x ∧ x.digest = z.digest := by
  have hu := uncompress_compress toyHash toyDeflate toyDeflate_laws nd _ nd_rt rfl rfl
  exact ⟨_, _, hu, uncompress_digest _ _ _ _ hu⟩

/-- C13: across `compress` then `uncompress` the digest is kept, whatever the original was
(also an already compressed one, for which `compress` changes nothing and `uncompress`
returns its content) -/
theorem uncompress_compress_digest (e z x : Env) (hz : compress Z e = .ok z)
    (hx : uncompress h Z z = .ok x) : x.digest = e.digest :=
  (Obs.uncompress_digest_eq h Z hx).trans (compress_keeps_digest Z e z hz)

example : ∃ z x, compress toyDeflate nd = .ok z ∧ uncompress toyHash toyDeflate z = .ok x ∧
    x.digest = nd.digest :=
  ⟨_, _, rfl, uncompress_compress toyHash toyDeflate toyDeflate_laws nd _ nd_rt rfl rfl, rfl⟩

/-- `uncompress` succeeds exactly when the data uncompresses and decodes to an envelope
with the declared digest -/
theorem uncompress_ok_iff (c : CompMsg) (d : Digest) (x : Env) :
    uncompress h Z (.compressed c d) = .ok x ↔
      ∃ data, uncompressMsg Z c = some data ∧ decode h data = .ok x ∧ x.digest = d := by
  constructor
  · intro hz
    obtain ⟨c', d', data, heq, hm, hd, hx⟩ := Obs.uncompress_ok h Z hz
    cases heq
    exact ⟨data, hm, hd, hx⟩
  · rintro ⟨data, hm, hd, hx⟩
    unfold uncompress
    simp only [hm, hd, hx, bne_self_eq_false, Bool.false_eq_true, if_false]

/-- C13: content whose digest is not the declared one is refused -/
theorem uncompress_bad_digest (c : CompMsg) (d : Digest) (data : Bytes) (x : Env)
    (hm : uncompressMsg Z c = some data) (hd : decode h data = .ok x) (hne : x.digest ≠ d) :
    uncompress h Z (.compressed c d) = .err "InvalidDigest" := by
  have hb : (x.digest != d) = true := by simpa using hne
  unfold uncompress
  simp only [hm, hd, hb, if_true]

/- the encoding of the leaf `"a"` declared with the digest 7
(`Compressed::from_uncompressed_data(data, Some(other))` lets one do that): refused -/
example : uncompress toyHash toyDeflate (.compressed (compressedOf toyDeflate (encode lf)) ⟨7⟩) =
    .err "InvalidDigest" :=
  uncompress_bad_digest toyHash toyDeflate _ ⟨7⟩ (encode lf) lf
    (Obs.uncompressMsg_compressedOf toyDeflate_laws _) lf_rt (by decide)

/-- C13: data that does not uncompress is refused -/
theorem uncompress_corrupt (c : CompMsg) (d : Digest) (hm : uncompressMsg Z c = none) :
    uncompress h Z (.compressed c d) = .err "dep:uncompress-failed" := by
  unfold uncompress
  simp only [hm]

/- three bytes declared as the deflated form of ten, which the toy does not inflate -/
example : uncompress toyHash toyDeflate2 (.compressed ⟨0, 10, [9, 9, 9]⟩ ⟨7⟩) =
    .err "dep:uncompress-failed" :=
  uncompress_corrupt toyHash toyDeflate2 _ _ (by decide)

/-- ... in particular deflated data that does not inflate, or inflates to something with
another checksum -/
theorem uncompress_corrupt_deflated (c : CompMsg) (d : Digest) (hl : c.data.length < c.size)
    (hbad : Z.inflate c.data = none ∨ ∃ u, Z.inflate c.data = some u ∧ Z.crc u ≠ c.checksum) :
    uncompress h Z (.compressed c d) = .err "dep:uncompress-failed" := by
  apply uncompress_corrupt
  unfold uncompressMsg
  rw [if_neg (by omega)]
  rcases hbad with hn | ⟨u, hu, hcrc⟩
  · simp only [hn]
  · have hb : (Z.crc u == c.checksum) = false := by simpa using hcrc
    simp only [hu, hb, Bool.false_eq_true, if_false]

/- inflates, but to something with another checksum -/
example : uncompress toyHash toyDeflate2 (.compressed ⟨0, 10, [2, 9, 9]⟩ ⟨7⟩) =
    .err "dep:uncompress-failed" :=
  uncompress_corrupt_deflated toyHash toyDeflate2 _ _ (by decide)
    (Or.inr ⟨[9, 9], rfl, by decide⟩)

/-- data that decodes to no envelope is refused with the decoder's error -/
theorem uncompress_undecodable (c : CompMsg) (d : Digest) (data : Bytes) (msg : String)
    (hm : uncompressMsg Z c = some data) (hd : decode h data = .err msg) :
    uncompress h Z (.compressed c d) = .err msg := by
  unfold uncompress
  simp only [hm, hd]

example : uncompress toyHash toyDeflate (.compressed ⟨0, 1, [0xff]⟩ ⟨7⟩) = .err "cbor:bad-header" :=
  uncompress_undecodable toyHash toyDeflate _ _ [0xff] _ rfl rfl

theorem uncompress_not_compressed (e : Env) (hc : e.isCompressed = false) :
    uncompress h Z e = .err "NotCompressed" :=
  Obs.uncompress_not_compressed h Z hc

example : uncompress toyHash toyDeflate nd = .err "NotCompressed" :=
  uncompress_not_compressed _ _ _ rfl

theorem uncompress_no_panic (e : Env) (s : String) : uncompress h Z e ≠ .panic s :=
  Obs.uncompress_np h Z e s

/-! ### `compress_subject` -/

/-- an already compressed subject: nothing changes -/
theorem compressSubject_of_compressed (e : Env) (hc : e.subject.isCompressed = true) :
    compressSubject h Z e = .ok e := by
  unfold compressSubject
  rw [if_pos hc]

example (c : CompMsg) (d : Digest) :
    compressSubject toyHash toyDeflate (.compressed c d) = .ok (.compressed c d) :=
  compressSubject_of_compressed _ _ _ rfl

/-- exact refusal conditions -/
theorem compressSubject_ok_iff (e : Env) (hi : Inv h e) :
    (∃ z, compressSubject h Z e = .ok z) ↔
      (e.subject.isEncrypted = false ∧ e.subject.isElided = false) := by
  cases hc : e.subject.isCompressed with
  | true =>
    rw [compressSubject_of_compressed h Z e hc]
    cases hs : e.subject with
    | compressed c d => simp [Env.isEncrypted, Env.isElided]
    | _ => rw [hs] at hc; cases hc
  | false =>
    rw [Obs.compressSubject_eq h Z hi hc]
    cases e.subject.isEncrypted <;> cases e.subject.isElided <;> simp

example : ∃ z, compressSubject toyHash toyDeflate nd = .ok z :=
  (compressSubject_ok_iff toyHash toyDeflate nd nd_inv).mpr ⟨rfl, rfl⟩

/-- the two errors, exactly -/
theorem compressSubject_err_iff (e : Env) (x : String) (hi : Inv h e) :
    compressSubject h Z e = .err x ↔
      (x = "AlreadyEncrypted" ∧ e.subject.isEncrypted = true) ∨
      (x = "AlreadyElided" ∧ e.subject.isElided = true) := by
  cases hc : e.subject.isCompressed with
  | true =>
    rw [compressSubject_of_compressed h Z e hc]
    cases hs : e.subject with
    | compressed c d => simp [Env.isEncrypted, Env.isElided]
    | _ => rw [hs] at hc; cases hc
  | false =>
    rw [Obs.compressSubject_eq h Z hi hc]
    cases hs : e.subject with
    | encrypted m d => simp [Env.isEncrypted, Env.isElided, eq_comm]
    | elided d => simp [Env.isEncrypted, Env.isElided, eq_comm]
    | _ => simp [Env.isEncrypted, Env.isElided]

example : compressSubject toyHash toyDeflate (.elided ⟨5⟩) = .err "AlreadyElided" :=
  (compressSubject_err_iff toyHash toyDeflate (.elided ⟨5⟩) _
    ⟨trivial, by simp [Canon, Digest.Valid]⟩).mpr (Or.inr ⟨rfl, rfl⟩)

/-- no panic: the `unwrap` inside `replace_subject` never fires on a canonical envelope -/
theorem compressSubject_no_panic (e : Env) (hi : Inv h e) (s : String) :
    compressSubject h Z e ≠ .panic s := by
  cases hc : e.subject.isCompressed with
  | true => rw [compressSubject_of_compressed h Z e hc]; intro hh; cases hh
  | false =>
    rw [Obs.compressSubject_eq h Z hi hc]
    cases e.subject.isEncrypted <;> cases e.subject.isElided <;> (intro hh; cases hh)

example (s : String) : compressSubject toyHash toyDeflate nd2 ≠ .panic s :=
  compressSubject_no_panic toyHash toyDeflate nd2 nd2_inv s

/-- the result: the subject is replaced by its compressed form; the assertions, the case
(node or not) and the digest are unchanged -/
theorem compressSubject_shape (e z : Env) (hi : Inv h e) (hc : e.subject.isCompressed = false)
    (hz : compressSubject h Z e = .ok z) :
    z.subject = .compressed (compressedOf Z (encode e.subject)) e.subject.digest ∧
      z.assertions = e.assertions ∧ z.isNode = e.isNode ∧ z.digest = e.digest := by
  rw [Obs.compressSubject_eq h Z hi hc] at hz
  split at hz
  · cases hz
  · split at hz
    · cases hz
    · cases hz
      cases e <;> exact ⟨rfl, rfl, rfl, rfl⟩

/-- C13: compressing the subject keeps the digest -/
theorem compressSubject_keeps_digest (e z : Env) (hi : Inv h e) (hz : compressSubject h Z e = .ok z) :
    z.digest = e.digest := by
  cases hc : e.subject.isCompressed with
  | true =>
    rw [compressSubject_of_compressed h Z e hc] at hz
    cases hz
    rfl
  | false => exact (compressSubject_shape h Z e z hi hc hz).2.2.2

/-- the result satisfies the invariant -/
theorem compressSubject_inv (e z : Env) (hi : Inv h e) (hH : ∀ b, (h.H b).Valid)
    (hz : compressSubject h Z e = .ok z) : Inv h z := by
  cases hc : e.subject.isCompressed with
  | true =>
    rw [compressSubject_of_compressed h Z e hc] at hz
    cases hz
    exact hi
  | false =>
    rw [Obs.compressSubject_eq h Z hi hc] at hz
    split at hz
    · cases hz
    · split at hz
      · cases hz
      · cases hz
        exact Obs.compressSubjectSpec_inv h Z hi (Obs.digest_valid hH (Obs.inv_subject hi))

example : ∃ z, compressSubject toyHash toyDeflate nd2 = .ok z ∧ z.assertions = nd2.assertions ∧
    z.digest = nd2.digest ∧ z.subject.isCompressed = true ∧ Inv toyHash z := by
  obtain ⟨z, hz⟩ := (compressSubject_ok_iff toyHash toyDeflate nd2 nd2_inv).mpr ⟨rfl, rfl⟩
  have hs := compressSubject_shape toyHash toyDeflate nd2 z nd2_inv rfl hz
  exact ⟨z, hz, hs.2.1, compressSubject_keeps_digest _ _ _ _ nd2_inv hz, by rw [hs.1]; rfl,
    compressSubject_inv _ _ _ _ nd2_inv toyHash_valid hz⟩

/-! ### `uncompress_subject` -/

theorem uncompressSubject_not_compressed (e : Env) (hc : e.subject.isCompressed = false) :
    uncompressSubject h Z e = .ok e :=
  Obs.uncompressSubject_not_compressed h Z hc

example : uncompressSubject toyHash toyDeflate nd = .ok nd :=
  uncompressSubject_not_compressed _ _ _ rfl

/-- the repaired `uncompress_subject` (F6): a node keeps its assertion list and gets the
uncompressed envelope as its subject — also when that envelope is itself a node; nothing
is merged -/
theorem uncompressSubject_node (cs s : Env) (as : List Env) (d : Digest)
    (hi : Inv h (.node cs as d)) (hs : uncompress h Z cs = .ok s) :
    uncompressSubject h Z (.node cs as d) = .ok (.node s as d) :=
  Obs.uncompressSubject_node_form h Z hi rfl hs

/- a node whose compressed subject uncompresses to a node (the F6 shape) -/
example : uncompressSubject toyHash toyDeflate
    (.node (.compressed (compressedOf toyDeflate (encode nd)) nd.digest) [asr2]
      (toyHash.ofDigests [nd.digest, asr2.digest])) = .ok nd2 :=
  uncompressSubject_node toyHash toyDeflate _ nd [asr2] _
    (by
      refine ⟨⟨trivial, nd2_inv.1.2⟩, ?_⟩
      have hc := nd2_inv.2
      simp only [nd2, Canon] at hc ⊢
      exact ⟨toyHash_valid _, hc.2⟩)
    (Obs.uncompress_compressedOf toyHash toyDeflate_laws nd_rt)

/-- C13: uncompressing the subject after compressing it returns the identical envelope —
for every subject case (leaf, known value, wrapped, assertion, and, for an envelope with
assertions, a subject that is itself a node) -/
theorem uncompressSubject_compressSubject (L : DeflateLaws Z) (e z : Env) (hi : Inv h e)
    (hrt : RoundTrips h e.subject) (hc : e.subject.isCompressed = false)
    (hz : compressSubject h Z e = .ok z) : uncompressSubject h Z z = .ok e := by
  rw [Obs.compressSubject_eq h Z hi hc] at hz
  split at hz
  · cases hz
  · split at hz
    · cases hz
    · cases hz
      have hu : ∀ s : Env, RoundTrips h s →
          uncompress h Z (Obs.compSubj Z s) = .ok s := fun s hs => Obs.uncompress_compressedOf h L hs
      cases e with
      | node s as d =>
        simp only [Env.subject] at hrt
        exact Obs.uncompressSubject_node_form h Z hi rfl (hu s hrt)
      | leaf c d =>
        simp only [Env.subject] at hrt
        exact (Obs.uncompressSubject_nonnode_form h Z rfl rfl).trans (hu _ hrt)
      | wrapped x d =>
        simp only [Env.subject] at hrt
        exact (Obs.uncompressSubject_nonnode_form h Z rfl rfl).trans (hu _ hrt)
      | assertion p o d =>
        simp only [Env.subject] at hrt
        exact (Obs.uncompressSubject_nonnode_form h Z rfl rfl).trans (hu _ hrt)
      | knownValue v d =>
        simp only [Env.subject] at hrt
        exact (Obs.uncompressSubject_nonnode_form h Z rfl rfl).trans (hu _ hrt)
      | elided d => rename_i hl; exact absurd rfl hl
      | encrypted m d => rename_i he _; exact absurd rfl he
      | compressed c d => cases hc

/- all hypotheses hold together: a leaf subject, ... -/
example : ∃ z, compressSubject toyHash toyDeflate nd = .ok z ∧
    uncompressSubject toyHash toyDeflate z = .ok nd := by
  obtain ⟨z, hz⟩ := (compressSubject_ok_iff toyHash toyDeflate nd nd_inv).mpr ⟨rfl, rfl⟩
  exact ⟨z, hz, uncompressSubject_compressSubject _ _ toyDeflate_laws _ _ nd_inv lf_rt rfl hz⟩

/- ... a subject that is itself a node (with the deflating toy), ... -/
example : ∃ z, compressSubject toyHash toyDeflate2 nd2 = .ok z ∧
    uncompressSubject toyHash toyDeflate2 z = .ok nd2 := by
  obtain ⟨z, hz⟩ := (compressSubject_ok_iff toyHash toyDeflate2 nd2 nd2_inv).mpr ⟨rfl, rfl⟩
  exact ⟨z, hz, uncompressSubject_compressSubject _ _ toyDeflate2_laws _ _ nd2_inv nd_rt rfl hz⟩

/- ... an envelope without assertions -/
example : ∃ z, compressSubject toyHash toyDeflate lf = .ok z ∧
    uncompressSubject toyHash toyDeflate z = .ok lf := by
  obtain ⟨z, hz⟩ := (compressSubject_ok_iff toyHash toyDeflate lf lf_inv).mpr ⟨rfl, rfl⟩
  exact ⟨z, hz, uncompressSubject_compressSubject _ _ toyDeflate_laws _ _ lf_inv lf_rt rfl hz⟩

/-- C13: uncompressing the subject keeps the digest -/
theorem uncompressSubject_digest (e z : Env) (hi : Inv h e)
    (hz : uncompressSubject h Z e = .ok z) : z.digest = e.digest := by
  cases hc : e.subject.isCompressed with
  | false =>
    rw [Obs.uncompressSubject_not_compressed h Z hc] at hz
    cases hz
    rfl
  | true =>
    cases e with
    | node cs as d =>
      simp only [Env.subject] at hc
      cases hu : uncompress h Z cs with
      | ok s =>
        rw [Obs.uncompressSubject_node_form h Z hi rfl hu] at hz
        cases hz
        rfl
      | err y => rw [Obs.uncompressSubject_node_unfold, hu] at hz; simp only [hc, if_true] at hz; cases hz
      | panic y => rw [Obs.uncompressSubject_node_unfold, hu] at hz; simp only [hc, if_true] at hz; cases hz
    | compressed c d =>
      rw [Obs.uncompressSubject_nonnode_form h Z rfl rfl] at hz
      exact Obs.uncompress_digest_eq h Z hz
    | _ => cases hc

example : ∃ z x, Inv toyHash z ∧ uncompressSubject toyHash toyDeflate z = .ok x ∧ x.digest = z.digest := by
  obtain ⟨z, hz⟩ := (compressSubject_ok_iff toyHash toyDeflate nd nd_inv).mpr ⟨rfl, rfl⟩
  have hi := compressSubject_inv _ _ _ _ nd_inv toyHash_valid hz
  have hu := uncompressSubject_compressSubject _ _ toyDeflate_laws _ _ nd_inv lf_rt rfl hz
  exact ⟨z, nd, hi, hu, uncompressSubject_digest _ _ _ _ hi hu⟩

/-- C13: across `compress_subject` then `uncompress_subject` the digest is kept, whatever the
subject was (also an already compressed one) -/
theorem uncompressSubject_compressSubject_digest (e z x : Env) (hi : Inv h e)
    (hH : ∀ b, (h.H b).Valid) (hz : compressSubject h Z e = .ok z)
    (hx : uncompressSubject h Z z = .ok x) : x.digest = e.digest :=
  (uncompressSubject_digest h Z z x (compressSubject_inv h Z e z hi hH hz) hx).trans
    (compressSubject_keeps_digest h Z e z hi hz)

example : ∃ z x, compressSubject toyHash toyDeflate nd = .ok z ∧
    uncompressSubject toyHash toyDeflate z = .ok x ∧ x.digest = nd.digest := by
  obtain ⟨z, hz⟩ := (compressSubject_ok_iff toyHash toyDeflate nd nd_inv).mpr ⟨rfl, rfl⟩
  have hu := uncompressSubject_compressSubject _ _ toyDeflate_laws _ _ nd_inv lf_rt rfl hz
  exact ⟨z, nd, hz, hu, uncompressSubject_compressSubject_digest _ _ _ _ _ nd_inv toyHash_valid hz hu⟩

/-- no panic: the decoder never panics and a canonical node has an assertion -/
theorem uncompressSubject_no_panic (e : Env) (hc : Canon e) (s : String) :
    uncompressSubject h Z e ≠ .panic s := by
  intro hz
  cases hs : e.subject.isCompressed with
  | false =>
    rw [Obs.uncompressSubject_not_compressed h Z hs] at hz
    cases hz
  | true =>
    cases e with
    | node cs as d =>
      simp only [Env.subject] at hs
      simp only [Canon] at hc
      rw [Obs.uncompressSubject_node_unfold, if_pos hs] at hz
      cases hu : uncompress h Z cs with
      | ok x => rw [hu] at hz; simp only [Res.bind, Obs.newNodeUnchecked_ne h hc.2.2.1] at hz; cases hz
      | err y => rw [hu] at hz; cases hz
      | panic y => exact Obs.uncompress_np h Z cs y hu
    | compressed c d =>
      rw [Obs.uncompressSubject_nonnode_form h Z rfl rfl] at hz
      exact Obs.uncompress_np h Z _ s hz
    | _ => cases hs

example (s : String) : uncompressSubject toyHash toyDeflate nd ≠ .panic s :=
  uncompressSubject_no_panic toyHash toyDeflate nd nd_inv.2 s

end
end EnvVerif
