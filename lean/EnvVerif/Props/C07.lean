/-
  Props/C07.lean — order- and route-independent assembly.

  "Adding the same set of assertions to the same subject in any order and with any
  repetition produces byte-identical envelopes; adding an assertion already present
  changes nothing, removing an assertion just added restores the previous envelope
  (removing the last one yields the bare subject), unwrapping a wrapped envelope returns
  it, and no operation alters the envelope it was applied to."

  The last clause holds by construction in the model (all functions are pure); it is
  checked on the implementation, not proved here.
-/
import EnvVerif.Lemmas.AssembleLemmas
import EnvVerif.Lemmas.CollectionLemmas
import EnvVerif.Props.C05
namespace EnvVerif
open Env AW

/-- Closed form of `addAll` on an envelope satisfying the invariant: an error exactly when
some element is not a legal assertion slot; otherwise the envelope with the same subject
whose stored list is obtained by inserting the elements one by one (`normAdd`: ignore an
element whose digest is present, else append and re-sort). -/
theorem addAll_char (h : Hash) (s : Env) (l : List Env) (hi : Inv h s) :
    addAll h s l =
      if l.all slotOk then .ok (rebuild h s.subject (l.foldl normAdd s.assertions))
      else .err "InvalidFormat" := by
  obtain ⟨hr, hc, _⟩ := rebuild_of_inv hi
  have := addAll_rebuild h l hc
  rw [hr] at this
  exact this

/-- the assertions stored by `addAll`: strictly ascending; the old ones, plus the added ones
whose digest was not already present (digests injective on the added ones) -/
theorem addAll_assertions (h : Hash) (s : Env) (l : List Env) (hi : Inv h s)
    (hslot : ∀ a ∈ l, a.slotOk = true)
    (hinj : ∀ a ∈ l, ∀ b ∈ l, a.digest = b.digest → a = b) :
    ∃ e', addAll h s l = .ok e' ∧ e'.subject = s.subject ∧ AscDigests e'.assertions ∧
      ∀ x, x ∈ e'.assertions ↔
        x ∈ s.assertions ∨ (x ∈ l ∧ ∀ y ∈ s.assertions, y.digest ≠ x.digest) := by
  obtain ⟨hr, hc, hasc⟩ := rebuild_of_inv hi
  have hall : l.all slotOk = true := List.all_eq_true.2 hslot
  refine ⟨_, by rw [addAll_char h s l hi, hall]; rfl, ?_⟩
  have hmem := mem_foldl_normAdd l (as := s.assertions) hinj
  have hasc' := foldl_normAdd_asc l hasc
  generalize l.foldl normAdd s.assertions = L at hmem hasc'
  cases L with
  | nil =>
    have hnil : s.assertions = [] := by
      cases hs : s.assertions with
      | nil => rfl
      | cons y ys =>
        have := (hmem y).2 (Or.inl (by simp [hs]))
        simp at this
    simp only [rebuild]
    rw [hnil] at hr hmem
    simp only [rebuild] at hr
    rw [hr]
    exact ⟨hr, by rw [hnil]; exact hasc', by rw [hnil]; exact hmem⟩
  | cons a L' =>
    simp only [rebuild, nodeOf, Env.subject, Env.assertions]
    exact ⟨trivial, hasc', hmem⟩

/-- **any order, any repetition**: the same set of assertions (pairwise distinct digests)
added to the same envelope gives the same `Res Env` value.  Stronger than the planned
statement: the hypothesis that the added elements are legal slots is not needed (both sides
are then the same error). -/
theorem addAll_perm_strong (h : Hash) (s : Env) (l1 l2 : List Env) (hi : Inv h s)
    (hmem : ∀ a, a ∈ l1 ↔ a ∈ l2)
    (hinj : ∀ a ∈ l1, ∀ b ∈ l1, a.digest = b.digest → a = b) :
    addAll h s l1 = addAll h s l2 := by
  obtain ⟨_, _, hasc⟩ := rebuild_of_inv hi
  rw [addAll_char h s l1 hi, addAll_char h s l2 hi]
  have hall : l1.all slotOk = l2.all slotOk := by
    rw [Bool.eq_iff_iff, List.all_eq_true, List.all_eq_true]
    exact ⟨fun hh a ha => hh a ((hmem a).2 ha), fun hh a ha => hh a ((hmem a).1 ha)⟩
  rw [hall, foldl_normAdd_perm hasc hmem hinj]

/-- the planned statement of Appendix D (digests injective on the added list only) -/
theorem addAll_perm (h : Hash) (s : Env) (l1 l2 : List Env) (hi : Inv h s)
    (_hslot : ∀ a ∈ l1, a.slotOk = true) (hmem : ∀ a, a ∈ l1 ↔ a ∈ l2)
    (hinj : ∀ a ∈ l1, ∀ b ∈ l1, a.digest = b.digest → a = b) :
    addAll h s l1 = addAll h s l2 :=
  addAll_perm_strong h s l1 l2 hi hmem hinj

/-- under the hypotheses of `addAll_perm` both sides succeed (the statement is not an
equality of errors) -/
theorem addAll_perm_ok (h : Hash) (s : Env) (l1 l2 : List Env) (hi : Inv h s)
    (hslot : ∀ a ∈ l1, a.slotOk = true) (hmem : ∀ a, a ∈ l1 ↔ a ∈ l2)
    (hinj : ∀ a ∈ l1, ∀ b ∈ l1, a.digest = b.digest → a = b) :
    ∃ e', addAll h s l1 = .ok e' ∧ addAll h s l2 = .ok e' := by
  obtain ⟨e', he', _⟩ := addAll_assertions h s l1 hi hslot hinj
  exact ⟨e', he', (addAll_perm h s l1 l2 hi hslot hmem hinj) ▸ he'⟩

/-- the injectivity hypothesis of `addAll_perm` cannot be dropped: the same assertion supplied
once in the clear and once elided (equal digests) — the first one wins, so the order shows -/
theorem addAll_first_wins :
    ∃ (h : Hash) (s a b : Env), Inv h s ∧ a.slotOk = true ∧ b.slotOk = true ∧ a.digest = b.digest ∧
      addAll h s [a, b] ≠ addAll h s [b, a] := by
  refine ⟨Toy.hLen, Toy.exSubj, Toy.exA1, .elided Toy.exA1.digest, ?_, rfl, rfl, rfl, ?_⟩
  · simp [Inv, WF, Canon, Toy.exSubj, newLeaf]
  · have hi : Inv Toy.hLen Toy.exSubj := by simp [Inv, WF, Canon, Toy.exSubj, newLeaf]
    rw [addAll_char Toy.hLen _ _ hi, addAll_char Toy.hLen _ _ hi]
    simp [slotOk, isSubjectAssertion, isSubjectObscured, isSubjectElided, Toy.exA1, newAssertion,
      Toy.exSubj, newLeaf, Env.assertions, Env.subject, normAdd, sortByDigest_singleton, rebuild,
      nodeOf, Env.digest]

/-- equal envelopes have equal encodings (trivial; makes the chain explicit) -/
theorem encode_congr {e1 e2 : Env} (he : e1 = e2) : encode e1 = encode e2 := by rw [he]

/-- **any order ⇒ byte-identical** -/
theorem addAll_perm_bytes (h : Hash) (s : Env) (l1 l2 : List Env) (hi : Inv h s)
    (hslot : ∀ a ∈ l1, a.slotOk = true) (hmem : ∀ a, a ∈ l1 ↔ a ∈ l2)
    (hinj : ∀ a ∈ l1, ∀ b ∈ l1, a.digest = b.digest → a = b)
    (e1 e2 : Env) (h1 : addAll h s l1 = .ok e1) (h2 : addAll h s l2 = .ok e2) :
    encode e1 = encode e2 ∧ e1.digest = e2.digest := by
  have := addAll_perm h s l1 l2 hi hslot hmem hinj
  rw [h1, h2] at this
  injection this with this
  subst this
  exact ⟨rfl, rfl⟩

/-- **adding an assertion already present (by digest) changes nothing** -/
theorem add_present (h : Hash) (e a : Env) (hslot : a.slotOk = true)
    (hp : ∃ x ∈ e.assertions, x.digest = a.digest) : addAssertionEnvelope h e a = .ok e := by
  cases e <;> simp [Env.assertions] at hp
  rename_i s as d
  have := any_digest_iff.2 hp
  simp [addAssertionEnvelope, hslot, this]

/-- ... in particular adding twice is adding once (no hypothesis on `e`) -/
theorem add_idempotent (h : Hash) (e a e' : Env) (hadd : addAssertionEnvelope h e a = .ok e') :
    addAssertionEnvelope h e' a = .ok e' := by
  unfold addAssertionEnvelope at hadd
  cases hslot : a.slotOk with
  | false => simp [hslot] at hadd
  | true =>
    simp only [hslot, Bool.not_true, Bool.false_eq_true, if_false] at hadd
    have key : ∀ (s : Env) (as : List Env), a ∈ as → as ≠ [] →
        addAssertionEnvelope h (nodeOf h s (sortByDigest as)) a = .ok (nodeOf h s (sortByDigest as)) := by
      intro s as ha _
      have : (sortByDigest as).any (fun x => x.digest == a.digest) = true :=
        any_digest_iff.2 ⟨a, mem_sortByDigest.2 ha, rfl⟩
      simp [addAssertionEnvelope, hslot, nodeOf, this]
    cases e with
    | node s as d =>
      simp only at hadd
      split at hadd
      · rename_i hany
        injection hadd with hadd
        subst hadd
        simp [addAssertionEnvelope, hslot, hany]
      · rw [newNodeUnchecked_ne (by simp)] at hadd
        injection hadd with hadd
        subst hadd
        exact key s (as ++ [a]) (by simp) (by simp)
    | _ =>
      simp only [Env.subject] at hadd
      rw [newNodeUnchecked_ne (by simp)] at hadd
      injection hadd with hadd
      subst hadd
      exact key _ [a] (by simp) (by simp)

/-- **removing an assertion just added restores the previous envelope** -/
theorem remove_add (h : Hash) (e a e' : Env) (hi : Inv h e) (hslot : a.slotOk = true)
    (hnew : ∀ x ∈ e.assertions, x.digest ≠ a.digest)
    (hadd : addAssertionEnvelope h e a = .ok e') :
    removeAssertion h e' a = .ok e := by
  obtain ⟨hr, hc, hasc⟩ := rebuild_of_inv hi
  obtain ⟨e'', h1, h2⟩ := remove_add_rebuild h hc hasc hslot hnew
  rw [hr] at h1 h2
  rw [h1] at hadd
  injection hadd with hadd
  subst hadd
  exact h2

/-- **removal is by digest**: the target matters only through its digest - no test of what kind of
element it is stands in front of the search -, so an assertion is removed just the same when it is
named by its elided (or any other digest-equal) form, and an element added in obscured form is
removed by naming it (`remove_add` above holds for every element that may stand in an assertion
slot, obscured ones included) -/
theorem remove_by_digest (h : Hash) (e a b : Env) (hd : a.digest = b.digest) :
    removeAssertion h e a = removeAssertion h e b := by
  unfold removeAssertion; rw [hd]

theorem remove_by_elided_form (h : Hash) (e a : Env) :
    removeAssertion h e (newElided a.digest) = removeAssertion h e a :=
  remove_by_digest h e _ _ rfl

/-- **removing the last one yields the bare subject**: for an envelope that is not a node no
invariant is needed -/
theorem remove_last_subject (h : Hash) (e a e' : Env) (hnn : e.isNode = false)
    (hadd : addAssertionEnvelope h e a = .ok e') :
    e'.assertions = [a] ∧ removeAssertion h e' a = .ok e := by
  unfold addAssertionEnvelope at hadd
  cases hslot : a.slotOk with
  | false => simp [hslot] at hadd
  | true =>
    simp only [hslot, Bool.not_true, Bool.false_eq_true, if_false] at hadd
    cases e <;> simp [isNode] at hnn <;>
    · simp only [Env.subject] at hadd
      rw [newNodeUnchecked_ne (by simp), sortByDigest_singleton] at hadd
      injection hadd with hadd
      subst hadd
      simp [removeAssertion, nodeOf, Env.assertions, Env.subject, findDigestIdx, List.findIdx?_cons]

/-- **unwrapping a wrapped envelope returns it** -/
theorem unwrap_wrap (h : Hash) (e : Env) : unwrap (wrap h e) = .ok e := rfl

/-! ### the hypotheses are satisfiable -/

section Examples
open AW.Toy
/-- `addAll_perm`, `addAll_perm_ok`, `addAll_perm_bytes`: a node with two assertions, a
third one added together with a repetition of an existing one, in two different orders -/
example : Inv hLen exNode ∧ (∀ a ∈ [exA3, exA1, exA3], a.slotOk = true) ∧
    (∀ a, a ∈ [exA3, exA1, exA3] ↔ a ∈ [exA1, exA3]) ∧
    (∀ a ∈ [exA3, exA1, exA3], ∀ b ∈ [exA3, exA1, exA3], a.digest = b.digest → a = b) := by
  refine ⟨exNode_inv, ?_, ?_, ?_⟩
  · simp [exA3, exA1, newAssertion, slotOk, isSubjectAssertion, isSubjectObscured, isSubjectElided]
  · intro a; simp only [List.mem_cons, List.not_mem_nil, or_false]
    constructor
    · rintro (h | h | h) <;> simp [h]
    · rintro (h | h) <;> simp [h]
  · simp [exA1, exA3, newAssertion, newLeaf, Env.digest, Hash.ofDigests, hLen, catDigests_length]

/-- `remove_add`: adding `exA3` (new digest) to the node -/
example : Inv hLen exNode ∧ exA3.slotOk = true ∧ (∀ x ∈ exNode.assertions, x.digest ≠ exA3.digest) ∧
    ∃ e', addAssertionEnvelope hLen exNode exA3 = .ok e' := by
  refine ⟨exNode_inv, by simp [exA3, slotOk, isSubjectAssertion, isSubjectObscured, isSubjectElided], ?_, ?_⟩
  · simp [exNode, nodeOf, Env.assertions, exA1, exA2, exA3, newAssertion, newLeaf, Env.digest,
      Hash.ofDigests, hLen, catDigests, Digest.bytes, beBytes]
  · obtain ⟨hr, hc, _⟩ := rebuild_of_inv exNode_inv
    rw [← hr]
    exact ⟨_, add_rebuild hLen hc (by simp [exA3, slotOk, isSubjectAssertion, isSubjectObscured, isSubjectElided])⟩

/-- `remove_last_subject`, `add_idempotent`: the bare subject -/
example : exSubj.isNode = false ∧ ∃ e', addAssertionEnvelope hLen exSubj exA1 = .ok e' := by
  refine ⟨rfl, ?_⟩
  have : exSubj = rebuild hLen exSubj [] := rfl
  rw [this]
  exact ⟨_, add_rebuild hLen (Or.inl rfl) (by simp [exA1, newAssertion, slotOk, isSubjectAssertion])⟩
end Examples


/-! ### "Equal input values - including unordered collections (sets, maps) used as subject, predicate or object -
always produce equal digests and bytes"

A `HashSet` / `HashMap` (and dcbor's own `Set` / `Map`) reaches the envelope as a leaf whose CBOR is built by
inserting the entries, in whatever order the collection yields them, into dcbor's map ordered by encoded key
(Model/Collections.lean).  The theorems say that the order and the number of insertions cannot show. -/

section Collections
variable (h : Hash)

/-- **sets**: two sequences of valid elements with the same members - any order, any repetition - give the
identical leaf envelope (hence equal digests and equal bytes, wherever it is used) -/
theorem c07_set_leaf_order_independent (xs ys : List Cbor) (vx : Cbor.ValidList xs) (vy : Cbor.ValidList ys)
    (hm : ∀ x, x ∈ xs ↔ x ∈ ys) : newSetLeaf h xs = newSetLeaf h ys := by
  simp only [newSetLeaf, setCbor_ext xs ys vx vy hm]

/-- in particular a permutation of the elements -/
theorem c07_set_leaf_perm (xs ys : List Cbor) (vx : Cbor.ValidList xs) (hp : xs.Perm ys) :
    newSetLeaf h xs = newSetLeaf h ys := by
  have vy : Cbor.ValidList ys := by
    rw [validList_iff] at vx ⊢
    intro y hy; exact vx y (hp.mem_iff.mpr hy)
  exact c07_set_leaf_order_independent h xs ys vx vy (fun x => hp.mem_iff)

/-- **maps**: two sequences of entries with the same members, neither holding two different entries under one
encoded key (a `HashMap` has one entry per key), give the identical leaf envelope -/
theorem c07_map_leaf_order_independent (l₁ l₂ : List (Cbor × Cbor)) (c₁ : Coh l₁) (c₂ : Coh l₂)
    (hm : ∀ p, p ∈ l₁ ↔ p ∈ l₂) : newMapLeaf h l₁ = newMapLeaf h l₂ := by
  simp only [newMapLeaf, mapCbor, mapOfList_ext l₁ l₂ c₁ c₂ hm]

/-- entries with pairwise different valid keys (what a `HashMap` holds) satisfy the hypothesis -/
theorem coh_of_distinct_keys (l : List (Cbor × Cbor)) (hv : Cbor.ValidPairs l)
    (hk : ∀ p q, p ∈ l → q ∈ l → p.1 = q.1 → p = q) : Coh l := by
  rw [validPairs_iff] at hv
  intro p q hp hq he
  exact hk p q hp hq (enc_injective_of_valid _ _ (hv p hp).1 (hv q hq).1 he)

/-- equal envelopes have equal digests and bytes (stated for the record: the conclusions above are equalities of
`Env` terms, which carry both) -/
theorem c07_set_leaf_digest_bytes (xs ys : List Cbor) (vx : Cbor.ValidList xs) (vy : Cbor.ValidList ys)
    (hm : ∀ x, x ∈ xs ↔ x ∈ ys) :
    (newSetLeaf h xs).digest = (newSetLeaf h ys).digest ∧ encode (newSetLeaf h xs) = encode (newSetLeaf h ys) := by
  rw [c07_set_leaf_order_independent h xs ys vx vy hm]; exact ⟨rfl, rfl⟩

/-- the collection leaves are dCBOR values: they decode back from their bytes to the identical envelope -/
theorem c07_set_leaf_roundtrip (xs : List Cbor) (vx : Cbor.ValidList xs) (hl : xs.length < 2 ^ 64) :
    decode h (encode (newSetLeaf h xs)) = .ok (newSetLeaf h xs) :=
  decode_encode_leaf h _ (setCbor_valid xs vx hl)

theorem c07_map_leaf_roundtrip (kvs : List (Cbor × Cbor)) (hv : Cbor.ValidPairs kvs) (hl : kvs.length < 2 ^ 64) :
    decode h (encode (newMapLeaf h kvs)) = .ok (newMapLeaf h kvs) :=
  decode_encode_leaf h _ (mapCbor_valid kvs hv hl)

/-- the stored entries are strictly ascending by encoded key whatever the insertion order (the canonical form the
decoder demands) -/
theorem c07_map_entries_ascending (kvs : List (Cbor × Cbor)) : Cbor.KeysAsc (Cbor.keysEnc (mapOfList kvs)) :=
  asc_mapOfList kvs

/- non-vacuity: three insertion orders of {1, "a", 2} with a repetition -/
example : setCbor [.uint 2, .text [97], .uint 1, .uint 2] = setCbor [.uint 1, .uint 2, .text [97]] := by
  apply setCbor_ext
  · simp [Cbor.ValidList, Cbor.Valid, Cbor.utf8Valid]
  · simp [Cbor.ValidList, Cbor.Valid, Cbor.utf8Valid]
  · intro x; simp only [List.mem_cons, List.not_mem_nil, or_false]
    constructor
    · rintro (h | h | h | h) <;> simp [h]
    · rintro (h | h | h) <;> simp [h]

end Collections

end EnvVerif
