/-
  Props/C02.lean — C02 "obscuring never changes a digest".

  For any envelope, any target set, either mode and any action — and for whole-envelope
  elide, encrypt_subject, encrypt, compress, compress_subject — the result has the root
  digest of the original and every element still present has the digest of the element at
  the same position of the original.

  Hypotheses, all explicit:
  * `Inv h e` (`WF` ∧ `Canon`).  `WF` alone is NOT enough: `elideSet_digest_needs_canon`
    and `elideSet_panics_without_canon` below exhibit a `WF` envelope whose assertions are
    stored out of order, on which the traversal changes the digest / fires an `assert!`.
  * `ActOk act e` — `True` for the elide and compress actions; for the encrypt action the
    codec fact `AadOk d` ("a message whose aad is `(digestCbor d).enc` declares digest
    `d`") at every digest `d` occurring in `e`.  `ActOk.of_laws` derives it from the named
    laws `AadLaw` (the fact for every 32-byte digest) and `HashValid h`.
  Definitions used: `Step`, `Path`, `Env.at` (Lemmas/Paths.lean); `ActOk`, `AadOk`,
  `TopHit`, `NoHitAbove` (Lemmas/ElideLemmas.lean).
-/
import EnvVerif.Lemmas.ElideLemmas
namespace EnvVerif
open Env

section
variable (h : Hash) (A : Aead) (Z : Deflate) (T : Digest → Bool) (rev : Bool) (act : Action)

/-! ### the traversal `elide_set_with_action` -/

/-- the root digest is unchanged: every target set, both modes, every action, every nonce
supply -/
theorem elideSet_digest {e r : Env} (hi : Inv h e) (ha : ActOk act e)
    (hr : elideSet h A Z T rev act e = .ok r) : r.digest = e.digest :=
  elideSet_digest_inv h A Z T rev act hi ha.at_root hr

example : Inv Sample.toyH Sample.e0 ∧ ActOk act Sample.e0 := ⟨Sample.inv_e0, Sample.actOk_e0 act⟩

/-- every position of the result is a position of the original, and the element there
has the digest of the original element at that position -/
theorem elideSet_positions {e r : Env} (hi : Inv h e) (ha : ActOk act e)
    (hr : elideSet h A Z T rev act e = .ok r) :
    ∀ p x, r.at p = some x → ∃ y, e.at p = some y ∧ x.digest = y.digest :=
  elideSet_positions_inv h A Z T rev act hi ha hr

example : Inv Sample.toyH Sample.e0 ∧ ActOk act Sample.e0 ∧
    ∃ r, elideSet Sample.toyH A Z Sample.T3 rev act Sample.e0 = .ok r :=
  ⟨Sample.inv_e0, Sample.actOk_e0 act,
    elideSet_ok_inv Sample.toyH A Z Sample.T3 rev act Sample.inv_e0 (Sample.actOk_e0 act)⟩

/-- the positions of the result are prefix closed (so they form a subtree of the
original's positions) -/
theorem elideSet_positions_prefix_closed {r x : Env} {p q : Path} (hx : r.at (p ++ q) = some x) :
    ∃ y, r.at p = some y :=
  let ⟨y, hy, _⟩ := Env.at_prefix hx; ⟨y, hy⟩

/-- `WF` alone does not give digest preservation: a well-formed node whose assertions are
stored in descending order is re-sorted by `new_with_unchecked_assertions`, and its digest
changes (hash: big-endian value of the image, so that order matters) -/
theorem elideSet_digest_needs_canon :
    ∃ (h : Hash) (e r : Env), WF h e ∧
      elideSet h A Z (fun _ => false) false .elide e = .ok r ∧ r.digest ≠ e.digest :=
  ⟨Sample.ordH, Sample.cex, _, Sample.cex_wf, Sample.cex_run A Z, Sample.cex_digest_ne⟩

/-- … and one level up the changed digest fires the `assert!` of the wrapped case -/
theorem elideSet_panics_without_canon :
    ∃ (h : Hash) (e : Env) (s : String), WF h e ∧
      elideSet h A Z (fun _ => false) false .elide e = .panic s :=
  ⟨Sample.ordH, newWrapped Sample.ordH Sample.cex, _,
    by simp only [newWrapped, WF, Sample.cex_wf, and_self], Sample.cex_wrapped_panics A Z⟩

/-! ### success, error, panic -/

/-- `elide_set_with_action` has no error path (no hypothesis needed) -/
theorem elideSet_no_err (e : Env) (x : String) : elideSet h A Z T rev act e ≠ .err x :=
  elideSet_not_err h A Z T rev act e x

/-- no `assert!` / `unwrap()` on the path can fire, for ALL three actions (for `encrypt`
under the codec hypothesis carried by `ActOk`) -/
theorem elideSet_no_panic {e : Env} (hi : Inv h e) (ha : ActOk act e) :
    ∃ r, elideSet h A Z T rev act e = .ok r :=
  elideSet_ok_inv h A Z T rev act hi ha

example : Inv Sample.toyH Sample.e0 ∧ ActOk act Sample.e0 := ⟨Sample.inv_e0, Sample.actOk_e0 act⟩

/-- the elide action: plain `elide_set` never panics -/
theorem elideSet_elide_no_panic {e : Env} (hi : Inv h e) :
    ∃ r, elideSet h A Z T rev .elide e = .ok r :=
  elideSet_ok_inv h A Z T rev .elide hi trivial

/-- the compress action (after the repair of `compress().unwrap()`) never panics -/
theorem elideSet_compress_no_panic {e : Env} (hi : Inv h e) :
    ∃ r, elideSet h A Z T rev .compress e = .ok r :=
  elideSet_ok_inv h A Z T rev .compress hi trivial

/-- the encrypt action never panics, given the named laws -/
theorem elideSet_encrypt_no_panic {e : Env} (hi : Inv h e) (hAad : AadLaw) (hH : HashValid h)
    (key : Bytes) (nonce : Digest → Bytes) :
    ∃ r, elideSet h A Z T rev (.encrypt key nonce) e = .ok r :=
  elideSet_ok_inv h A Z T rev _ hi (ActOk.of_laws hAad hH hi _)

example : Inv Sample.toyH Sample.e0 := Sample.inv_e0

/-- exactly when the traversal succeeds: iff the action succeeds on every topmost hit
element (everything else on the path — the re-derivation of assertion and node digests
and the four `assert!`s — cannot fail) -/
theorem elideSet_ok_iff {e : Env} (hi : Inv h e) (ha : ActOk act e) :
    (∃ r, elideSet h A Z T rev act e = .ok r) ↔
      ∀ p y, TopHit T rev e p y → ∃ x, obscure A Z act y = .ok x :=
  elideSet_ok_iff_inv h A Z T rev act hi ha

example : Inv Sample.toyH Sample.e0 ∧ ActOk act Sample.e0 := ⟨Sample.inv_e0, Sample.actOk_e0 act⟩

/-- whatever is not a success is a panic -/
theorem elideSet_panic_iff_not_ok (e : Env) :
    (∃ s, elideSet h A Z T rev act e = .panic s) ↔ ¬ ∃ r, elideSet h A Z T rev act e = .ok r := by
  cases hr : elideSet h A Z T rev act e with
  | ok r => simp
  | err x => exact absurd hr (elideSet_not_err h A Z T rev act e x)
  | panic s => simp

/-! ### whole-envelope operations -/

/-- `elide` -/
theorem elide_digest (e : Env) : (elide e).digest = e.digest := by
  rw [elide_eq]; rfl

/-- `compress` -/
theorem compress_digest {e r : Env} (hr : compress Z e = .ok r) : r.digest = e.digest :=
  compress_ok_digest Z hr

/-- `compress_subject` -/
theorem compressSubject_digest {e r : Env} (hi : Inv h e)
    (hr : compressSubject h Z e = .ok r) : r.digest = e.digest :=
  compressSubject_digest_inv h Z hi hr

example : Inv Sample.toyH Sample.e0 := Sample.inv_e0

/-- `encrypt_subject`: a successful result has the original digest (the function checks it
with `assert_eq!`; see `encryptSubject_no_panic` for why that check cannot fail) -/
theorem encryptSubject_digest {key nonce : Bytes} {e r : Env}
    (hr : encryptSubject h A key nonce e = .ok r) : r.digest = e.digest :=
  encryptSubject_digest_any h A hr

/-- `encrypt_subject` cannot panic: neither `new_with_encrypted(..).unwrap()` nor the
`assert_eq!` on the digests fires -/
theorem encryptSubject_no_panic {key nonce : Bytes} {e : Env} (hi : Inv h e)
    (ha : AadOk e.subject.digest) (s : String) : encryptSubject h A key nonce e ≠ .panic s :=
  encryptSubject_not_panic_inv h A hi ha s

example : Inv Sample.toyH Sample.e0 ∧ AadOk Sample.e0.subject.digest :=
  ⟨Sample.inv_e0, Sample.aadOk_of_check (by decide +kernel)⟩

/-- `encrypt` (whole envelope) succeeds, and its result is the encrypted placeholder of the
wrapped original (given the codec fact at that digest) -/
theorem encryptWhole_ok {key nonce : Bytes} {e : Env} (ha : AadOk (wrap h e).digest) :
    encryptWhole h A key nonce e =
      .ok (.encrypted (encryptWithDigest A key nonce (encode (wrap h e)) (wrap h e).digest)
        (wrap h e).digest) := by
  have hnew := newEncryptedUnwrap_ok_of (ha _ (encryptWithDigest_aad A key nonce (encode (wrap h e)) _))
    "encrypt.rs:encrypt_subject_opt:new_with_encrypted.unwrap"
  unfold encryptWhole encryptSubject
  simp only [wrap, newWrapped] at hnew ⊢
  rw [hnew]
  simp [Env.digest]

example : AadOk (wrap Sample.toyH Sample.e0).digest := Sample.aadOk_of_check (by decide +kernel)

/-- `encrypt` (whole envelope): by construction the wrapped original, encrypted -/
theorem encryptWhole_digest {key nonce : Bytes} {e r : Env}
    (hr : encryptWhole h A key nonce e = .ok r) : r.digest = (wrap h e).digest := by
  unfold encryptWhole at hr
  cases hs : encryptSubject h A key nonce (wrap h e) with
  | ok r' => rw [hs] at hr; cases hr; exact encryptSubject_digest_any h A hs
  | err x => rw [hs] at hr; cases hr
  | panic x => rw [hs] at hr; cases hr

end
end EnvVerif
