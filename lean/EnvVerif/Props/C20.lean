/-
  Props/C20.lean — global registries and formatting under concurrency.

  "Formatting envelopes, registering tags and consulting the known-value, function and
  parameter registries may happen concurrently from any number of threads: every call
  completes (no deadlock, no poisoned lock) and each formatting call returns the same text
  it returns when run alone."

  The property quantifies over schedules.  What is logic in it - the lock protocol - is
  modelled in Model/Conc.lean (resources = natural numbers, rank = the number; `Mutex` and
  `Once` as `acq`/`rel`/`once`/`done`; one `step` per thread and instruction) and proved here
  for *every* schedule, *any* number of threads and *any* sequence of API calls per thread:

    * `api_ranked`, `withFMT_ranked`   every API lock program requests resources in strictly
                                       increasing rank (oFMT 0 < FMT 1 < oTAGS 2 < TAGS 3 <
                                       oKV 4 < KV 5 < oFN 6 < FN 7 < oPARAM 8 < PARAM 9) and
                                       ends holding nothing - a complete table, not a sample;
    * `sym_append`, `ranked_concat`    ranked operations compose;
    * `good_init`, `good_step`         the invariant `Good` holds initially and is preserved;
    * `no_deadlock`                    in a `Good` state with an unfinished thread some thread
                                       can step (this includes: nobody ever gives up a lock it
                                       does not own, which in the model is being stuck);
    * `all_complete`, `no_infinite_run` every run is at most `size` steps long, a run that
                                       cannot be extended has finished every call with nothing
                                       held, and every run can be extended to such a state;
    * `api_no_deadlock`, `api_all_complete`  the same, instantiated: threads running arbitrary
                                       sequences of API operations from the initial state;
    * `api_lazy`, `lazy_store_never_blocks`  while a lazy's initialiser runs its data mutex
                                       is free (why the TAGS -> FMT edge of the raw lock graph,
                                       the store inside the context initialiser, is benign);
    * `fmt_mutex`, `format_linearizable`, `format_alone`  the context is accessed only under
                                       FMT => critical sections do not interleave => a
                                       formatting call returns `fmt ctx e` for the context at
                                       its acquisition, which is the context at its start when
                                       no registration overlaps the call.

  NOT covered (exercised by the stress oracle, not proved):

    * that the instruction lists in `apiOps` are what the Rust code does: they are
      transcribed by hand from `/repo/src/base/format_context.rs`, `format.rs`,
      `tree_format.rs`, `cbor.rs`, `extension/known_values/known_values_registry.rs`,
      `extension/expressions/{functions,parameters}.rs` and, for `dcbor::GLOBAL_TAGS`,
      from `dcbor-0.17.1/src/tags.rs` (`LazyTagsStore::get`, `with_tags!`, `with_tags_mut!`,
      `tags_for_values`, `register_tags`); the `/repo` part is compared with traces on every
      run (the driver re-evaluates `rankedOf` on the extracted programs), the dcbor part is
      trusted;
    * interleavings inside dcbor's own store beyond these lock acquisitions, and anything a
      user-supplied summarizer or `with_format_context_mut!` closure does (a closure that
      formats through the global context, or that is entered while the caller keeps a
      registry guard obtained from the public `get()`, is outside the table: such programs
      are not ranked and `findDeadlock` finds the deadlock);
    * the momentary store into a lazy's own mutex inside its initialiser is not an
      instruction of the programs (header of Model/Conc.lean).  What *is* proved about it:
      `lazy_store_never_blocks` - in every reachable state in which some thread runs the
      initialiser of a lazy, the lazy's data mutex is free, so that store finds it free
      (this uses only that `get()` locks the data mutex after `call_once`, `api_lazy`);
      and no other thread's next instruction requests it; the store itself, a lock-unlock
      pair on a free mutex that nobody requests meanwhile, is left out;
    * memory-model effects, the semantics of `std::sync::{Once, Mutex}` themselves (the model
      *is* the assumed semantics), the real scheduler and its fairness (the theorems say
      that progress is always possible and that no run is infinite, hence every scheduler
      that keeps running *some* enabled thread completes all calls);
    * lock poisoning and panics: the model has no panics.  In `/repo` the four lazies now
      hand out the guard with `lock().unwrap_or_else(PoisonError::into_inner)`, so a panic
      inside a formatting call no longer makes later calls panic; dcbor's `GLOBAL_TAGS.get()`
      still uses `lock().unwrap()`, and a panicking initialiser poisons its `Once`;
    * the text itself: `fmt` below is an uninterpreted function of the context value and the
      envelope (that formatting is a function of these two is Rust's `&FormatContext`, `&self`).
-/
import EnvVerif.Lemmas.ConcLemmas
namespace EnvVerif
open Conc

/-! ### ranked programs compose -/

/-- symbolic execution of a sequence is the sequence of the symbolic executions -/
theorem sym_append_general (held : List Nat) (p q : List Instr) :
    sym held (p ++ q) = (sym held p).bind (fun h => sym h q) :=
  sym_append_bind p q held

/-- balanced ranked operations compose -/
theorem sym_append (held held' : List Nat) (p q : List Instr)
    (hp : sym held p = some held) (hq : sym held q = some held') :
    sym held (p ++ q) = some held' :=
  sym_append_some hp hq

example : sym [FMT] (tagsBrief ++ [Instr.rel FMT]) = some [] :=
  sym_append [FMT] [] tagsBrief [Instr.rel FMT] (by decide) (by decide)

/-- any concatenation of ranked operations is a ranked program -/
theorem ranked_concat (ops : List (List Instr)) (h : ∀ p ∈ ops, Ranked p = true) :
    Ranked ops.flatten = true :=
  ranked_flatten h

example : Ranked [withFMT 1, lookupKV, withFMT 0, tagsBrief].flatten = true :=
  ranked_concat _ (by decide)

/-! ### the API table -/

/-- every row of the table of API operations is ranked (a complete enumeration) -/
theorem api_ranked : allRanked = true := by decide

/-- a formatting call is ranked whatever the number of brief tag-store uses inside it -/
theorem withFMT_ranked (k : Nat) : Ranked (withFMT k) = true :=
  Conc.withFMT_ranked k

theorem api_op_ranked (p : List Instr) (h : IsApiOp p) : Ranked p = true :=
  apiOp_ranked api_ranked h

example : IsApiOp (withFMT 1) := Or.inl ⟨"format", by simp [apiOps]⟩
example : IsApiOp lookupPARAM := Or.inl ⟨"parameter_lookup", by simp [apiOps]⟩
example : IsApiOp (withFMT 17) := Or.inr ⟨17, rfl⟩

/-- the order is necessary, not only sufficient: a caller that keeps the guard of
KNOWN_VALUES (public `KNOWN_VALUES.get()`) across a formatting call is not ranked ... -/
theorem guard_across_format_unranked : Ranked (getKV ++ withFMT 1 ++ [Instr.rel KV]) = false := by
  decide

/-! ### the invariant -/

/-- any number of threads, each running any concatenation of ranked operations, nothing
held, nothing initialised: `Good` -/
theorem good_init (opss : List (List (List Instr)))
    (h : ∀ ops ∈ opss, ∀ p ∈ ops, Ranked p = true) :
    Good (init (opss.map List.flatten)) := by
  apply good_init_of_ranked
  intro p hp
  obtain ⟨ops, hops, rfl⟩ := List.mem_map.1 hp
  exact ranked_flatten (h ops hops)

/-- two threads both running `format`, a third one registering tags and looking up a known
value -/
example : Good (init ([[withFMT 1], [withFMT 1], [withFMT 0, lookupKV]].map List.flatten)) :=
  good_init _ (by decide)

/-- `Good` is preserved by every step of every thread -/
theorem good_step (s s' : State) (tid : Nat) (g : Good s) (h : step s tid = some s') :
    Good s' :=
  good_step_of g h

example : ∃ s', step (init [withFMT 1, withFMT 1]) 1 = some s' ∧ Good s' :=
  ⟨_, rfl, good_step _ _ 1 (good_init [[withFMT 1], [withFMT 1]] (by decide)) rfl⟩

/-- ... and hence by every run -/
theorem good_run (s s' : State) (sched : List Nat) (g : Good s) (h : run s sched = some s') :
    Good s' :=
  good_run_of g h

/-! ### no deadlock -/

/-- In a `Good` state in which some thread has not finished, some thread can step.
(Among the held resources take the one of maximal rank; its holder has not finished,
whatever it requests next is above everything it holds, hence above every held resource,
hence free; giving up is never blocked.) -/
theorem no_deadlock (s : State) (g : Good s) (h : ∃ t ∈ s.threads, t.pc ≠ []) :
    ∃ (tid : Nat) (s' : State), step s tid = some s' :=
  progress g h

/-- after thread 0 became the runner of the context initialiser and thread 1 is blocked on
it, somebody can still step -/
example : ∃ s, run (init [withFMT 1, withFMT 1]) [0, 0] = some s ∧
    step s 1 = none ∧ ∃ (tid : Nat) (s' : State), step s tid = some s' := by
  refine ⟨_, rfl, rfl, ?_⟩
  apply no_deadlock
  · exact good_run _ _ [0, 0] (good_init [[withFMT 1], [withFMT 1]] (by decide)) rfl
  · exact ⟨_, List.mem_cons_self, by decide⟩

/-- a `Good` state in which no thread can step is final: every program was run to its end,
nothing is held, nothing is owned -/
theorem stuck_is_final (s : State) (g : Good s) (h : ∀ tid, step s tid = none) :
    (∀ t ∈ s.threads, t.pc = [] ∧ t.held = []) ∧ ∀ r, s.owner r = none :=
  stuck_final g h

/-! ### every call completes -/

/-- every step strictly decreases the measure (no hypothesis on the state) -/
theorem step_decreases (s s' : State) (tid : Nat) (h : step s tid = some s') :
    s'.size < s.size :=
  step_size h

/-- there is no infinite run, from any state under any schedule -/
theorem no_infinite_run (f : Nat → State) (sch : Nat → Nat) :
    ¬ ∀ n, step (f n) (sch n) = some (f (n + 1)) :=
  fun h => no_infinite_run_of f sch h

/-- Every maximal run is finite and ends with every thread finished and nothing held:
from a `Good` state `s0`, a run `sched` leading to `s`
  * is at most `s0.size` steps long,
  * if it cannot be extended, `s` is final,
  * and in any case it can be extended to a final state (so "finished" is reachable from
    everywhere: no livelock region either). -/
theorem all_complete (s0 s : State) (sched : List Nat) (g : Good s0)
    (hrun : run s0 sched = some s) :
    sched.length ≤ s0.size ∧
    ((∀ tid, step s tid = none) →
      (∀ t ∈ s.threads, t.pc = [] ∧ t.held = []) ∧ ∀ r, s.owner r = none) ∧
    (∃ (more : List Nat) (s' : State), run s0 (sched ++ more) = some s' ∧
      (∀ t ∈ s'.threads, t.pc = [] ∧ t.held = []) ∧ ∀ r, s'.owner r = none) := by
  have gs : Good s := good_run_of g hrun
  refine ⟨?_, stuck_final gs, ?_⟩
  · have := run_size hrun; omega
  · obtain ⟨more, s', hr, hfin⟩ := can_finish s.size s (Nat.le_refl _) gs
    exact ⟨more, s', run_append hrun hr, hfin⟩

example : ∃ s, run (init [withFMT 1, withFMT 1]) [0, 0, 1] = none ∧
    run (init [withFMT 1, withFMT 1]) [0, 0, 0] = some s ∧
    [0, 0, 0].length ≤ (init [withFMT 1, withFMT 1]).size :=
  ⟨_, rfl, rfl,
    (all_complete _ _ [0, 0, 0] (good_init [[withFMT 1], [withFMT 1]] (by decide)) rfl).1⟩

/-! ### the instance: threads running API operations -/

/-- C20, deadlock part: any number of threads, each making any sequence of API calls, any
schedule: as long as some call is unfinished some thread can step. -/
theorem api_no_deadlock (opss : List (List (List Instr)))
    (h : ∀ ops ∈ opss, ∀ p ∈ ops, IsApiOp p) (sched : List Nat) (s : State)
    (hrun : run (init (opss.map List.flatten)) sched = some s)
    (hunf : ∃ t ∈ s.threads, t.pc ≠ []) :
    ∃ (tid : Nat) (s' : State), step s tid = some s' :=
  progress
    (good_run_of (good_init opss fun ops ho p hp => api_op_ranked p (h ops ho p hp)) hrun) hunf

/-- C20, completion part: such a run has at most `size` steps; when it cannot be extended
every call has returned and no lock is held; and it can always be extended to that. -/
theorem api_all_complete (opss : List (List (List Instr)))
    (h : ∀ ops ∈ opss, ∀ p ∈ ops, IsApiOp p) (sched : List Nat) (s : State)
    (hrun : run (init (opss.map List.flatten)) sched = some s) :
    sched.length ≤ (init (opss.map List.flatten)).size ∧
    ((∀ tid, step s tid = none) →
      (∀ t ∈ s.threads, t.pc = [] ∧ t.held = []) ∧ ∀ r, s.owner r = none) ∧
    (∃ (more : List Nat) (s' : State),
      run (init (opss.map List.flatten)) (sched ++ more) = some s' ∧
      (∀ t ∈ s'.threads, t.pc = [] ∧ t.held = []) ∧ ∀ r, s'.owner r = none) :=
  all_complete _ s sched
    (good_init opss fun ops ho p hp => api_op_ranked p (h ops ho p hp)) hrun

example : ∀ ops ∈ [[withFMT 1, lookupKV], [withFMT 0], [lookupFN, withFMT 2]],
    ∀ p ∈ ops, IsApiOp p := by
  intro ops ho p hp
  simp only [List.mem_cons, List.not_mem_nil, or_false] at ho
  rcases ho with rfl | rfl | rfl <;>
    simp only [List.mem_cons, List.not_mem_nil, or_false] at hp
  · rcases hp with rfl | rfl
    · exact Or.inr ⟨1, rfl⟩
    · exact Or.inl ⟨"known_value_lookup", by simp [apiOps]⟩
  · subst hp; exact Or.inr ⟨0, rfl⟩
  · rcases hp with rfl | rfl
    · exact Or.inl ⟨"function_lookup", by simp [apiOps]⟩
    · exact Or.inr ⟨2, rfl⟩

/-! ### the store inside an initialiser -/

/-- every API lock program respects the lazy discipline of each of the five lazies: the data
mutex is taken only after the lazy's `call_once` (a complete table; `withFMT k` for every `k`
by `withFMT_lazy`) -/
theorem api_lazy : allLazy = true := by decide

/-- everything a thread holds - a lock, or a once it is running - is given up by an
instruction pending in its program: a running once has its `done` pending -/
theorem held_will_be_released (s : State) (g : Good s) (i : Nat) (t : Thread)
    (ht : s.threads[i]? = some t) (r : Nat) (hr : r ∈ t.held) :
    Instr.rel r ∈ t.pc ∨ Instr.done r ∈ t.pc :=
  held_pending t.pc t.held [] r (g.sym_ok i t ht) hr (by simp)

/-- While some thread runs the initialiser of a lazy, nobody holds the lazy's data mutex
and no thread's next instruction requests it: the store `*self.data.lock().unwrap() = Some(..)` inside the initialiser finds the mutex
free, whatever the other threads do.  (For `GLOBAL_FORMAT_CONTEXT` that store happens with
TAGS, KNOWN_VALUES, FUNCTIONS and PARAMETERS held, against the rank order; this is why it
cannot hurt.) -/
theorem lazy_store_never_blocks (opss : List (List (List Instr)))
    (h : ∀ ops ∈ opss, ∀ p ∈ ops, IsApiOp p) (sched : List Nat) (s : State)
    (hrun : run (init (opss.map List.flatten)) sched = some s)
    (o m : Nat) (hl : (o, m) ∈ lazies) (u : Nat) (hu : s.owner o = some u) :
    s.owner m = none ∧
    ∀ (i : Nat) (t : Thread) (rest : List Instr), s.threads[i]? = some t →
      t.pc ≠ Instr.acq m :: rest := by
  have g : Good s :=
    good_run_of (good_init opss fun ops ho p hp => api_op_ranked p (h ops ho p hp)) hrun
  have li : LazyInv o m s := by
    refine lazyInv_run (lazyInv_init ?_) hrun
    intro p hp
    obtain ⟨ops, hops, rfl⟩ := List.mem_map.1 hp
    apply lazy_flatten
    intro q hq
    have := apiOp_lazy api_lazy (h ops hops q hq)
    unfold lazyDisciplined at this
    rw [List.all_eq_true] at this
    exact this (o, m) hl
  exact ⟨store_free g li hu, fun i t rest ht => store_unrequested li hu i t ht rest⟩

/-- thread 0 is inside the context initialiser, holding TAGS, KNOWN_VALUES, FUNCTIONS and
PARAMETERS (16 steps), thread 1 waits for it: FMT is free -/
example : ∃ s, run (init [withFMT 1, withFMT 1]) (List.replicate 16 0) = some s ∧
    s.owner oFMT = some 0 ∧ holds s 0 PARAM = true ∧ holds s 0 TAGS = true ∧
    step s 1 = none ∧ (oFMT, FMT) ∈ lazies :=
  ⟨_, rfl, by decide, by decide, by decide, rfl, by decide⟩

/-! ### formatting: mutual exclusion and "the same text as when run alone" -/

/-- at most one thread holds FMT (or any other resource) in a `Good`, hence in any
reachable, state -/
theorem fmt_mutex (s : State) (g : Good s) (i j : Nat) (hi : holds s i FMT = true)
    (hj : holds s j FMT = true) : i = j :=
  holds_unique g hi hj

example : ∃ s, run (init [withFMT 1, withFMT 1]) (List.replicate 22 0) = some s ∧
    holds s 0 FMT = true ∧ holds s 1 FMT = false :=
  ⟨_, rfl, by decide, by decide⟩

/-- The context is a value that is written only by a thread that holds FMT (this is what
`exec FMT` means: an execution containing an unguarded write is `none`).  Then, along any
execution during which thread `i` holds FMT, all accesses are `i`'s: critical sections of
different threads do not interleave, i.e. the execution is equivalent to running the
critical sections one after the other in the order of their FMT acquisitions. -/
theorem format_linearizable {C : Type} (i : Nat) (s s' : State) (c c' : C) (es : List (Ev C))
    (g : Good s) (hex : exec FMT (s, c) es = some (s', c'))
    (hhold : holdsAlong FMT i (s, c) es = true) :
    ∀ tid v, Ev.write tid v ∈ es → tid = i :=
  writes_own g hex hhold

/-- A formatting call of thread `i`, split at its acquisition of FMT: `pre` runs from the
start of the call up to and including `acq FMT`, `crit` is the rest of the call before
`rel FMT`; other threads' events are interleaved at will.  If no registration lands during
`pre` (no registration overlaps the call; during `crit` none *can*, by mutual exclusion)
and the call itself only reads, then whatever point of `crit` the call reads the context
at, it formats with the context `c` the call started with: it returns `fmt c e`, the text
it returns when run alone. -/
theorem format_alone {C E T : Type} (fmt : C → E → T) (e : E) (i : Nat)
    (pre crit : List (Ev C)) (s s1 : State) (c c1 : C) (g : Good s)
    (hpre : exec FMT (s, c) pre = some (s1, c1))
    (hno : ∀ tid v, Ev.write tid v ∉ pre)
    (hhold : holdsAlong FMT i (s1, c1) crit = true)
    (hread : ∀ v, Ev.write i v ∉ crit) :
    ∀ x ∈ ctxTrace FMT (s1, c1) crit, fmt x e = fmt c e := by
  intro x hx
  have h1 : c1 = c := exec_no_write hpre hno
  have h2 : x = c1 := ctx_stable (exec_good g hpre) hhold hread x hx
  rw [h2, h1]

/-- Three threads: 1 registers tags (22 steps of first use, then the write of the new
context `42`, then `rel FMT`); after that 0 formats (`pre` = skip the once, `acq FMT`) while 2,
which also wants to format, gets as far as it can inside 0's critical section (`crit`).
The hypotheses of `format_linearizable` and `format_alone` hold (the state reached after the
registration is `Good` by `exec_good`), and the contexts 0 can observe are all `42`. -/
example :
    let sc0 : State × Nat := (init [withFMT 1, withFMT 0, withFMT 1], 0)
    let reg : List (Ev Nat) := List.replicate 22 (Ev.step 1) ++ [Ev.write 1 42, Ev.step 1]
    let pre : List (Ev Nat) := [Ev.step 0, Ev.step 0]
    let crit : List (Ev Nat) := [Ev.step 0, Ev.step 2, Ev.step 0, Ev.step 0]
    (exec FMT sc0 reg).map (·.2) = some 42 ∧
    (exec FMT sc0 (reg ++ pre)).map (fun sc => holdsAlong FMT 0 sc crit) = some true ∧
    (exec FMT sc0 (reg ++ pre)).map (fun sc => ctxTrace FMT sc crit) =
      some [42, 42, 42, 42, 42] ∧
    (exec FMT sc0 (reg ++ pre ++ crit)).map (fun sc => holds sc.1 2 FMT) = some false := by
  decide

end EnvVerif
