/-
  Props/C12.lean — C12: inclusion proofs.

  "For any envelope and any set of target digests, a proof is produced iff every target
  occurs in the envelope; a produced proof has the envelope's root digest and is accepted,
  for those targets, by a verifier who holds only the root digest. A verifier never accepts
  a proof whose root digest differs from its own or in which some target does not occur,
  and a proof discloses structure only along the paths from the root to the targets: every
  element off those paths, and each target itself, appears solely as an elided digest."

  The hash `h` is arbitrary throughout.  Positions
  are `Path`s (`Lemmas/Paths.lean`); `e.at p = some x` says that `x` is the element of `e`
  at position `p`.  `proofOf T e` (`Lemmas/ProofLemmas.lean`) is the proof envelope written
  as a pure function: an element is kept exactly where a target lies strictly beneath it,
  every other element is replaced by its digest.  `Inv h e` (every envelope the library
  produces satisfies it) is needed wherever the traversal rebuilds nodes: on an envelope
  that is only `WF` the rebuilding `assert!` can fire (`proof_panics_without_canon`).

  History: the construction used to be two digest-targeted elisions (reveal the digests on
  the paths, then remove the targets).  An element that merely *shared its digest* with an
  element on a path - a compressed, encrypted or partly elided copy elsewhere in the
  envelope - then stayed disclosed off the paths (finding F5b; positional minimality was
  provable only under two hypotheses and refuted without them).  The repaired code builds
  the proof position by position; minimality now holds for every envelope and every
  target set with no hypothesis on the hash (`proof_minimal`).
-/
import EnvVerif.Lemmas.ProofLemmas
namespace EnvVerif
open Env C12Sample

/-! ### the verifier -/

/-- the early exit of `remove_all_found` does not change the result: `contains_all`
holds iff every target is the digest of a walked element -/
theorem containsAll_iff (p : Env) (T : List Digest) :
    containsAll p T = true ↔ ∀ d ∈ T, d ∈ walkDigests p :=
  containsAll_iff_walk p T

/-- the walked digests are the digests found at the positions of the envelope -/
theorem walkDigests_iff_at (e : Env) (d : Digest) :
    d ∈ walkDigests e ↔ ∃ p x, e.at p = some x ∧ x.digest = d :=
  mem_walkDigests_iff

/-- **soundness and completeness of the verifier**: a proof is accepted iff its root digest
is the verifier's and every target occurs in it -/
theorem confirm_iff (e : Env) (T : List Digest) (p : Env) :
    confirmContainsSet e T p = true ↔ e.digest = p.digest ∧ ∀ d ∈ T, d ∈ walkDigests p := by
  simp only [confirmContainsSet, Bool.and_eq_true, beq_iff_eq, containsAll_iff]

/-- a proof with another root digest is never accepted -/
theorem confirm_rejects_other_root (e : Env) (T : List Digest) (p : Env)
    (hd : e.digest ≠ p.digest) : confirmContainsSet e T p = false := by
  cases hc : confirmContainsSet e T p with
  | false => rfl
  | true => exact absurd ((confirm_iff e T p).mp hc).1 hd

example : ∃ e p : Env, e.digest ≠ p.digest := ⟨e0, a1, by rw [e0_digest, a1_digest]; decide⟩

/-- a proof in which some target does not occur is never accepted -/
theorem confirm_rejects_absent_target (e : Env) (T : List Digest) (p : Env) (d : Digest)
    (hd : d ∈ T) (hab : d ∉ walkDigests p) : confirmContainsSet e T p = false := by
  cases hc : confirmContainsSet e T p with
  | false => rfl
  | true => exact absurd (((confirm_iff e T p).mp hc).2 d hd) hab

example : ∃ (T : List Digest) (p : Env) (d : Digest), d ∈ T ∧ d ∉ walkDigests p :=
  ⟨[⟨9⟩], e0, ⟨9⟩, by simp, by decide +kernel⟩

/-! ### the reveal set -/

/-- `reveal_sets`: started with `cur` above the element, it yields `cur` and the digests on
the chain from the element down to a target position, both ends included — provided the
element has a target position at all -/
theorem revealSets_spec (T cur : List Digest) (e : Env) (d : Digest) :
    d ∈ revealSets T cur e ↔
      ∃ p x, e.at p = some x ∧ memD T x.digest = true ∧
        (d ∈ cur ∨ ∃ q y, q <+: p ∧ e.at q = some y ∧ y.digest = d) := by
  rw [revealSets_collect]
  simp [CollectSpec, OnPath]

/-- the subset test of `proof_contains_set` succeeds iff every target occurs -/
theorem targets_subset_iff (T : List Digest) (e : Env) :
    (∀ d ∈ T, memD (revealSets T [] e) d = true) ↔ ∀ d ∈ T, d ∈ walkDigests e :=
  targets_subset_iff_walk T e

/-- `has_target_beneath`: some position strictly below holds a target -/
theorem hasTargetBeneath_spec (T : List Digest) (e : Env) :
    hasTargetBeneath T e = true ↔ ∃ st t y, e.at (st :: t) = some y ∧ memD T y.digest = true :=
  hasTargetBeneath_iff T e

/-! ### the prover -/

section
variable (h : Hash)

/-- `proof_contains_set` in closed form; in particular it neither fails nor panics on an
envelope satisfying the invariant -/
theorem proof_eq (e : Env) (T : List Digest) (hi : Inv h e) :
    proofContainsSet h e T =
      .ok (if T.all (memD (revealSets T [] e)) then some (proofOf T e) else none) := by
  rw [proofContainsSet_eq h T e hi.1 (Canon.shape e hi.2)]
  split <;> rfl

example : Inv sumH e0 := inv_e0

theorem proof_no_fault (e : Env) (T : List Digest) (hi : Inv h e) :
    (∀ s, proofContainsSet h e T ≠ .err s) ∧ (∀ s, proofContainsSet h e T ≠ .panic s) := by
  rw [proof_eq h e T hi]
  exact ⟨fun s hs => (by cases hs), fun s hs => (by cases hs)⟩

example : Inv sumH e0 := inv_e0

/-- `WF` alone does not exclude a panic: on a node with an empty assertion list (which the
library never builds) the `assert!` of `new_with_unchecked_assertions` fires -/
theorem proof_panics_without_canon :
    WF sumH eP ∧
    proofContainsSet sumH eP [⟨7⟩] = .panic "envelope.rs:new_with_unchecked_assertions:assert" :=
  ⟨wf_eP, proofContainsSet_eP⟩

/-- **a proof is produced iff every target occurs in the envelope** -/
theorem proof_some_iff (e : Env) (T : List Digest) (hi : Inv h e) :
    (∃ p, proofContainsSet h e T = .ok (some p)) ↔ ∀ d ∈ T, d ∈ walkDigests e := by
  rw [proof_eq h e T hi, ← targets_subset_iff, ← all_memD_iff]
  by_cases hall : T.all (memD (revealSets T [] e)) = true <;> simp [hall]

example : Inv sumH e0 ∧ ∀ d ∈ T0, d ∈ walkDigests e0 := ⟨inv_e0, by decide +kernel⟩

/-- otherwise the answer is `None` -/
theorem proof_none_iff (e : Env) (T : List Digest) (hi : Inv h e) :
    proofContainsSet h e T = .ok none ↔ ∃ d ∈ T, d ∉ walkDigests e := by
  rw [proof_eq h e T hi]
  have := targets_subset_iff T e
  rw [← all_memD_iff] at this
  by_cases hall : T.all (memD (revealSets T [] e)) = true
  · simp only [hall, if_true, Res.ok.injEq, reduceCtorEq, false_iff, not_exists, not_and,
      Decidable.not_not]
    exact this.mp hall
  · simp only [hall, Bool.false_eq_true, if_false, true_iff]
    have hn := mt this.mpr hall
    simpa using hn

example : Inv sumH e0 ∧ ∃ d ∈ [(⟨2⟩ : Digest), ⟨9⟩], d ∉ walkDigests e0 :=
  ⟨inv_e0, ⟨9⟩, by simp, by decide +kernel⟩

/-- the "only if" half needs no hypothesis on the envelope -/
theorem proof_some_only_if (e : Env) (T : List Digest) (p : Env)
    (hp : proofContainsSet h e T = .ok (some p)) : ∀ d ∈ T, d ∈ walkDigests e := by
  rw [← targets_subset_iff, ← all_memD_iff]
  cases hall : T.all (memD (revealSets T [] e)) with
  | true => rfl
  | false => simp [proofContainsSet, hall] at hp

example : proofContainsSet sumH e0 T0 = .ok (some (proofOf T0 e0)) := proof_e0

/-- a produced proof is `proofOf T e`, and every target occurs in the envelope -/
theorem proof_ok_eq (e : Env) (T : List Digest) (p : Env) (hi : Inv h e)
    (hp : proofContainsSet h e T = .ok (some p)) :
    p = proofOf T e ∧ ∀ d ∈ T, d ∈ walkDigests e := by
  refine ⟨?_, proof_some_only_if h e T p hp⟩
  rw [proof_eq h e T hi] at hp
  by_cases hall : T.all (memD (revealSets T [] e)) = true
  · simp only [hall, if_true, Res.ok.injEq, Option.some.injEq] at hp
    exact hp.symm
  · simp [hall] at hp

/-- the sample: targets `2`, `1: 2` (which contains `2`) and `4` in `7 [1: 2, 1: 4]` -/
example : Inv sumH e0 ∧ proofContainsSet sumH e0 T0 = .ok (some (proofOf T0 e0)) :=
  ⟨inv_e0, proof_e0⟩

/-- its proof: the subject and the leaves are elided, the target `1: 2` stays revealed
because the target `2` lies beneath it -/
example : proofOf T0 e0 =
    .node (.elided ⟨7⟩) [.assertion (.elided ⟨1⟩) (.elided ⟨2⟩) ⟨3⟩,
      .assertion (.elided ⟨1⟩) (.elided ⟨4⟩) ⟨5⟩] ⟨15⟩ := by
  set_option maxRecDepth 100000 in rfl

/-- **a produced proof has the envelope's root digest** -/
theorem proof_digest (e : Env) (T : List Digest) (p : Env) (hi : Inv h e)
    (hp : proofContainsSet h e T = .ok (some p)) : p.digest = e.digest := by
  obtain ⟨rfl, _⟩ := proof_ok_eq h e T p hi hp
  exact proofOf_digest T e

example : Inv sumH e0 ∧ proofContainsSet sumH e0 T0 = .ok (some (proofOf T0 e0)) :=
  ⟨inv_e0, proof_e0⟩

/-- every target occurs in a produced proof -/
theorem proof_contains_targets (e : Env) (T : List Digest) (p : Env) (hi : Inv h e)
    (hp : proofContainsSet h e T = .ok (some p)) : ∀ d ∈ T, d ∈ walkDigests p := by
  obtain ⟨rfl, hall⟩ := proof_ok_eq h e T p hi hp
  intro d hd
  exact target_in_proof hd (hall d hd)

example : Inv sumH e0 ∧ proofContainsSet sumH e0 T0 = .ok (some (proofOf T0 e0)) :=
  ⟨inv_e0, proof_e0⟩

/-- **a produced proof is accepted**, for the same targets, by any verifier whose envelope
has the same root digest — for instance one who holds only the elided root -/
theorem proof_accepted (e : Env) (T : List Digest) (p : Env) (hi : Inv h e)
    (hp : proofContainsSet h e T = .ok (some p)) :
    ∀ e' : Env, e'.digest = e.digest → confirmContainsSet e' T p = true := by
  intro e' he'
  rw [confirm_iff]
  exact ⟨by rw [he', proof_digest h e T p hi hp], proof_contains_targets h e T p hi hp⟩

example : Inv sumH e0 ∧ proofContainsSet sumH e0 T0 = .ok (some (proofOf T0 e0)) ∧
    (Env.elided e0.digest).digest = e0.digest :=
  ⟨inv_e0, proof_e0, rfl⟩

/-! ### what a proof discloses -/

/-- **minimality, by positions — for every envelope satisfying the invariant and every
target set, with no hypothesis on the hash.**  Every position of the proof is a position of
the envelope with the same digest, and the proof shows it non-elided exactly when it lies
strictly above a target position.  Hence every element off the paths from the root to the
targets, and each target with no target beneath it, appears solely as an elided digest —
including elements that share their digest with an element on a path. -/
theorem proof_minimal (e : Env) (T : List Digest) (p : Env) (hi : Inv h e)
    (hp : proofContainsSet h e T = .ok (some p)) :
    ∀ pos x, p.at pos = some x →
      ∃ y, e.at pos = some y ∧ x.digest = y.digest ∧
        (x.isElided = false ↔ AboveTarget T e pos) := by
  obtain ⟨rfl, _⟩ := proof_ok_eq h e T p hi hp
  intro pos x hx
  obtain ⟨y, hy, rfl, _⟩ := proofOf_at_iff.mp hx
  refine ⟨y, hy, proofOf_digest T y, ?_⟩
  rw [proofOf_isElided, ← hasTargetBeneath_at_iff hy]
  cases hasTargetBeneath T y <;> simp

example : Inv sumH e0 ∧ proofContainsSet sumH e0 T0 = .ok (some (proofOf T0 e0)) :=
  ⟨inv_e0, proof_e0⟩

/-- every position that is not strictly above a target position — every position off the
paths, and every target position with no target beneath it — holds an elided digest -/
theorem proof_off_path_elided (e : Env) (T : List Digest) (p : Env) (hi : Inv h e)
    (hp : proofContainsSet h e T = .ok (some p)) :
    ∀ pos x, p.at pos = some x → ¬ AboveTarget T e pos → x.isElided = true := by
  intro pos x hx hna
  obtain ⟨y, _, _, hiff⟩ := proof_minimal h e T p hi hp pos x hx
  cases hel : x.isElided with
  | true => rfl
  | false => exact absurd (hiff.mp hel) hna

example : Inv sumH e0 ∧ proofContainsSet sumH e0 T0 = .ok (some (proofOf T0 e0)) :=
  ⟨inv_e0, proof_e0⟩

/-- conversely the paths are all there: every position of the envelope strictly above a
target position is a position of the proof, non-elided, with the envelope's digest; and
every target position is a position of the proof -/
theorem proof_shows_paths (e : Env) (T : List Digest) (p : Env) (hi : Inv h e)
    (hp : proofContainsSet h e T = .ok (some p)) :
    (∀ pos y, e.at pos = some y → AboveTarget T e pos →
      ∃ x, p.at pos = some x ∧ x.isElided = false ∧ x.digest = y.digest) ∧
    (∀ t, IsTargetPos T e t → ∃ x, p.at t = some x ∧ memD T x.digest = true) := by
  obtain ⟨rfl, _⟩ := proof_ok_eq h e T p hi hp
  constructor
  · intro pos y hy hab
    obtain ⟨t, hpt, hne, ht⟩ := hab
    have hopen : OpenAbove T e pos := by
      intro q z hq hqne hz
      exact openAbove_of_target ht q z (hq.trans hpt) (by
        intro heq; subst heq
        exact hqne (List.IsPrefix.eq_of_length hq (Nat.le_antisymm hq.length_le hpt.length_le))) hz
    refine ⟨proofOf T y, proofOf_at_iff.mpr ⟨y, hy, rfl, hopen⟩, ?_, proofOf_digest T y⟩
    rw [proofOf_isElided, (hasTargetBeneath_at_iff hy).mpr ⟨t, hpt, hne, ht⟩]; rfl
  · intro t ht
    exact target_pos_in_proof ht

example : Inv sumH e0 ∧ proofContainsSet sumH e0 T0 = .ok (some (proofOf T0 e0)) :=
  ⟨inv_e0, proof_e0⟩

/-- a proof carries no content at all: every element of it is an elided digest or the
shallow frame (node / wrapped / assertion) of an element on a path — never a leaf, a known
value, an encrypted or a compressed element -/
theorem proof_no_payload (e : Env) (T : List Digest) (p : Env) (hi : Inv h e)
    (hp : proofContainsSet h e T = .ok (some p)) :
    ∀ pos x, p.at pos = some x → x.isElided = true ∨ x.isInternal = true := by
  obtain ⟨rfl, _⟩ := proof_ok_eq h e T p hi hp
  intro pos x hx
  obtain ⟨y, _, rfl, _⟩ := proofOf_at_iff.mp hx
  exact proofOf_cases T y

example : Inv sumH e0 ∧ proofContainsSet sumH e0 T0 = .ok (some (proofOf T0 e0)) :=
  ⟨inv_e0, proof_e0⟩

/-- the shape of the repaired finding F5b (`COMPRESSED(digest 3) [1: 2]`, target `2`): the
compressed subject, which shares its digest with the assertion on the path, is elided -/
theorem proof_F5b_repaired :
    Inv sumH eB ∧
    proofContainsSet sumH eB TB =
      .ok (some (.node (.elided ⟨3⟩) [.assertion (.elided ⟨1⟩) (.elided ⟨2⟩) ⟨3⟩] eB.digest)) := by
  refine ⟨inv_eB, ?_⟩
  rw [proof_eq sumH eB TB inv_eB, all_eB, if_pos rfl, proof_eB]

end

end EnvVerif
