/-
  Props/C12.lean — C12: inclusion proofs.

  "For any envelope and any set of target digests, a proof is produced iff every target
  occurs in the envelope; a produced proof has the envelope's root digest and is accepted,
  for those targets, by a verifier who holds only the root digest. A verifier never accepts
  a proof whose root digest differs from its own or in which some target does not occur,
  and a proof discloses structure only along the paths from the root to the targets: every
  element off those paths, and each target itself, appears solely as an elided digest."

  The hash `h`, the AEAD `A` and the compressor `Z` are arbitrary throughout.  Positions
  are `Path`s (`Lemmas/Paths.lean`); `e.at p = some x` says that `x` is the element of `e`
  at position `p`.  `proofOf T e` (`Lemmas/ProofLemmas.lean`) is the proof envelope written
  as a pure function: prune everything outside the reveal set, then prune the targets that
  have no target beneath them.  `Inv h e` (every envelope the library produces satisfies
  it) is needed wherever the traversal rebuilds nodes: on an envelope that is only `WF` the
  rebuilding `assert!` can fire (`proof_panics_without_canon`).
-/
import EnvVerif.Lemmas.ProofLemmas
namespace EnvVerif
open Env C12Sample

/-! ### the verifier -/

/-- the early exit of `remove_all_found` does not change the result: `contains_all`
holds iff every target is the digest of a walked element -/
theorem containsAll_iff (p : Env) (T : List Digest) :
    containsAll p T = true ↔ ∀ d ∈ T, d ∈ walkDigests p :=
  containsAll_iff_walk p T

/-- the walked digests are the digests found at the positions of the envelope -/
theorem walkDigests_iff_at (e : Env) (d : Digest) :
    d ∈ walkDigests e ↔ ∃ p x, e.at p = some x ∧ x.digest = d :=
  mem_walkDigests_iff

/-- **soundness and completeness of the verifier**: a proof is accepted iff its root digest
is the verifier's and every target occurs in it -/
theorem confirm_iff (e : Env) (T : List Digest) (p : Env) :
    confirmContainsSet e T p = true ↔ e.digest = p.digest ∧ ∀ d ∈ T, d ∈ walkDigests p := by
  simp only [confirmContainsSet, Bool.and_eq_true, beq_iff_eq, containsAll_iff]

/-- a proof with another root digest is never accepted -/
theorem confirm_rejects_other_root (e : Env) (T : List Digest) (p : Env)
    (hd : e.digest ≠ p.digest) : confirmContainsSet e T p = false := by
  cases hc : confirmContainsSet e T p with
  | false => rfl
  | true => exact absurd ((confirm_iff e T p).mp hc).1 hd

example : ∃ e p : Env, e.digest ≠ p.digest := ⟨e0, a1, by rw [e0_digest, a1_digest]; decide⟩

/-- a proof in which some target does not occur is never accepted -/
theorem confirm_rejects_absent_target (e : Env) (T : List Digest) (p : Env) (d : Digest)
    (hd : d ∈ T) (hab : d ∉ walkDigests p) : confirmContainsSet e T p = false := by
  cases hc : confirmContainsSet e T p with
  | false => rfl
  | true => exact absurd (((confirm_iff e T p).mp hc).2 d hd) hab

example : ∃ (T : List Digest) (p : Env) (d : Digest), d ∈ T ∧ d ∉ walkDigests p :=
  ⟨[⟨9⟩], e0, ⟨9⟩, by simp, by decide +kernel⟩

/-! ### the reveal set and the interior set -/

/-- `reveal_sets`, first output: started with `cur` above the element, it yields `cur` and
the digests on the chain from the element down to a target position, both ends included —
provided the element has a target position at all -/
theorem revealSets_spec (T cur : List Digest) (e : Env) (d : Digest) :
    d ∈ revealSets T cur e ↔
      ∃ p x, e.at p = some x ∧ memD T x.digest = true ∧
        (d ∈ cur ∨ ∃ q y, q <+: p ∧ e.at q = some y ∧ y.digest = d) := by
  rw [revealSets_collect]
  simp [CollectSpec, OnPath]

/-- `reveal_sets`, second output (`interior`): the same with the target position itself
left out — the digests of the elements strictly above a target position -/
theorem interiorSets_spec (T cur : List Digest) (e : Env) (d : Digest) :
    d ∈ interiorSets T cur e ↔
      ∃ p x, e.at p = some x ∧ memD T x.digest = true ∧
        (d ∈ cur ∨ ∃ q y, q <+: p ∧ q ≠ p ∧ e.at q = some y ∧ y.digest = d) := by
  rw [interiorSets_collect]
  simp [CollectSpec, OnPath]

/-- the subset test of `proof_contains_set` succeeds iff every target occurs -/
theorem targets_subset_iff (T : List Digest) (e : Env) :
    (∀ d ∈ T, memD (revealSets T [] e) d = true) ↔ ∀ d ∈ T, d ∈ walkDigests e :=
  targets_subset_iff_walk T e

/-! ### the prover -/

section
variable (h : Hash) (A : Aead) (Z : Deflate)

/-- `proof_contains_set` in closed form; in particular it neither fails nor panics on an
envelope satisfying the invariant -/
theorem proof_eq (e : Env) (T : List Digest) (hi : Inv h e) :
    proofContainsSet h A Z e T =
      .ok (if T.all (memD (revealSets T [] e)) then some (proofOf T e) else none) := by
  rw [proofContainsSet_eq h A Z e T hi.1 (Canon.shape e hi.2)]
  split <;> rfl

example : Inv sumH e0 := inv_e0

theorem proof_no_fault (e : Env) (T : List Digest) (hi : Inv h e) :
    (∀ s, proofContainsSet h A Z e T ≠ .err s) ∧ (∀ s, proofContainsSet h A Z e T ≠ .panic s) := by
  rw [proof_eq h A Z e T hi]
  exact ⟨fun s hs => (by cases hs), fun s hs => (by cases hs)⟩

example : Inv sumH e0 := inv_e0

/-- `WF` alone does not exclude a panic: on a node with an empty assertion list (which the
library never builds) the `assert!` of `new_with_unchecked_assertions` fires -/
theorem proof_panics_without_canon :
    WF sumH eP ∧
    proofContainsSet sumH A Z eP [⟨7⟩] = .panic "envelope.rs:new_with_unchecked_assertions:assert" :=
  ⟨wf_eP, proofContainsSet_eP A Z⟩

/-- **a proof is produced iff every target occurs in the envelope** -/
theorem proof_some_iff (e : Env) (T : List Digest) (hi : Inv h e) :
    (∃ p, proofContainsSet h A Z e T = .ok (some p)) ↔ ∀ d ∈ T, d ∈ walkDigests e := by
  rw [proof_eq h A Z e T hi, ← targets_subset_iff, ← all_memD_iff]
  by_cases hall : T.all (memD (revealSets T [] e)) = true <;> simp [hall]

example : Inv sumH e0 ∧ ∀ d ∈ T0, d ∈ walkDigests e0 := ⟨inv_e0, by decide +kernel⟩

/-- otherwise the answer is `None` -/
theorem proof_none_iff (e : Env) (T : List Digest) (hi : Inv h e) :
    proofContainsSet h A Z e T = .ok none ↔ ∃ d ∈ T, d ∉ walkDigests e := by
  rw [proof_eq h A Z e T hi]
  have := targets_subset_iff T e
  rw [← all_memD_iff] at this
  by_cases hall : T.all (memD (revealSets T [] e)) = true
  · simp only [hall, if_true, Res.ok.injEq, reduceCtorEq, false_iff, not_exists, not_and,
      Decidable.not_not]
    exact this.mp hall
  · simp only [hall, Bool.false_eq_true, if_false, true_iff]
    have hn := mt this.mpr hall
    simpa using hn

example : Inv sumH e0 ∧ ∃ d ∈ [(⟨2⟩ : Digest), ⟨9⟩], d ∉ walkDigests e0 :=
  ⟨inv_e0, ⟨9⟩, by simp, by decide +kernel⟩

/-- the "only if" half needs no hypothesis on the envelope -/
theorem proof_some_only_if (e : Env) (T : List Digest) (p : Env)
    (hp : proofContainsSet h A Z e T = .ok (some p)) : ∀ d ∈ T, d ∈ walkDigests e := by
  rw [← targets_subset_iff, ← all_memD_iff]
  cases hall : T.all (memD (revealSets T [] e)) with
  | true => rfl
  | false => simp [proofContainsSet, hall] at hp

example : proofContainsSet sumH A Z e0 T0 = .ok (some (proofOf T0 e0)) := proof_e0 A Z

/-- a produced proof is `proofOf T e` -/
theorem proof_ok_eq (e : Env) (T : List Digest) (p : Env) (hi : Inv h e)
    (hp : proofContainsSet h A Z e T = .ok (some p)) :
    p = proofOf T e ∧ ∀ d ∈ T, d ∈ revealSets T [] e := by
  rw [proof_eq h A Z e T hi] at hp
  by_cases hall : T.all (memD (revealSets T [] e)) = true
  · simp only [hall, if_true, Res.ok.injEq, Option.some.injEq] at hp
    exact ⟨hp.symm, fun d hd => (memD_iff _ _).mp ((all_memD_iff _ _).mp hall d hd)⟩
  · simp [hall] at hp

/-- the sample: targets `2`, `1: 2` (which contains `2`) and `4` in `7 [1: 2, 1: 4]` -/
example : Inv sumH e0 ∧ proofContainsSet sumH A Z e0 T0 = .ok (some (proofOf T0 e0)) :=
  ⟨inv_e0, proof_e0 A Z⟩

/-- its proof: the subject and the leaves are elided, the target `1: 2` stays revealed
because the target `2` lies beneath it -/
example : proofOf T0 e0 =
    .node (.elided ⟨7⟩) [.assertion (.elided ⟨1⟩) (.elided ⟨2⟩) ⟨3⟩,
      .assertion (.elided ⟨1⟩) (.elided ⟨4⟩) ⟨5⟩] ⟨15⟩ := by
  set_option maxRecDepth 100000 in rfl

/-- **a produced proof has the envelope's root digest** -/
theorem proof_digest (e : Env) (T : List Digest) (p : Env) (hi : Inv h e)
    (hp : proofContainsSet h A Z e T = .ok (some p)) : p.digest = e.digest := by
  obtain ⟨rfl, _⟩ := proof_ok_eq h A Z e T p hi hp
  rw [proofOf, prune_digest, prune_digest]

example : Inv sumH e0 ∧ proofContainsSet sumH A Z e0 T0 = .ok (some (proofOf T0 e0)) :=
  ⟨inv_e0, proof_e0 A Z⟩

/-- every target occurs in a produced proof -/
theorem proof_contains_targets (e : Env) (T : List Digest) (p : Env) (hi : Inv h e)
    (hp : proofContainsSet h A Z e T = .ok (some p)) : ∀ d ∈ T, d ∈ walkDigests p := by
  obtain ⟨rfl, hall⟩ := proof_ok_eq h A Z e T p hi hp
  intro d hd
  exact target_in_proof hd (hall d hd)

example : Inv sumH e0 ∧ proofContainsSet sumH A Z e0 T0 = .ok (some (proofOf T0 e0)) :=
  ⟨inv_e0, proof_e0 A Z⟩

/-- **a produced proof is accepted**, for the same targets, by any verifier whose envelope
has the same root digest — for instance one who holds only the elided root -/
theorem proof_accepted (e : Env) (T : List Digest) (p : Env) (hi : Inv h e)
    (hp : proofContainsSet h A Z e T = .ok (some p)) :
    ∀ e' : Env, e'.digest = e.digest → confirmContainsSet e' T p = true := by
  intro e' he'
  rw [confirm_iff]
  exact ⟨by rw [he', proof_digest h A Z e T p hi hp], proof_contains_targets h A Z e T p hi hp⟩

example : Inv sumH e0 ∧ proofContainsSet sumH A Z e0 T0 = .ok (some (proofOf T0 e0)) ∧
    (Env.elided e0.digest).digest = e0.digest :=
  ⟨inv_e0, proof_e0 A Z, rfl⟩

/-! ### what a proof discloses -/

/-- **minimality, by digests** (no further hypothesis).  Every position of the proof is a
position of the envelope with the same digest; an element the proof shows non-elided has
the digest of an element strictly above a target position (it is in the interior set) and
was not elided in the envelope; an element whose digest is a target with no target
beneath it is shown elided. -/
theorem proof_minimal (e : Env) (T : List Digest) (p : Env) (hi : Inv h e)
    (hp : proofContainsSet h A Z e T = .ok (some p)) :
    ∀ pos x, p.at pos = some x →
      ∃ y, e.at pos = some y ∧ x.digest = y.digest ∧
        (x.isElided = false → y.isElided = false ∧
          ∃ t w q z, e.at t = some w ∧ memD T w.digest = true ∧ q <+: t ∧ q ≠ t ∧
            e.at q = some z ∧ z.digest = x.digest) ∧
        (x.digest ∈ T → x.digest ∉ interiorSets T [] e → x.isElided = true) := by
  obtain ⟨rfl, _⟩ := proof_ok_eq h A Z e T p hi hp
  intro pos x hx
  obtain ⟨y, hy, hxy, hd⟩ := proofOf_at_inv hx
  refine ⟨y, hy, hd, ?_, ?_⟩
  · intro hn
    obtain ⟨hint, hny⟩ := proofOf_not_elided hxy hn
    refine ⟨hny, ?_⟩
    obtain ⟨t, w, hw, hm, q, z, hq, hne, hz, hzd⟩ := mem_interior_iff.mp hint
    exact ⟨t, w, q, z, hw, hm, hq, hne, hz, hzd.trans hd.symm⟩
  · intro hT hnI
    cases hel : x.isElided with
    | true => rfl
    | false =>
      obtain ⟨hint, _⟩ := proofOf_not_elided hxy hel
      rw [hd] at hnI
      exact absurd hint hnI

example : Inv sumH e0 ∧ proofContainsSet sumH A Z e0 T0 = .ok (some (proofOf T0 e0)) :=
  ⟨inv_e0, proof_e0 A Z⟩

/-- **minimality, by positions**, under two decidable hypotheses: the envelope is
`DigestFaithful` (two non-obscured elements with the same digest have children with the
same digests — what a collision-free hash gives) and no elided, encrypted or compressed
element carries the digest of an element strictly above a target
(`NoObscuredInterior`).  Then every non-elided position of the proof lies strictly above
a target position: every position off the paths, and every target position with no
target beneath it, holds an elided digest. -/
theorem proof_minimal_partial (e : Env) (T : List Digest) (p : Env) (hi : Inv h e)
    (hF : DigestFaithful e) (hO : NoObscuredInterior T e)
    (hp : proofContainsSet h A Z e T = .ok (some p)) :
    ∀ pos x, p.at pos = some x → x.isElided = false → AboveTarget T e pos := by
  obtain ⟨rfl, _⟩ := proof_ok_eq h A Z e T p hi hp
  intro pos x hx hn
  exact proofOf_above_target hF hO hx hn

example : Inv sumH e0 ∧ DigestFaithful e0 ∧ NoObscuredInterior T0 e0 ∧
    proofContainsSet sumH A Z e0 T0 = .ok (some (proofOf T0 e0)) :=
  ⟨inv_e0, faithful_e0, noObscured_e0, proof_e0 A Z⟩

/-- in particular every position that is not strictly above a target position — every
position off the paths, and every target position with no target beneath it — holds an
elided digest -/
theorem proof_off_path_elided (e : Env) (T : List Digest) (p : Env) (hi : Inv h e)
    (hF : DigestFaithful e) (hO : NoObscuredInterior T e)
    (hp : proofContainsSet h A Z e T = .ok (some p)) :
    ∀ pos x, p.at pos = some x → ¬ AboveTarget T e pos → x.isElided = true := by
  intro pos x hx hna
  cases hel : x.isElided with
  | true => rfl
  | false => exact absurd (proof_minimal_partial h A Z e T p hi hF hO hp pos x hx hel) hna

example : Inv sumH e0 ∧ DigestFaithful e0 ∧ NoObscuredInterior T0 e0 ∧
    proofContainsSet sumH A Z e0 T0 = .ok (some (proofOf T0 e0)) :=
  ⟨inv_e0, faithful_e0, noObscured_e0, proof_e0 A Z⟩

/-- the same under the hypothesis in its coarser form: no obscured element carries a digest
of the reveal set -/
theorem proof_minimal_partial_reveal (e : Env) (T : List Digest) (p : Env) (hi : Inv h e)
    (hF : DigestFaithful e)
    (hO : ∀ x ∈ elements e, x.isObscured = true → memD (revealSets T [] e) x.digest = false)
    (hp : proofContainsSet h A Z e T = .ok (some p)) :
    ∀ pos x, p.at pos = some x → x.isElided = false → AboveTarget T e pos := by
  apply proof_minimal_partial h A Z e T p hi hF _ hp
  intro x hx ho
  have := hO x hx ho
  rw [memD_false_iff] at this ⊢
  exact fun hint => this (interior_sub_reveal hint)

example : Inv sumH e0 ∧ DigestFaithful e0 ∧
    (∀ x ∈ elements e0, x.isObscured = true → memD (revealSets T0 [] e0) x.digest = false) ∧
    proofContainsSet sumH A Z e0 T0 = .ok (some (proofOf T0 e0)) :=
  ⟨inv_e0, faithful_e0, by decide +kernel, proof_e0 A Z⟩

end

/-- minimality by positions without the hypothesis on obscured elements -/
def proof_minimal_full_statement : Prop :=
  ∀ (h : Hash) (A : Aead) (Z : Deflate) (e : Env) (T : List Digest) (p : Env),
    Inv h e → DigestFaithful e → proofContainsSet h A Z e T = .ok (some p) →
    ∀ pos x, p.at pos = some x → x.isElided = false → AboveTarget T e pos

/-- **finding F5b**: the full statement fails.  In `COMPRESSED(digest 3) [1: 2]` the
subject is a compressed element with the digest of the assertion `1: 2`; the proof for the
target `2` reveals the digest 3 (the assertion is on the path), so the first pass keeps
the subject as it is, and the second pass does not touch it: the proof carries the
compressed content although the subject is on no path to the target. -/
theorem proof_minimal_full_false : ¬ proof_minimal_full_statement := by
  intro hfull
  have hp : proofContainsSet sumH trivA trivZ eB TB = .ok (some (proofOf TB eB)) := by
    rw [proof_eq sumH trivA trivZ eB TB inv_eB, all_eB]; rfl
  exact not_above_eB
    (hfull sumH trivA trivZ eB TB _ inv_eB faithful_eB hp [.subj] _ proof_eB_subj rfl)

end EnvVerif
