/-
  Props/C05.lean — serialization round-trips exactly.

  "For every envelope, decoding its CBOR encoding yields an envelope that is identical to
  it - same case and digest at every position - and that re-encodes to the very same bytes;
  this holds for elided, encrypted, compressed, known-value, wrapped and nested-node
  elements and for every leaf CBOR type."

  Hypotheses.  `Inv h e` (Model/Inv.lean) and `EncShape e` (Lemmas/CodecLemmas.lean: the
  shape `bc-components` gives every encrypted / compressed element — 12-byte nonce, 16-byte
  tag, non-empty aad; u32 checksum, u64 size, data no longer than size).  `EncShape` is
  established by `encShape_encryptWithDigest` / `encShape_compressedOf` and by the decoder
  (`envOfCbor_inv` in C06).  At the byte level the only codec fact needed is the first dCBOR
  law, `DecEncLaw` (a valid tree decodes from its encoding); it is *proved* for the model
  codec (`Cbor.decEncLaw` in Lemmas/CodecLaws.lean), so no theorem here carries a codec
  hypothesis.  (The other half of `CodecLaws` is false for `dcbor` 0.17.1 and is not used
  here; see C06.)  `Encodable e` (leaves are valid dCBOR, counts fit in 64 bits) makes the
  tree `Cbor.Valid`.

  The decoded value is *equal* to the original as a term of `Env`; since `Env` carries the
  case, the cached digest and all children at every position, equality is "same case and
  digest at every position" (`decode_encode_identical` spells that out on `elements`).
-/
import EnvVerif.Lemmas.CodecLemmas
import EnvVerif.Lemmas.UrLemmas
namespace EnvVerif
open Env

section
variable (h : Hash)

/-! ### tree level (no codec law) -/

/-- C05 core: the case-directed decoder inverts the case-directed encoder. -/
theorem envOfCbor_cborOf (e : Env) (hi : Inv h e) (hs : EncShape e) :
    envOfCbor h (cborOf e) = .ok e :=
  envOfCbor_cborOf_aux h e hi.1 hi.2 hs

example : envOfCbor CodecEx.toyH (cborOf CodecEx.sample) = .ok CodecEx.sample :=
  envOfCbor_cborOf _ _ CodecEx.sample_inv CodecEx.sample_encShape

/- `EncShape` cannot be dropped: `Inv` (as defined in Model/Inv.lean) admits a compressed
element whose checksum is not a `u32`, and that one does not round-trip -/
example : Inv CodecEx.toyH (.compressed ⟨2 ^ 32, 0, []⟩ ⟨5⟩) ∧
    envOfCbor CodecEx.toyH (cborOf (.compressed ⟨2 ^ 32, 0, []⟩ ⟨5⟩)) = .err "dep:OutOfRange" := by
  refine ⟨⟨by simp [WF], by simp [Canon, Digest.Valid]⟩, ?_⟩
  simp only [cborOf, envOfCbor_tagged, compMsgCbor, decodeCompressed,
    digestOfCbor_digestCbor (d := ⟨5⟩) (by simp [Digest.Valid])]
  rfl

/-- the list form (the assertion elements of a node) -/
theorem envOfCborList_cborOfList (as : List Env) (hi : ∀ a ∈ as, Inv h a)
    (hs : ∀ a ∈ as, EncShape a) : envOfCborList h (cborOfList as) = .ok as :=
  envOfCborList_cborOfList_aux h as ((WFList_iff h as).mpr fun a ha => (hi a ha).1)
    ((CanonList_iff as).mpr fun a ha => (hi a ha).2) ((EncShapeList_iff as).mpr hs)

/-- `from_tagged_cbor (tagged_cbor e) = e` -/
theorem envOfTaggedCbor_taggedCborOf (e : Env) (hi : Inv h e) (hs : EncShape e) :
    envOfTaggedCbor h (taggedCborOf e) = .ok e := by
  simp only [taggedCborOf, envOfTaggedCbor, beq_self_eq_true, if_true]
  exact envOfCbor_cborOf h e hi hs

/-- every leaf CBOR value whatsoever round-trips (no hypothesis at the tree level) -/
theorem envOfCbor_cborOf_leaf (c : Cbor) : envOfCbor h (cborOf (newLeaf h c)) = .ok (newLeaf h c) :=
  envOfCbor_cborOf h _ ⟨by simp only [newLeaf, WF], by simp only [newLeaf, Canon]⟩
    (by simp only [newLeaf, EncShape])

/-- the tree encoder is injective on the envelopes the library produces -/
theorem cborOf_injective (e₁ e₂ : Env) (h₁ : Inv h e₁) (s₁ : EncShape e₁) (h₂ : Inv h e₂)
    (s₂ : EncShape e₂) (heq : cborOf e₁ = cborOf e₂) : e₁ = e₂ := by
  have r₁ := envOfCbor_cborOf h e₁ h₁ s₁
  have r₂ := envOfCbor_cborOf h e₂ h₂ s₂
  rw [heq, r₂] at r₁
  injection r₁ with r₁
  exact r₁.symm

/-! ### byte level -/

/-- the round trip, given that the tree is valid dCBOR -/
theorem decode_encode_of_valid (e : Env) (hi : Inv h e) (hs : EncShape e)
    (hv : (taggedCborOf e).Valid) : decode h (encode e) = .ok e := by
  simp only [decode, encode, Cbor.decEncLaw _ hv]
  exact envOfTaggedCbor_taggedCborOf h e hi hs

/-- C05: `from_tagged_cbor_data (to_cbor_data e) = e` -/
theorem decode_encode (e : Env) (hi : Inv h e) (hs : EncShape e)
    (he : Encodable e) : decode h (encode e) = .ok e :=
  decode_encode_of_valid h e hi hs (taggedCborOf_valid he hs)

/- the hypotheses on `e` are satisfiable by a non-trivial envelope (node, wrapped subject,
assertion with known-value predicate and text leaf object, elided, encrypted and compressed
elements) -/
example : Inv CodecEx.toyH CodecEx.sample ∧ EncShape CodecEx.sample ∧ Encodable CodecEx.sample :=
  ⟨CodecEx.sample_inv, CodecEx.sample_encShape, CodecEx.sample_encodable⟩

example : decode CodecEx.toyH (encode CodecEx.sample) = .ok CodecEx.sample :=
  decode_encode _ _ CodecEx.sample_inv CodecEx.sample_encShape CodecEx.sample_encodable

/-- identical: same element (case, digest, children) at every position of the structure
walk, same top digest -/
theorem decode_encode_identical (e e' : Env) (hi : Inv h e) (hs : EncShape e)
    (he : Encodable e) (hd : decode h (encode e) = .ok e') :
    e' = e ∧ elements e' = elements e ∧ e'.digest = e.digest := by
  rw [decode_encode h e hi hs he] at hd
  injection hd with hd
  subst hd
  exact ⟨rfl, rfl, rfl⟩

/-- the decoded value re-encodes to the very same bytes, and the second generation decodes
to the same envelope again -/
theorem decode_encode_second_generation (e e' : Env) (hi : Inv h e)
    (hs : EncShape e) (he : Encodable e) (hd : decode h (encode e) = .ok e') :
    encode e' = encode e ∧ decode h (encode e') = .ok e' := by
  obtain ⟨rfl, _, _⟩ := decode_encode_identical h e e' hi hs he hd
  exact ⟨rfl, hd⟩

/-- every valid dCBOR value round-trips as a leaf through the bytes -/
theorem decode_encode_leaf (c : Cbor) (hc : c.Valid) :
    decode h (encode (newLeaf h c)) = .ok (newLeaf h c) :=
  decode_encode h _ ⟨by simp only [newLeaf, WF], by simp only [newLeaf, Canon]⟩
    (by simp only [newLeaf, EncShape]) (by simpa only [newLeaf, Encodable] using hc)

/-- the byte encoder is injective on the envelopes the library produces -/
theorem encode_injective (e₁ e₂ : Env) (h₁ : Inv h e₁) (s₁ : EncShape e₁)
    (v₁ : Encodable e₁) (h₂ : Inv h e₂) (s₂ : EncShape e₂) (v₂ : Encodable e₂)
    (heq : encode e₁ = encode e₂) : e₁ = e₂ := by
  have r₁ := decode_encode h e₁ h₁ s₁ v₁
  have r₂ := decode_encode h e₂ h₂ s₂ v₂
  rw [heq, r₂] at r₁
  injection r₁ with r₁
  exact r₁.symm

/-! ### the UR text form ("or its UR string") -/

/-- C05, UR clause: `Envelope::from_ur_string (e.ur_string()) = e`, for every envelope the library
produces.  The bytewords table, the CRC-32 and the `ur:type/` framing are the concrete ones
(Model/Ur.lean); nothing is assumed about them. -/
theorem envOfUrString_urStringOf (e : Env) (hi : Inv h e) (hs : EncShape e) (he : Encodable e) :
    envOfUrString h (urStringOf e) = .ok e := by
  have hp := Ur.urParse_urString envelopeType (cborOf e).enc (by decide)
  simp only [envOfUrString, urStringOf, hp]
  have hne : (envelopeType != envelopeType) = false := by decide
  simp only [hne, Bool.false_eq_true, if_false, Cbor.decEncLaw _ (cborOf_valid e he hs)]
  exact envOfCbor_cborOf h e hi hs

example : envOfUrString CodecEx.toyH (urStringOf CodecEx.sample) = .ok CodecEx.sample :=
  envOfUrString_urStringOf _ _ CodecEx.sample_inv CodecEx.sample_encShape CodecEx.sample_encodable

/-- the upper-case form (`UR::qr_string`, what a QR code carries) reads back to the same envelope:
`from_ur_string` lower-cases its input first -/
theorem envOfUrString_upper (e : Env) (hi : Inv h e) (hs : EncShape e) (he : Encodable e) :
    envOfUrString h ((urStringOf e).map Ur.upperAscii) = .ok e := by
  simp only [envOfUrString, Ur.urParse_upper]
  exact envOfUrString_urStringOf h e hi hs he

/-- the UR string determines the envelope: two envelopes the library produces with the same UR
string are the same envelope -/
theorem urStringOf_injective (e₁ e₂ : Env) (h₁ : Inv h e₁) (s₁ : EncShape e₁) (c₁ : Encodable e₁)
    (h₂ : Inv h e₂) (s₂ : EncShape e₂) (c₂ : Encodable e₂) (heq : urStringOf e₁ = urStringOf e₂) :
    e₁ = e₂ := by
  have r₁ := envOfUrString_urStringOf h e₁ h₁ s₁ c₁
  have r₂ := envOfUrString_urStringOf h e₂ h₂ s₂ c₂
  rw [heq, r₂] at r₁
  injection r₁ with r₁
  exact r₁.symm

/-- a UR of another type is refused whatever it carries -/
theorem envOfUrString_wrong_type (ty : Ur.Text) (data : Bytes) (hty : ty.all Ur.isTypeChar = true)
    (hne : ty ≠ envelopeType) : envOfUrString h (Ur.urString ty data) = .err "dep:ur-type" := by
  have hp := Ur.urParse_urString ty data hty
  have : (ty != envelopeType) = true := by simpa using hne
  simp only [envOfUrString, hp, this, if_true]


/-- the UR reader accepts only the canonical text: whatever string `from_ur_string` turns into an envelope is, after
lower-casing, the very string `UR::string` writes for the type `envelope` and the bytes that were decoded -/
theorem ur_reader_accepts_only_canonical (s : Ur.Text) (e : Env) (hr : envOfUrString h s = .ok e) :
    ∃ data c, s.map Ur.lowerAscii = Ur.urString envelopeType data ∧ Cbor.dec data = .ok c ∧ envOfCbor h c = .ok e := by
  unfold envOfUrString at hr
  cases hp : Ur.urParse s with
  | none => simp [hp] at hr
  | some td =>
    obtain ⟨ty, data⟩ := td
    simp only [hp] at hr
    split at hr
    · simp at hr
    · rename_i hty
      have hty' : ty = envelopeType := by simpa using hty
      subst hty'
      cases hd : Cbor.dec data with
      | error x => simp [hd] at hr
      | ok c =>
        simp only [hd] at hr
        exact ⟨data, c, Ur.urString_of_urParse s _ data hp, hd, hr⟩

end
end EnvVerif
