import EnvVerif.Model.Proof
namespace EnvVerif
theorem c01_placeholder : True := trivial
end EnvVerif
