/-
  Props/C01.lean — C01: the digest tree matches the specification.
  Every constructor establishes `WF`, every operation preserves it (arguments assumed
  `WF`), every finite history therefore yields `WF` envelopes; a `WF`, canonical envelope
  reports the digest the specification defines, for itself and for each element; the cached
  digests are a function of the content (route independence).
  The hash `h` is arbitrary throughout; nothing is assumed about `Aead` / `Deflate`.
-/
import EnvVerif.Lemmas.InvLemmas
namespace EnvVerif
open Env InvL

section
variable (h : Hash) (A : Aead) (Z : Deflate)

/-! ### 1. constructors establish `WF` -/

theorem newLeaf_wf (c : Cbor) : WF h (newLeaf h c) := by simp [newLeaf]

theorem newKnownValue_wf (v : Nat) : WF h (newKnownValue h v) := by simp [newKnownValue]

theorem newAssertion_wf {p o : Env} (hp : WF h p) (ho : WF h o) : WF h (newAssertion h p o) := by
  simp [newAssertion, hp, ho]
example : WF toyHash (newAssertion toyHash sA1 sNode) := newAssertion_wf _ sA1_inv.1 sNode_inv.1

theorem newWrapped_wf {e : Env} (he : WF h e) : WF h (newWrapped h e) := by simp [newWrapped, he]
example : WF toyHash (newWrapped toyHash sNode) := newWrapped_wf _ sNode_inv.1

theorem newElided_wf (d : Digest) : WF h (newElided d) := by simp [newElided]

theorem mkNode_wf_of {s : Env} {as : List Env} (hs : WF h s) (has : ∀ a ∈ as, WF h a) :
    WF h (mkNode h s as) := (mkNode_wf h).2 ⟨hs, (WFList_iff h as).2 has⟩
example : WF toyHash (mkNode toyHash sSubj [sA1, sA2, sA3]) :=
  mkNode_wf_of _ sSubj_inv.1 (by simp [sA1_inv.1, sA2_inv.1, sA3_inv.1])

theorem newNodeUnchecked_wf {s r : Env} {as : List Env} (hs : WF h s) (has : ∀ a ∈ as, WF h a)
    (hr : newNodeUnchecked h s as = .ok r) : WF h r := by
  obtain ⟨_, rfl⟩ := (newNodeUnchecked_ok h).1 hr
  exact mkNode_wf_of h hs has
example : ∃ r, newNodeUnchecked toyHash sSubj [sA1, sA2] = .ok r ∧ WF toyHash r :=
  ⟨_, rfl, newNodeUnchecked_wf _ (as := [sA1, sA2]) sSubj_inv.1 (by simp [sA1_inv.1, sA2_inv.1]) rfl⟩

theorem newNode_wf {s r : Env} {as : List Env} (hs : WF h s) (has : ∀ a ∈ as, WF h a)
    (hr : newNode h s as = .ok r) : WF h r := by
  obtain ⟨_, _, rfl⟩ := (newNode_ok h).1 hr
  exact mkNode_wf_of h hs has
example : ∃ r, newNode toyHash sSubj [sA1, sA2] = .ok r ∧ WF toyHash r := by
  have hr := (newNode_ok toyHash (s := sSubj) (as := [sA1, sA2])).2
    ⟨by simp [sA_slotOk], by simp, rfl⟩
  exact ⟨_, hr, newNode_wf _ sSubj_inv.1 (by simp [sA1_inv.1, sA2_inv.1]) hr⟩

/-! ### 2. operations preserve `WF` -/

theorem addAssertionEnvelope_wf {e a r : Env} (he : WF h e) (ha : WF h a)
    (hr : addAssertionEnvelope h e a = .ok r) : WF h r := by
  unfold addAssertionEnvelope at hr
  split at hr
  · cases hr
  · split at hr
    · rename_i s as d
      split at hr
      · injection hr with hr; subst hr; exact he
      · obtain ⟨_, rfl⟩ := (newNodeUnchecked_ok h).1 hr
        simp only [WF_node] at he
        refine (mkNode_wf h).2 ⟨he.1, ?_⟩
        rw [WFList_iff] at *
        intro x hx
        rcases List.mem_append.1 hx with hx | hx
        · exact he.2.1 x hx
        · simp only [List.mem_singleton] at hx; subst hx; exact ha
    · obtain ⟨_, rfl⟩ := (newNodeUnchecked_ok h).1 hr
      exact (mkNode_wf h).2 ⟨wf_subject he, by simpa using ha⟩
example : ∃ r, addAssertionEnvelope toyHash sNode sA3 = .ok r ∧ WF toyHash r := by
  obtain ⟨r, hr⟩ := addAssertionEnvelope_isOk toyHash (e := sNode) sA_slotOk.2.2
  exact ⟨r, hr, addAssertionEnvelope_wf _ sNode_inv.1 sA3_inv.1 hr⟩

theorem removeAssertion_wf {e t r : Env} (he : WF h e) (hr : removeAssertion h e t = .ok r) :
    WF h r := by
  simp only [removeAssertion] at hr
  split at hr
  · rename_i i hi
    split at hr
    · injection hr with hr; subst hr; exact wf_subject he
    · obtain ⟨_, rfl⟩ := (newNodeUnchecked_ok h).1 hr
      refine (mkNode_wf h).2 ⟨wf_subject he, ?_⟩
      have := wf_assertions he
      rw [WFList_iff] at *
      exact fun x hx => this x (List.mem_of_mem_eraseIdx hx)
  · injection hr with hr; subst hr; exact he
example : ∃ r, removeAssertion toyHash sNode sA1 = .ok r ∧ WF toyHash r := by
  obtain ⟨r, hr⟩ := removeAssertion_isOk toyHash sNode sA1
  exact ⟨r, hr, removeAssertion_wf _ sNode_inv.1 hr⟩

theorem replaceAssertion_wf {e a b r : Env} (he : WF h e) (hb : WF h b)
    (hr : replaceAssertion h e a b = .ok r) : WF h r := by
  obtain ⟨e', h1, h2⟩ := res_bind_eq_ok.1 hr
  exact addAssertionEnvelope_wf h (removeAssertion_wf h he h1) hb h2
example : ∃ r, replaceAssertion toyHash sNode sA1 sA3 = .ok r ∧ WF toyHash r := by
  obtain ⟨r, hr⟩ := replaceAssertion_isOk toyHash sNode sA1 sA_slotOk.2.2
  exact ⟨r, hr, replaceAssertion_wf _ sNode_inv.1 sA3_inv.1 hr⟩

theorem addAll_wf {e r : Env} {as : List Env} (he : WF h e) (has : ∀ a ∈ as, WF h a)
    (hr : addAll h e as = .ok r) : WF h r :=
  foldl_bind_inv (P := WF h) (Q := WF h) (fun x a => addAssertionEnvelope h x a)
    (fun _ _ _ hx ha hs => addAssertionEnvelope_wf h hx ha hs) as (.ok e) r
    (fun x hx => by injection hx with hx; subst hx; exact he) has hr
example : ∃ r, addAll toyHash sNode [sA3, sA1] = .ok r ∧ WF toyHash r := by
  obtain ⟨r, hr⟩ := addAll_isOk toyHash [sA3, sA1] sNode (by simp [sA_slotOk])
  exact ⟨r, hr, addAll_wf _ sNode_inv.1 (by simp [sA3_inv.1, sA1_inv.1]) hr⟩

theorem replaceSubject_wf {e s r : Env} (he : WF h e) (hs : WF h s)
    (hr : replaceSubject h e s = .ok r) : WF h r := by
  refine foldl_bind_inv (P := WF h) (Q := WF h)
    (fun x a => match addAssertionEnvelope h x a with
      | .ok y => .ok y
      | .err _ => .panic "assertions.rs:replace_subject:unwrap"
      | .panic p => .panic p)
    ?_ e.assertions (.ok s) r (fun x hx => by injection hx with hx; subst hx; exact hs)
    ((WFList_iff h _).1 (wf_assertions he)) hr
  intro x a r hx ha hstep
  split at hstep
  · rename_i y hy; injection hstep with hstep; subst hstep
    exact addAssertionEnvelope_wf h hx ha hy
  · cases hstep
  · cases hstep
example : ∃ r, replaceSubject toyHash sNode sA3 = .ok r ∧ WF toyHash r := by
  obtain ⟨r, hr⟩ := replaceSubject_isOk toyHash (e := sNode) sA3
    (by simp [sNode, Env.assertions, sA_slotOk])
  exact ⟨r, hr, replaceSubject_wf _ sNode_inv.1 sA3_inv.1 hr⟩

theorem wrap_wf {e : Env} (he : WF h e) : WF h (wrap h e) := newWrapped_wf h he
example : WF toyHash (wrap toyHash sNode) := wrap_wf _ sNode_inv.1

theorem unwrap_wf {e r : Env} (he : WF h e) (hr : unwrap e = .ok r) : WF h r := by
  unfold unwrap at hr
  have hs := wf_subject he
  split at hr
  · rename_i inner d heq
    injection hr with hr; subst hr
    rw [heq] at hs; exact ((WF_wrapped h _ _).1 hs).1
  · cases hr
example : ∃ r, unwrap (wrap toyHash sNode) = .ok r ∧ WF toyHash r :=
  ⟨sNode, rfl, unwrap_wf _ (wrap_wf _ sNode_inv.1) rfl⟩

theorem subject_wf {e : Env} (he : WF h e) : WF h e.subject := wf_subject he
example : WF toyHash sNode.subject := subject_wf _ sNode_inv.1

theorem elide_wf (e : Env) : WF h (elide e) := by
  unfold elide; split <;> simp [newElided]

mutual
theorem elideSet_wf (T : Digest → Bool) (rev : Bool) (act : Action) :
    (e r : Env) → WF h e → elideSet h A Z T rev act e = .ok r → WF h r
  | .assertion p o d, r, hw, hr => by
    simp only [elideSet] at hr
    split at hr
    · exact obscure_wf h A Z hw hr
    · split at hr
      · rename_i p' hp'
        split at hr
        · rename_i o' ho'
          split at hr
          · injection hr with hr; subst hr
            simp only [WF_assertion] at hw
            simp [newAssertion, elideSet_wf T rev act p p' hw.1 hp', elideSet_wf T rev act o o' hw.2.1 ho']
          · cases hr
        · cases hr
        · cases hr
      · cases hr
      · cases hr
  | .node s as d, r, hw, hr => by
    simp only [elideSet] at hr
    split at hr
    · exact obscure_wf h A Z hw hr
    · split at hr
      · rename_i s' hs'
        split at hr
        · cases hr
        · split at hr
          · rename_i as' has'
            simp only [WF_node] at hw
            obtain ⟨_, rfl⟩ := (newNodeUnchecked_ok h).1 hr
            exact (mkNode_wf h).2 ⟨elideSet_wf T rev act s s' hw.1 hs',
              elideSetList_wf T rev act as as' hw.2.1 has'⟩
          · cases hr
          · cases hr
      · cases hr
      · cases hr
  | .wrapped e d, r, hw, hr => by
    simp only [elideSet] at hr
    split at hr
    · exact obscure_wf h A Z hw hr
    · split at hr
      · rename_i e' he'
        split at hr
        · cases hr
        · injection hr with hr; subst hr
          simp only [WF_wrapped] at hw
          simp [newWrapped, elideSet_wf T rev act e e' hw.1 he']
      · cases hr
      · cases hr
  | .leaf c d, r, hw, hr => by simp only [elideSet] at hr; exact elideSet_wf_atom h A Z hw hr
  | .elided d, r, hw, hr => by simp only [elideSet] at hr; exact elideSet_wf_atom h A Z hw hr
  | .knownValue v d, r, hw, hr => by simp only [elideSet] at hr; exact elideSet_wf_atom h A Z hw hr
  | .encrypted m d, r, hw, hr => by simp only [elideSet] at hr; exact elideSet_wf_atom h A Z hw hr
  | .compressed c d, r, hw, hr => by simp only [elideSet] at hr; exact elideSet_wf_atom h A Z hw hr
theorem elideSetList_wf (T : Digest → Bool) (rev : Bool) (act : Action) :
    (as rs : List Env) → WFList h as → elideSetList h A Z T rev act as = .ok rs → WFList h rs
  | [], rs, _, hr => by simp only [elideSetList] at hr; injection hr with hr; subst hr; simp
  | a :: as, rs, hw, hr => by
    simp only [elideSetList] at hr
    split at hr
    · rename_i a' ha'
      split at hr
      · cases hr
      · split at hr
        · rename_i as' has'
          injection hr with hr; subst hr
          simp only [WFList_cons] at hw ⊢
          exact ⟨elideSet_wf T rev act a a' hw.1 ha', elideSetList_wf T rev act as as' hw.2 has'⟩
        · cases hr
        · cases hr
    · cases hr
    · cases hr
end
example : ∃ r, elideSet toyHash idAead idDeflate sTarget false .elide sNode = .ok r ∧ WF toyHash r := by
  obtain ⟨r, hr⟩ := sElideSet_ok.1
  exact ⟨r, hr, elideSet_wf _ _ _ _ _ _ _ _ sNode_inv.1 hr⟩
example : ∃ r, elideSet toyHash idAead idDeflate sTarget false .compress sNode = .ok r ∧ WF toyHash r := by
  obtain ⟨r, hr⟩ := sElideSet_ok.2.1
  exact ⟨r, hr, elideSet_wf _ _ _ _ _ _ _ _ sNode_inv.1 hr⟩
example : ∃ r, elideSet toyHash idAead idDeflate sTarget false sEncAct sNode = .ok r ∧ WF toyHash r := by
  obtain ⟨r, hr⟩ := sElideSet_ok.2.2.1
  exact ⟨r, hr, elideSet_wf _ _ _ _ _ _ _ _ sNode_inv.1 hr⟩
example : ∃ r, elideSet toyHash idAead idDeflate sTarget true .elide sNode = .ok r ∧ WF toyHash r := by
  obtain ⟨r, hr⟩ := sElideSet_ok.2.2.2
  exact ⟨r, hr, elideSet_wf _ _ _ _ _ _ _ _ sNode_inv.1 hr⟩

theorem compress_wf {e r : Env} (hr : compress Z e = .ok r) : WF h r := by
  obtain ⟨c, rfl⟩ := compress_ok Z hr; simp
example : ∃ r, compress idDeflate sNode = .ok r ∧ WF toyHash r :=
  ⟨_, rfl, compress_wf _ _ (e := sNode) rfl⟩

theorem compressSubject_wf {e r : Env} (he : WF h e) (hr : compressSubject h Z e = .ok r) :
    WF h r := by
  unfold compressSubject at hr
  split at hr
  · injection hr with hr; subst hr; exact he
  · obtain ⟨s, h1, h2⟩ := res_bind_eq_ok.1 hr
    exact replaceSubject_wf h he (compress_wf h Z h1) h2
example : ∃ r, compressSubject toyHash idDeflate sNode = .ok r ∧ WF toyHash r := by
  obtain ⟨r, hr⟩ := replaceSubject_isOk toyHash (e := sNode)
    (.compressed (compressedOf idDeflate (encode sSubj)) sSubj.digest)
    (by simp [sNode, Env.assertions, sA_slotOk])
  have hr' : compressSubject toyHash idDeflate sNode = .ok r := hr
  exact ⟨r, hr', compressSubject_wf _ _ sNode_inv.1 hr'⟩

theorem encryptSubject_wf {key nonce : Bytes} {e r : Env} (he : WF h e)
    (hr : encryptSubject h A key nonce e = .ok r) : WF h r := by
  unfold encryptSubject at hr
  split at hr
  · rename_i s as d
    simp only [WF_node] at he
    split at hr
    · cases hr
    · split at hr
      · rename_i es hes
        obtain ⟨d', rfl, hd'⟩ := newEncryptedUnwrap_ok hes
        split at hr
        · rename_i r' hr'
          dsimp only at hr
          split at hr
          · injection hr with hr; subst hr
            exact newNodeUnchecked_wf h (by simpa using hd') ((WFList_iff h as).1 he.2.1) hr'
          · cases hr
        · cases hr
        · cases hr
      · cases hr
      · cases hr
  · cases hr
  · cases hr
  · split at hr
    · rename_i r' hr'
      obtain ⟨d', rfl, hd'⟩ := newEncryptedUnwrap_ok hr'
      dsimp only at hr
      split at hr
      · injection hr with hr; subst hr; simpa using hd'
      · cases hr
    · cases hr
    · cases hr
example : ∃ r, encryptSubject toyHash idAead [1] [2] sNode = .ok r ∧ WF toyHash r := by
  obtain ⟨r, hr⟩ := sEncryptSubject_ok
  exact ⟨r, hr, encryptSubject_wf _ _ sNode_inv.1 hr⟩

theorem encryptWhole_wf {key nonce : Bytes} {e r : Env} (he : WF h e)
    (hr : encryptWhole h A key nonce e = .ok r) : WF h r := by
  unfold encryptWhole at hr
  split at hr
  · rename_i r' hr'; injection hr with hr; subst hr
    exact encryptSubject_wf h A (wrap_wf h he) hr'
  · cases hr
  · cases hr
example : ∃ r, encryptWhole toyHash idAead [1] [2] sNode = .ok r ∧ WF toyHash r := by
  obtain ⟨r, hr⟩ := sEncryptWhole_ok
  exact ⟨r, hr, encryptWhole_wf _ _ sNode_inv.1 hr⟩

theorem unelide_wf {p e r : Env} (he : WF h e) (hr : unelide p e = .ok r) : WF h r := by
  unfold unelide at hr
  split at hr
  · injection hr with hr; subst hr; exact he
  · cases hr
example : ∃ r, unelide (elide sNode) sNode = .ok r ∧ WF toyHash r := by
  have hd : (elide sNode).digest = sNode.digest := rfl
  have hr : unelide (elide sNode) sNode = .ok sNode := by simp [unelide, hd]
  exact ⟨sNode, hr, unelide_wf _ sNode_inv.1 hr⟩

/-! ### 2b. operations that decode bytes return `WF` envelopes -/

/-- whatever `decodeEncrypted` accepts is an encrypted element whose declared digest is the
one its `aad` decodes to -/
theorem decodeEncrypted_wf {item : Cbor} {e : Env} (he : decodeEncrypted item = .ok e) : WF h e := by
  unfold decodeEncrypted at he
  repeat' first | split at he | dsimp only at he
  all_goals first
    | (injection he with he; subst he; simpa using ‹_ = some _›)
    | cases he
example : ∃ e, decodeEncrypted (encMsgCbor sMsg) = .ok e ∧ WF toyHash e := by
  obtain ⟨e, he⟩ := sDecodeParts_ok.1
  exact ⟨e, he, decodeEncrypted_wf _ he⟩

theorem decodeCompressed_wf {item : Cbor} {e : Env} (he : decodeCompressed item = .ok e) : WF h e := by
  unfold decodeCompressed at he
  repeat' split at he
  all_goals first
    | (injection he with he; subst he; simp)
    | cases he
example : ∃ e, decodeCompressed (compMsgCbor (compressedOf idDeflate (encode sA3)) sA3.digest) = .ok e ∧
    WF toyHash e := by
  obtain ⟨e, he⟩ := sDecodeParts_ok.2.1
  exact ⟨e, he, decodeCompressed_wf _ he⟩

mutual
theorem envOfCbor_wf : (c : Cbor) → (e : Env) → envOfCbor h c = .ok e → WF h e
  | .tagged t item, e, he => by
    simp only [envOfCbor] at he
    split at he
    · injection he with he; subst he; simp [newLeaf]
    · split at he
      · split at he
        · rename_i x hx
          injection he with he; subst he
          simp [newWrapped, envOfCbor_wf item x hx]
        · cases he
        · cases he
      · split at he
        · exact decodeEncrypted_wf h he
        · split at he
          · exact decodeCompressed_wf h he
          · cases he
  | .bytes b, e, he => by
    simp only [envOfCbor] at he
    split at he
    · injection he with he; subst he; simp [newElided]
    · cases he
  | .array [], e, he => by simp [envOfCbor] at he
  | .array [_], e, he => by simp [envOfCbor] at he
  | .array (x :: y :: rest), e, he => by
    simp only [envOfCbor] at he
    split at he
    · rename_i s hs
      split at he
      · rename_i as has
        have hs' := envOfCbor_wf x s hs
        have has' := (WFList_iff h as).1 (envOfCborList_wf (y :: rest) as has)
        -- any further guard in front of `newNode` is split away here
        repeat' split at he
        all_goals first
          | (obtain ⟨_, _, rfl⟩ := (newNode_ok h).1 he
             exact (mkNode_wf h).2 ⟨hs', (WFList_iff h as).2 has'⟩)
          | cases he
      · cases he
      · cases he
    · cases he
    · cases he
  | .map [(k, v)], e, he => by
    simp only [envOfCbor] at he
    split at he
    · rename_i p hp
      split at he
      · rename_i o ho
        injection he with he; subst he
        simp [newAssertion, envOfCbor_wf k p hp, envOfCbor_wf v o ho]
      · cases he
      · cases he
    · cases he
    · cases he
  | .map [], e, he => by simp [envOfCbor] at he
  | .map (_ :: _ :: _), e, he => by simp [envOfCbor] at he
  | .uint v, e, he => by
    simp only [envOfCbor] at he
    injection he with he; subst he; simp [newKnownValue]
  | .nint _, e, he => by simp [envOfCbor] at he
  | .text _, e, he => by simp [envOfCbor] at he
  | .simple _, e, he => by simp [envOfCbor] at he
  | .float _, e, he => by simp [envOfCbor] at he
theorem envOfCborList_wf : (cs : List Cbor) → (es : List Env) → envOfCborList h cs = .ok es → WFList h es
  | [], es, he => by simp only [envOfCborList] at he; injection he with he; subst he; simp
  | c :: cs, es, he => by
    simp only [envOfCborList] at he
    split at he
    · rename_i x hx
      split at he
      · rename_i xs hxs
        injection he with he; subst he
        simp [envOfCbor_wf c x hx, envOfCborList_wf cs xs hxs]
      · cases he
      · cases he
    · cases he
    · cases he
end
example : ∃ e, envOfCbor toyHash (cborOf sA3) = .ok e ∧ WF toyHash e := by
  obtain ⟨e, he⟩ := sDecodeParts_ok.2.2.1
  exact ⟨e, he, envOfCbor_wf _ _ _ he⟩

theorem envOfTaggedCbor_wf {c : Cbor} {e : Env} (he : envOfTaggedCbor h c = .ok e) : WF h e := by
  unfold envOfTaggedCbor at he
  repeat' split at he
  all_goals first
    | exact envOfCbor_wf h _ _ he
    | cases he
example : ∃ e, envOfTaggedCbor toyHash (taggedCborOf sA3) = .ok e ∧ WF toyHash e := by
  obtain ⟨e, he⟩ := sDecodeParts_ok.2.2.2
  exact ⟨e, he, envOfTaggedCbor_wf _ he⟩

theorem decode_wf {b : Bytes} {e : Env} (he : decode h b = .ok e) : WF h e := by
  unfold decode at he
  split at he
  · exact envOfTaggedCbor_wf h he
  · cases he
example : ∃ r, decode toyHash (encode sA3) = .ok r ∧ WF toyHash r := by
  obtain ⟨r, hr⟩ := sDecode_ok
  exact ⟨r, hr, decode_wf _ hr⟩

theorem uncompress_wf {e r : Env} (hr : uncompress h Z e = .ok r) : WF h r := by
  unfold uncompress at hr
  split at hr
  · split at hr
    · cases hr
    · split at hr
      · rename_i x hx
        split at hr
        · cases hr
        · injection hr with hr; subst hr; exact decode_wf h hx
      · cases hr
      · cases hr
  · cases hr
example : ∃ r, uncompress toyHash idDeflate sComp = .ok r ∧ WF toyHash r := by
  obtain ⟨r, hr⟩ := sUncompress_ok
  exact ⟨r, hr, uncompress_wf _ _ hr⟩

theorem uncompressSubject_wf {e r : Env} (he : WF h e) (hr : uncompressSubject h Z e = .ok r) :
    WF h r := by
  unfold uncompressSubject at hr
  split at hr
  · obtain ⟨s, h1, h2⟩ := res_bind_eq_ok.1 hr
    have hs := uncompress_wf h Z h1
    split at h2
    · exact newNodeUnchecked_wf h hs ((WFList_iff h _).1 ((WF_node h _ _ _).1 he).2.1) h2
    · injection h2 with h2; subst h2; exact hs
  · injection hr with hr; subst hr; exact he
example : ∃ r, uncompressSubject toyHash idDeflate sNodeC = .ok r ∧ WF toyHash r := by
  obtain ⟨r, hr⟩ := sUncompressSubject_ok
  exact ⟨r, hr, uncompressSubject_wf _ _ sNodeC_inv.1 hr⟩

theorem decryptSubject_wf {key : Bytes} {e r : Env} (he : WF h e)
    (hr : decryptSubject h A key e = .ok r) : WF h r := by
  unfold decryptSubject at hr
  split at hr
  · split at hr
    · cases hr
    · split at hr
      · cases hr
      · split at hr
        · rename_i rs hrs
          have hrs' := decode_wf h hrs
          split at hr
          · cases hr
          · split at hr
            · simp only [WF_node] at he
              split at hr
              · rename_i r' hr'
                split at hr
                · cases hr
                · injection hr with hr; subst hr
                  exact newNodeUnchecked_wf h hrs' ((WFList_iff h _).1 he.2.1) hr'
              · cases hr
              · cases hr
            · injection hr with hr; subst hr; exact hrs'
        · cases hr
        · cases hr
  · cases hr
example : ∃ r, decryptSubject toyHash idAead [1] sEnc = .ok r ∧ WF toyHash r := by
  obtain ⟨r, hr⟩ := sDecryptSubject_ok
  exact ⟨r, hr, decryptSubject_wf _ _ sEnc_inv.1 hr⟩

theorem decryptWhole_wf {key : Bytes} {e r : Env} (he : WF h e)
    (hr : decryptWhole h A key e = .ok r) : WF h r := by
  obtain ⟨x, h1, h2⟩ := res_bind_eq_ok.1 hr
  exact unwrap_wf h (decryptSubject_wf h A he h1) h2
example : ∃ r, decryptWhole toyHash idAead [1] sEncW = .ok r ∧ WF toyHash r := by
  obtain ⟨r, hr⟩ := sDecryptWhole_ok
  exact ⟨r, hr, decryptWhole_wf _ _ sEncW_inv.1 hr⟩

/-! ### 3. histories -/

/-- one step: every operation of `Op`, decoding ones included, preserves `WF` -/
theorem applyOp_wf {o : Op} {e r : Env} (he : WF h e) (ha : ∀ a ∈ o.args, WF h a)
    (hr : applyOp h A Z o e = .ok r) : WF h r := by
  cases o <;> simp only [applyOp] at hr <;> simp only [Op.args] at ha
  case addAssertion a => exact addAssertionEnvelope_wf h he (ha a (by simp)) hr
  case removeAssertion t => exact removeAssertion_wf h he hr
  case replaceAssertion a b => exact replaceAssertion_wf h he (ha b (by simp)) hr
  case replaceSubject s => exact replaceSubject_wf h he (ha s (by simp)) hr
  case addAll as => exact addAll_wf h he ha hr
  case assertionWithObject o =>
    injection hr with hr; subst hr; exact newAssertion_wf h he (ha o (by simp))
  case assertionWithPredicate p =>
    injection hr with hr; subst hr; exact newAssertion_wf h (ha p (by simp)) he
  case wrap => injection hr with hr; subst hr; exact wrap_wf h he
  case unwrap => exact unwrap_wf h he hr
  case subject => injection hr with hr; subst hr; exact subject_wf h he
  case elide => injection hr with hr; subst hr; exact elide_wf h e
  case elideSet T rev act => exact elideSet_wf h A Z T rev act e r he hr
  case compress => exact compress_wf h Z hr
  case compressSubject => exact compressSubject_wf h Z he hr
  case encryptSubject key nonce => exact encryptSubject_wf h A he hr
  case encryptWhole key nonce => exact encryptWhole_wf h A he hr
  case unelide o => exact unelide_wf h (ha o (by simp)) hr
  case decodeBytes b => exact decode_wf h hr
  case reencode => exact decode_wf h hr
  case uncompress => exact uncompress_wf h Z hr
  case uncompressSubject => exact uncompressSubject_wf h Z he hr
  case decryptSubject key => exact decryptSubject_wf h A he hr
  case decryptWhole key => exact decryptWhole_wf h A he hr
example : ∃ r, applyOp toyHash idAead idDeflate (.addAssertion sA3) sNode = .ok r ∧ WF toyHash r := by
  obtain ⟨r, hr⟩ := addAssertionEnvelope_isOk toyHash (e := sNode) sA_slotOk.2.2
  exact ⟨r, hr, applyOp_wf toyHash idAead idDeflate (o := .addAssertion sA3) sNode_inv.1
    (by simp [Op.args, sA3_inv.1]) hr⟩

/-- every envelope returned at any step of any finite history is `WF` -/
theorem history_wf (ops : List Op) : ∀ (e0 : Env), WF h e0 → (∀ o ∈ ops, ∀ a ∈ o.args, WF h a) →
    ∀ r, Res.ok r ∈ runHistory h A Z e0 ops → WF h r := by
  induction ops with
  | nil => intro e0 _ _ r hr; simp [runHistory] at hr
  | cons o os ih =>
    intro e0 he ha r hr
    simp only [runHistory] at hr
    split at hr
    · rename_i r1 hr1
      have h1 := applyOp_wf h A Z he (ha o (by simp)) hr1
      rcases List.mem_cons.1 hr with heq | hmem
      · injection heq with heq; subst heq; exact h1
      · exact ih r1 h1 (fun o' ho' => ha o' (by simp [ho'])) r hmem
    · rename_i x hx
      simp only [List.mem_singleton] at hr
      exact absurd hr.symm (hx r)
/-- a history whose hypotheses hold and which does produce results (decoding steps included) -/
example :
    (∀ r, Res.ok r ∈ runHistory toyHash idAead idDeflate sNode
        [.wrap, .compress, .uncompress, .unwrap, .addAssertion sA3, .removeAssertion sA1, .elide] →
      WF toyHash r) ∧
    Res.ok (wrap toyHash sNode) ∈ runHistory toyHash idAead idDeflate sNode
        [.wrap, .compress, .uncompress, .unwrap, .addAssertion sA3, .removeAssertion sA1, .elide] :=
  ⟨history_wf _ _ _ _ sNode sNode_inv.1 (by simp [Op.args, sA3_inv.1, sA1_inv.1]),
   by simp [runHistory, applyOp]⟩

/-- everything built from constructors and operations, arguments built the same way
(the histories form a DAG, not a list), is `WF` -/
theorem produced_wf {dec : Bool} {e : Env} (hp : Produced h A Z dec e) : WF h e := by
  induction hp with
  | leaf c => exact newLeaf_wf h c
  | knownValue v => exact newKnownValue_wf h v
  | elided d _ => exact newElided_wf h d
  | op o e r _ _ _ hr ihe iha => exact applyOp_wf h A Z ihe iha hr
example : Produced toyHash idAead idDeflate false sA1 :=
  .op (.assertionWithObject (newLeaf toyHash (.uint 10))) (newKnownValue toyHash 1) sA1 (.knownValue 1)
    (by intro a ha; simp only [Op.args, List.mem_singleton] at ha; subst ha; exact .leaf _)
    (fun _ => rfl) rfl

/-! ### 4. the reported digest is the specification's digest -/

mutual
theorem digest_eq_spec_aux : (e : Env) → WF h e → Canon e → e.digest = specDigest h e
  | .node s as d, hw, hc => by
    simp only [WF_node] at hw
    simp only [Canon_node] at hc
    simp only [Env.digest, specDigest]
    rw [hw.2.2, ← digest_eq_spec_aux s hw.1 hc.1, ← digests_eq_specList_aux as hw.2.1 hc.2.1]
    rw [List.mergeSort_of_pairwise]
    rw [List.pairwise_map]
    exact hc.2.2.2.1.imp (fun {a b} hab => by simp only [decide_eq_true_eq]; omega)
  | .leaf c d, hw, _ => by simpa [specDigest, Env.digest] using hw
  | .wrapped e d, hw, hc => by
    simp only [WF_wrapped] at hw
    simp only [Canon_wrapped] at hc
    simp only [Env.digest, specDigest]
    rw [hw.2, digest_eq_spec_aux e hw.1 hc]
  | .assertion p o d, hw, hc => by
    simp only [WF_assertion] at hw
    simp only [Canon_assertion] at hc
    simp only [Env.digest, specDigest]
    rw [hw.2.2, digest_eq_spec_aux p hw.1 hc.1, digest_eq_spec_aux o hw.2.1 hc.2]
  | .elided d, _, _ => by simp [specDigest, Env.digest]
  | .knownValue v d, hw, _ => by simpa [specDigest, Env.digest] using hw
  | .encrypted m d, hw, _ => by
    simp only [WF_encrypted] at hw
    simp [specDigest, Env.digest, hw]
  | .compressed c d, _, _ => by simp [specDigest, Env.digest]
theorem digests_eq_specList_aux : (as : List Env) → WFList h as → CanonList as →
    as.map Env.digest = specDigestList h as
  | [], _, _ => by simp [specDigestList]
  | a :: as, hw, hc => by
    simp only [WFList_cons] at hw
    simp only [CanonList_cons] at hc
    simp only [List.map_cons, specDigestList]
    rw [digest_eq_spec_aux a hw.1 hc.1, digests_eq_specList_aux as hw.2 hc.2]
end

/-- the digest an invariant-satisfying envelope reports is the one the specification
defines for its structure -/
theorem wf_digest_eq_spec {e : Env} (hi : Inv h e) : e.digest = specDigest h e :=
  digest_eq_spec_aux h e hi.1 hi.2
example : sNode.digest = specDigest toyHash sNode := wf_digest_eq_spec _ sNode_inv

/-- ... and so does each of its elements -/
theorem wf_digest_eq_spec_elements {e : Env} (hi : Inv h e) :
    ∀ x ∈ elements e, x.digest = specDigest h x :=
  fun x hx => digest_eq_spec_aux h x (mem_elements_wf h e x hi.1 hx) (mem_elements_canon e x hi.2 hx)
example : sA1.digest = specDigest toyHash sA1 :=
  wf_digest_eq_spec_elements _ sNode_inv sA1 (by simp [sNode, elements, elementsList, sA1, sA2, newAssertion])

/-- `WF` alone does not give the specification's digest: the ascending order of the
assertions (`Canon`) is needed, which is why `wf_digest_eq_spec` is stated for `Inv`
(the abridged statement in DESIGN Appendix D with `WF` only is false).  Witness: the toy
hash and a node whose digest was computed over its assertions in descending order. -/
theorem wf_alone_digest_ne_spec :
    WF toyHash sUnsorted ∧ sUnsorted.digest ≠ specDigest toyHash sUnsorted := by
  refine ⟨by simp [sUnsorted, sA1_inv.1, sA2_inv.1, sSubj_inv.1], ?_⟩
  have e0 := wf_digest_eq_spec toyHash sSubj_inv
  have e1 := wf_digest_eq_spec toyHash sA1_inv
  have e2 := wf_digest_eq_spec toyHash sA2_inv
  have hlt : sA2.digest.val < sA1.digest.val := by decide +kernel
  have hne : toyHash.ofDigests [sSubj.digest, sA1.digest, sA2.digest] ≠
      toyHash.ofDigests [sSubj.digest, sA2.digest, sA1.digest] := by decide +kernel
  have hs : specDigest toyHash sUnsorted =
      toyHash.ofDigests [sSubj.digest, sA2.digest, sA1.digest] := by
    simp only [sUnsorted, specDigest, specDigestList, ← e0, ← e1, ← e2]
    rw [mergeSort_pair_swap _ _ hlt]
  rw [hs]
  exact hne

/-! ### 5. route independence: the cached digests are a function of the content -/

mutual
theorem erase_inj : (a b : Env) → WF h a → WF h b → erase a = erase b → a = b
  | .node s as d, b, ha, hb, he => by
    cases b <;> simp only [erase, reduceCtorEq] at he
    rename_i s' as' d'
    injection he with h1 h2 _
    have e1 := erase_inj s s' ((WF_node h _ _ _).1 ha).1 ((WF_node h _ _ _).1 hb).1 h1
    have e2 := eraseList_inj as as' ((WF_node h _ _ _).1 ha).2.1 ((WF_node h _ _ _).1 hb).2.1 h2
    subst e1 e2
    rw [((WF_node h _ _ _).1 ha).2.2, ((WF_node h _ _ _).1 hb).2.2]
  | .leaf c d, b, ha, hb, he => by
    cases b <;> simp only [erase, reduceCtorEq] at he
    injection he with h1 _
    subst h1
    rw [(WF_leaf h _ _).1 ha, (WF_leaf h _ _).1 hb]
  | .wrapped e d, b, ha, hb, he => by
    cases b <;> simp only [erase, reduceCtorEq] at he
    rename_i e' d'
    injection he with h1 _
    have e1 := erase_inj e e' ((WF_wrapped h _ _).1 ha).1 ((WF_wrapped h _ _).1 hb).1 h1
    subst e1
    rw [((WF_wrapped h _ _).1 ha).2, ((WF_wrapped h _ _).1 hb).2]
  | .assertion p o d, b, ha, hb, he => by
    cases b <;> simp only [erase, reduceCtorEq] at he
    rename_i p' o' d'
    injection he with h1 h2 _
    have e1 := erase_inj p p' ((WF_assertion h _ _ _).1 ha).1 ((WF_assertion h _ _ _).1 hb).1 h1
    have e2 := erase_inj o o' ((WF_assertion h _ _ _).1 ha).2.1 ((WF_assertion h _ _ _).1 hb).2.1 h2
    subst e1 e2
    rw [((WF_assertion h _ _ _).1 ha).2.2, ((WF_assertion h _ _ _).1 hb).2.2]
  | .elided d, b, _, _, he => by
    cases b <;> simp only [erase, reduceCtorEq] at he
    exact he
  | .knownValue v d, b, ha, hb, he => by
    cases b <;> simp only [erase, reduceCtorEq] at he
    injection he with h1 _
    subst h1
    rw [(WF_knownValue h _ _).1 ha, (WF_knownValue h _ _).1 hb]
  | .encrypted m d, b, _, _, he => by
    cases b <;> simp only [erase, reduceCtorEq] at he
    exact he
  | .compressed c d, b, _, _, he => by
    cases b <;> simp only [erase, reduceCtorEq] at he
    exact he
theorem eraseList_inj : (as bs : List Env) → WFList h as → WFList h bs →
    eraseList as = eraseList bs → as = bs
  | [], bs, _, _, he => by
    cases bs with
    | nil => rfl
    | cons b bs => simp [eraseList] at he
  | a :: as, bs, ha, hb, he => by
    cases bs with
    | nil => simp [eraseList] at he
    | cons b bs =>
      simp only [eraseList] at he
      injection he with h1 h2
      rw [erase_inj a b ((WFList_cons h _ _).1 ha).1 ((WFList_cons h _ _).1 hb).1 h1,
        eraseList_inj as bs ((WFList_cons h _ _).1 ha).2 ((WFList_cons h _ _).1 hb).2 h2]
end

theorem route_independent {a b : Env} (ha : WF h a) (hb : WF h b) (he : erase a = erase b) : a = b :=
  erase_inj h a b ha hb he
/-- two routes to the same content: the node written out, and the node assembled by `mkNode` -/
example : sNode = mkNode toyHash sSubj [sA2, sA1] :=
  route_independent toyHash sNode_inv.1
    (mkNode_wf_of _ sSubj_inv.1 (by simp [sA1_inv.1, sA2_inv.1]))
    (by rw [← sNode_eq_mkNode])

/-- in particular two assembly routes to the same content report the same digest -/
theorem route_independent_digest {a b : Env} (ha : WF h a) (hb : WF h b) (he : erase a = erase b) :
    a.digest = b.digest := by rw [route_independent h ha hb he]

end
end EnvVerif
