/-
  Props/C16.lean — C16 "no operation panics".

  In the model every `unwrap()`, `expect`, `assert!`, slice index and `panic!` of the
  modelled Rust functions is an explicit `Res.panic "<site>"` branch, so
  `f … ≠ .panic s` (for every `s`) says: the call returns a value, `None` or an error.

  One theorem per modelled public operation.  Hypotheses, all explicit:
  * `Inv h e` (`WF` ∧ `Canon`, the invariant of every envelope the library builds or
    decodes: C04 `history_inv_all`, `produced_inv_all`), or only its `Canon e` half where
    that is all the operation needs; NO hypothesis where the operation cannot panic on
    any value of the model type (most of them: the `unwrap()` sits on
    `add_assertion_envelope(new_assertion(..))`, which cannot fail, or on a lookup that
    was repaired to go through `subject()`);
  * `HashValid h` ("the hash returns 32 bytes") for the operations that encrypt.  The
    codec fact that `new_with_encrypted(..).unwrap()` relies on (`AadLaw`) is *proved* for
    the model codec (`NP.aadLaw`), it is not a hypothesis.
  Where an operation CAN panic in the model the exact condition is stated
  (`…_panic_iff`): `new_with_unchecked_assertions` / `new_with_assertions` on the empty
  list (crate-private, never called with one), `replace_subject` when an old assertion is
  not a legal slot (impossible under `Canon`), `add_signature_opt` when a metadata element
  is not an assertion (documented precondition), the traversal on a non-canonical node
  (`c16_elideSet_panics_without_canon`).

  Definitions used: `NP.NoPanic`-free statements (plain `≠ .panic s`); `Op`, `applyOp`,
  `runHistory`, `Produced` (Lemmas/InvLemmas.lean); `HashValid` (Lemmas/ElideLemmas.lean).
-/
import EnvVerif.Lemmas.NoPanicLemmas
namespace EnvVerif
open Env InvL

section
variable (h : Hash) (A : Aead) (Z : Deflate) (V : SigScheme)

/-! ### `envelope.rs`, `assertions.rs`, `wrap.rs` -/

/-- `new_with_unchecked_assertions`: the `assert!` fires exactly on the empty list -/
theorem c16_newNodeUnchecked_panic_iff (s : Env) (as : List Env) :
    (∃ p, newNodeUnchecked h s as = .panic p) ↔ as = [] :=
  NP.newNodeUnchecked_panic_iff h s as

theorem c16_newNodeUnchecked_no_panic (s : Env) {as : List Env} (hne : as ≠ []) (p : String) :
    newNodeUnchecked h s as ≠ .panic p :=
  NP.newNodeUnchecked_np h hne p

example : [sA2, sA1] ≠ [] := by simp

/-- `new_with_assertions`: reaches that `assert!` exactly on the empty list as well (the
slot check passes vacuously) -/
theorem c16_newNode_panic_iff (s : Env) (as : List Env) :
    (∃ p, newNode h s as = .panic p) ↔ as = [] :=
  NP.newNode_panic_iff h s as

theorem c16_newNode_no_panic (s : Env) {as : List Env} (hne : as ≠ []) (p : String) :
    newNode h s as ≠ .panic p :=
  fun hp => hne ((NP.newNode_panic_iff h s as).1 ⟨p, hp⟩)

example : [sA2, sA1] ≠ [] := by simp

/-- `add_assertion_envelope`: no hypothesis (the list handed to the constructor has the new
element in it) -/
theorem c16_addAssertionEnvelope_no_panic (e a : Env) (s : String) :
    addAssertionEnvelope h e a ≠ .panic s :=
  NP.addAssertionEnvelope_np h e a s

/-- `remove_assertion`: no hypothesis (removing the last assertion returns the subject) -/
theorem c16_removeAssertion_no_panic (e target : Env) (s : String) :
    removeAssertion h e target ≠ .panic s :=
  NP.removeAssertion_np h e target s

theorem c16_replaceAssertion_no_panic (e a b : Env) (s : String) :
    replaceAssertion h e a b ≠ .panic s :=
  NP.replaceAssertion_np h e a b s

/-- `replace_subject`: its `add_assertion_envelope(..).unwrap()` fires exactly when one of
the receiver's assertions is not a legal assertion slot -/
theorem c16_replaceSubject_panic_iff (e s : Env) :
    (∃ p, replaceSubject h e s = .panic p) ↔ ∃ a ∈ e.assertions, a.slotOk = false :=
  NP.unwrapFold_panic_iff h _ e.assertions s

/-- … which `Canon` excludes -/
theorem c16_replaceSubject_no_panic {e : Env} (hc : Canon e) (s : Env) (p : String) :
    replaceSubject h e s ≠ .panic p :=
  NP.replaceSubject_np h hc s p

example : Canon sNode := sNode_inv.2

/-- `add_assertion_envelopes`, error propagated: no hypothesis -/
theorem c16_addAll_no_panic (e : Env) (as : List Env) (s : String) : addAll h e as ≠ .panic s :=
  NP.addAll_np h e as s

theorem c16_unwrap_no_panic (e : Env) (s : String) : unwrap e ≠ .panic s := NP.unwrap_np e s

/-! ### the decoder: every input -/

theorem c16_envOfCbor_no_panic (c : Cbor) (s : String) : envOfCbor h c ≠ .panic s :=
  envOfCbor_no_panic h c s

theorem c16_envOfTaggedCbor_no_panic (c : Cbor) (s : String) : envOfTaggedCbor h c ≠ .panic s :=
  envOfTaggedCbor_no_panic h c s

/-- `from_tagged_cbor_data` on any byte string -/
theorem c16_decode_no_panic (b : Bytes) (s : String) : decode h b ≠ .panic s :=
  decode_no_panic h b s

/-! ### `elide.rs` -/

/-- `elide` is a total function of the model (the Rust function has no panic site); as a
step of the operation language -/
theorem c16_elide_no_panic (e : Env) (s : String) : applyOp h A Z .elide e ≠ .panic s :=
  NP.ok (elide e) s

theorem c16_compress_no_panic (e : Env) (s : String) : compress Z e ≠ .panic s :=
  compress_never_panics Z e s

/-- the action applied to a hit element, all three actions, no hypothesis: `elide` has no
panic site, `compress().unwrap_or_else(..)` (after the repair) has none, and the aad written
by `encrypt_with_digest` always declares a digest, so `new_with_encrypted(..).unwrap()`
does not fire -/
theorem c16_obscure_no_panic (act : Action) (e : Env) (s : String) : obscure A Z act e ≠ .panic s :=
  NP.obscure_np_any A Z act e s

/-- `elide_set_with_action`, every target set, both modes, all three actions: none of the
four `assert!`s, nor the constructor's, nor the `unwrap()` of the encrypt action fires -/
theorem c16_elideSet_no_panic {e : Env} (hi : Inv h e) (hH : HashValid h) (T : Digest → Bool)
    (rev : Bool) (act : Action) (s : String) : elideSet h A Z T rev act e ≠ .panic s :=
  NP.elideSet_np h A Z T rev act hi (NP.actOk hH hi act) s

example : Inv toyHash sNode ∧ HashValid toyHash := ⟨sNode_inv, toyHash_valid⟩

/-- … and it has no error path either: it returns an envelope -/
theorem c16_elideSet_ok {e : Env} (hi : Inv h e) (hH : HashValid h) (T : Digest → Bool)
    (rev : Bool) (act : Action) : ∃ r, elideSet h A Z T rev act e = .ok r :=
  elideSet_ok_inv h A Z T rev act hi (NP.actOk hH hi act)

example : Inv toyHash sNode ∧ HashValid toyHash := ⟨sNode_inv, toyHash_valid⟩

/-- the elide action needs nothing of the hash -/
theorem c16_elideSet_elide_no_panic {e : Env} (hi : Inv h e) (T : Digest → Bool) (rev : Bool)
    (s : String) : elideSet h A Z T rev .elide e ≠ .panic s :=
  NP.elideSet_np h A Z T rev .elide hi trivial s

example : Inv toyHash sNode := sNode_inv

/-- nor does the compress action -/
theorem c16_elideSet_compress_no_panic {e : Env} (hi : Inv h e) (T : Digest → Bool) (rev : Bool)
    (s : String) : elideSet h A Z T rev .compress e ≠ .panic s :=
  NP.elideSet_np h A Z T rev .compress hi trivial s

example : Inv toyHash sNode := sNode_inv

/-- the encrypt action, any key and nonce supply -/
theorem c16_elideSet_encrypt_no_panic {e : Env} (hi : Inv h e) (hH : HashValid h)
    (T : Digest → Bool) (rev : Bool) (key : Bytes) (nonce : Digest → Bytes) (s : String) :
    elideSet h A Z T rev (.encrypt key nonce) e ≠ .panic s :=
  NP.elideSet_np h A Z T rev _ hi (NP.actOk hH hi _) s

example : Inv toyHash sNode ∧ HashValid toyHash := ⟨sNode_inv, toyHash_valid⟩

/-- `Canon` is needed: a well-formed envelope holding a node stored out of order (which the
library never builds or decodes) fires the `assert!` of the wrapped case -/
theorem c16_elideSet_panics_without_canon :
    ∃ (h : Hash) (e : Env) (s : String), WF h e ∧
      elideSet h A Z (fun _ => false) false .elide e = .panic s :=
  elideSet_panics_without_canon A Z

theorem c16_unelide_no_panic (placeholder e : Env) (s : String) : unelide placeholder e ≠ .panic s :=
  NP.unelide_np placeholder e s

/-! ### `encrypt.rs`, `compress.rs` -/

/-- `encrypt_subject`: neither `new_with_encrypted(..).unwrap()` nor the `assert_eq!` on the
digests fires -/
theorem c16_encryptSubject_no_panic {e : Env} (hi : Inv h e) (hH : HashValid h)
    (key nonce : Bytes) (s : String) : encryptSubject h A key nonce e ≠ .panic s :=
  encryptSubject_never_panics h A key nonce e hi hH s

example : Inv toyHash sNode ∧ HashValid toyHash := ⟨sNode_inv, toyHash_valid⟩

/-- `decrypt_subject`, any key, on any canonical envelope (an encrypted subject that was
decoded, or anything else): the decoder does not panic, a canonical node has an assertion -/
theorem c16_decryptSubject_no_panic {e : Env} (hc : Canon e) (key : Bytes) (s : String) :
    decryptSubject h A key e ≠ .panic s :=
  decryptSubject_no_panic h A key e hc s

example : Canon sEnc := sEnc_inv.2

/-- `encrypt` = `wrap_envelope().encrypt_subject(key).unwrap()`: the `unwrap()` does not fire
on ANY envelope (the wrapped envelope is neither encrypted nor elided) -/
theorem c16_encryptWhole_no_panic (hH : HashValid h) (key nonce : Bytes) (e : Env) (s : String) :
    encryptWhole h A key nonce e ≠ .panic s :=
  NP.of_isOk (NP.encryptWhole_isOk h A hH key nonce e) s

example : HashValid toyHash := toyHash_valid

theorem c16_decryptWhole_no_panic {e : Env} (hc : Canon e) (key : Bytes) (s : String) :
    decryptWhole h A key e ≠ .panic s :=
  NP.decryptWhole_np h A key hc s

example : Canon sEncW := sEncW_inv.2

/-- `uncompress`: no hypothesis -/
theorem c16_uncompress_no_panic (e : Env) (s : String) : uncompress h Z e ≠ .panic s :=
  uncompress_no_panic h Z e s

/-- `compress_subject`: the `unwrap()` inside `replace_subject` does not fire -/
theorem c16_compressSubject_no_panic {e : Env} (hi : Inv h e) (s : String) :
    compressSubject h Z e ≠ .panic s :=
  compressSubject_no_panic h Z e hi s

example : Inv toyHash sNode := sNode_inv

theorem c16_uncompressSubject_no_panic {e : Env} (hc : Canon e) (s : String) :
    uncompressSubject h Z e ≠ .panic s :=
  uncompressSubject_no_panic h Z e hc s

example : Canon sNodeC := sNodeC_inv.2

/-! ### `queries.rs`: no hypothesis (decorated — e.g. salted — assertions included) -/

theorem c16_assertionWithPredicate_no_panic (e p : Env) (s : String) :
    assertionWithPredicate e p ≠ .panic s :=
  assertionWithPredicate_no_panic e p s

/-- `object_for_predicate` (after the repair: `.subject().as_object()`): the matching
element's subject is an assertion, also when the element carries its own assertions -/
theorem c16_objectForPredicate_no_panic (e p : Env) (s : String) :
    objectForPredicate e p ≠ .panic s :=
  objectForPredicate_no_panic e p s

theorem c16_objectsForPredicate_no_panic (e p : Env) (s : String) :
    objectsForPredicate e p ≠ .panic s :=
  objectsForPredicate_no_panic e p s

theorem c16_optionalObjectForPredicate_no_panic (e p : Env) (s : String) :
    optionalObjectForPredicate e p ≠ .panic s :=
  optionalObjectForPredicate_no_panic e p s

/-! ### `proof.rs` -/

theorem c16_proofContainsSet_no_panic {e : Env} (hi : Inv h e) (T : List Digest) (s : String) :
    proofContainsSet h e T ≠ .panic s :=
  (proof_no_fault h e T hi).2 s

example : Inv toyHash sNode := sNode_inv

/-! ### `signature_impl.rs`: verification has no hypothesis -/

theorem c16_hasSignatureFromReturningMetadata_no_panic (key : Nat) (e : Env) (s : String) :
    hasSignatureFromReturningMetadata h V key e ≠ .panic s :=
  NP.hasSignatureFromReturningMetadata_np h V key e s

theorem c16_hasSignatureFrom_no_panic (key : Nat) (e : Env) (s : String) :
    hasSignatureFrom h V key e ≠ .panic s :=
  NP.hasSignatureFrom_np h V key e s

theorem c16_hasSignaturesFromThreshold_no_panic (keys : List Nat) (threshold : Option Nat)
    (e : Env) (s : String) : hasSignaturesFromThreshold h V keys threshold e ≠ .panic s :=
  NP.hasSignaturesFromThreshold_np h V keys threshold e s

/-- `add_signature_opt`: an `unwrap()` fires exactly when some metadata element is not a
legal assertion slot (the documented precondition "metadata is a list of assertions") -/
theorem c16_addSignature_panic_iff (e : Env) (sig : Cbor) (metadata : List Env) (outer : Env → Cbor) :
    (∃ p, addSignature h e sig metadata outer = .panic p) ↔ ∃ a ∈ metadata, a.slotOk = false :=
  NP.addSignature_panic_iff h e sig metadata outer

theorem c16_addSignature_no_panic (e : Env) (sig : Cbor) {metadata : List Env}
    (hm : ∀ a ∈ metadata, a.slotOk = true) (outer : Env → Cbor) (s : String) :
    addSignature h e sig metadata outer ≠ .panic s := by
  intro hp
  obtain ⟨a, ha, hs⟩ := (NP.addSignature_panic_iff h e sig metadata outer).1 ⟨s, hp⟩
  rw [hm a ha] at hs; cases hs

example : ∀ a ∈ [sA1, sA2], a.slotOk = true := by simp [sA_slotOk]

/-! ### `salt.rs`, salted adds, `types.rs`, `attachment_impl.rs`: no hypothesis -/

theorem c16_addSaltInstance_no_panic (e : Env) (salt : Bytes) (s : String) :
    addSaltInstance h e salt ≠ .panic s :=
  NP.of_isOk (NP.addSaltInstance_isOk h e salt) s

theorem c16_addSaltWithLen_no_panic (e : Env) (count : Nat) (draw : Nat → Bytes) (s : String) :
    addSaltWithLen h e count draw ≠ .panic s :=
  NP.addSaltWithLen_np h e count draw s

/-- `add_assertion_salted(p, o, salted)`: its `unwrap()` does not fire, it always returns an
envelope -/
theorem c16_addAssertionSalted_no_panic (e p o : Env) (salt : Option Bytes) (s : String) :
    addAssertionSalted h e p o salt ≠ .panic s :=
  NP.of_isOk (NP.addAssertionSalted_isOk h e p o salt) s

theorem c16_addType_no_panic (e t : Env) (s : String) : addType h e t ≠ .panic s :=
  NP.addAssertionUnwrap_np h e _ t s

theorem c16_types_no_panic (e : Env) (s : String) : types h e ≠ .panic s := NP.types_np h e s

theorem c16_hasTypeEnvelope_no_panic (e t : Env) (s : String) : hasTypeEnvelope h e t ≠ .panic s :=
  NP.hasTypeEnvelope_np h e t s

theorem c16_getType_no_panic (e : Env) (s : String) : getType h e ≠ .panic s := NP.getType_np h e s

theorem c16_newAttachment_no_panic (payload : Env) (vendor : Bytes) (conformsTo : Option Bytes)
    (s : String) : newAttachment h payload vendor conformsTo ≠ .panic s :=
  NP.newAttachment_np h payload vendor conformsTo s

/-- `add_attachment`: its `unwrap()` does not fire, it always returns an envelope -/
theorem c16_addAttachment_no_panic (e payload : Env) (vendor : Bytes) (conformsTo : Option Bytes)
    (s : String) : addAttachment h e payload vendor conformsTo ≠ .panic s :=
  NP.of_isOk (NP.addAttachment_isOk h e payload vendor conformsTo) s

theorem c16_attachmentPayload_no_panic (a : Env) (s : String) : attachmentPayload a ≠ .panic s :=
  NP.attachmentPayload_np a s

theorem c16_attachmentVendor_no_panic (a : Env) (s : String) : attachmentVendor h a ≠ .panic s :=
  NP.attachmentVendor_np h a s

theorem c16_attachmentConformsTo_no_panic (a : Env) (s : String) :
    attachmentConformsTo h a ≠ .panic s :=
  NP.attachmentConformsTo_np h a s

theorem c16_validateAttachment_no_panic (a : Env) (s : String) : validateAttachment h a ≠ .panic s :=
  NP.validateAttachment_np h a s

theorem c16_attachmentsWith_no_panic (e : Env) (vendor conformsTo : Option Bytes) (s : String) :
    attachmentsWith h e vendor conformsTo ≠ .panic s :=
  NP.attachmentsWith_np h e vendor conformsTo s

theorem c16_attachmentWith_no_panic (e : Env) (vendor conformsTo : Option Bytes) (s : String) :
    attachmentWith h e vendor conformsTo ≠ .panic s :=
  NP.attachmentWith_np h e vendor conformsTo s

/-! ### expressions, requests, responses, events: no hypothesis -/

theorem c16_Expression_withParameter_no_panic (x : Expression) (p : Ident) (v : Env) (s : String) :
    Expression.withParameter h x p v ≠ .panic s :=
  NP.of_isOk (NP.withParameter_isOk h x p v) s

theorem c16_Expression_parse_no_panic (e : Env) (s : String) : Expression.parse e ≠ .panic s :=
  NP.expressionParse_np e s

theorem c16_Request_toEnvelope_no_panic (r : Request) (s : String) :
    Request.toEnvelope h r ≠ .panic s :=
  NP.of_isOk (NP.requestToEnvelope_isOk h r) s

theorem c16_Request_parse_no_panic (e : Env) (expected : Option Ident) (s : String) :
    Request.parse h e expected ≠ .panic s :=
  NP.requestParse_np h e expected s

theorem c16_Response_toEnvelope_no_panic (r : Response) (s : String) :
    Response.toEnvelope h r ≠ .panic s :=
  NP.of_isOk (NP.responseToEnvelope_isOk h r) s

theorem c16_Response_parse_no_panic (e : Env) (s : String) : Response.parse h e ≠ .panic s :=
  NP.responseParse_np h e s

theorem c16_Event_toEnvelope_no_panic (ev : Event) (s : String) : Event.toEnvelope h ev ≠ .panic s :=
  NP.of_isOk (NP.eventToEnvelope_isOk h ev) s

theorem c16_Event_parse_no_panic (e : Env) (s : String) : Event.parse h e ≠ .panic s :=
  NP.eventParse_np h e s

/-! ### histories -/

/-- one step of the operation language (`Op`: the assertion edits, wrap / unwrap, subject,
elide, the traversal with every action, compress, encrypt, unelide, decode, re-encode,
uncompress, decrypt) on an envelope satisfying the invariant: whatever the arguments -/
theorem c16_applyOp_no_panic (hH : HashValid h) (o : Op) {e : Env} (hi : Inv h e) (s : String) :
    applyOp h A Z o e ≠ .panic s :=
  NP.applyOp_np h A Z hH o hi s

example : HashValid toyHash ∧ Inv toyHash sNode := ⟨toyHash_valid, sNode_inv⟩

/-- along any finite history of operations starting from an envelope that satisfies the
invariant, with arguments that satisfy it, no step panics (every recorded result is an
envelope or the error that ended the run) -/
theorem c16_history_no_panic (hH : HashValid h) (ops : List Op) (e0 : Env) (hi : Inv h e0)
    (ha : ∀ o ∈ ops, ∀ a ∈ o.args, Inv h a) (s : String) :
    Res.panic s ∉ runHistory h A Z e0 ops :=
  NP.history_np h A Z hH ops e0 hi ha s

/-- a history whose hypotheses hold and which does run through obscuring, decoding and
editing steps -/
example :
    HashValid toyHash ∧ Inv toyHash sNode ∧
    (∀ o ∈ ([.wrap, .compress, .uncompress, .unwrap, .reencode, .encryptWhole [1] [2],
        .decryptWhole [1], .addAssertion sA3, .elideSet sTarget true .compress] : List Op),
      ∀ a ∈ o.args, Inv toyHash a) ∧
    Res.ok (wrap toyHash sNode) ∈ runHistory toyHash idAead idDeflate sNode
        [.wrap, .compress, .uncompress, .unwrap, .reencode, .encryptWhole [1] [2], .decryptWhole [1],
         .addAssertion sA3, .elideSet sTarget true .compress] :=
  ⟨toyHash_valid, sNode_inv, by simp [Op.args, sA3_inv], by simp [runHistory, applyOp]⟩

/-- closure form: no operation panics on anything the library can produce or decode
(`Produced`: closed under the constructors and all operations, decoding ones included) -/
theorem c16_produced_no_panic (hH : HashValid h) {dec : Bool} {e : Env}
    (hp : Produced h A Z dec e) (o : Op) (s : String) : applyOp h A Z o e ≠ .panic s :=
  NP.applyOp_np h A Z hH o (produced_inv_all h A Z hH hp) s

example : HashValid toyHash ∧ Produced toyHash idAead idDeflate true sA1 :=
  ⟨toyHash_valid,
   .op (.assertionWithObject (newLeaf toyHash (.uint 10))) (newKnownValue toyHash 1) sA1 (.knownValue 1)
    (by intro a ha; simp only [Op.args, List.mem_singleton] at ha; subst ha; exact .leaf _)
    (fun hf => by cases hf) rfl⟩

/-! ### the unconditional theorems on the envelopes the property names -/

/-- a salted (decorated) assertion: the element the lookup finds is a node carrying its own
assertion, and the lookups return its object -/
example :
    (match addAssertionSalted toyHash sSubj (newKnownValue toyHash 1) (newLeaf toyHash (.uint 10))
        (some [1, 2, 3, 4, 5, 6, 7, 8]) with
      | .ok e => e.assertions.any Env.isNode &&
          (objectForPredicate e (newKnownValue toyHash 1)).isOk &&
          (objectsForPredicate e (newKnownValue toyHash 1)).isOk &&
          (optionalObjectForPredicate e (newKnownValue toyHash 1)).isOk
      | _ => false) = true := by decide +kernel

/-- envelopes with parts already compressed or encrypted: values or errors -/
example :
    (compressSubject toyHash idDeflate sNodeC).isOk = true ∧
    (uncompressSubject toyHash idDeflate sNodeC).isOk = true ∧
    (decryptSubject toyHash idAead [9] sNodeC).isPanic = false ∧
    (encryptSubject toyHash idAead [1] [2] sEnc).isPanic = false ∧
    (compress idDeflate sEnc).isPanic = false ∧
    (objectForPredicate sNodeC (newKnownValue toyHash 1)).isOk = true := by decide +kernel

end
end EnvVerif
