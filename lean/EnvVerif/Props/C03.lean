/-
  Props/C03.lean — C03 "elision hides exactly the targets and leaves no trace".

  Positions are `Path`s (`Env.at`, Lemmas/Paths.lean).  For a position `p` of the
  original `e` with element `y`:
  * `ShallowEq x y` — same constructor, same own content (leaf value / known value /
    encrypted or compressed message), same digest, same number of assertions;
  * `IsPlaceholder A Z act y x` — what the action leaves in the place of `y`:
      elide     ↦ `x = .elided y.digest`
      compress  ↦ `x = compressOrSelf Z y`  (`.compressed (deflate (encode y)) y.digest`, or
                   `y` itself if it is already elided / encrypted / compressed)
      encrypt   ↦ `x = .encrypted (encryptWithDigest A key (nonce y.digest) (encode y) y.digest) y.digest`
  * `AgreeOutside hit e1 e2` — the same tree outside the subtrees whose root digest is
    hit, equal digests at those roots (inductive, Lemmas/ElideLemmas.lean).
  Hypotheses: `Inv h e` and `ActOk act e` exactly as in C02.
-/
import EnvVerif.Lemmas.ElideLemmas
import EnvVerif.Model.Variants
namespace EnvVerif
open Env

section
variable (h : Hash) (A : Aead) (Z : Deflate) (T : Digest → Bool) (act : Action)

/-! ### removing elision: hidden iff own or an ancestor's digest is in `T` -/

/-- For every position `p` of the original:
 1. if no digest on the chain root..`p` is in `T`, the element is present at `p` in the
    result and shallowly equal;
 2. if `p` is a topmost target, the result holds the action's placeholder at `p` and has
    no position below `p`;
 3. if a proper ancestor of `p` is a target, `p` does not exist in the result. -/
theorem removing_spec {e r : Env} (hi : Inv h e) (ha : ActOk act e)
    (hr : elideSet h A Z T false act e = .ok r) :
    ∀ p y, e.at p = some y →
      ((∀ q, q <+: p → ∀ z, e.at q = some z → T z.digest = false) →
        ∃ x, r.at p = some x ∧ ShallowEq x y) ∧
      (T y.digest = true →
        (∀ q, q <+: p → q ≠ p → ∀ z, e.at q = some z → T z.digest = false) →
        ∃ x, r.at p = some x ∧ IsPlaceholder A Z act y x ∧ ∀ s q, r.at (p ++ s :: q) = none) ∧
      ((∃ q z, q <+: p ∧ q ≠ p ∧ e.at q = some z ∧ T z.digest = true) → r.at p = none) := by
  intro p y hy
  obtain ⟨sA, sB, sC⟩ := elideSet_spec h A Z T false act hi ha hr p y hy
  refine ⟨?_, ?_, ?_⟩
  · intro hn
    exact sA (fun q hq z hz => by simpa using hn q hq z hz)
  · intro hhit hn
    exact sB (by simpa using hhit) (fun q hq hne z hz => by simpa using hn q hq hne z hz)
  · rintro ⟨q, z, hq, hne, hz, hhit⟩
    apply sC
    intro hn
    have := hn q hq hne z hz
    simp [hhit] at this

example : Inv Sample.toyH Sample.e0 ∧ ActOk act Sample.e0 := ⟨Sample.inv_e0, Sample.actOk_e0 act⟩

/-- a position of the original survives (as itself or as a placeholder) iff no proper
ancestor is a target -/
theorem removing_present_iff {e r : Env} (hi : Inv h e) (ha : ActOk act e)
    (hr : elideSet h A Z T false act e = .ok r) {p : Path} {y : Env} (hy : e.at p = some y) :
    (∃ x, r.at p = some x) ↔
      ∀ q, q <+: p → q ≠ p → ∀ z, e.at q = some z → T z.digest = false := by
  obtain ⟨sA, sB, sC⟩ := elideSet_spec h A Z T false act hi ha hr p y hy
  constructor
  · rintro ⟨x, hx⟩ q hq hne z hz
    by_cases hn : NoHitAbove T false e p
    · simpa using hn q hq hne z hz
    · rw [sC hn] at hx; cases hx
  · intro hn
    have hn' : NoHitAbove T false e p := fun q hq hne z hz => by simpa using hn q hq hne z hz
    by_cases hhit : (T y.digest != false) = true
    · obtain ⟨x, hx, _⟩ := sB hhit hn'; exact ⟨x, hx⟩
    · have hup : NoHitUpTo T false e p := by
        intro q hq z hz
        by_cases hqp : q = p
        · subst hqp; rw [hy] at hz; cases hz; simpa using hhit
        · exact hn' q hq hqp z hz
      obtain ⟨x, hx, _⟩ := sA hup; exact ⟨x, hx⟩

example : Inv Sample.toyH Sample.e0 ∧ ActOk act Sample.e0 ∧ Sample.e0.at [.assertion 1, .obj] = some (Sample.lf 4) :=
  ⟨Sample.inv_e0, Sample.actOk_e0 act, rfl⟩

/-- with the elide action a topmost target is replaced by nothing but its digest -/
theorem removing_elide_placeholder {e r : Env} (hi : Inv h e)
    (hr : elideSet h A Z T false .elide e = .ok r) {p : Path} {y : Env} (hy : e.at p = some y)
    (hhit : T y.digest = true)
    (hn : ∀ q, q <+: p → q ≠ p → ∀ z, e.at q = some z → T z.digest = false) :
    r.at p = some (.elided y.digest) ∧ ∀ s q, r.at (p ++ s :: q) = none := by
  obtain ⟨x, hx, hp, hb⟩ := (removing_spec h A Z T .elide hi trivial hr p y hy).2.1 hhit hn
  simp only [IsPlaceholder] at hp; subst hp
  exact ⟨hx, hb⟩

/-- concretely: eliding the first assertion (digest 3) of the sample `7 [1: 2, 1: 4]` leaves
exactly `.elided ⟨3⟩` at that position -/
example (r : Env) (hr : elideSet Sample.toyH A Z Sample.T3 false .elide Sample.e0 = .ok r) :
    r.at [.assertion 0] = some (.elided ⟨3⟩) ∧ ∀ s q, r.at ([.assertion 0] ++ s :: q) = none := by
  have := removing_elide_placeholder Sample.toyH A Z Sample.T3 Sample.inv_e0 hr
    (p := [.assertion 0]) (y := Sample.a1) rfl (by rw [Sample.a1_digest]; rfl) (by
      intro q hq hne z hz
      rcases List.prefix_cons_iff.mp hq with rfl | ⟨t, rfl, ht⟩
      · simp at hz; subst hz; rw [Sample.e0_digest]; rfl
      · exact absurd (by rw [List.prefix_nil.mp ht]) hne)
  rwa [Sample.a1_digest] at this

/-- the compress action's placeholder, spelled out: an element that is already obscured is
left as it is … -/
theorem compress_placeholder_obscured {y : Env} (ho : y.isObscured = true) : compressOrSelf Z y = y := by
  cases y <;> first | rfl | (simp [Env.isObscured, Env.isElided, Env.isEncrypted, Env.isCompressed] at ho)

/-- … any other element becomes `COMPRESSED` of its serialization, carrying its digest -/
theorem compress_placeholder_plain {y : Env} (ho : y.isObscured = false) :
    compressOrSelf Z y = .compressed (compressedOf Z (encode y)) y.digest := by
  cases y <;> first | rfl | (simp [Env.isObscured, Env.isElided, Env.isEncrypted, Env.isCompressed] at ho)

/-! ### revealing elision: visible iff own and all ancestors' digests are in `T` -/

theorem revealing_spec {e r : Env} (hi : Inv h e) (ha : ActOk act e)
    (hr : elideSet h A Z T true act e = .ok r) :
    ∀ p y, e.at p = some y →
      ((∀ q, q <+: p → ∀ z, e.at q = some z → T z.digest = true) →
        ∃ x, r.at p = some x ∧ ShallowEq x y) ∧
      (T y.digest = false →
        (∀ q, q <+: p → q ≠ p → ∀ z, e.at q = some z → T z.digest = true) →
        ∃ x, r.at p = some x ∧ IsPlaceholder A Z act y x ∧ ∀ s q, r.at (p ++ s :: q) = none) ∧
      ((∃ q z, q <+: p ∧ q ≠ p ∧ e.at q = some z ∧ T z.digest = false) → r.at p = none) := by
  intro p y hy
  obtain ⟨sA, sB, sC⟩ := elideSet_spec h A Z T true act hi ha hr p y hy
  refine ⟨?_, ?_, ?_⟩
  · intro hn
    exact sA (fun q hq z hz => by simpa using hn q hq z hz)
  · intro hhit hn
    exact sB (by simpa using hhit) (fun q hq hne z hz => by simpa using hn q hq hne z hz)
  · rintro ⟨q, z, hq, hne, hz, hhit⟩
    apply sC
    intro hn
    have := hn q hq hne z hz
    simp [hhit] at this

example : Inv Sample.toyH Sample.e0 ∧ ActOk act Sample.e0 := ⟨Sample.inv_e0, Sample.actOk_e0 act⟩

/-- a position of the original survives (as itself or as a placeholder) iff every proper
ancestor is in `T`; it is visible (shallowly equal) iff moreover its own digest is in `T`
(first part of `revealing_spec`) -/
theorem revealing_present_iff {e r : Env} (hi : Inv h e) (ha : ActOk act e)
    (hr : elideSet h A Z T true act e = .ok r) {p : Path} {y : Env} (hy : e.at p = some y) :
    (∃ x, r.at p = some x) ↔
      ∀ q, q <+: p → q ≠ p → ∀ z, e.at q = some z → T z.digest = true := by
  obtain ⟨sA, sB, sC⟩ := elideSet_spec h A Z T true act hi ha hr p y hy
  constructor
  · rintro ⟨x, hx⟩ q hq hne z hz
    by_cases hn : NoHitAbove T true e p
    · simpa using hn q hq hne z hz
    · rw [sC hn] at hx; cases hx
  · intro hn
    have hn' : NoHitAbove T true e p := fun q hq hne z hz => by simpa using hn q hq hne z hz
    by_cases hhit : (T y.digest != true) = true
    · obtain ⟨x, hx, _⟩ := sB hhit hn'; exact ⟨x, hx⟩
    · have hup : NoHitUpTo T true e p := by
        intro q hq z hz
        by_cases hqp : q = p
        · subst hqp; rw [hy] at hz; cases hz; simpa using hhit
        · exact hn' q hq hqp z hz
      obtain ⟨x, hx, _⟩ := sA hup; exact ⟨x, hx⟩

example : Inv Sample.toyH Sample.e0 ∧ ActOk act Sample.e0 ∧ Sample.e0.at [.assertion 1, .obj] = some (Sample.lf 4) :=
  ⟨Sample.inv_e0, Sample.actOk_e0 act, rfl⟩

/-! ### what a placeholder is made of -/

/-- an elided element is, in CBOR, a byte string holding its digest … -/
theorem elided_bytes (d : Digest) : cborOf (.elided d) = .bytes d.bytes := by
  simp only [cborOf]

/-- … which is always 32 bytes long … -/
theorem elided_bytes_length (d : Digest) : d.bytes.length = 32 := Digest.bytes_length d

/-- … so its encoding is `58 20 ‖ digest` and nothing else -/
theorem elided_enc (d : Digest) : (Cbor.bytes d.bytes).enc = 0x58 :: 0x20 :: d.bytes := by
  simp only [Cbor.enc, Digest.bytes_length, head_2_32, List.cons_append, List.nil_append]

/-- the serialized form of an elided envelope: tag 200, then `58 20 ‖ digest` -/
theorem elided_encode (d : Digest) :
    encode (.elided d) = 0xd8 :: 0xc8 :: 0x58 :: 0x20 :: d.bytes := by
  simp only [encode, taggedCborOf, cborOf, Cbor.enc, Digest.bytes_length, TAG_ENVELOPE, head_2_32,
    head_6_200, List.cons_append, List.nil_append]

/-- the encrypt action's placeholder: the hidden content `pt` enters only through the AEAD
output (ciphertext and tag); everything else is the nonce and the digest -/
theorem encrypted_placeholder_cbor (k n pt : Bytes) (d : Digest) :
    cborOf (.encrypted (encryptWithDigest A k n pt d) d) =
      .tagged TAG_ENCRYPTED (.array [.bytes (A.enc k n pt (digestCbor d).enc).1, .bytes n,
        .bytes (A.enc k n pt (digestCbor d).enc).2, .bytes (digestCbor d).enc]) := by
  simp only [cborOf, encMsgCbor, encryptWithDigest, digestCbor_enc_nonempty d]
  rfl

/-! ### no residue -/

/-- **non-interference**: the result of a removing elision (elide action) is a function of
the part of the envelope outside the hidden subtrees and of the digests of their roots —
whatever lies below a target leaves no trace, not even in whether the call succeeds -/
theorem elide_noninterference {e1 e2 : Env} (hag : AgreeOutside T e1 e2) :
    elideSet h A Z T false .elide e1 = elideSet h A Z T false .elide e2 :=
  elideSet_elide_congr h A Z T false (by rw [bne_false_fun]; exact hag)

example : AgreeOutside Sample.T3 Sample.e0 Sample.e0' ∧ Sample.e0 ≠ Sample.e0' :=
  ⟨Sample.agree_e0_e0', Sample.e0_ne_e0'⟩

/-- the same for a revealing elision: hidden is what is *not* in `T` -/
theorem reveal_noninterference {e1 e2 : Env} (hag : AgreeOutside (fun d => !T d) e1 e2) :
    elideSet h A Z T true .elide e1 = elideSet h A Z T true .elide e2 :=
  elideSet_elide_congr h A Z T true (by rw [bne_true_fun]; exact hag)

/-- in particular the serialized results are the same bytes -/
theorem elide_noninterference_bytes {e1 e2 r1 r2 : Env} (hag : AgreeOutside T e1 e2)
    (h1 : elideSet h A Z T false .elide e1 = .ok r1)
    (h2 : elideSet h A Z T false .elide e2 = .ok r2) : encode r1 = encode r2 := by
  rw [elide_noninterference h A Z T hag, h2] at h1
  cases h1; rfl

/-! ### un-eliding -/

/-- `unelide` accepts exactly the envelopes whose digest is the placeholder's -/
theorem unelide_ok_iff (ph e : Env) : (∃ r, unelide ph e = .ok r) ↔ ph.digest = e.digest := by
  unfold unelide
  by_cases hd : ph.digest = e.digest
  · simp [hd]
  · simp [hd]

/-- … and returns that envelope unchanged -/
theorem unelide_ok_eq {ph e r : Env} (hr : unelide ph e = .ok r) : r = e := by
  unfold unelide at hr
  split at hr
  · cases hr; rfl
  · cases hr

/-- … otherwise it is an error, never a panic -/
theorem unelide_err_iff (ph e : Env) : unelide ph e = .err "InvalidDigest" ↔ ph.digest ≠ e.digest := by
  unfold unelide
  by_cases hd : ph.digest = e.digest
  · simp [hd]
  · simp [hd]


/-! ### every door of the elision API is the set form

`elide_*_array*` collect the digests of their targets, `elide_*_target*` are the array form with one
element, the removing / revealing forms fix the flag (Model/Variants.lean mirrors `src/base/elide.rs`).
So everything proved above for the set form holds for them with `T` = "is the digest of a listed
target"; the correspondence check runs these doors on the implementation against these definitions. -/

theorem elideArray_eq_set (ts : List Env) (rev : Bool) (e : Env) :
    elideArray h A Z ts rev act e = elideSet h A Z (memD (ts.map Env.digest)) rev act e := rfl

theorem elideTarget_eq_set (t : Env) (rev : Bool) (e : Env) :
    elideTarget h A Z t rev act e = elideSet h A Z (fun d => t.digest == d) rev act e := by
  simp only [elideTarget, elideArray, List.map_cons, List.map_nil]
  congr 1
  funext d
  simp [memD]

/-- the array form depends on its targets only through the set of their digests: order and repetition of
the targets do not matter -/
theorem elideArray_congr (ts ts' : List Env) (rev : Bool) (e : Env)
    (hm : ∀ d, d ∈ ts.map Env.digest ↔ d ∈ ts'.map Env.digest) :
    elideArray h A Z ts rev act e = elideArray h A Z ts' rev act e := by
  simp only [elideArray]
  congr 1
  funext d
  apply Bool.eq_iff_iff.mpr
  simp only [memD, List.any_eq_true, beq_iff_eq]
  constructor
  · rintro ⟨x, hx, rfl⟩; exact ⟨x, (hm x).mp hx, rfl⟩
  · rintro ⟨x, hx, rfl⟩; exact ⟨x, (hm x).mpr hx, rfl⟩

/-- `removing_spec` through the array door: with `T` the digests of the listed targets -/
theorem removing_spec_array {e r : Env} (ts : List Env) (hi : Inv h e) (ha : ActOk act e)
    (hr : elideRemovingArray h A Z ts act e = .ok r) :
    ∀ p y, e.at p = some y →
      ((∀ q, q <+: p → ∀ z, e.at q = some z → memD (ts.map Env.digest) z.digest = false) →
        ∃ x, r.at p = some x ∧ ShallowEq x y) ∧
      (memD (ts.map Env.digest) y.digest = true →
        (∀ q, q <+: p → q ≠ p → ∀ z, e.at q = some z → memD (ts.map Env.digest) z.digest = false) →
        ∃ x, r.at p = some x ∧ IsPlaceholder A Z act y x ∧ ∀ s q, r.at (p ++ s :: q) = none) ∧
      ((∃ q z, q <+: p ∧ q ≠ p ∧ e.at q = some z ∧ memD (ts.map Env.digest) z.digest = true) → r.at p = none) :=
  removing_spec h A Z (memD (ts.map Env.digest)) act hi ha hr

/-- a revealing call whose only target occurs nowhere reveals nothing: the root is replaced as a whole (the case
a "nothing to do" shortcut in the single-target door would get wrong) -/
theorem revealing_absent_target {e : Env} (t : Env) (hroot : (t.digest == e.digest) = false) :
    elideRevealingTarget h A Z t act e = obscure A Z act e := by
  simp only [elideRevealingTarget, elideTarget_eq_set]
  cases e <;> simp_all [elideSet, Env.digest]

end
end EnvVerif
